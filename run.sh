#!/bin/bash
# usage: run.sh <property> [quick|thorough]
# Runs the static checker for one property against /repo's current working tree.
set -u
here="$(cd "$(dirname "$0")" && pwd)"
prop="$1"; tier="${2:-${VERIF_TIER:-quick}}"
export GOFLAGS=-mod=mod GOPROXY=off GOSUMDB=off GOTOOLCHAIN=local GOWORK=off
bin="$here/checker/bin/gfcheck"
if [ ! -x "$bin" ] || [ -n "$(find "$here/checker" -name '*.go' -newer "$bin" -not -path '*/vendor/*' 2>/dev/null | head -1)" ]; then
  (cd "$here/checker" && GOFLAGS=-mod=vendor go build -o bin/gfcheck ./cmd/gfcheck) || { echo "BROKEN: checker build failed"; exit 2; }
fi
mkdir -p "$here/evidence"
"$bin" -prop "$prop" -tier "$tier" -repo "${VERIF_REPO:-/repo}" -evidence "$here/evidence/$prop.json" -known "$here/known_findings.json"
rc=$?
if [ "$tier" = "thorough" ] && [ -z "${VERIF_NO_SELFTEST:-}" ]; then
  # rule self-test on scratch copies of the current tree: evidence of the rules' power, never part of the verdict
  python3 "$here/tools/selftest.py" --prop "$prop" --merge "$here/evidence/$prop.json" 2>&1 | grep -E "^SELFTEST" || true
fi
exit $rc
