#!/bin/bash
# usage: withsed.sh <file-relative-to-repo> <sed-expression> <property>...
set -u
file="$1"; expr="$2"; shift 2
d=$(mktemp -d /tmp/gfmut.XXXXXX)
trap 'rm -rf "$d"' EXIT
rsync -a --exclude .git /repo/ "$d/"
sed -i -E "$expr" "$d/$file"
if diff -q /repo/$file $d/$file >/dev/null; then echo "SED-NO-CHANGE"; exit 3; fi
diff /repo/$file $d/$file | head -6
if [ -n "${BUILDCHECK:-}" ]; then (cd $d && GOFLAGS=-mod=mod GOPROXY=off go build ./... 2>&1 | head -3); fi
for p in "$@"; do
  /verif/checker/bin/gfcheck -prop "$p" -repo "$d" -evidence "$d/.ev/$p.json" -known /verif/known_findings.json | grep -E "VIOLAT|UNDECID|KNOWN|^property $p" | sed "s#$d/##g" | cut -c1-400 | head -${MAXL:-8}
done
