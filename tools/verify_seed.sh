#!/bin/bash
# usage: verify_seed.sh <worktree> <a|b> <property...>
# Confirms an independently written change: with the patch the repository builds, the existing tests pass
# and the demonstration fails; without it the demonstration passes. Then runs the given checks on a patched scratch copy.
wt="$1"; x="$2"; shift 2
export GOFLAGS=-mod=mod GOPROXY=off GOSUMDB=off GOTOOLCHAIN=local GOWORK=off
cd "$wt" || exit 2
[ -f out/go.mod ] || printf 'module seedout\n' > out/go.mod
git checkout -q -- . ; find . -name 'zz_seed_*_test.go' -not -path './out/*' -delete
git apply "out/$x/patch.diff" || { echo "PATCH DOES NOT APPLY"; exit 3; }
echo "--- build+tests with patch:"; go build ./... 2>&1 | tail -3; go test -vet=off -count=1 ./... 2>&1 | grep -v "no test files" | awk '{print $1}' | sort | uniq -c | tr '\n' ' '; echo
echo "--- demo WITH patch:"; timeout 300 bash "out/$x/demo/RUN.txt" 2>&1 | tail -${TAILN:-6}
git checkout -q -- . ; find . -name 'zz_seed_*_test.go' -not -path './out/*' -delete
echo "--- demo WITHOUT patch:"; timeout 300 bash "out/$x/demo/RUN.txt" 2>&1 | tail -${TAILN:-6}
git checkout -q -- . ; find . -name 'zz_seed_*_test.go' -not -path './out/*' -delete
echo "--- checks on a patched copy of /repo:"
for p in "$@"; do MAXL=4 /verif/tools/withpatch.sh "$wt/out/$x/patch.diff" $p | cut -c1-400; done
