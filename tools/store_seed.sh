#!/bin/bash
# usage: store_seed.sh <Cxx> <a|b> <caught:yes|no> <checked_by (comma separated)> <one-line note>
id="$1$2"; src="${SEEDROOT:-/tmp/seed}/$1/out/$2"; dst="/verif/seeded/$id"
mkdir -p "$dst" && cp "$src/patch.diff" "$dst/" && rm -rf "$dst/demo" && cp -r "$src/demo" "$dst/demo" && cp "$src/README.md" "$dst/README.md"
python3 - "$1" "$2" "$3" "$4" "$5" <<'PY'
import json,sys,re
prop,x,caught,checked,note=sys.argv[1:6]
readme=open('/verif/seeded/%s%s/README.md'%(prop,x)).read()
meta={"id":prop+x,"property":prop,"checked_by":checked.split(','),"expect":"kill",
 "caught_by_checks": caught=="yes","note":note,
 "needs_to_manifest":"see README.md (written by the sub-agent that produced the change)",
 "what_i_ran":"tools/verify_seed.sh /tmp/seed/%s %s %s: applied patch.diff in the sub-agent's scratch worktree, go build ./... and the whole existing test suite passed, the demonstration (demo/RUN.txt) failed with the patch and passed without it; then tools/withpatch.sh ran the listed checks on a patched scratch copy of /repo"%(prop,x,checked.replace(',',' ')),
 "source":"independent sub-agent given only the property text and a scratch worktree"}
json.dump(meta,open('/verif/seeded/%s%s/meta.json'%(prop,x),'w'),indent=1)
PY
echo stored $dst
