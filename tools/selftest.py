#!/usr/bin/env python3
"""Self-test of the checker: applies each registered property-breaking (or deliberately
behaviour-preserving) change to a scratch copy of /repo's CURRENT tree and runs the check
for that property against the copy.

  selftest.py --prop C07 [--merge /verif/evidence/C07.json] [--jobs 8]
  selftest.py --all

Sources of changes: /verif/mutants/mutants.tsv (sed expressions), /verif/seeded/*/ (patch.diff +
meta.json written for independently produced property-breaking changes) and /verif/benign/*/ (independently
produced behaviour-preserving refactors: every listed check must stay silent). Scratch copies live under $TMPDIR (or /tmp)
and are removed as soon as their verdict is in. The result never changes a check's exit status:
it is evidence of the rules' power, printed as SELFTEST lines (never as VIOLATION lines)."""
import argparse, concurrent.futures, json, os, shutil, subprocess, sys, tempfile, glob

HERE = os.path.dirname(os.path.dirname(os.path.abspath(__file__)))
REPO = os.environ.get("VERIF_REPO", "/repo")
BIN = os.path.join(HERE, "checker", "bin", "gfcheck")
ENV = dict(os.environ, GOFLAGS="-mod=mod", GOPROXY="off", GOSUMDB="off", GOTOOLCHAIN="local", GOWORK="off")


def load_cases(prop):
    cases = []
    tsv = os.path.join(HERE, "mutants", "mutants.tsv")
    if os.path.exists(tsv):
        for n, line in enumerate(open(tsv)):
            line = line.rstrip("\n")
            if not line or line.startswith("#"):
                continue
            p, f, expr, expect = line.split("\t")
            if prop and p != prop:
                continue
            cases.append({"id": "mutant:%s:%d" % (p, n + 1), "prop": p, "kind": "sed", "file": f, "expr": expr, "expect": expect})
    for meta in sorted(glob.glob(os.path.join(HERE, "seeded", "*", "meta.json"))):
        m = json.load(open(meta))
        for p in m.get("checked_by", [m["property"]]):
            if prop and p != prop:
                continue
            cases.append({"id": "seeded:" + os.path.basename(os.path.dirname(meta)), "prop": p, "kind": "patch",
                          "patch": os.path.join(os.path.dirname(meta), "patch.diff"), "expect": m.get("expect", "kill")})
    for meta in sorted(glob.glob(os.path.join(HERE, "benign", "*", "meta.json"))):
        m = json.load(open(meta))
        for p in m.get("props", []):
            if prop and p != prop:
                continue
            cases.append({"id": "benign:" + m["id"], "prop": p, "kind": "patch",
                          "patch": os.path.join(os.path.dirname(meta), "patch.diff"), "expect": "silent"})
    return cases


def run_case(case):
    tmp = tempfile.mkdtemp(prefix="gfverif.", dir=os.environ.get("TMPDIR", "/tmp"))
    try:
        d = os.path.join(tmp, "repo")
        shutil.copytree(REPO, d, ignore=shutil.ignore_patterns(".git"))
        if case["kind"] == "sed":
            target = os.path.join(d, case["file"])
            before = open(target).read()
            r = subprocess.run(["sed", "-i", "-E", case["expr"], target], capture_output=True, text=True)
            if r.returncode != 0 or open(target).read() == before:
                return dict(case, outcome="skipped", detail="does not apply to the current tree")
        else:
            r = subprocess.run(["patch", "-p1", "-s", "--no-backup-if-mismatch", "-d", d, "-i", case["patch"]], capture_output=True, text=True)
            if r.returncode != 0:
                return dict(case, outcome="skipped", detail="patch does not apply to the current tree")
        ev = os.path.join(tmp, "ev.json")
        r = subprocess.run([BIN, "-prop", case["prop"], "-repo", d, "-evidence", ev, "-known", os.path.join(HERE, "known_findings.json")],
                           capture_output=True, text=True, env=ENV)
        out = r.stdout
        if "LOAD-ERROR" in r.stderr or "BROKEN:" in out:
            return dict(case, outcome="invalid", detail="changed tree does not type-check")
        fired = r.returncode != 0
        first = ""
        for line in out.splitlines():
            if "VIOLATED" in line or "UNDECIDED" in line:
                first = line.replace(d + "/", "")[:300]
                break
        decided = any("VIOLATED" in line for line in out.splitlines())
        if case["expect"] == "kill":
            # "killed-undecided-only": the check exits 1 but only because it could not analyse the changed code - the
            # change is reported, yet no obligation was shown false; such a report disappears when the model improves
            outcome = ("killed" if decided else "killed-undecided-only") if fired else "SURVIVED"
        else:
            outcome = "benign-silent" if not fired else "FALSE-ALARM"
        return dict(case, outcome=outcome, detail=first)
    finally:
        shutil.rmtree(tmp, ignore_errors=True)


def main():
    ap = argparse.ArgumentParser()
    ap.add_argument("--prop")
    ap.add_argument("--all", action="store_true")
    ap.add_argument("--merge")
    ap.add_argument("--jobs", type=int, default=8)
    a = ap.parse_args()
    cases = load_cases(None if a.all else a.prop)
    results = []
    with concurrent.futures.ThreadPoolExecutor(max_workers=a.jobs) as ex:
        for res in ex.map(run_case, cases):
            results.append(res)
            line = "SELFTEST %s %s expect=%s -> %s" % (res["prop"], res["id"], res["expect"], res["outcome"])
            if res["outcome"] in ("SURVIVED", "FALSE-ALARM", "killed-undecided-only"):
                line = "SELFTEST-WARNING " + line[9:] + " :: " + (res.get("file") or res.get("patch", ""))
            print(line)
    summary = {}
    for r in results:
        summary[r["outcome"]] = summary.get(r["outcome"], 0) + 1
    print("SELFTEST summary: " + ", ".join("%s=%d" % kv for kv in sorted(summary.items())))
    if a.merge and os.path.exists(a.merge):
        ev = json.load(open(a.merge))
        ev["coverage"]["selftest"] = {"summary": summary, "cases": [
            {"id": r["id"], "expect": r["expect"], "outcome": r["outcome"], "first_report": r.get("detail", "")} for r in results]}
        json.dump(ev, open(a.merge, "w"), indent=1)
    return 0


if __name__ == "__main__":
    sys.exit(main())
