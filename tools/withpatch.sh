#!/bin/bash
# usage: withpatch.sh <patch> <property>...   — run checks against a scratch copy of /repo with the patch applied
set -u
patch="$1"; shift
d=$(mktemp -d /tmp/gfmut.XXXXXX)
trap 'rm -rf "$d"' EXIT
rsync -a --exclude .git /repo/ "$d/"
( cd "$d" && patch -p1 -s < "$patch" ) || { echo "PATCH-FAILED"; exit 3; }
for p in "$@"; do
  VERIF_REPO="$d" /verif/checker/bin/gfcheck -prop "$p" -repo "$d" -evidence "$d/.ev/$p.json" -known /verif/known_findings.json | grep -E "VIOLAT|UNDECID|KNOWN|property $p" | sed "s#$d/##g" | head -${MAXL:-12}
done
