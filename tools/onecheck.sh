#!/bin/bash
# usage: onecheck.sh <patch> <props...>
p=$1; shift
d=$(mktemp -d /tmp/gfone.XXXX); rsync -a --exclude .git /repo/ $d/; (cd $d && patch -p1 -s < "$p") || { echo PATCHFAIL; rm -rf $d; exit; }
for i in "$@"; do out=$(${GFBIN:-/verif/checker/bin/gfcheck} -prop $i -repo $d -evidence $d/.ev/$i.json 2>&1); echo "$out" | grep -E "VIOLATED|UNDECIDED|BROKEN|LOAD-ERROR" | head -${LINES_MAX:-3} | sed "s#$d/##" | cut -c1-${CUT:-420}; echo "$out" | grep -q VIOLATION && echo "FIRED $i" || echo "silent $i"; done
rm -rf $d
