#!/usr/bin/env python3
"""Regenerates /verif/MANIFEST.json from the table below (kept in one place so the
manifest stays valid and current while checks are added)."""
import json, os, sys

HERE = os.path.dirname(os.path.dirname(os.path.abspath(__file__)))

BASE = ("Static structural necessary conditions of the property, decided from /repo's current source on every run "
        "(go/packages + go/types syntax trees, go/ssa); finite sub-domains (symbol pairs, codons, flag words, orderings) "
        "are decided exhaustively by abstract evaluation of the source fragment. It does not establish the whole behaviour: ")

# id -> (implemented, technique, what is decided, what is not / trusted)
CHECKS = {
 "C01": (True, "abstract interpretation: CIGAR operator functions on symbolic arguments vs the SAM specification; bounded-exhaustive interpretation of the row pipeline, the record grouper (against a model of the biogo reader) and the window logic vs an independent projection",
         "all nine operators of the no-insertion table for every q, r, n; rows of groups of one and two records over 3 start positions x 12 CIGAR strings (flattening, flank rewrite, pad); getNucFromSite on all sites of <=3 symbols; the flag filter on every 12-bit (thorough 16-bit) flag word; grouping and input index on all record streams of <=3 (thorough 4) records over two names; window validation and column selection; pool output re-ordered by index.",
         "Trusted: go/types, go/ssa, checker/eval, the biogo API model (checker/rules/sammodel.go), checker/oracle. Bounded: longer CIGAR strings, more than two records per query and longer references are not enumerated. Not decided: biogo's own parsing."),
 "C02": (True, "abstract interpretation: with-reference CIGAR operator functions on symbolic arguments; bounded-exhaustive interpretation of blockToPairwiseAlignment/blockToSeqPair (with Go append/alias semantics) vs an independent construction of the pairwise alignment",
         "both with-reference operator tables for every q, r, n (query row, reference row, equal lengths); (reference row, query row) of groups of one and two records incl. insertions in either or both records; --skip-insertions equals the toMultiAlign --pad row; reference-coordinate cut on every gapped row of length <=6; stdout writer layout; pool output re-ordered.",
         "Trusted: as C01. Bounded as C01; records inserting at the same reference position are outside the property and skipped."),
 "C04": (True, "bounded-exhaustive abstract interpretation of GetVariantsPair vs an independent specification (IUPAC base sets, standard genetic code); codon dictionary extraction; region constructors interpreted on annotation values",
         "no SNP dropped, none invented, aa records exactly the unambiguous differing translations, over every single-site change, codon double changes, all deletions of length 1..3, one/two insertions and both-gap columns on a 12-base reference under three annotations (forward, overlapping forward+reverse, joined); codon dictionary over all 3375 codons; for GenBank and GFF annotations (named, unnamed, overlapping, joined, reverse) every reference position is intergenic or in a scanned region.",
         "Trusted: checker/eval, checker/oracle. Bounded family; longer references and other annotation shapes are not enumerated. Region Translation strings are trusted to be the reference translation (checked for the constructors under C14)."),
 "C05": (True, "bounded-exhaustive abstract interpretation of getIndelsPair/GetMSAOffsets (through GetVariantsPair) vs an independent run-length specification in reference coordinates",
         "ins:P:L / del:P:L for every deletion of length 1..3 (incl. those touching either end), one insertion after every position, two insertions at all position pairs, both-gap columns anywhere; invariance under added both-gap columns; gap-code literals equal the soft-gap code.",
         "Trusted: checker/eval. Bounded family on a 12-base reference."),
 "C06": (True, "bounded-exhaustive abstract interpretation of findClosest / findClosestN / rearrangeCatchment with the distance functions stubbed by a table (incl. NaN); SSA rules for result slots and fan-out; table extraction for the completeness score",
         "the returned target(s) are the first K within D of the order (defined distance first, ascending distance, descending completeness, file position) for every target stream of <=3 (thorough 4) targets over distances {1,2,NaN} x scores {1,2}, K 1..n, D in {-1,1}; SNP list/qname/qidx belong to the returned pair; measure string dispatch; stable sort; results stored at their own qidx; sequential fan-out; score table = 12/|base set|.",
         "Trusted: checker/eval, go/ssa. Bounded: the selection code touches distances and scores only through comparisons, so the streams realise every ordering pattern of that many targets; longer streams are not enumerated. The distance values themselves are C07."),
 "C09": (True, "abstract interpretation of the round trip getLines -> list writer -> both CSV readers (against a csv.Reader model) on a bounded family; consumer field set computed from SSA; pool-consumer taint rule; slot-store rule",
         "every field the ranking code reads (computed from SSA) is identical whether a record comes from FASTA or from the CSV the list writer produces, incl. the query input index, for all length-4 sequences over {A,C,G,N}; readers accept the writer's output; FASTA target conversion re-ordered by index, query conversion not a pool; results stored at the query's index; result qidx copied from the query's idx.",
         "Trusted: checker/eval, the csv.Reader model (records already split; quoting is the library's). Not decided: byte identity of whole outputs for all option sets (follows from equal records plus C08 only informally)."),
 "C11": (True, "abstract interpretation of both per-record workers on the same bounded family; SSA who-calls-whom rules",
         "getVariantsSam and getVariants emit identical lists, names and indices on every pair/annotation of the C04/C05 family; both call GetVariantsPair, derive offsets with GetMSAOffsets, use the soft-gap table; sam variants builds rows with blockToPairwiseAlignment keeping insertions; both entry points use the same two writers.",
         "Trusted: checker/eval, go/ssa. Not decided: the FASTA write->read round trip (C16) and toPairAlign itself (C02)."),
 "C12": (True, "SSA taint rule for worker-pool consumers; classification of map iterations with order-reversal evaluation harnesses; who-may-call rule for nondeterminism sources",
         "for every entry point with a worker pool, data derived from an item received from the pool reaches output only through an index-keyed re-order buffer, a slot store at the item's own index, an aggregation map or a per-item file; every map iteration is guarded by len==1, commutative, or its routine gives identical results under forward and reversed map order on inputs with ties; no math/rand / time.Now / pid in pkg/; NumCPU only sizes pools and buffers.",
         "NOT decided: data-race freedom (no sound static race analysis with the installed tools; the race detector is a runtime tool). Reversal stands in for all permutations. Trusted: go/ssa, checker/eval."),
 "C13": (True, "abstract interpretation of the aggregate writers and the per-sequence writers on the same bounded feed families; the per-sequence writer's rows are the oracle",
         "aggregate output = mutations whose count over the per-sequence rows / number of rows (reference excluded) >= threshold, each once, frequency printed with FormatFloat('f',9,64), non-decreasing position, for all feeds of <=3 sequences from fixed mutation lists x thresholds {0,0.5,1} x windows x --append-snps; numeric position order for snps.",
         "Trusted: checker/eval. Assumes a mutation occurs at most once per sequence's list. Bounded families."),
 "C14": (True, "abstract interpretation of RegionsFromGenbank / RegionsFromGFF on equivalent annotation values and, end to end, of ReadGenBank / ReadGFF on equivalent file texts (scanner model); independent location-expression reader",
         "eight layouts (forward, overlapping, complement, join with lengths 4+8 and 6+6, complement(join), codon_start=2 / phase 1, extra non-CDS features): same regions (name, strand, start, stop, ordered positions, translation) and intergenic lists from both formats, equal to the independent reading; three layouts from file text; GetPositions/IsReverse on eight location shapes.",
         "Trusted: checker/eval, the scanner/bytes/regexp models. Not decided (the larger part): location syntaxes outside these shapes ('<' '>' markers, multi-line locations, deeper nesting), GFF rows not in ascending order."),
 "C15": (True, "bounded-exhaustive abstract interpretation of each option-handling routine (they only compare/index with their numeric arguments)",
         "sam.checkArgs on all (refLen<=4, start, end in -2..6); getFastaRecord on every row of length <=4 (thorough 5) over {A,C,*,-} x every window x pad; legacy flag reconciliation on all flag combinations; trimAlignment on every gapped row of length <=6 x every window; wrap / WriteWrapAlignment on all (length<=7, width<=8); window predicate of both variant writers for every set/unset combination; writer start index under stdin and where the flag is set.",
         "Trusted: checker/eval, go/ssa. Bounded small scope; stdin equality is decided at the writer and flag level, not by reading a pipe."),
 "C16": (True, "abstract interpretation of the five FASTA readers against a model of bufio.Scanner on families of line layouts vs a reader-independent specification",
         "same records (ID, description, sequence, index; score and A/C/G/T counts for the scoring reader) under every re-wrapping and letter case, both gap modes; every byte value inside a sequence accepted iff IUPAC (validating readers); unequal lengths at a boundary/at the end, empty input, missing header rejected; blank lines and empty headers never index out of range; findReference finds the named record layout-independently; default split function; Scanner.Err consulted.",
         "Trusted: bufio.ScanLines' contract (LF/CRLF removal), checker/eval. Not decided: arbitrary byte streams beyond these families (e.g. the 1 MiB line limit), absence of hangs."),
 "C18": (True, "SSA rules: error propagation (returned or sent; channel drained into a return), wait-also-listens with safe-bare-receive reachability, structural guard rules; plus the evaluated rows shared with C01/C08/C09/C15/C16",
         "every internal error is returned/sent by each caller; every error sent is received into a return by the channel's creator; cmd.Execute exits 1; every blocking select in a function owning an error channel listens on it, every bare receive is provably safe; single-record --reference guards (5), query/target width guards, file-type switches have error defaults; FASTA/CSV/SAM readers and option checks reject the listed corruptions (interpreted).",
         "Trusted: go/ssa (static callees; no dynamic dispatch on these paths), checker/eval. Not decided: promptness, partial output before the error, corruptions not in the property's list."),
 "C19": (True, "SSA dataflow: every Write-like call to an output destination has its error bound and flowing to a return or an error-channel send that the creator drains; propagation along the static call graph to the cobra RunE closures; exit status",
         "44 write sites in 13 writer functions; 14 propagation call sites; cmd.Execute -> os.Exit(1).",
         "Trusted: go/ssa. (*os.File).Close on outputs is outside the rule (unbuffered writes). A wait that does not listen for errors is C18's B3."),
 "C03": (True, "abstract interpretation of the per-record worker: per-column transfer function over all 17x17 symbol pairs in both gap modes vs IUPAC base-set oracle; constant-table extraction; SSA argument-flow for the flag",
         "encoding/decoding tables over all bytes and pairs; getSNPs appends exactly ref+pos+alt iff base sets are disjoint, for every symbol pair and both gap modes, with the 1-based ascending loop index; row carries record id/index; unequal width goes to the error channel; --hard-gaps reaches both readers and selects the hard-gap table; pool output is index re-ordered.",
         "Trusted: go/types, go/ssa, checker/eval, checker/oracle. Not decided: FASTA reading itself (C16), the writer's byte layout beyond the constructs checked under C12/C19."),
 "C07": (True, "abstract interpretation of the three distance functions: per-column transfer functions over 17x17 symbol pairs classified against specified column classes; algebraic normalisation (rational functions with log atoms) of the returned expression against Tamura-Nei eq. 7 written independently",
         "per-column contribution of every counter in rawDistance/snpDistance/tn93Distance for all 289 symbol pairs; the returned expression equals n/d, n, and TN93 eq. 7 as an algebraic identity; base-count fields are filled from the table codes of A,C,G,T by the scoring reader only; distance arguments are (query parameter, channel-fed target).",
         "Trusted: go/types, go/ssa, checker/eval, checker/algebra, checker/oracle. Not decided: floating-point rounding; inputs where eq. 7's logarithms are undefined (excluded by the property)."),
 "C08": (True, "abstract interpretation with the pair classifier stubbed: bounded-exhaustive evaluation of the bin routines over all ordering patterns of short target streams; exhaustive evaluation of balance() and checkArgs over small option grids; whichWay on all pairs of short sequences; writers on a symbolic result",
         "each bin is the prefix of its candidates ranked by (distance, fewer ambiguities, file order) within the distance limit and cut to balance()'s size, for all streams of <=3 (thorough 4) targets per bin and mixed streams; the four bin blocks agree; balance() equals the specified allocation for all requested/available sizes in 0..2 (thorough 0..3); --dist-push keeps exactly the k nearest occurring distances; whichWay's bin and SNP distance on all pairs of length-2 (thorough 3) sequences over {A,C,G,N}; checkArgs normalisation; writer column order and bin names; stable sorts.",
         "Trusted: checker/eval, go/types. Bounded: streams longer than the bound, sizes above the bound and longer sequences are not enumerated; the selection code touches distances/ambiguity counts only through comparisons, so the bound covers all ordering patterns of that many targets. Not decided: the --threshold-target filter in splitInput, option combinations the help text forbids."),
 "C10": (True, "abstract interpretation of getLines: per-column transfer function over (reference symbol, query symbol, open-tract state) for all 17x17x2 points vs the specified two-state transducer; writer interpreted on a symbolic record",
         "SNP iff query is A/C/G/T and outside the reference symbol's base set (string, 1-based position, counter); ambiguity counter on every non-A/C/G/T column; tract open/extend/close with 1-based inclusive bounds; flush at the end; emitted record carries exactly those lists; writer header, column order, separators and a / a-b range forms.",
         "Trusted: checker/eval, checker/oracle, go/types. Not decided: the round trip 'reconstructible up to identity of non-A/C/G/T symbols' follows from these clauses only informally; FASTA reading (C16); output ordering (C12)."),
 "C17": (True, "constant-table extraction by abstract interpretation of the constructors' syntax trees; exhaustive comparison with an independent IUPAC / standard-genetic-code oracle",
         "the codon dictionary over all 3375 IUPAC codons, both complement tables over all 256 bytes, encoding/decoding tables, Translate on every single codon in both modes, Complement/ReverseComplement and the four record methods on every accepted symbol and distinct-symbol strings of length 0..8.",
         "Trusted: go/types, the evaluator (checker/eval), the oracle tables (checker/oracle). Not decided: strings longer than the evaluated lengths are covered only by the observation that these functions never branch on symbol identity except through the extracted tables."),
}

# rules added after the second round of independently seeded changes (appended to "decided")
CMD = " Command layer (Engine D): package cmd's init() functions are interpreted with models of the cobra/pflag registration API (a flag binding is the reference the flag writes through: a variable or a struct field, registered directly or through a helper), and the command's Args, PreRunE and RunE are interpreted in cobra's order under scenarios of flag values (all distinct, all defaults, each boolean on/off incl. an explicit =false, each input unopenable, command-specific option values, each repeated with the library call failing) against a specification over the user-visible flag names: which library function is called, the value in every argument position, every file opened for reading / created-and-truncated / standard stream, failure before any library call for invalid options, and the library's error being RunE's result (deferred calls included); only boolean flags carry a no-option default; float flags have the reference width."
POOL = " Worker pools: for every processor count >= 1 and every --threads value the number of workers started is >= 1, WaitGroup.Add gets the same count, channel capacities are >= 0 (interval analysis over SSA with guard refinement); a channel closed on a completion token is closed only after the goroutines that send on it have finished (WaitGroup membership)."
WIRE = " Entry points (Engine E): interpreted in a sequential pipeline model with every stage function replaced by a recorder: per scenario of the entry point's parameters the multiset of stages started with their scalar, data and stream arguments equals the specified wiring; nil when all stages complete; an error when any single stage reports one; invalid windows / reference counts / missing options fail before any worker starts. Argument-role rule: no positional argument is a variable named like a different parameter of the callee, and a caller's own same-named parameter is the one passed."
DEFER = " No defer statement of a library function sits in a loop of its own frame whose trip count is not a compile-time constant (per-item resources are released per item)."
STD = " Only the result writers write to standard output in library code (os.Stdout values and fmt.Print*)."
BATCH = " Several queries through one activation of the sam worker give the single-query items (no state carried between queries)."
EXTRA = {
 "C01": WIRE + CMD + POOL + " Arrival-order independence of the two FASTA writers over all 24 arrival orders." + BATCH,
 "C02": WIRE + CMD + POOL + " Arrival-order independence of the pairwise writer over all 24 arrival orders; the directory branch writes one closed file per query with the same text." + DEFER + BATCH,
 "C03": WIRE + CMD + POOL + " Arrival-order independence of the snps writer; both readers give the same records under every line wrapping." + STD,
 "C04": WIRE + CMD + " Only snps may select hard gaps: every encoded FASTA reader call in variants/sam/gff/genbank passes hardGaps=false. Several queries through one getVariantsSam worker give the single-query results. Arrival-order independence of WriteVariants. No output line carries two identical records (three overlapping features); the independent variant list of C13 holds.",
 "C05": WIRE + CMD + BATCH,
 "C06": WIRE + CMD + " The scoring reader's completeness score is that of the whole sequence under every line wrapping. raw and tn93 evaluate to NaN on pairs without a jointly resolved site; the ranked distance is the distance function's value.",
 "C07": WIRE + CMD + " The scoring reader's A/C/G/T counts are those of the whole sequence under every line wrapping; closest reads '-' as any base (hardGaps=false at every reader call). raw and tn93 evaluate to NaN on pairs without a jointly resolved site; the distance ranked and reported is the distance function's value, unchanged.",
 "C08": WIRE + CMD + " --ignore is plain membership for every list of <=4 names in file order; FASTA and CSV inputs give the same records on every field the ranking reads; updown reads '-' as any base.",
 "C09": WIRE + CMD + " Arrival-order independence of reorderRecords over all 24 arrival orders.",
 "C10": WIRE + CMD + " updown reads '-' as any base (hardGaps=false at every reader call); arrival-order independence of the list writer; both readers give the same records under every line wrapping." + STD,
 "C11": WIRE + CMD + " Both writers of an entry point get the same reference-record name; the annotation-derived reference has one constant placeholder name in every branch of both entry points; without a window trimAlignment passes the pair unchanged.",
 "C12": WIRE + POOL + " What a pool worker emits for a record equals what it emits for that record alone, read after the whole batch (getSNPs, getLines, getVariantsSam, trimAlignment); code reachable from goroutines writes no package-level variable, and a goroutine literal assigns to its starter's variable only as a single collector whose completion token the starter receives first (necessary conditions of race freedom); only the result writers write to standard output in library code (os.Stdout values and fmt.Print*); no unstable sort receives map-ordered input containing distinguishable ties; a go statement in a loop hands its goroutines no slice, map or pointer (argument or captured variable) that one of them writes through; no caller writes through a table a function hands out by reference to package-level storage; a loop over a map does not take its first entry without a one-entry guard; re-order buffers park every waiting item under its own index; every re-ordering writer writes the same bytes for an item whatever was written before it (volume run) and hands every byte to the destination before it signals completion." + DEFER + BATCH,
 "C13": WIRE + CMD + " Reverse-strand feature: aggregate lines are ordered by position, not residue; both writers get the same reference-record name (the denominator excludes the same record the per-sequence writer skips).",
 "C14": WIRE + CMD + " ORIGIN keeps every IUPAC letter; the annotation-derived reference carries the same constant name in the GenBank and the GFF branch.",
 "C15": WIRE + CMD + " A record named like the reference is treated in stdin mode as in file mode; the readers agree structurally (C16).",
 "C16": " Files whose first, middle or last record has no sequence line are rejected by every reader (unequal record lengths); the five readers accept the same maximum line length; per-symbol counters in the readers are word-sized integers.",
 "C17": " The alphabet and encoding functions write no package-level state (purity).",
 "C18": WIRE + CMD.replace("Command layer (Engine D): the command's RunE literal is", "Command layer (Engine D): every command's RunE literal is"),
 "C19": WIRE + CMD.replace("Command layer (Engine D): the command's RunE literal is", "Command layer (Engine D): every command's RunE literal is") + " Path rule B4: on every path from a write to the next write or to the return, that write's error is returned, sent or handed on; a test of the error does not end the path - on the branch where it is non-nil the error must be reported before the next write and before the return. An error kept in a field of a writer object (sticky error writer) is followed to the readers of that field, each function that writes through the object must itself return or send what the field holds, and the write must sit on the nil side of a test of that field; a field of a value-receiver copy does not count." + DEFER,
}

NOT_YET = "static check for this property not built yet in this session (plan: DESIGN.md section 5); no claim is made"

def main():
    ids = ["C%02d" % i for i in range(1, 20)]
    checks, na = [], []
    for pid in ids:
        ent = CHECKS.get(pid)
        if not ent or not ent[0]:
            reason = ent[1] if ent else NOT_YET
            na.append({"property_id": pid, "reason": reason})
            continue
        _, technique, decided, note = ent
        decided = decided + EXTRA.get(pid, "")
        checks.append({
            "property_id": pid,
            "quick_cmd": "./run.sh %s quick" % pid,
            "thorough_cmd": "./run.sh %s thorough" % pid,
            "evidence_file": "/verif/evidence/%s.json" % pid,
            "replay_cmd_template": "cat {path}; ./run.sh %s quick" % pid,
            "engine": "gfcheck",
            "level_claimed": {"category": "other", "text": BASE + "decided here: " + decided, "design_ref": "DESIGN.md section 5 (%s)" % pid},
            "level_note": note,
            "technique": "static analysis: " + technique,
        })
    man = {
        "version": 1,
        "setup_cmd": "cd /verif/checker && GOFLAGS=-mod=vendor GOPROXY=off GOSUMDB=off GOTOOLCHAIN=local GOWORK=off go build -o bin/gfcheck ./cmd/gfcheck",
        "hooks": {
            "guard": "verif",
            "enable": "none needed: the checks are static and read /repo's source; no instrumentation exists",
            "baseline_off_cmd": "cd /repo && go test -vet=off -count=1 ./...",
            "source_commits": [],
            "add_only": True,
        },
        "engines": [{"name": "gfcheck", "path": "/verif/checker", "serves_properties": [c["property_id"] for c in checks],
                     "kind_free_text": "repository-specific static analyser (Go; go/packages, go/types, go/ssa, own abstract interpreter over type-checked syntax)"}],
        "checks": checks,
        "not_applicable": na,
        "notes": "All checks are static analyses of /repo's working tree; see DESIGN.md. known_findings.json lists genuine defects recorded or fixed.",
    }
    with open(os.path.join(HERE, "MANIFEST.json"), "w") as f:
        json.dump(man, f, indent=1)
        f.write("\n")
    try:
        import jsonschema
        jsonschema.validate(man, json.load(open("/root/.vp/MANIFEST.schema.json")))
        print("MANIFEST.json valid:", len(checks), "checks,", len(na), "not applicable")
    except ImportError:
        print("jsonschema not available; wrote MANIFEST.json")

if __name__ == "__main__":
    main()
