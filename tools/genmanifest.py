#!/usr/bin/env python3
"""Regenerates /verif/MANIFEST.json from the table below (kept in one place so the
manifest stays valid and current while checks are added)."""
import json, os, sys

HERE = os.path.dirname(os.path.dirname(os.path.abspath(__file__)))

BASE = ("Static structural necessary conditions of the property, decided from /repo's current source on every run "
        "(go/packages + go/types syntax trees, go/ssa); finite sub-domains (symbol pairs, codons, flag words, orderings) "
        "are decided exhaustively by abstract evaluation of the source fragment. It does not establish the whole behaviour: ")

# id -> (implemented, technique, what is decided, what is not / trusted)
CHECKS = {
 "C03": (True, "abstract interpretation of the per-record worker: per-column transfer function over all 17x17 symbol pairs in both gap modes vs IUPAC base-set oracle; constant-table extraction; SSA argument-flow for the flag",
         "encoding/decoding tables over all bytes and pairs; getSNPs appends exactly ref+pos+alt iff base sets are disjoint, for every symbol pair and both gap modes, with the 1-based ascending loop index; row carries record id/index; unequal width goes to the error channel; --hard-gaps reaches both readers and selects the hard-gap table; pool output is index re-ordered.",
         "Trusted: go/types, go/ssa, checker/eval, checker/oracle. Not decided: FASTA reading itself (C16), the writer's byte layout beyond the constructs checked under C12/C19."),
 "C07": (True, "abstract interpretation of the three distance functions: per-column transfer functions over 17x17 symbol pairs classified against specified column classes; algebraic normalisation (rational functions with log atoms) of the returned expression against Tamura-Nei eq. 7 written independently",
         "per-column contribution of every counter in rawDistance/snpDistance/tn93Distance for all 289 symbol pairs; the returned expression equals n/d, n, and TN93 eq. 7 as an algebraic identity; base-count fields are filled from the table codes of A,C,G,T by the scoring reader only; distance arguments are (query parameter, channel-fed target).",
         "Trusted: go/types, go/ssa, checker/eval, checker/algebra, checker/oracle. Not decided: floating-point rounding; inputs where eq. 7's logarithms are undefined (excluded by the property)."),
 "C08": (True, "abstract interpretation with the pair classifier stubbed: bounded-exhaustive evaluation of the bin routines over all ordering patterns of short target streams; exhaustive evaluation of balance() and checkArgs over small option grids; whichWay on all pairs of short sequences; writers on a symbolic result",
         "each bin is the prefix of its candidates ranked by (distance, fewer ambiguities, file order) within the distance limit and cut to balance()'s size, for all streams of <=3 (thorough 4) targets per bin and mixed streams; the four bin blocks agree; balance() equals the specified allocation for all requested/available sizes in 0..2 (thorough 0..3); --dist-push keeps exactly the k nearest occurring distances; whichWay's bin and SNP distance on all pairs of length-2 (thorough 3) sequences over {A,C,G,N}; checkArgs normalisation; writer column order and bin names; stable sorts.",
         "Trusted: checker/eval, go/types. Bounded: streams longer than the bound, sizes above the bound and longer sequences are not enumerated; the selection code touches distances/ambiguity counts only through comparisons, so the bound covers all ordering patterns of that many targets. Not decided: the --threshold-target filter in splitInput, option combinations the help text forbids."),
 "C10": (True, "abstract interpretation of getLines: per-column transfer function over (reference symbol, query symbol, open-tract state) for all 17x17x2 points vs the specified two-state transducer; writer interpreted on a symbolic record",
         "SNP iff query is A/C/G/T and outside the reference symbol's base set (string, 1-based position, counter); ambiguity counter on every non-A/C/G/T column; tract open/extend/close with 1-based inclusive bounds; flush at the end; emitted record carries exactly those lists; writer header, column order, separators and a / a-b range forms.",
         "Trusted: checker/eval, checker/oracle, go/types. Not decided: the round trip 'reconstructible up to identity of non-A/C/G/T symbols' follows from these clauses only informally; FASTA reading (C16); output ordering (C12)."),
 "C17": (True, "constant-table extraction by abstract interpretation of the constructors' syntax trees; exhaustive comparison with an independent IUPAC / standard-genetic-code oracle",
         "the codon dictionary over all 3375 IUPAC codons, both complement tables over all 256 bytes, encoding/decoding tables, Translate on every single codon in both modes, Complement/ReverseComplement and the four record methods on every accepted symbol and distinct-symbol strings of length 0..8.",
         "Trusted: go/types, the evaluator (checker/eval), the oracle tables (checker/oracle). Not decided: strings longer than the evaluated lengths are covered only by the observation that these functions never branch on symbol identity except through the extracted tables."),
}

NOT_YET = "static check for this property not built yet in this session (plan: DESIGN.md section 5); no claim is made"

def main():
    ids = ["C%02d" % i for i in range(1, 20)]
    checks, na = [], []
    for pid in ids:
        ent = CHECKS.get(pid)
        if not ent or not ent[0]:
            reason = ent[1] if ent else NOT_YET
            na.append({"property_id": pid, "reason": reason})
            continue
        _, technique, decided, note = ent
        checks.append({
            "property_id": pid,
            "quick_cmd": "./run.sh %s quick" % pid,
            "thorough_cmd": "./run.sh %s thorough" % pid,
            "evidence_file": "/verif/evidence/%s.json" % pid,
            "replay_cmd_template": "cat {path}; ./run.sh %s quick" % pid,
            "engine": "gfcheck",
            "level_claimed": {"category": "other", "text": BASE + "decided here: " + decided, "design_ref": "DESIGN.md section 5 (%s)" % pid},
            "level_note": note,
            "technique": "static analysis: " + technique,
        })
    man = {
        "version": 1,
        "setup_cmd": "cd /verif/checker && GOFLAGS=-mod=vendor GOPROXY=off GOSUMDB=off GOTOOLCHAIN=local GOWORK=off go build -o bin/gfcheck ./cmd/gfcheck",
        "hooks": {
            "guard": "verif",
            "enable": "none needed: the checks are static and read /repo's source; no instrumentation exists",
            "baseline_off_cmd": "cd /repo && go test -vet=off -count=1 ./...",
            "source_commits": [],
            "add_only": True,
        },
        "engines": [{"name": "gfcheck", "path": "/verif/checker", "serves_properties": [c["property_id"] for c in checks],
                     "kind_free_text": "repository-specific static analyser (Go; go/packages, go/types, go/ssa, own abstract interpreter over type-checked syntax)"}],
        "checks": checks,
        "not_applicable": na,
        "notes": "All checks are static analyses of /repo's working tree; see DESIGN.md. known_findings.json lists genuine defects recorded or fixed.",
    }
    with open(os.path.join(HERE, "MANIFEST.json"), "w") as f:
        json.dump(man, f, indent=1)
        f.write("\n")
    try:
        import jsonschema
        jsonschema.validate(man, json.load(open("/root/.vp/MANIFEST.schema.json")))
        print("MANIFEST.json valid:", len(checks), "checks,", len(na), "not applicable")
    except ImportError:
        print("jsonschema not available; wrote MANIFEST.json")

if __name__ == "__main__":
    main()
