#!/bin/bash
# usage: allchecks.sh <patch> -> lists which of the 19 checks fire on a patched copy
d=$(mktemp -d /tmp/gfall.XXXX); rsync -a --exclude .git /repo/ $d/; (cd $d && patch -p1 -s < "$1") || { echo PATCHFAIL; rm -rf $d; exit; }
fired=""
for i in $(seq -w 1 19); do out=$(${GFBIN:-/verif/checker/bin/gfcheck} -prop C$i -repo $d -evidence $d/.ev/C$i.json 2>&1); if echo "$out" | grep -q "VIOLATION"; then fired="$fired C$i"; echo "$out" | grep -E "VIOLATED|UNDECIDED|BROKEN|LOAD-ERROR" | head -2 | sed "s#$d/##" | cut -c1-230; fi; done
echo "FIRED:$fired"
rm -rf $d
