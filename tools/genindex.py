#!/usr/bin/env python3
"""Regenerates seeded/INDEX.md and benign/INDEX.md from the meta.json files."""
import glob, json, os
HERE = os.path.dirname(os.path.dirname(os.path.abspath(__file__)))
rows = []
for m in sorted(glob.glob(os.path.join(HERE, "seeded", "*", "meta.json"))):
    d = json.load(open(m))
    rnd = d.get("round", 1)
    first = d.get("first_result") or ("reported" if d.get("caught_by_checks_initially", True) else "missed")
    if rnd == 1 and "first_result" not in d:
        first = d.get("note", "")
    rows.append((d["id"], rnd, ", ".join(d.get("checked_by", [])), first, d.get("strengthening", "")))
with open(os.path.join(HERE, "seeded", "INDEX.md"), "w") as f:
    f.write("# Independently seeded property-breaking changes\n\nEach directory holds patch.diff, the sub-agent's README.md and demonstration, and meta.json. "
            "Every change compiles, passes the 92 existing tests and breaks the property on some input (confirmed: demo fails with the patch, passes without). "
            "`tools/selftest.py` applies each to a scratch copy of /repo and expects the listed checks to report it.\n\n")
    f.write("| id | round | reported by | first result / note | strengthening |\n|---|---|---|---|---|\n")
    for r in rows:
        f.write("| %s | %s | %s | %s | %s |\n" % tuple(str(x).replace("|", "/") for x in r))
with open(os.path.join(HERE, "benign", "INDEX.md"), "w") as f:
    f.write("# Independently produced behaviour-preserving refactors (every check must stay silent)\n\n| id | files | first result |\n|---|---|---|\n")
    for m in sorted(glob.glob(os.path.join(HERE, "benign", "*", "meta.json"))):
        d = json.load(open(m))
        f.write("| %s | %s | %s |\n" % (d["id"], " ".join(d["files"]), d["first_result"]))
print("indexes written:", len(rows), "seeded")
