#!/usr/bin/env python3
"""usage: refresh_checked_by.py <selftest output>
After rules have been re-scoped or the evaluator has learnt to analyse code it used to give up on, a stored change may
no longer be reported by a property other than its own (it never violated that property). This drops such entries from
the change's checked_by list. A change that is no longer reported (or reported only as undecided) by its OWN property's
check is printed and left alone: that is a gap to close, not a list to edit."""
import json, os, re, sys
HERE = os.path.dirname(os.path.dirname(os.path.abspath(__file__)))
out = open(sys.argv[1]).read()
surv, weak = {}, {}
for m in re.finditer(r"SELFTEST-WARNING (C\d\d) seeded:(C\d\d\w) expect=kill -> (SURVIVED|killed-undecided-only)", out):
    (surv if m.group(3) == "SURVIVED" else weak).setdefault(m.group(2), []).append(m.group(1))
todo = []
for sid, props in sorted(surv.items()):
    mp = os.path.join(HERE, "seeded", sid, "meta.json")
    d = json.load(open(mp))
    own = d["property"]
    notowner = "not a violation of" in d.get("first_result", "")
    keep = [p for p in d["checked_by"] if p not in props or (p == own and not notowner)]
    if own in props and not notowner:
        todo.append((sid, "SURVIVED under its own property"))
    if keep != d["checked_by"]:
        d["checked_by"] = keep
        json.dump(d, open(mp, "w"), indent=1)
        print("updated", sid, "->", keep)
for sid, props in sorted(weak.items()):
    own = json.load(open(os.path.join(HERE, "seeded", sid, "meta.json")))["property"]
    if own in props:
        todo.append((sid, "reported by its own property only as undecided"))
for t in todo:
    print("GAP:", *t)
