#!/usr/bin/env python3
"""usage: mkseedprompts.py <round-dir e.g. /tmp/seed6> <letter1> <letter2>
Writes <round-dir>/<Cxx>.prompt for the 19 properties from tools/seed_prompt_round2.txt: the property text and,
as the list of earlier changes to avoid, the changed lines of every stored patch of that property (nothing else from /verif
is shown to the sub-agent).  The worktrees <round-dir>/<Cxx> must be created separately (git -C /repo worktree add --detach)."""
import glob, json, os, re, sys
HERE = os.path.dirname(os.path.dirname(os.path.abspath(__file__)))
root, l1, l2 = sys.argv[1:4]
tmpl = open(os.path.join(HERE, "tools", "seed_prompt_round2.txt")).read()
props = [json.loads(l) for l in open(os.path.join(HERE, "properties.jsonl"))]
for p in props:
    pid = p["id"]
    prev = []
    for d in sorted(glob.glob(os.path.join(HERE, "seeded", pid + "?"))):
        lines, cur = [], None
        for ln in open(os.path.join(d, "patch.diff"), errors="replace"):
            if ln.startswith("+++ "):
                cur = ln[6:].strip()
                lines.append("   file " + cur)
            elif ln.startswith("@@"):
                m = re.search(r"@@.*@@\s*(.*)", ln)
                if m and m.group(1):
                    lines.append("   in " + m.group(1).strip())
            elif (ln.startswith("+") or ln.startswith("-")) and not ln.startswith(("+++", "---")) and ln[1:].strip():
                lines.append("     " + ln.rstrip()[:160])
        prev.append(" * earlier change %s:\n%s" % (os.path.basename(d)[3], "\n".join(lines[:28])))
    text = json.dumps(p, indent=1)
    out = tmpl.replace("{TEXT}", text).replace("{PREV}", "\n".join(prev)).replace("{WT}", "%s/%s" % (root, pid)).replace("{PROP}", "%s/%s.property.json" % (root, pid))
    out = out.replace('(call them "c" and "d")', '(call them "%s" and "%s")' % (l1, l2)).replace("out/c/", "out/%s/" % l1).replace("out/d/", "out/%s/" % l2)
    out = out.replace("zz_seed_<c|d>_test.go", "zz_seed_<%s|%s>_test.go" % (l1, l2)).replace("change c ", "change %s " % l1).replace("change d", "change %s" % l2)
    out = out.replace("/tmp/seed2", root)
    out += "\nNever use `git stash` (the stash is shared between all worktrees of the repository). Work on one change at a time in your worktree.\n"
    os.makedirs(root, exist_ok=True)
    open("%s/%s.property.json" % (root, pid), "w").write(text)
    open("%s/%s.prompt" % (root, pid), "w").write(out)
print("prompts written to", root)
