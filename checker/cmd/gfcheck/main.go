// gfcheck decides one property of /verif/properties.jsonl for the gofasta tree at -repo.
package main

import (
	"flag"
	"fmt"
	"os"
	"runtime/debug"
	"sort"
	"strconv"
	"strings"

	"gofasta-verif/core"
	"gofasta-verif/eval"
	"gofasta-verif/rules"
)

func main() {
	prop := flag.String("prop", "", "property id (C01..C19)")
	tier := flag.String("tier", "quick", "quick|thorough")
	repo := flag.String("repo", "/repo", "repository root")
	evidence := flag.String("evidence", "", "evidence file to write")
	known := flag.String("known", "/verif/known_findings.json", "known findings file")
	verbose := flag.Bool("v", false, "list every obligation")
	flag.Parse()
	seed := 0
	if s := os.Getenv("VERIF_SEED"); s != "" {
		seed, _ = strconv.Atoi(s)
	}
	rule, ok := rules.Registry[*prop]
	if !ok {
		fmt.Printf("BROKEN: no rule registered for property %q\n", *prop)
		os.Exit(2)
	}
	ctx, err := core.Load(*repo)
	if err != nil {
		fmt.Printf("BROKEN: %v\n", err)
		// a tree that does not load cannot be shown to satisfy the property
		fmt.Printf("VIOLATION property=%s replay=%s\n", *prop, *evidence)
		os.Exit(1)
	}
	ctx.Prop = *prop
	eval.Interpreted = map[string]int{}
	ctx.Tier = *tier
	ctx.Count("packages_loaded", len(ctx.Pkgs))
	ctx.Count("functions_in_scope", len(ctx.RepoFuncs()))
	func() {
		defer func() {
			if r := recover(); r != nil {
				ctx.Und("checker/panic", 0, "checker panicked: %v\n%s", r, debug.Stack())
			}
		}()
		rule(ctx)
	}()
	if *verbose {
		for _, o := range ctx.Obs {
			fmt.Printf("  [%s] %s @%s %s\n", o.Status, o.Key, o.Pos, o.Detail)
		}
	}
	// which source functions the rule actually interpreted (as opposed to inspecting or recording them)
	var interp []string
	for name := range eval.Interpreted {
		if strings.Contains(name, core.ModPath) {
			interp = append(interp, strings.TrimPrefix(strings.ReplaceAll(name, core.ModPath+"/", ""), "("))
		}
	}
	sort.Strings(interp)
	ctx.Count("source_functions_interpreted", len(interp))
	if f := os.Getenv("GFCOVER"); f != "" {
		os.WriteFile(f, []byte(strings.Join(interp, "\n")+"\n"), 0644)
	}
	os.Exit(ctx.Finish(*evidence, *known, seed, map[string]interface{}{"interpreted_functions": interp}))
}
