package rules

import (
	"fmt"
	"go/token"
	"go/types"
	"regexp"
	"strings"

	"golang.org/x/tools/go/ssa"

	"gofasta-verif/core"
	"gofasta-verif/eval"
)

func permutations(n int) [][]int {
	var out [][]int
	var rec func(cur []int, used []bool)
	rec = func(cur []int, used []bool) {
		if len(cur) == n {
			out = append(out, append([]int{}, cur...))
			return
		}
		for i := 0; i < n; i++ {
			if !used[i] {
				used[i] = true
				rec(append(cur, i), used)
				used[i] = false
			}
		}
	}
	rec(nil, make([]bool, n))
	return out
}

// checkArrivalOrderIndependence interprets every index re-ordering consumer on every arrival order of a
// small batch (one record of which is the reference record where the writer treats it specially):
// the bytes written (or records forwarded) must not depend on the arrival order.
// arrivalVerdicts caches, per consumer name, whether its output was the same under all 24 arrival orders of a batch of
// four (decided) - the deciding argument where the structural re-order pattern is not recognised.
var arrivalVerdicts = map[string][2]bool{} // name -> {decided, independent}

// arrivalOrderDecides: is the named consumer ("pkg.func") one of the interpreted re-orderers, and does it give the same
// output whatever the arrival order?
func arrivalOrderDecides(c *core.Ctx, name string) (decided, independent bool) {
	if v, ok := arrivalVerdicts[name]; ok {
		return v[0], v[1]
	}
	saveObs, saveCounts := c.Obs, c.Counts
	c.Counts = map[string]int{}
	checkArrivalOrderIndependence(c, "probe", name)
	for _, o := range c.Obs[len(saveObs):] {
		if strings.HasSuffix(o.Key, "/"+name+"/arrival-order-independence") {
			decided, independent = true, o.Status == core.OK.String()
		}
	}
	c.Obs, c.Counts = saveObs, saveCounts
	arrivalVerdicts[name] = [2]bool{decided, independent}
	return
}

func checkArrivalOrderIndependence(c *core.Ctx, rule string, only ...string) int {
	n := 0
	saved, savedCPU := evalStepBudget, evalNumCPU
	evalStepBudget, evalNumCPU = 400_000, 1
	defer func() { evalStepBudget, evalNumCPU = saved, savedCPU }()
	want := func(name string) bool {
		if len(only) == 0 {
			return true
		}
		for _, o := range only {
			if o == name {
				return true
			}
		}
		return false
	}
	und := func(name string) {
		if want(name) {
			c.Und(rule+"/"+name, token.NoPos, "UNRESOLVED anchor %s", name)
		}
	}
	type consumer struct {
		name string
		pos  token.Pos
		run  func(order []int) (string, error)
		want func(n int) string // the text for n items arriving in order, where the layout is specified here
		// volume: a run whose rows add up to a few hundred kilobytes (got, want): what is written does not depend on how
		// much has been written before (block buffers, flush thresholds)
		volume func() (string, string, error)
	}
	var cons []consumer
	// fastaio.WriteAlignment / WriteWrapAlignment
	recT := namedType(c, "pkg/fastaio", "FastaRecord")
	mkFR := func(i int) eval.Value {
		r := absValue(recT, "r", eval.K(0)).(*eval.StructVal)
		r.F["ID"] = eval.S(padName(fmt.Sprintf("s%d", i), i))
		r.F["Description"] = eval.S(padName(fmt.Sprintf("s%d", i), i))
		r.F["Seq"] = eval.S(strings.Repeat("ACGT"[i%4:i%4+1], 3+i))
		r.F["Idx"] = eval.K(int64(i))
		return r
	}
	for _, w := range []struct {
		name string
		sc   map[string]eval.Value
	}{{"WriteAlignment", nil}, {"WriteWrapAlignment", map[string]eval.Value{"wrap": eval.K(2)}}} {
		fn := c.LookupFunc("pkg/fastaio", w.name)
		if fn == nil || recT == nil {
			und("fastaio." + w.name)
			continue
		}
		sc := w.sc
		cons = append(cons, consumer{name: "fastaio." + w.name, pos: fn.Pos(), run: func(order []int) (string, error) {
			var feed []eval.Value
			for _, i := range order {
				feed = append(feed, mkFR(i))
			}
			ev := newEval(c)
			out, errs, err := callWriter(c, ev, fn, recT, feed, sc)
			if err == nil && len(errs.Sent) > 0 {
				err = fmt.Errorf("error reported")
			}
			return out, err
		}})
	}
	// snps.writeOutput
	if fn, lt := c.LookupFunc("pkg/snps", "writeOutput"), namedType(c, "pkg/snps", "snpLine"); fn != nil && lt != nil {
		cons = append(cons, consumer{name: "snps.writeOutput", pos: fn.Pos(), want: func(n int) string {
			// names are data: a '%' in one is written as it is
			t := "query,SNPs\n"
			for i := 0; i < n; i++ {
				t += fmt.Sprintf("q%d 100%%s%%,A%dT\n", i, i+1)
			}
			return t
		}, run: func(order []int) (string, error) {
			var feed []eval.Value
			for _, i := range order {
				r := absValue(lt, "l", eval.K(0)).(*eval.StructVal)
				r.F["queryname"] = eval.S(fmt.Sprintf("q%d 100%%s%%", i))
				r.F["idx"] = eval.K(int64(i))
				r.F["snps"] = eval.NewSlice(eval.S(fmt.Sprintf("A%dT", i+1)))
				feed = append(feed, r)
			}
			ev := newEval(c)
			out, errs, err := callWriter(c, ev, fn, lt, feed, nil)
			if err == nil && len(errs.Sent) > 0 {
				err = fmt.Errorf("error reported")
			}
			return out, err
		}, volume: func() (string, string, error) {
			// twelve rows of 30 to 60 kB each (long names, as of records named after file paths, and long SNP lists)
			var feed []eval.Value
			want := "query,SNPs\n"
			for i := 0; i < 12; i++ {
				name := fmt.Sprintf("q%d_", i) + strings.Repeat("n", 30000+2500*i)
				r := absValue(lt, "l", eval.K(0)).(*eval.StructVal)
				r.F["queryname"] = eval.S(name)
				r.F["idx"] = eval.K(int64(i))
				r.F["snps"] = eval.NewSlice(eval.S(fmt.Sprintf("A%dT", i+1)), eval.S("C7G"))
				feed = append(feed, r)
				want += name + fmt.Sprintf(",A%dT|C7G\n", i+1)
			}
			ev := newEval(c)
			out, errs, err := callWriter(c, ev, fn, lt, feed, nil)
			if err == nil && len(errs.Sent) > 0 {
				err = fmt.Errorf("error reported")
			}
			return out, want, err
		}})
	} else {
		und("snps.writeOutput")
	}
	// snps.aggregateWriteOutput: an aggregating consumer takes the records in arrival order; its table must not depend on
	// it - also when two records carry the same name (they are two sequences) and their SNP lists differ
	if fn, lt := c.LookupFunc("pkg/snps", "aggregateWriteOutput"), namedType(c, "pkg/snps", "snpLine"); fn != nil && lt != nil {
		cons = append(cons, consumer{name: "snps.aggregateWriteOutput", pos: fn.Pos(), run: func(order []int) (string, error) {
			var feed []eval.Value
			for _, i := range order {
				r := absValue(lt, "l", eval.K(0)).(*eval.StructVal)
				r.F["queryname"] = eval.S(padName(fmt.Sprintf("q%d", i%3), i)) // q0 q1 q2 q0 q1 ...: names repeat
				r.F["idx"] = eval.K(int64(i))
				r.F["snps"] = eval.NewSlice(eval.S(fmt.Sprintf("A%dT", 1+i%2)), eval.S(fmt.Sprintf("C%dG", 10+i)))
				feed = append(feed, r)
			}
			ev := newEval(c)
			out, errs, err := callWriter(c, ev, fn, lt, feed, map[string]eval.Value{"threshold": eval.FConst(0.3)})
			if err == nil && len(errs.Sent) > 0 {
				err = fmt.Errorf("error reported")
			}
			return out, err
		}})
	}
	// updown.writeOutput
	if fn, lt := c.LookupFunc("pkg/updown", "writeOutput"), namedType(c, "pkg/updown", "updownLine"); fn != nil && lt != nil {
		cons = append(cons, consumer{name: "updown.writeOutput", pos: fn.Pos(), run: func(order []int) (string, error) {
			var feed []eval.Value
			for _, i := range order {
				r := mkLine(lt, padName(fmt.Sprintf("s%d", i), i), int64(i), int64(i))
				r.F["ambs"] = eval.NewSlice(eval.K(int64(i+1)), eval.K(int64(i+2)))
				r.F["snps"] = eval.NewSlice(eval.S(fmt.Sprintf("A%dC", i+5)))
				feed = append(feed, r)
			}
			ev := newEval(c)
			out, errs, err := callWriter(c, ev, fn, lt, feed, nil)
			if err == nil && len(errs.Sent) > 0 {
				err = fmt.Errorf("error reported")
			}
			return out, err
		}})
	} else {
		und("updown.writeOutput")
	}
	// variants.WriteVariants, with the reference record in the middle of the file
	if fn := c.LookupFunc("pkg/variants", "WriteVariants"); fn != nil {
		cons = append(cons, consumer{name: "variants.WriteVariants", pos: fn.Pos(), run: func(order []int) (string, error) {
			var feed []eval.Value
			for _, i := range order {
				name := padName(fmt.Sprintf("q%d", i), i)
				if i == 1 {
					name = "ref"
				}
				feed = append(feed, mkAnno(c, name, int64(i), mkVariant(c, "del", int64(i+2), 1, "", "")))
			}
			return evalWriteVariants(c, feed, -1, -1, false, false, "ref")
		}})
	} else {
		und("variants.WriteVariants")
	}
	// updown.reorderRecords (forwards on a channel)
	if fn, lt := c.LookupFunc("pkg/updown", "reorderRecords"), namedType(c, "pkg/updown", "updownLine"); fn != nil && lt != nil {
		cons = append(cons, consumer{name: "updown.reorderRecords", pos: fn.Pos(), run: func(order []int) (string, error) {
			var feed []eval.Value
			for _, i := range order {
				feed = append(feed, mkLine(lt, padName(fmt.Sprintf("s%d", i), i), int64(i), 0))
			}
			ev := newEval(c)
			sig := fn.Type().(*types.Signature)
			var args []eval.Value
			var out *eval.ChanVal
			first := true
			for k := 0; k < sig.Params().Len(); k++ {
				t, _ := sig.Params().At(k).Type().Underlying().(*types.Chan)
				switch {
				case t != nil && types.Identical(t.Elem(), lt) && first:
					args = append(args, &eval.ChanVal{Name: "in", Feed: feed})
					first = false
				case t != nil && types.Identical(t.Elem(), lt):
					out = &eval.ChanVal{Name: "out"}
					args = append(args, out)
				default:
					args = append(args, &eval.ChanVal{Name: "done"})
				}
			}
			if _, err := ev.CallFuncBound(fn, args...); err != nil {
				return "", err
			}
			var ids []string
			for _, v := range out.Sent {
				ids = append(ids, v.(*eval.StructVal).F["id"].(eval.Str).Const())
			}
			return strings.Join(ids, ","), nil
		}})
	} else {
		und("updown.reorderRecords")
	}
	// sam.writePairwiseAlignment (stdout)
	if fn, pt := c.LookupFunc("pkg/sam", "writePairwiseAlignment"), namedType(c, "pkg/sam", "alignPair"); fn != nil && pt != nil {
		cons = append(cons, consumer{name: "sam.writePairwiseAlignment", pos: fn.Pos(), run: func(order []int) (string, error) {
			var feed []eval.Value
			for _, i := range order {
				p := absValue(pt, "p", eval.K(0)).(*eval.StructVal)
				p.F["ref"] = bytesVal("AC" + strings.Repeat("-", i) + "GT") // each pair has its own gapped reference row
				p.F["query"] = bytesVal(strings.Repeat("ACGT"[i%4:i%4+1], 4+i))
				p.F["refname"] = eval.S("REF")
				p.F["queryname"] = eval.S(padName(fmt.Sprintf("q%d", i), i))
				p.F["idx"] = eval.K(int64(i))
				feed = append(feed, p)
			}
			ev := newEval(c)
			writes := captureWrites(ev)
			done, errs := &eval.ChanVal{Name: "done"}, &eval.ChanVal{Name: "err"}
			if _, err := ev.CallFunc(fn, eval.S("stdout"), eval.K(-1), &eval.ChanVal{Name: "in", Feed: feed}, done, errs, false); err != nil {
				return "", err
			}
			var sb strings.Builder
			for _, s := range *writes {
				sb.WriteString(s.String())
			}
			return sb.String(), nil
		}})
	} else {
		und("sam.writePairwiseAlignment")
	}
	nItems := 4
	if c.Tier == "thorough" {
		nItems = 5 // all 120 arrival orders of five items
	}
	perms := permutations(nItems)
	inOrder := make([]int, nItems)
	for i := range inOrder {
		inOrder[i] = i
	}
	for _, cn := range cons {
		if !want(cn.name) {
			continue
		}
		n++
		ref, err := cn.run(inOrder)
		if err != nil {
			c.Und(rule+"/"+cn.name, cn.pos, "cannot evaluate: %v", err)
			continue
		}
		if cn.want != nil {
			w := cn.want(nItems)
			c.Ob(rule+"/"+cn.name+"/layout", ref == w, cn.pos, "%d rows arriving in order are written as %q, want %q", nItems, firstN(ref, 300), firstN(w, 300))
		}
		if cn.volume == nil {
			// generic volume run: ten items arriving in order, once with their short names and once with names of 30 to
			// 55 kB; the second output must be the first with each name replaced (what is written for an item does not
			// depend on how many bytes were written before it)
			run := cn.run
			cn.volume = func() (string, string, error) {
				order := []int{0, 1, 2, 3, 4, 5, 6, 7, 8, 9}
				small, err := run(order)
				if err != nil {
					return "", "", err
				}
				reorderPad = func(i int) string { return "_" + strings.Repeat("n", 30000+2500*i) }
				big, err := run(order)
				pad := reorderPad
				reorderPad = nil
				if err != nil {
					return "", "", err
				}
				want := shortName.ReplaceAllStringFunc(small, func(m string) string { return m + pad(int(m[1]-'0')) })
				return big, want, nil
			}
		}
		if cn.volume != nil {
			got, w, err := cn.volume()
			if err != nil {
				c.Und(rule+"/"+cn.name+"/volume", cn.pos, "cannot evaluate: %v", err)
			} else {
				detail := ""
				if got != w {
					detail = fmt.Sprintf("%d bytes written, %d expected; %d rows written, %d expected", len(got), len(w), strings.Count(got, "\n"), strings.Count(w, "\n"))
				}
				c.Ob(rule+"/"+cn.name+"/volume", got == w, cn.pos, "rows of 30-60 kB each: %s", detail)
			}
		}
		var bad []string
		for _, p := range perms {
			got, err := cn.run(p)
			if err != nil {
				bad = append(bad, fmt.Sprintf("arrival order %v: %v", p, err))
				continue
			}
			if got != ref {
				bad = append(bad, fmt.Sprintf("arrival order %v gives %q; in-order arrival gives %q", p, firstN(got, 300), firstN(ref, 300)))
			}
			if len(bad) >= 3 {
				break
			}
		}
		c.Ob(rule+"/"+cn.name+"/arrival-order-independence", len(bad) == 0, cn.pos, "%s", first(bad, 2))
		// The arrival orders above are orders of a handful of items. One thing they cannot show is a buffer with fewer
		// slots than there can be items waiting: nothing in these pipelines limits how far the workers run ahead of the
		// item the writer waits for, so a slot chosen by a REDUCTION of the index (remainder, mask, shift, quotient) is
		// sooner or later shared by two waiting items. Structural necessary condition: the key under which an item is
		// parked is its index, not a reduction of it.
		if parts := strings.SplitN(cn.name, ".", 2); len(parts) == 2 {
			if f := c.SSAFunc("pkg/"+parts[0], parts[1]); f != nil {
				var badKey []string
				kpos := cn.pos
				allInstrs(f, func(fn *ssa.Function, ins ssa.Instruction) {
					var key ssa.Value
					switch x := ins.(type) {
					case *ssa.MapUpdate:
						key = x.Key
					case *ssa.Lookup:
						key = x.Index
					case *ssa.IndexAddr:
						key = x.Index
					case *ssa.Index:
						key = x.Index
					}
					if key == nil {
						return
					}
					if anyOrigin(key, func(o ssa.Value) bool {
						bo, ok := o.(*ssa.BinOp)
						return ok && (bo.Op == token.REM || bo.Op == token.AND || bo.Op == token.SHR || bo.Op == token.QUO || bo.Op == token.AND_NOT)
					}) {
						badKey = append(badKey, fmt.Sprintf("%s: the slot is computed by reducing the index (%s)", c.PosStr(ins.Pos()), key.String()))
						kpos = ins.Pos()
					}
				})
				c.Ob(rule+"/"+cn.name+"/every-waiting-item-has-its-own-slot", len(badKey) == 0, kpos, "%s", first(badKey, 2))
			}
		}
	}
	c.Count("reorderer_arrival_orders_evaluated", n*len(perms))
	return n
}

// reorderPad, when set, lengthens the names of the items the consumer harnesses build (volume runs).
var reorderPad func(i int) string

var shortName = regexp.MustCompile(`\b[sq][0-9]\b`)

func padName(base string, i int) string {
	if reorderPad != nil {
		return base + reorderPad(i)
	}
	return base
}
