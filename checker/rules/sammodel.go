package rules

import (
	"fmt"
	"go/token"
	"strconv"
	"strings"

	"gofasta-verif/core"
	"gofasta-verif/eval"
)

const biogo = "github.com/biogo/hts/sam"

// samRec is the checker's own description of one SAM record.
type samRec struct {
	Name  string
	Flags int
	Pos   int // 0-based
	Cigar string
	Seq   string
}

type cigOp struct {
	Op  byte
	Len int
}

func parseCigar(s string) []cigOp {
	var out []cigOp
	n := 0
	for i := 0; i < len(s); i++ {
		if s[i] >= '0' && s[i] <= '9' {
			n = n*10 + int(s[i]-'0')
			continue
		}
		out = append(out, cigOp{s[i], n})
		n = 0
	}
	return out
}

func cigarQueryLen(s string) int {
	n := 0
	for _, o := range parseCigar(s) {
		switch o.Op {
		case 'M', 'I', 'S', '=', 'X':
			n += o.Len
		}
	}
	return n
}

func cigarRefLen(s string) int {
	n := 0
	for _, o := range parseCigar(s) {
		switch o.Op {
		case 'M', 'D', 'N', '=', 'X':
			n += o.Len
		}
	}
	return n
}

// installBiogo registers models of the biogo/hts/sam API used by pkg/sam.
// biogo's CigarOpType constants (sam.CigarMatch = 0 ... sam.CigarMismatch = 8), in order.
const cigarLetters = "MIDNSHP=X"

func installBiogo(ev *eval.Evaluator) {
	ev.Extern["("+biogo+".CigarOp).Type"] = func(ev *eval.Evaluator, pos token.Pos, recv eval.Value, args []eval.Value) eval.Value {
		return unref(recv).(eval.Tuple)[0]
	}
	ev.Extern["("+biogo+".CigarOp).Len"] = func(ev *eval.Evaluator, pos token.Pos, recv eval.Value, args []eval.Value) eval.Value {
		return unref(recv).(eval.Tuple)[1]
	}
	ev.Extern["("+biogo+".CigarOpType).String"] = func(ev *eval.Evaluator, pos token.Pos, recv eval.Value, args []eval.Value) eval.Value {
		code, _ := linConst(unref(recv))
		if code < 0 || int(code) >= len(cigarLetters) {
			return eval.S("?")
		}
		return eval.S(string(cigarLetters[code]))
	}
	ev.Extern["("+biogo+".CigarOpType).Consumes"] = func(ev *eval.Evaluator, pos token.Pos, recv eval.Value, args []eval.Value) eval.Value {
		code, _ := linConst(unref(recv))
		op := "?"
		if code >= 0 && int(code) < len(cigarLetters) {
			op = string(cigarLetters[code])
		}
		q, r := 0, 0
		switch op {
		case "M", "=", "X":
			q, r = 1, 1
		case "I", "S":
			q = 1
		case "D", "N":
			r = 1
		}
		return &eval.StructVal{F: map[string]eval.Value{"Query": eval.K(int64(q)), "Reference": eval.K(int64(r))}}
	}
	ev.Extern["("+biogo+".Seq).Expand"] = func(ev *eval.Evaluator, pos token.Pos, recv eval.Value, args []eval.Value) eval.Value {
		sv := unref(recv).(*eval.StructVal)
		return sv.F["__bytes"]
	}
	ev.Extern["(*"+biogo+".Reference).Name"] = func(ev *eval.Evaluator, pos token.Pos, recv eval.Value, args []eval.Value) eval.Value {
		return eval.S("REF")
	}
}

// mkSamRecord builds the evaluator value of a biogo sam.Record.
func mkSamRecord(c *core.Ctx, r samRec) *eval.StructVal {
	var ops []eval.Value
	for _, o := range parseCigar(r.Cigar) {
		ops = append(ops, eval.Tuple{eval.K(int64(strings.IndexByte(cigarLetters, o.Op))), eval.K(int64(o.Len))})
	}
	return &eval.StructVal{F: map[string]eval.Value{
		"Name":  eval.S(r.Name),
		"Flags": eval.K(int64(r.Flags)),
		"Pos":   eval.K(int64(r.Pos)),
		"Cigar": eval.NewSlice(ops...),
		"Seq":   &eval.StructVal{F: map[string]eval.Value{"__bytes": bytesVal(r.Seq)}},
		"Ref":   eval.Opaque{Why: "reference"},
		"MapQ":  eval.K(60),
	}}
}

// samReaderModel feeds records to groupSamRecords.
type samReaderModel struct {
	recs []samRec
	pos  int
	c    *core.Ctx
}

// samOpenErrEOF selects which failure NewReader reports when it is told to fail: a header-less stream (false) or an
// empty one (true, io.EOF - which the record loop treats as the normal end of input).
var samOpenErrEOF bool

func installSamReader(c *core.Ctx, ev *eval.Evaluator, recs []samRec, failNew bool, failReadAt int) {
	installBiogo(ev)
	ev.Extern[biogo+".NewReader"] = func(ev *eval.Evaluator, pos token.Pos, recv eval.Value, args []eval.Value) eval.Value {
		if failNew {
			if samOpenErrEOF { // a zero-byte stream: the library reports io.EOF from NewReader
				return eval.Tuple{eval.Nil{}, eval.ErrVal{Msg: eval.SSym("io.EOF")}}
			}
			return eval.Tuple{eval.Nil{}, eval.ErrVal{Msg: eval.S("sam: invalid header")}}
		}
		m := &samReaderModel{recs: recs, c: c}
		return eval.Tuple{&eval.Ref{Get: func() eval.Value { return m }, Set: func(eval.Value) {}}, eval.Nil{}}
	}
	ev.Extern["(*"+biogo+".Reader).Header"] = func(ev *eval.Evaluator, pos token.Pos, recv eval.Value, args []eval.Value) eval.Value {
		if _, ok := unref(recv).(*samReaderModel); !ok {
			panic(&eval.EvalError{Pos: pos, Msg: "nil dereference: Header() called on a reader that failed to open (panic)"})
		}
		h := &eval.StructVal{F: map[string]eval.Value{"__header": eval.S("hdr")}}
		return &eval.Ref{Get: func() eval.Value { return h }, Set: func(eval.Value) {}}
	}
	ev.Extern["(*"+biogo+".Reader).Read"] = func(ev *eval.Evaluator, pos token.Pos, recv eval.Value, args []eval.Value) eval.Value {
		m, ok := unref(recv).(*samReaderModel)
		if !ok {
			panic(&eval.EvalError{Pos: pos, Msg: "nil dereference: Read() called on a reader that failed to open (panic)"})
		}
		if failReadAt >= 0 && m.pos == failReadAt {
			m.pos++
			return eval.Tuple{eval.Nil{}, eval.ErrVal{Msg: eval.S("sam: malformed record")}}
		}
		if m.pos >= len(m.recs) {
			return eval.Tuple{eval.Nil{}, eval.ErrVal{Msg: eval.SSym("io.EOF")}}
		}
		r := mkSamRecord(c, m.recs[m.pos])
		m.pos++
		return eval.Tuple{&eval.Ref{Get: func() eval.Value { return r }, Set: func(eval.Value) {}}, eval.Nil{}}
	}
}

// ---------------------------------------------------------------- specification: projection onto the reference

// projectRecord returns the reference-length row of one record: 0 = not covered.
func projectRecord(r samRec, refLen int) []byte {
	row := make([]byte, refLen)
	q, p := 0, r.Pos
	for _, o := range parseCigar(r.Cigar) {
		switch o.Op {
		case 'M', '=', 'X':
			for i := 0; i < o.Len; i++ {
				if p < refLen {
					row[p] = r.Seq[q]
				}
				p++
				q++
			}
		case 'I', 'S':
			q += o.Len
		case 'D':
			for i := 0; i < o.Len; i++ {
				if p < refLen {
					row[p] = '-'
				}
				p++
			}
		case 'N':
			p += o.Len
		}
	}
	return row
}

// flattenSpec merges the rows of one query: base > deletion > nothing, two different bases -> N.
func flattenSpec(rows [][]byte) string {
	n := len(rows[0])
	out := make([]byte, n)
	for i := 0; i < n; i++ {
		var site []byte
		for _, r := range rows {
			if r[i] == 0 {
				site = append(site, '*')
			} else {
				site = append(site, r[i])
			}
		}
		if len(rows) == 1 {
			out[i] = site[0]
		} else {
			out[i] = siteSpec(site)
		}
	}
	return string(out)
}

func specMultiAlignRow(recs []samRec, refLen int, pad bool) (string, bool) {
	var rows [][]byte
	for _, r := range recs {
		rows = append(rows, projectRecord(r, refLen))
	}
	return flankSpec(flattenSpec(rows), pad)
}

func recString(rs []samRec) string {
	var parts []string
	for _, r := range rs {
		parts = append(parts, fmt.Sprintf("%s@%d:%s:%s", r.Name, r.Pos+1, r.Cigar, r.Seq))
	}
	return strings.Join(parts, " + ")
}

// seqFor builds a query sequence of distinct letters for a CIGAR.
func seqFor(cigar string, alphabet string) string {
	n := cigarQueryLen(cigar)
	var sb strings.Builder
	for i := 0; i < n; i++ {
		sb.WriteByte(alphabet[i%len(alphabet)])
	}
	return sb.String()
}

func itoaS(n int) string { return strconv.Itoa(n) }
