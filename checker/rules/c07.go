package rules

import (
	"fmt"
	"go/ast"
	"go/token"
	"go/types"
	"sort"
	"strings"

	"golang.org/x/tools/go/ssa"

	"gofasta-verif/algebra"
	"gofasta-verif/core"
	"gofasta-verif/eval"
	"gofasta-verif/oracle"
)

func init() { register("C07", C07) }

// column classes of the specification (over symbols of the 17-letter alphabet, soft gaps)
func clsDisjoint(q, t byte) bool { return disjoint(q, t, false) }
func clsResEq(q, t byte) bool    { return oracle.Resolved(q) && q == t }
func clsBothRes(q, t byte) bool  { return oracle.Resolved(q) && oracle.Resolved(t) }
func clsResDiff(q, t byte) bool  { return clsBothRes(q, t) && q != t }
func clsPair(x, y byte) func(q, t byte) bool {
	return func(q, t byte) bool { return (q == x && t == y) || (q == y && t == x) }
}

type colClass struct {
	name string
	fn   func(q, t byte) int64
}

func b2i(b bool) int64 {
	if b {
		return 1
	}
	return 0
}

// distanceSummary interprets a distance function abstractly and returns its column-loop summary and result.
type distEval struct {
	sum    *eval.LoopSummary
	result *eval.FExpr
	qSeq   string
	tSeq   string
	deltas map[string]map[[2]byte]int64 // counter -> (q,t) -> delta
}

func evalDistance(c *core.Ctx, tabs *Tables, key string, fn *types.Func) *distEval {
	sig := fn.Type().(*types.Signature)
	if sig.Params().Len() != 2 {
		c.Und(key, fn.Pos(), "expected (query, target) parameters")
		return nil
	}
	L := eval.Sym("L")
	q := absValue(sig.Params().At(0).Type(), "q", L)
	t := absValue(sig.Params().At(1).Type(), "t", L)
	ev := newEval(c)
	dom := tabs.domain(false)
	ev.Domain = func(s eval.AbsSeq) []eval.Value { return codeValues(dom) }
	res, err := ev.CallFunc(fn, q, t)
	if err != nil {
		c.Und(key, fn.Pos(), "cannot evaluate %s: %v", fn.Name(), err)
		return nil
	}
	fe, ok := res.(*eval.FExpr)
	if !ok {
		c.Und(key, fn.Pos(), "%s does not return a float expression (%s)", fn.Name(), eval.Show(res))
		return nil
	}
	sum := loopOver(ev, "t.Seq")
	if sum == nil {
		sum = loopOver(ev, "q.Seq")
	}
	if sum == nil && len(ev.Loops) == 1 {
		sum = ev.Loops[0] // an index loop `for i := 0; i < len(seq); i++` instead of a range loop
	}
	if sum == nil {
		c.Und(key, fn.Pos(), "no column loop over a record sequence")
		return nil
	}
	if len(ev.Loops) != 1 {
		c.Und(key, fn.Pos(), "%d abstract loops, expected one column loop", len(ev.Loops))
		return nil
	}
	de := &distEval{sum: sum, result: fe, qSeq: "q.Seq", tSeq: "t.Seq", deltas: map[string]map[[2]byte]int64{}}
	var bad []string
	n := 0
	for _, name := range sum.Carried {
		de.deltas[name] = map[[2]byte]int64{}
	}
	for _, qp := range dom {
		for _, tp := range dom {
			n++
			runs := runsMatching(sum, map[string]int64{de.qSeq: qp.Code, de.tSeq: tp.Code}, nil)
			if len(runs) != 1 {
				bad = append(bad, fmt.Sprintf("%c/%c: %d abstract runs", qp.Sym, tp.Sym, len(runs)))
				continue
			}
			r := runs[0]
			if r.Err != nil {
				bad = append(bad, fmt.Sprintf("%c/%c: %v", qp.Sym, tp.Sym, r.Err))
				continue
			}
			if r.Ctrl == "break" || r.Ctrl == "return" {
				bad = append(bad, fmt.Sprintf("%c/%c: column loop exits early", qp.Sym, tp.Sym))
			}
			for _, name := range sum.Carried {
				d, ok := delta(sum, r, name)
				if !ok {
					bad = append(bad, fmt.Sprintf("%c/%c: %s is not moved by a constant (%s)", qp.Sym, tp.Sym, name, eval.Show(r.Final[name])))
					continue
				}
				de.deltas[name][[2]byte{qp.Sym, tp.Sym}] = d
			}
		}
	}
	c.Count("domain_points_evaluated", n)
	if len(bad) > 0 {
		c.Ob(key+"/transfer-function", false, sum.Pos, "%s", first(bad, 6))
		return nil
	}
	return de
}

// classify names each counter after the specification class whose truth table it has.
func (de *distEval) classify(classes []colClass) (map[string]string, []string) {
	role := map[string]string{}
	var unknown []string
	for name, tab := range de.deltas {
		found := ""
		for _, cl := range classes {
			same := true
			for pair, d := range tab {
				if cl.fn(pair[0], pair[1]) != d {
					same = false
					break
				}
			}
			if same {
				found = cl.name
				break
			}
		}
		if found == "" {
			// describe where it deviates from the nearest class
			best, bestMiss := "", 1<<30
			var bestPairs []string
			for _, cl := range classes {
				var miss []string
				for pair, d := range tab {
					if cl.fn(pair[0], pair[1]) != d {
						miss = append(miss, fmt.Sprintf("%c/%c:%+d", pair[0], pair[1], d))
					}
				}
				if len(miss) < bestMiss {
					best, bestMiss, bestPairs = cl.name, len(miss), miss
				}
			}
			unknown = append(unknown, fmt.Sprintf("counter %s matches no specified column class (closest: %s, differs at %s)", name, best, first(bestPairs, 6)))
			continue
		}
		role[name] = found
	}
	sort.Strings(unknown)
	return role, unknown
}

// decompose writes each counter as an integer combination of the basis classes, which are pairwise disjoint column
// classes: the coefficient of a class is the counter's step on the columns of that class (it must be the same on all of
// them), and the counter must not move on columns that belong to no class. How the code splits its counting among
// variables is then immaterial (n and d; differ and same; ...): the returned expression is compared after substitution.
func (de *distEval) decompose(basis []colClass) (map[string]string, []string) {
	subst := map[string]string{}
	var unknown []string
	var names []string
	for name := range de.deltas {
		names = append(names, name)
	}
	sort.Strings(names)
	for _, name := range names {
		tab := de.deltas[name]
		coef := map[string]int64{}
		seen := map[string]bool{}
		var why []string
		for pair, d := range tab {
			in := ""
			for _, cl := range basis {
				if cl.fn(pair[0], pair[1]) != 0 {
					in = cl.name
				}
			}
			if in == "" {
				if d != 0 {
					why = append(why, fmt.Sprintf("%c/%c:%+d on a column of no specified class", pair[0], pair[1], d))
				}
				continue
			}
			if seen[in] && coef[in] != d {
				why = append(why, fmt.Sprintf("%c/%c:%+d but %+d on other %s columns", pair[0], pair[1], d, coef[in], in))
				continue
			}
			seen[in], coef[in] = true, d
		}
		if len(why) > 0 {
			sort.Strings(why)
			unknown = append(unknown, fmt.Sprintf("counter %s is not a combination of the specified column classes (%s)", name, first(why, 6)))
			continue
		}
		var terms []string
		for _, cl := range basis {
			if coef[cl.name] != 0 {
				terms = append(terms, fmt.Sprintf("%d*%s", coef[cl.name], cl.name))
			}
		}
		subst[name] = "lin:" + strings.Join(terms, "+")
	}
	return subst, unknown
}

func fi(name string) *eval.FExpr { return eval.FInt(eval.Sym(name)) }
func fop(op string, a, b *eval.FExpr) *eval.FExpr {
	return &eval.FExpr{Op: op, A: a, B: b}
}

// tn93Oracle is Tamura & Nei (1993) eq. 7 written from the paper, in terms of
// base counts nA,nC,nG,nT, transition counts p1 (A<->G), p2 (C<->T), all
// differences dd and compared sites Lc.
func tn93Oracle() *eval.FExpr {
	n := fop("+", fop("+", fi("nA"), fi("nC")), fop("+", fi("nG"), fi("nT")))
	gA, gC, gG, gT := fop("/", fi("nA"), n), fop("/", fi("nC"), n), fop("/", fi("nG"), n), fop("/", fi("nT"), n)
	gR, gY := fop("+", gA, gG), fop("+", gC, gT)
	P1, P2 := fop("/", fi("p1"), fi("Lc")), fop("/", fi("p2"), fi("Lc"))
	Q := fop("/", fop("-", fi("dd"), fop("+", fi("p1"), fi("p2"))), fi("Lc"))
	two, one := eval.FConst(2), eval.FConst(1)
	// d = -(2gAgG/gR) ln(1 - gR/(2gAgG) P1 - Q/(2gR))
	//     -(2gTgC/gY) ln(1 - gY/(2gTgC) P2 - Q/(2gY))
	//     -2(gRgY - gAgGgY/gR - gTgCgR/gY) ln(1 - Q/(2gRgY))
	c1 := fop("/", fop("*", two, fop("*", gA, gG)), gR)
	a1 := fop("-", fop("-", one, fop("*", fop("/", gR, fop("*", two, fop("*", gA, gG))), P1)), fop("/", Q, fop("*", two, gR)))
	c2 := fop("/", fop("*", two, fop("*", gT, gC)), gY)
	a2 := fop("-", fop("-", one, fop("*", fop("/", gY, fop("*", two, fop("*", gT, gC))), P2)), fop("/", Q, fop("*", two, gY)))
	c3 := fop("*", two, fop("-", fop("-", fop("*", gR, gY), fop("/", fop("*", fop("*", gA, gG), gY), gR)), fop("/", fop("*", fop("*", gT, gC), gR), gY)))
	a3 := fop("-", one, fop("/", Q, fop("*", two, fop("*", gR, gY))))
	lg := func(x *eval.FExpr) *eval.FExpr { return &eval.FExpr{Op: "log", A: x} }
	neg := func(x *eval.FExpr) *eval.FExpr { return &eval.FExpr{Op: "neg", A: x} }
	return fop("-", fop("-", neg(fop("*", c1, lg(a1))), fop("*", c2, lg(a2))), fop("*", c3, lg(a3)))
}

func C07(c *core.Ctx) {
	c.Explanation("C07: each of rawDistance, snpDistance and tn93Distance is interpreted abstractly; its column loop is reduced to a per-column transfer function evaluated for all 17x17 symbol pairs (soft gaps), every counter is classified by its truth table against the specified column classes (disjoint base sets; same unambiguous base; both A/C/G/T and different; A<->G; C<->T) from an independent IUPAC oracle, and the returned float expression is compared, as an algebraic identity over rational functions with logarithm atoms, with n/d, n and Tamura-Nei 1993 eq. 7 written out independently; the base-count fields entering eq. 7 are shown to be filled by the scoring reader from the table codes of A, C, G, T and never by the list reader that produces queries.")
	checkUndefinedDistance(c, "R9")
	checkMeasureDispatch(c, "R2")
	checkSoftGapReaders(c, "R6", "pkg/closest")
	ev := newEval(c)
	tabs := extractTables(c, ev, "R0")
	if !tabs.OK {
		return
	}
	// the completeness score and base counts attached to each target are those of its whole sequence, however the file is wrapped
	checkReaders(c, tabs, "R7/", true, "ReadEncodeScoreAlignment")
	c07Identities(c, tabs)
	c07Counts(c, tabs)
}

// c07Identities: the three distance functions as per-column transfer functions and algebraic identities (shared with
// C06: the distances that are ranked are these exact values - no rounding, clamping or bucketing).
func c07Identities(c *core.Ctx, tabs *Tables) {
	one := func(f func(q, t byte) bool) func(q, t byte) int64 {
		return func(q, t byte) int64 { return b2i(f(q, t)) }
	}
	rename := func(role map[string]string, sum *eval.LoopSummary, extra func(string) string) func(string) string {
		post := map[string]string{}
		for name, r := range role {
			post[sum.Post[name]] = r
		}
		return func(s string) string {
			if r, ok := post[s]; ok {
				return r
			}
			if extra != nil {
				return extra(s)
			}
			return s
		}
	}
	nfn := 0
	// ---- snp
	if fn := c.LookupFunc("pkg/closest", "snpDistance"); fn == nil {
		c.Und("R1/snpDistance", token.NoPos, "UNRESOLVED anchor closest.snpDistance")
	} else if de := evalDistance(c, tabs, "R1/snpDistance", fn); de != nil {
		nfn++
		role, unknown := de.decompose([]colClass{{"n", one(clsDisjoint)}})
		c.Ob("R1/snpDistance/column-classes", len(unknown) == 0, de.sum.Pos, "%s", strings.Join(unknown, "; "))
		got, err1 := algebra.Normalise(de.result, rename(role, de.sum, nil))
		want, _ := algebra.Normalise(fi("n"), nil)
		if err1 != nil {
			if strings.Contains(err1.Error(), "unsupported float operator") {
				c.Ob("R2/snpDistance/result", false, fn.Pos(), "the value returned is not the specified quantity: it is post-processed (%v) - returned expression %s", err1, de.result)
			} else {
				c.Und("R2/snpDistance/result", fn.Pos(), "cannot normalise result %s: %v", de.result, err1)
			}
		} else {
			eq, diff := algebra.Equal(got, want)
			c.Ob("R2/snpDistance/result", eq, fn.Pos(), "returned %s, specified: number of disjoint columns; %s", de.result, diff)
		}
		c.Sample(map[string]string{"rule": "R1", "function": "snpDistance", "counter": "n", "class": "disjoint base sets", "pairs": "289"})
	}
	// ---- raw
	if fn := c.LookupFunc("pkg/closest", "rawDistance"); fn == nil {
		c.Und("R1/rawDistance", token.NoPos, "UNRESOLVED anchor closest.rawDistance")
	} else if de := evalDistance(c, tabs, "R1/rawDistance", fn); de != nil {
		nfn++
		role, unknown := de.decompose([]colClass{{"n", one(clsDisjoint)}, {"s", one(clsResEq)}})
		c.Ob("R1/rawDistance/column-classes", len(unknown) == 0, de.sum.Pos, "%s", strings.Join(unknown, "; "))
		got, err1 := algebra.Normalise(de.result, rename(role, de.sum, nil))
		want, _ := algebra.Normalise(fop("/", fi("n"), fop("+", fi("n"), fi("s"))), nil)
		if err1 != nil {
			if strings.Contains(err1.Error(), "unsupported float operator") {
				c.Ob("R2/rawDistance/result", false, fn.Pos(), "the value returned is not the specified quantity: it is post-processed (%v) - returned expression %s", err1, de.result)
			} else {
				c.Und("R2/rawDistance/result", fn.Pos(), "cannot normalise result %s: %v", de.result, err1)
			}
		} else {
			eq, diff := algebra.Equal(got, want)
			c.Ob("R2/rawDistance/result", eq, fn.Pos(), "returned %s, specified n/d with n=disjoint columns, d=n+same-unambiguous-base columns; %s", de.result, diff)
		}
	}
	// ---- tn93
	if fn := c.LookupFunc("pkg/closest", "tn93Distance"); fn == nil {
		c.Und("R1/tn93Distance", token.NoPos, "UNRESOLVED anchor closest.tn93Distance")
	} else if de := evalDistance(c, tabs, "R1/tn93Distance", fn); de != nil {
		nfn++
		role, unknown := de.decompose([]colClass{
			{"p1", one(clsPair('A', 'G'))},
			{"p2", one(clsPair('C', 'T'))},
			{"qv", func(q, t byte) int64 {
				return b2i(clsResDiff(q, t) && !clsPair('A', 'G')(q, t) && !clsPair('C', 'T')(q, t))
			}}, // transversions
			{"s", func(q, t byte) int64 { return b2i(clsBothRes(q, t) && !clsResDiff(q, t)) }}, // both resolved and equal
		})
		c.Ob("R1/tn93Distance/column-classes", len(unknown) == 0, de.sum.Pos, "%s", strings.Join(unknown, "; "))
		// frequencies: target's counts; the query record never carries counts (R3)
		counts := func(s string) string {
			switch s {
			case "t.Count_A":
				return "nA"
			case "t.Count_C":
				return "nC"
			case "t.Count_G":
				return "nG"
			case "t.Count_T":
				return "nT"
			case "q.Count_A", "q.Count_C", "q.Count_G", "q.Count_T":
				return "0"
			}
			return s
		}
		got, err1 := algebra.Normalise(de.result, rename(role, de.sum, counts))
		want, err2 := algebra.Normalise(tn93Oracle(), func(s string) string {
			switch s {
			case "dd": // all differences between resolved bases
				return "lin:1*p1+1*p2+1*qv"
			case "Lc": // all columns where both bases are resolved
				return "lin:1*p1+1*p2+1*qv+1*s"
			}
			return s
		})
		if err1 != nil || err2 != nil {
			if err1 != nil && strings.Contains(err1.Error(), "unsupported float operator") {
				c.Ob("R2/tn93Distance/eq7", false, fn.Pos(), "the value returned is not Tamura-Nei eq. 7: it is post-processed (%v)", err1)
			} else {
				c.Und("R2/tn93Distance/eq7", fn.Pos(), "cannot normalise: %v %v", err1, err2)
			}
		} else {
			eq, diff := algebra.Equal(got, want)
			c.Ob("R2/tn93Distance/eq7", eq, fn.Pos(), "returned expression is not Tamura-Nei eq. 7: %s", diff)
			c.Count("algebraic_identities_checked", 1)
			c.Sample(map[string]interface{}{"rule": "R2", "function": "tn93Distance", "log_terms": len(got.Logs), "identity": "d == TN93 eq.7 over nA,nC,nG,nT,p1,p2,dd,Lc"})
		}
	}
	c.Floor("R1/distance-functions", nfn, 3)
}

// c07Counts: R3 — who writes the Count_* fields and from which table index.
func c07Counts(c *core.Ctx, tabs *Tables) {
	want := map[string]int64{"Count_A": tabs.Soft['A'], "Count_C": tabs.Soft['C'], "Count_G": tabs.Soft['G'], "Count_T": tabs.Soft['T']}
	p := c.Pkgs["pkg/fastaio"]
	if p == nil {
		c.Und("R3/counts", token.NoPos, "UNRESOLVED package fastaio")
		return
	}
	writers := map[string]int{}
	nAssign := 0
	for _, file := range p.Syntax {
		for _, d := range file.Decls {
			fd, ok := d.(*ast.FuncDecl)
			if !ok || fd.Body == nil {
				continue
			}
			ast.Inspect(fd.Body, func(n ast.Node) bool {
				as, ok := n.(*ast.AssignStmt)
				if !ok {
					return true
				}
				for i, l := range as.Lhs {
					sel, ok := l.(*ast.SelectorExpr)
					if !ok {
						continue
					}
					w, isCount := want[sel.Sel.Name]
					if !isCount || i >= len(as.Rhs) {
						continue
					}
					writers[fd.Name.Name]++
					nAssign++
					key := "R3/count-source/" + fd.Name.Name + "/" + sel.Sel.Name
					ix, ok := as.Rhs[i].(*ast.IndexExpr)
					if !ok {
						c.Ob(key, false, as.Pos(), "%s is not filled from a per-code counting table", sel.Sel.Name)
						continue
					}
					tv := p.TypesInfo.Types[ix.Index]
					if tv.Value == nil {
						c.Ob(key, false, as.Pos(), "%s is filled from a non-constant index", sel.Sel.Name)
						continue
					}
					c.Ob(key, tv.Value.ExactString() == fmt.Sprint(w), as.Pos(), "%s is filled from counting[%s]; the code of that base is %d", sel.Sel.Name, tv.Value.ExactString(), w)
				}
				return true
			})
		}
	}
	// no floor: the assignments may live in a helper (`fr.setBaseCounts(&counting)`); that the scoring reader's counts are
	// those of the sequence is decided by interpretation (R7/D/ReadEncodeScoreAlignment/layout-independent-records)
	c.Count("count_field_assignments", nAssign)
	c.Ob("R3/list-reader-writes-no-counts", writers["ReadEncodeAlignmentToList"] == 0, funcPos(c, "pkg/fastaio", "ReadEncodeAlignmentToList"), "the query reader fills base counts, so frequencies would not be the target's")
	// composite literals must not set counts either
	// who feeds the distance functions: query = caller's record parameter, target = value received from the channel
	for _, fname := range []string{"findClosest", "findClosestN"} {
		f := c.SSAFunc("pkg/closest", fname)
		if f == nil {
			c.Und("R3/argument-roles/"+fname, token.NoPos, "UNRESOLVED anchor closest.%s", fname)
			continue
		}
		n := 0
		// origins of a value in the frame of f: a helper's parameter stands for what f hands it
		var rootsOf func(v ssa.Value, env map[*ssa.Parameter]ssa.Value, outer func(ssa.Value) []ssa.Value) []ssa.Value
		rootsOf = func(v ssa.Value, env map[*ssa.Parameter]ssa.Value, outer func(ssa.Value) []ssa.Value) []ssa.Value {
			var out []ssa.Value
			for _, o := range origins(v) {
				if p, isP := o.(*ssa.Parameter); isP && env != nil {
					if bound, has := env[p]; has {
						out = append(out, outer(bound)...)
						continue
					}
				}
				out = append(out, o)
			}
			return out
		}
		var visit func(g *ssa.Function, env map[*ssa.Parameter]ssa.Value, outer func(ssa.Value) []ssa.Value, depth int)
		visit = func(g *ssa.Function, env map[*ssa.Parameter]ssa.Value, outer func(ssa.Value) []ssa.Value, depth int) {
			here := func(v ssa.Value) []ssa.Value { return rootsOf(v, env, outer) }
			allInstrs(g, func(fn *ssa.Function, ins ssa.Instruction) {
				call, ok := ins.(ssa.CallInstruction)
				if !ok {
					return
				}
				cal := calleeOf(call)
				name := ""
				if cal != nil && (cal.Name() == currentName(c, "pkg/closest", "rawDistance") || cal.Name() == currentName(c, "pkg/closest", "snpDistance") || cal.Name() == currentName(c, "pkg/closest", "tn93Distance")) {
					name = cal.Name()
				} else if cal == nil && !call.Common().IsInvoke() && isDistanceSignature(call.Common().Signature()) {
					name = "distance function value" // the measure selected through a table of functions
				}
				if name == "" {
					// a helper of the package that is handed records: the distance may be taken there
					if cal != nil && depth < 2 && cal.Pkg == g.Pkg && cal != g && len(cal.Blocks) > 0 {
						sub := map[*ssa.Parameter]ssa.Value{}
						for i, a := range call.Common().Args {
							if i < len(cal.Params) {
								sub[cal.Params[i]] = a
							}
						}
						visit(cal, sub, here, depth+1)
					}
					return
				}
				n++
				args := call.Common().Args
				all := func(vs []ssa.Value, pred func(ssa.Value) bool) bool {
					if len(vs) == 0 {
						return false
					}
					for _, v := range vs {
						if !pred(v) {
							return false
						}
					}
					return true
				}
				qIsParam := all(here(args[0]), func(o ssa.Value) bool { p, ok := o.(*ssa.Parameter); return ok && p.Parent() == f })
				tFromChan := all(here(args[1]), func(o ssa.Value) bool { return fromChannel(o) })
				c.Ob("R3/argument-roles/"+fname+"/"+name, qIsParam && tFromChan, ins.Pos(), "distance called with (query=%s, target=%s); expected (the query parameter, the record received from the target channel)", args[0].Name(), args[1].Name())
			})
		}
		visit(f, nil, func(v ssa.Value) []ssa.Value { return origins(v) }, 0)
		c.Floor("R3/argument-roles/"+fname, n, 1)
	}
	// the readers used for queries and targets
	for _, entry := range []string{"Closest", "ClosestN"} {
		f := c.SSAFunc("pkg/closest", entry)
		if f == nil {
			c.Und("R3/readers/"+entry, token.NoPos, "UNRESOLVED anchor closest.%s", entry)
			continue
		}
		var listReader, scoreReader bool
		allInstrs(f, func(fn *ssa.Function, ins ssa.Instruction) {
			if call, ok := ins.(ssa.CallInstruction); ok {
				if cal := calleeOf(call); cal != nil {
					switch cal.Name() {
					case "ReadEncodeAlignmentToList":
						listReader = true
					case "ReadEncodeScoreAlignment":
						scoreReader = true
					}
				}
			}
		})
		c.Ob("R3/readers/"+entry, listReader && scoreReader, f.Pos(), "queries must come from the list reader (no counts) and targets from the scoring reader (counts): list=%v score=%v", listReader, scoreReader)
	}
}

// fromChannel reports whether v is (derived from) a value received from a channel.
func fromChannel(v ssa.Value) bool {
	seen := map[ssa.Value]bool{}
	var rec func(v ssa.Value) bool
	rec = func(v ssa.Value) bool {
		if seen[v] {
			return false
		}
		seen[v] = true
		switch x := v.(type) {
		case *ssa.UnOp:
			if x.Op == token.ARROW {
				return true
			}
			return rec(x.X)
		case *ssa.Extract:
			return rec(x.Tuple)
		case *ssa.Phi:
			for _, e := range x.Edges {
				if rec(e) {
					return true
				}
			}
		}
		return false
	}
	return rec(v)
}

// isDistanceSignature: func(record, record) float64 over one record type of the repository.
func isDistanceSignature(sig *types.Signature) bool {
	if sig == nil || sig.Params().Len() != 2 || sig.Results().Len() != 1 {
		return false
	}
	b, ok := sig.Results().At(0).Type().Underlying().(*types.Basic)
	if !ok || b.Kind() != types.Float64 {
		return false
	}
	a0, a1 := sig.Params().At(0).Type(), sig.Params().At(1).Type()
	if !types.Identical(a0, a1) {
		return false
	}
	n, ok := a0.(*types.Named)
	return ok && n.Obj().Pkg() != nil && strings.HasPrefix(n.Obj().Pkg().Path(), core.ModPath)
}
