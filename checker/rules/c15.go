package rules

import (
	"fmt"
	"go/constant"
	"go/token"
	"go/types"
	"sort"
	"strings"

	"golang.org/x/tools/go/ssa"

	"gofasta-verif/core"
	"gofasta-verif/eval"
)

func init() { register("C15", C15) }

func bytesVal(s string) eval.Value {
	vs := make([]eval.Value, len(s))
	for i := 0; i < len(s); i++ {
		vs[i] = eval.K(int64(s[i]))
	}
	return eval.NewSlice(vs...)
}

func bytesStr(v eval.Value) (string, bool) {
	switch x := v.(type) {
	case eval.Slice:
		var sb strings.Builder
		for _, e := range x.Elems() {
			n, ok := linConst(e)
			if !ok {
				return "", false
			}
			sb.WriteByte(byte(n))
		}
		return sb.String(), true
	case eval.Str:
		if x.IsConst() {
			return x.Const(), true
		}
	}
	return "", false
}

func isLetter(b byte) bool { return (b >= 'A' && b <= 'Z') || (b >= 'a' && b <= 'z') }

// flankSpec is the specified rewrite of uncovered positions ('*').
func flankSpec(raw string, pad bool) (string, bool) {
	out := []byte(raw)
	if pad {
		for i := range out {
			if out[i] == '*' {
				out[i] = 'N'
			}
		}
		return string(out), true
	}
	first, last := -1, -1
	for i := range out {
		if isLetter(out[i]) {
			if first < 0 {
				first = i
			}
			last = i
		}
	}
	if first < 0 {
		return "", false // no aligned base at all: not specified
	}
	for i := range out {
		if out[i] == '*' {
			if i < first || i > last {
				out[i] = '-'
			} else {
				out[i] = 'N'
			}
		}
	}
	return string(out), true
}

func allStrings(alpha string, maxLen int) []string {
	var out []string
	var rec func(cur string)
	rec = func(cur string) {
		if cur != "" {
			out = append(out, cur)
		}
		if len(cur) == maxLen {
			return
		}
		for i := 0; i < len(alpha); i++ {
			rec(cur + string(alpha[i]))
		}
	}
	rec("")
	return out
}

// checkSamCheckArgs: exhaustive over small values (the function only compares its arguments).
func checkSamCheckArgs(c *core.Ctx, rule string) {
	fn := c.LookupFunc("pkg/sam", "checkArgs")
	if fn == nil {
		c.Und(rule+"/sam.checkArgs", token.NoPos, "UNRESOLVED anchor sam.checkArgs")
		return
	}
	ev := newEval(c)
	var bad []string
	n := 0
	for refLen := 1; refLen <= 4; refLen++ {
		for s := -2; s <= 6; s++ {
			for e := -2; e <= 6; e++ {
				n++
				v, err := ev.CallFunc(fn, eval.K(int64(refLen)), eval.K(int64(s)), eval.K(int64(e)))
				if err != nil {
					bad = append(bad, fmt.Sprintf("undecided: %v", err))
					continue
				}
				// the results by kind, wherever they sit (separate results or fields of a window struct): one error, one
				// boolean, two integers of which the smaller is the first kept base whenever the window is accepted
				var ints []int64
				var bools []bool
				isErr := false
				var walk func(x eval.Value)
				walk = func(x eval.Value) {
					switch y := unref(x).(type) {
					case eval.Tuple:
						for _, e := range y {
							walk(e)
						}
					case *eval.StructVal:
						var ks []string
						for k := range y.F {
							ks = append(ks, k)
						}
						sort.Strings(ks)
						for _, k := range ks {
							walk(y.F[k])
						}
					case eval.ErrVal:
						isErr = true
					case eval.Lin:
						if y.IsConst() {
							ints = append(ints, y.C)
						}
					case bool:
						bools = append(bools, y)
					}
				}
				walk(v)
				ws, we := s, e
				if s == -1 {
					ws = 1
				}
				if e == -1 {
					we = refLen
				}
				wantErr := !(1 <= ws && ws <= we && we <= refLen)
				if isErr != wantErr {
					bad = append(bad, fmt.Sprintf("refLen=%d start=%d end=%d: error=%v, want %v", refLen, s, e, isErr, wantErr))
					continue
				}
				if isErr {
					continue
				}
				if len(ints) != 2 || len(bools) != 1 {
					bad = append(bad, fmt.Sprintf("refLen=%d start=%d end=%d: result %s is not a window (two integers and a flag)", refLen, s, e, eval.Show(v)))
					continue
				}
				sort.Slice(ints, func(a, b int) bool { return ints[a] < ints[b] })
				gs, ge, gt := ints[0], ints[1], bools[0]
				if int(gs) != ws || int(ge) != we || gt != (s != -1 || e != -1) {
					bad = append(bad, fmt.Sprintf("refLen=%d start=%d end=%d -> (%d,%d,trim=%v), want (%d,%d,trim=%v)", refLen, s, e, gs, ge, gt, ws, we, s != -1 || e != -1))
				}
			}
		}
	}
	c.Count("window_points_evaluated", n)
	c.Ob(rule+"/sam.checkArgs/window-validation", len(bad) == 0, fn.Pos(), "%s", first(bad, 5))
}

// checkGetFastaRecord: flank rewrite, trim and pad on all short rows.
func checkGetFastaRecord(c *core.Ctx, rule string) {
	fn := c.LookupFunc("pkg/sam", "getFastaRecord")
	if fn == nil {
		c.Und(rule+"/sam.getFastaRecord", token.NoPos, "UNRESOLVED anchor sam.getFastaRecord")
		return
	}
	maxLen := 4
	if c.Tier == "thorough" {
		maxLen = 6
	}
	rows := allStrings("AC*-", maxLen)
	ev := newEval(c)
	call := func(raw string, trim, pad bool, s, e int) (string, bool) {
		v, err := ev.CallFunc(fn, bytesVal(raw), eval.S("id"), eval.K(3), trim, pad, eval.K(int64(s)), eval.K(int64(e)))
		if err != nil {
			return err.Error(), false
		}
		rec, ok := v.(*eval.StructVal)
		if !ok {
			return "not a record", false
		}
		seq, ok := bytesStr(rec.F["Seq"])
		if !ok {
			return "non-constant sequence", false
		}
		id, _ := rec.F["ID"].(eval.Str)
		ix, _ := linConst(rec.F["Idx"])
		if id.Const() != "id" || ix != 3 {
			return "ID/Idx not carried", false
		}
		return seq, true
	}
	var badFlank, badTrim []string
	n := 0
	for _, raw := range rows {
		for _, pad := range []bool{false, true} {
			want, specified := flankSpec(raw, pad)
			if !specified {
				continue
			}
			n++
			full, ok := call(raw, false, pad, 1, len(raw))
			if !ok || full != want {
				badFlank = append(badFlank, fmt.Sprintf("row %q pad=%v -> %q, want %q", raw, pad, full, want))
				continue
			}
			for s := 1; s <= len(raw); s++ {
				for e := s; e <= len(raw); e++ {
					n++
					got, ok := call(raw, true, pad, s, e)
					var wantT string
					if pad {
						b := []byte(full)
						for i := range b {
							if i+1 < s || i+1 > e {
								b[i] = 'N'
							}
						}
						wantT = string(b)
					} else {
						wantT = full[s-1 : e]
					}
					if !ok || got != wantT {
						badTrim = append(badTrim, fmt.Sprintf("row %q pad=%v start=%d end=%d -> %q, want %q", raw, pad, s, e, got, wantT))
					}
				}
			}
		}
		if len(badFlank)+len(badTrim) > 30 {
			break
		}
	}
	c.Count("rows_evaluated", n)
	c.Ob(rule+"/sam.getFastaRecord/flank-rewrite", len(badFlank) == 0, fn.Pos(), "%s", first(badFlank, 5))
	c.Ob(rule+"/sam.getFastaRecord/trim-and-pad-select-columns", len(badTrim) == 0, fn.Pos(), "%s", first(badTrim, 5))
}

func C15(c *core.Ctx) {
	c.Explanation("C15: every clause is decided by interpreting the responsible routine on a bounded, exhaustive family of small inputs (the routines only compare and index with their numeric arguments): sam.checkArgs over all (refLen<=4, start, end in -2..6); getFastaRecord on every row of length <=4 over {A,C,*,-} x every window x pad: trimmed output = columns s..e of the untrimmed output, padded output = untrimmed --pad output with everything outside s..e set to N; the legacy-flag reconciliation at the top of the toMultiAlign command (interpreted with each combination of flag values); trimAlignment/getRefOffset on every gapped reference row of length <=6 and every window; wrap and WriteWrapAlignment on every (length<=7, width<=8); the position-window predicate of both variant writers for every combination of set/unset bounds; writer start index under stdin.")
	c16Structural(c) // the file path (findReference + streaming reader) and the stdin path (streaming reader only) accept the same lines
	checkSamCheckArgs(c, "R2")
	checkGetFastaRecord(c, "R2")
	c15TrimAlignment(c)
	c15Wrap(c)
	c15WindowFilter(c)
	c15Stdin(c)
	c13Variants(c) // reading the alignment from stdin takes the reference off the stream, reading it from a file sends it through the workers: the aggregate table is the same, so the reference record is neither listed nor counted
}

// (R1, the reconciliation of the legacy --trim* flags with --start/--end, is decided by the command-layer scenarios of
// `sam toMultiAlign`: the whole grid of the five flags against the values that must reach sam.ToMultiAlign.)

// ---- toPairAlign cut

func c15TrimAlignment(c *core.Ctx) {
	fn := c.LookupFunc("pkg/sam", "trimAlignment")
	pairT := namedType(c, "pkg/sam", "alignPair")
	if fn == nil || pairT == nil {
		c.Und("R2/sam.trimAlignment", token.NoPos, "UNRESOLVED anchor sam.trimAlignment")
		return
	}
	rows := allStrings("A-", 6)
	var bad []string
	n := 0
	ev := newEval(c)
	for _, ref := range rows {
		// columns of reference bases
		var cols []int
		for i := 0; i < len(ref); i++ {
			if ref[i] != '-' {
				cols = append(cols, i)
			}
		}
		qry := "abcdef"[:len(ref)]
		for s := 1; s <= len(cols); s++ {
			for e := s; e <= len(cols); e++ {
				n++
				pair := absValue(pairT, "p", eval.K(0)).(*eval.StructVal)
				pair.F["ref"] = bytesVal(ref)
				pair.F["query"] = bytesVal(qry)
				pair.F["refname"] = eval.S("r")
				pair.F["queryname"] = eval.S("q")
				pair.F["idx"] = eval.K(2)
				out := &eval.ChanVal{Name: "out"}
				_, err := ev.CallFunc(fn, true, eval.K(int64(s)), eval.K(int64(e)), &eval.ChanVal{Name: "in", Feed: []eval.Value{pair}}, out, &eval.ChanVal{Name: "err"})
				if err != nil || len(out.Sent) != 1 {
					bad = append(bad, fmt.Sprintf("ref row %q window %d..%d: undecided: %v", ref, s, e, err))
					continue
				}
				res := out.Sent[0].(*eval.StructVal)
				gr, _ := bytesStr(res.F["ref"])
				gq, _ := bytesStr(res.F["query"])
				wr, wq := ref[cols[s-1]:cols[e-1]+1], qry[cols[s-1]:cols[e-1]+1]
				ix, _ := linConst(res.F["idx"])
				if gr != wr || gq != wq || ix != 2 {
					bad = append(bad, fmt.Sprintf("ref row %q window %d..%d -> ref %q query %q, want %q %q (from the column of base %d to the column of base %d)", ref, s, e, gr, gq, wr, wq, s, e))
				}
			}
		}
		if len(bad) > 20 {
			break
		}
	}
	// several pairs through one worker: each pair is cut by its own reference row (no state carried over)
	mkPair := func(ref, qry string, idx int64) eval.Value {
		p := absValue(pairT, "p", eval.K(0)).(*eval.StructVal)
		p.F["ref"] = bytesVal(ref)
		p.F["query"] = bytesVal(qry)
		p.F["refname"] = eval.S("r")
		p.F["queryname"] = eval.S("q")
		p.F["idx"] = eval.K(idx)
		return p
	}
	batches := [][]string{{"AA--AAA", "AAA--AA", "A--AAAA", "AAAA--A"}, {"AAAAA", "A-AAAA", "AAAA-A", "AAAAA"}, {"AAAA--A", "AA--AAA"}}
	for _, rows := range batches {
		for s := 1; s <= 5; s++ {
			for e := s; e <= 5; e++ {
				var feed []eval.Value
				for i, r := range rows {
					feed = append(feed, mkPair(r, "abcdefg"[:len(r)], int64(i)))
				}
				out := &eval.ChanVal{Name: "out"}
				_, err := ev.CallFunc(fn, true, eval.K(int64(s)), eval.K(int64(e)), &eval.ChanVal{Name: "in", Feed: feed}, out, &eval.ChanVal{Name: "err"})
				if err != nil || len(out.Sent) != len(rows) {
					bad = append(bad, fmt.Sprintf("rows %v window %d..%d: undecided: %v", rows, s, e, err))
					continue
				}
				n++
				for i, r := range rows {
					var cols []int
					for k := 0; k < len(r); k++ {
						if r[k] != '-' {
							cols = append(cols, k)
						}
					}
					res := out.Sent[i].(*eval.StructVal)
					gr, _ := bytesStr(res.F["ref"])
					wr := r[cols[s-1] : cols[e-1]+1]
					if gr != wr {
						bad = append(bad, fmt.Sprintf("pairs %v through one worker, window %d..%d: pair %d (%q) cut to %q, want %q", rows, s, e, i, r, gr, wr))
					}
				}
			}
		}
	}
	// no trimming: pair passes unchanged
	pair := absValue(pairT, "p", eval.K(0)).(*eval.StructVal)
	pair.F["ref"] = bytesVal("A-A")
	pair.F["query"] = bytesVal("xyz")
	out := &eval.ChanVal{Name: "out"}
	if _, err := ev.CallFunc(fn, false, eval.K(1), eval.K(1), &eval.ChanVal{Name: "in", Feed: []eval.Value{pair}}, out, &eval.ChanVal{Name: "err"}); err != nil || len(out.Sent) != 1 {
		bad = append(bad, "untrimmed pass-through undecided")
	} else if r, _ := bytesStr(out.Sent[0].(*eval.StructVal).F["ref"]); r != "A-A" {
		bad = append(bad, "without a window the pair must pass unchanged")
	}
	c.Count("gapped_rows_x_windows_evaluated", n)
	c.Ob("R2/sam.trimAlignment/reference-coordinate-cut", len(bad) == 0, fn.Pos(), "%s", first(bad, 4))
}

// ---- wrapping

func wrapSpec(s string, w int) string {
	if w <= 0 {
		return s + "\n"
	}
	var sb strings.Builder
	for i := 0; i < len(s); i += w {
		j := i + w
		if j > len(s) {
			j = len(s)
		}
		sb.WriteString(s[i:j] + "\n")
	}
	return sb.String()
}

func c15Wrap(c *core.Ctx) {
	alpha := "ACGTNRY"
	if fn := c.LookupFunc("pkg/sam", "wrap"); fn == nil {
		c.Und("R4/sam.wrap", token.NoPos, "UNRESOLVED anchor sam.wrap")
	} else {
		ev := newEval(c)
		var bad []string
		n := 0
		for l := 0; l <= 7; l++ {
			for w := -1; w <= 8; w++ {
				n++
				v, err := ev.CallFunc(fn, eval.S(alpha[:l]), eval.K(int64(w)))
				if err != nil {
					bad = append(bad, fmt.Sprintf("len=%d w=%d: undecided: %v", l, w, err))
					continue
				}
				got, _ := bytesStr(v)
				want := wrapSpec(alpha[:l], w)
				if l == 0 && w > 0 {
					want = "" // an empty sequence has no sequence lines
				}
				if got != want {
					bad = append(bad, fmt.Sprintf("wrap(%q,%d) = %q, want %q", alpha[:l], w, got, want))
				}
			}
		}
		c.Count("wrap_points_evaluated", n)
		c.Ob("R4/sam.wrap/rebreaks-only", len(bad) == 0, fn.Pos(), "%s", first(bad, 4))
	}
	fn := c.LookupFunc("pkg/fastaio", "WriteWrapAlignment")
	recT := namedType(c, "pkg/fastaio", "FastaRecord")
	if fn == nil || recT == nil {
		c.Und("R4/WriteWrapAlignment", token.NoPos, "UNRESOLVED anchor fastaio.WriteWrapAlignment")
		return
	}
	var bad []string
	n := 0
	for l1 := 1; l1 <= 7; l1 += 2 {
		for l2 := 1; l2 <= 7; l2 += 3 {
			for w := 1; w <= 8; w++ {
				n++
				mk := func(id string, idx int64, s string) eval.Value {
					r := absValue(recT, id, eval.K(0)).(*eval.StructVal)
					r.F["ID"] = eval.S(id)
					r.F["Description"] = eval.S(id)
					r.F["Seq"] = eval.S(s)
					r.F["Idx"] = eval.K(idx)
					return r
				}
				ev := newEval(c)
				// records arrive out of order on purpose
				out, errs, err := callWriter(c, ev, fn, recT, []eval.Value{mk("b", 1, alpha[:l2]), mk("a", 0, alpha[:l1])}, map[string]eval.Value{"wrap": eval.K(int64(w))})
				if err != nil || len(errs.Sent) > 0 {
					bad = append(bad, fmt.Sprintf("undecided: %v", err))
					continue
				}
				want := ">a\n" + wrapSpec(alpha[:l1], w) + ">b\n" + wrapSpec(alpha[:l2], w)
				if out != want {
					bad = append(bad, fmt.Sprintf("lengths %d,%d width %d -> %q, want %q", l1, l2, w, out, want))
				}
			}
		}
	}
	c.Count("wrap_points_evaluated", n)
	c.Ob("R4/WriteWrapAlignment/rebreaks-only", len(bad) == 0, fn.Pos(), "%s", first(bad, 4))
}

// ---- position window of the variant writers

func c15WindowFilter(c *core.Ctx) {
	// an insertion in front of the first reference base has position 0: any --start >= 1 excludes it
	// deletions of several bases: a mutation is in the window iff its POSITION is (the first deleted base), in both writers
	delLen := map[int64]int64{1: 1, 2: 3, 3: 1, 4: 2, 5: 1}
	vs := []*eval.StructVal{mkVariant(c, "ins", 0, 2, "", "")}
	for p := int64(1); p <= 5; p++ {
		vs = append(vs, mkVariant(c, "del", p, delLen[p], "", ""))
	}
	feed := func() []eval.Value { return []eval.Value{mkAnno(c, "q0", 0, vs...)} }
	want := func(s, e int64) []string {
		var out []string
		for p := int64(0); p <= 5; p++ {
			if (s < 1 || p >= s) && (e < 1 || p <= e) {
				if p == 0 {
					out = append(out, "ins:0:2")
				} else {
					out = append(out, fmt.Sprintf("del:%d:%d", p, delLen[p]))
				}
			}
		}
		return out
	}
	var badW, badA []string
	n := 0
	for _, s := range []int64{-1, 1, 2, 4, 5} {
		for _, e := range []int64{-1, 1, 2, 4, 5} {
			if s > 0 && e > 0 && s > e {
				continue
			}
			n++
			w := want(s, e)
			out, err := evalWriteVariants(c, feed(), s, e, false, false, "ref")
			if err != nil {
				badW = append(badW, "undecided: "+err.Error())
			} else if out != "query,mutations\nq0,"+strings.Join(w, "|")+"\n" {
				badW = append(badW, fmt.Sprintf("--start %d --end %d keeps %q, want positions %v", s, e, strings.TrimPrefix(out, "query,mutations\n"), w))
			}
			agg, err := evalAggregateVariants(c, false, feed(), s, e, false, 0, "ref")
			if err != nil {
				badA = append(badA, "undecided: "+err.Error())
				continue
			}
			lines, err := parseAggregate(agg, "mutation,frequency\n")
			var got []string
			for _, l := range lines {
				got = append(got, l[0])
			}
			if err != nil || strings.Join(got, "|") != strings.Join(w, "|") {
				badA = append(badA, fmt.Sprintf("--start %d --end %d keeps %v, want %v", s, e, got, w))
			}
		}
	}
	c.Count("window_combinations_evaluated", n)
	c.Ob("R3/WriteVariants/window-each-bound-alone-or-both", len(badW) == 0, funcPos(c, "pkg/variants", "WriteVariants"), "%s", first(badW, 4))
	c.Ob("R3/AggregateWriteVariants/window-each-bound-alone-or-both", len(badA) == 0, funcPos(c, "pkg/variants", "AggregateWriteVariants"), "%s", first(badA, 4))
}

// ---- stdin: first record taken as reference, writer starts at index 1

func c15Stdin(c *core.Ctx) {
	v := mkVariant(c, "del", 2, 1, "", "")
	file, err1 := evalWriteVariants(c, []eval.Value{mkAnno(c, "ref", 0), mkAnno(c, "q1", 1, v), mkAnno(c, "q2", 2)}, -1, -1, false, false, "ref")
	stdin, err2 := evalWriteVariants(c, []eval.Value{mkAnno(c, "q2", 2), mkAnno(c, "q1", 1, v)}, -1, -1, true, false, "ref")
	pos := funcPos(c, "pkg/variants", "WriteVariants")
	if err1 != nil || err2 != nil {
		c.Und("R5/stdin/writer-start-index", pos, "cannot evaluate: %v %v", err1, err2)
		return
	}
	c.Ob("R5/stdin/writer-start-index", file == stdin && strings.Contains(file, "q1,del:2:1\nq2,\n"), pos, "reading from stdin (reference record consumed, indices start at 1) writes %q; reading the file writes %q", stdin, file)
	// a later record that carries the reference's name is treated alike in both modes (left out of the table)
	{
		v2 := mkVariant(c, "nuc", 5, 0, "A", "C")
		file, err1 := evalWriteVariants(c, []eval.Value{mkAnno(c, "ref", 0), mkAnno(c, "q1", 1, v), mkAnno(c, "ref", 2, v2), mkAnno(c, "q3", 3)}, -1, -1, false, false, "ref")
		stdin, err2 := evalWriteVariants(c, []eval.Value{mkAnno(c, "q1", 1, v), mkAnno(c, "ref", 2, v2), mkAnno(c, "q3", 3)}, -1, -1, true, false, "ref")
		if err1 != nil || err2 != nil {
			c.Und("R5/stdin/reference-named-record-treated-alike", pos, "cannot evaluate: %v %v", err1, err2)
		} else {
			c.Ob("R5/stdin/reference-named-record-treated-alike", file == stdin, pos, "a second record named like the reference: reading the file writes %q, reading the same bytes from stdin writes %q", file, stdin)
		}
	}
	// in Variants the flag is set exactly when a record was taken from the stream
	c15FirstMissing(c)
}

// c15FirstMissing: variants.Variants tells the writer that the first record is missing exactly
// on the path where it took one record from the stream (a select receiving from the record channel).
func c15FirstMissing(c *core.Ctx) {
	f := c.SSAFunc("pkg/variants", "Variants")
	if f == nil {
		c.Und("R5/stdin/flag-set-when-record-taken", token.NoPos, "UNRESOLVED anchor variants.Variants")
		return
	}
	found := false
	allInstrs(f, func(fn *ssa.Function, ins ssa.Instruction) {
		g, ok := ins.(*ssa.Go)
		if !ok {
			return
		}
		cal := g.Common().StaticCallee()
		if cal == nil || cal.Name() != "WriteVariants" {
			return
		}
		// the boolean parameter named firstmissing
		idx := -1
		for i, p := range cal.Params {
			if p.Name() == "firstmissing" {
				idx = i
			}
		}
		if idx < 0 {
			for i, p := range cal.Params {
				if b, ok := p.Type().Underlying().(*types.Basic); ok && b.Kind() == types.Bool && idx < 0 {
					idx = i
				}
			}
		}
		if idx < 0 {
			return
		}
		found = true
		arg := g.Common().Args[idx]
		okFlag, detail := flagSetUnderSelect(arg)
		c.Ob("R5/stdin/flag-set-when-record-taken", okFlag, g.Pos(), "%s", detail)
	})
	if !found {
		c.Ob("R5/stdin/flag-set-when-record-taken", false, f.Pos(), "WriteVariants is not started by Variants with a first-record-missing flag")
	}
}

func flagSetUnderSelect(v ssa.Value) (bool, string) {
	hasFalse, hasTrueUnderSelect, other := false, false, false
	seen := map[ssa.Value]bool{}
	underSelect := func(b *ssa.BasicBlock) bool {
		for _, d := range b.Parent().Blocks {
			if d != b && d.Dominates(b) {
				for _, ins := range d.Instrs {
					if s, ok := ins.(*ssa.Select); ok {
						for _, st := range s.States {
							if st.Dir == types.RecvOnly && isDataChan(st.Chan.Type()) {
								return true
							}
						}
					}
				}
			}
		}
		return false
	}
	var rec func(v ssa.Value, at *ssa.BasicBlock)
	rec = func(v ssa.Value, at *ssa.BasicBlock) {
		switch x := v.(type) {
		case *ssa.Const:
			if x.Value == nil {
				other = true
				return
			}
			if constant.BoolVal(x.Value) {
				if at != nil && underSelect(at) {
					hasTrueUnderSelect = true
				} else {
					other = true
				}
			} else {
				hasFalse = true
			}
		case *ssa.Phi:
			if seen[x] {
				return
			}
			seen[x] = true
			for i, e := range x.Edges {
				rec(e, x.Block().Preds[i])
			}
		case *ssa.UnOp:
			if seen[x] {
				return
			}
			seen[x] = true
			if a, ok := x.X.(*ssa.Alloc); ok && x.Op == token.MUL {
				for _, r := range *a.Referrers() {
					if st, ok := r.(*ssa.Store); ok && st.Addr == a {
						rec(st.Val, st.Block())
					}
				}
				return
			}
			other = true
		default:
			other = true
		}
	}
	rec(v, nil)
	if hasFalse && hasTrueUnderSelect && !other {
		return true, ""
	}
	return false, fmt.Sprintf("the flag must be false by default and true only where a record was received from the stream (false default=%v, true under the receiving select=%v, other sources=%v)", hasFalse, hasTrueUnderSelect, other)
}
