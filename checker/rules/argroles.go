package rules

import (
	"fmt"
	"go/ast"
	"go/token"
	"go/types"
	"sort"
	"strings"

	"golang.org/x/tools/go/types/typeutil"

	"gofasta-verif/core"
)

// checkArgumentRoles: calls between repository functions pass many same-typed scalars positionally
// (start/end, sizes and distances, thresholds). Two rules over the typed syntax, by parameter NAME:
//
//	(swap)  an argument that is a plain variable named like a DIFFERENT parameter of the callee (same type),
//	        while the parameter in its own position has another name;
//	(pass-through) the callee's parameter is named P, the caller itself has a parameter named P of the same
//	        type, and the argument is a different plain variable.
//
// Either is how a wrong option reaches a stage although every stage is right on its own.
func checkArgumentRoles(c *core.Ctx, rule string, pkgs ...string) int {
	n := 0
	var bad []string
	var pos token.Pos
	want := map[string]bool{}
	for _, p := range pkgs {
		want[p] = true
	}
	for rel, p := range c.Pkgs {
		if len(pkgs) > 0 && !want[rel] {
			continue
		}
		info := p.TypesInfo
		for _, file := range p.Syntax {
			if strings.HasSuffix(c.Fset.Position(file.Pos()).Filename, "_test.go") {
				continue
			}
			for _, d := range file.Decls {
				fd, ok := d.(*ast.FuncDecl)
				if !ok || fd.Body == nil {
					continue
				}
				callerParams := map[string]*types.Var{}
				if obj, ok := info.Defs[fd.Name].(*types.Func); ok {
					sig := obj.Type().(*types.Signature)
					for i := 0; i < sig.Params().Len(); i++ {
						callerParams[sig.Params().At(i).Name()] = sig.Params().At(i)
					}
				}
				ast.Inspect(fd.Body, func(nd ast.Node) bool {
					call, ok := nd.(*ast.CallExpr)
					if !ok {
						return true
					}
					fn, _ := typeutil.Callee(info, call).(*types.Func)
					if fn == nil || fn.Pkg() == nil || c.RelOf(fn.Pkg()) == "" {
						return true
					}
					sig := fn.Type().(*types.Signature)
					if sig.Variadic() || sig.Params().Len() != len(call.Args) || sig.Params().Len() < 2 {
						return true
					}
					n++
					for i, a := range call.Args {
						id, ok := unparenExpr(a).(*ast.Ident)
						if !ok {
							continue
						}
						av, ok := info.Uses[id].(*types.Var)
						if !ok {
							continue
						}
						pi := sig.Params().At(i)
						if pi.Name() == "" || pi.Name() == "_" || strings.EqualFold(pi.Name(), id.Name) {
							continue
						}
						scalar := func(t types.Type) bool {
							b, ok := t.Underlying().(*types.Basic)
							return ok && b.Info()&(types.IsNumeric|types.IsBoolean|types.IsString) != 0
						}
						if sl, isSlice := pi.Type().Underlying().(*types.Slice); !(scalar(pi.Type()) || isSlice && scalar(sl.Elem())) {
							continue // channels, readers and records are told apart by their types and by the pipeline rules
						}
						// (swap)
						for j := 0; j < sig.Params().Len(); j++ {
							pj := sig.Params().At(j)
							if j != i && strings.EqualFold(pj.Name(), id.Name) && types.Identical(pj.Type(), pi.Type()) {
								bad = append(bad, fmt.Sprintf("%s: %s(...) receives the variable %s as its parameter %s, while %s is the name of its parameter %d", c.PosStr(a.Pos()), fn.Name(), id.Name, pi.Name(), id.Name, j+1))
								pos = a.Pos()
							}
						}
						// (pass-through)
						if cp, ok := callerParams[pi.Name()]; ok && cp != av && types.Identical(cp.Type(), pi.Type()) {
							if _, argIsParam := callerParams[id.Name]; argIsParam {
								bad = append(bad, fmt.Sprintf("%s: %s(...) receives %s as its parameter %s although %s has its own parameter %s", c.PosStr(a.Pos()), fn.Name(), id.Name, pi.Name(), fd.Name.Name, pi.Name()))
								pos = a.Pos()
							}
						}
					}
					return true
				})
			}
		}
	}
	sort.Strings(bad)
	bad = uniqStrings(bad)
	c.Ob(rule+"/arguments-match-parameter-names", len(bad) == 0, pos, "%s", first(bad, 4))
	return n
}
