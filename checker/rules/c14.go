package rules

import (
	"fmt"
	"go/token"
	"regexp"
	"sort"
	"strings"

	"gofasta-verif/core"
	"gofasta-verif/eval"
	"gofasta-verif/oracle"
)

func init() { register("C14", C14) }

// bytesBufModel / bytesReaderModel model bytes.Buffer and bytes.Reader for gff.ReadGFF's ##FASTA section.
type bytesBufModel struct{ data []byte }
type bytesReaderModel struct{ data []byte }

// installBytesBuffer: bytes.Buffer as an append-only byte store (installed in every evaluator).
func installBytesBuffer(ev *eval.Evaluator) {
	ev.Extern["(*bytes.Buffer).Write"] = func(ev *eval.Evaluator, pos token.Pos, recv eval.Value, args []eval.Value) eval.Value {
		r := recv.(*eval.Ref)
		m, ok := r.Get().(*bytesBufModel)
		if !ok {
			m = &bytesBufModel{}
			r.Set(m)
		}
		switch b := args[0].(type) {
		case eval.BytesOf:
			m.data = append(m.data, []byte(b.S.Const())...)
		case eval.Slice:
			s, _ := bytesStr(b)
			m.data = append(m.data, []byte(s)...)
		}
		return eval.Tuple{eval.K(0), eval.Nil{}}
	}
	bufOf := func(recv eval.Value) *bytesBufModel {
		r := recv.(*eval.Ref)
		m, ok := r.Get().(*bytesBufModel)
		if !ok {
			m = &bytesBufModel{}
			r.Set(m)
		}
		return m
	}
	ev.Extern["(*bytes.Buffer).WriteString"] = func(ev *eval.Evaluator, pos token.Pos, recv eval.Value, args []eval.Value) eval.Value {
		m := bufOf(recv)
		s, ok := args[0].(eval.Str)
		if !ok || !s.IsConst() {
			ev.Failf(pos, "bytes.Buffer.WriteString of a symbolic string")
		}
		m.data = append(m.data, []byte(s.Const())...)
		return eval.Tuple{eval.K(int64(len(s.Const()))), eval.Nil{}}
	}
	ev.Extern["(*bytes.Buffer).WriteByte"] = func(ev *eval.Evaluator, pos token.Pos, recv eval.Value, args []eval.Value) eval.Value {
		m := bufOf(recv)
		l, ok := args[0].(eval.Lin)
		if !ok || !l.IsConst() {
			ev.Failf(pos, "bytes.Buffer.WriteByte of a symbolic byte")
		}
		m.data = append(m.data, byte(l.C))
		return eval.Nil{}
	}
	ev.Extern["(*bytes.Buffer).WriteRune"] = func(ev *eval.Evaluator, pos token.Pos, recv eval.Value, args []eval.Value) eval.Value {
		m := bufOf(recv)
		l, ok := args[0].(eval.Lin)
		if !ok || !l.IsConst() {
			ev.Failf(pos, "bytes.Buffer.WriteRune of a symbolic rune")
		}
		m.data = append(m.data, []byte(string(rune(l.C)))...)
		return eval.Tuple{eval.K(int64(len(string(rune(l.C))))), eval.Nil{}}
	}
	ev.Extern["(*bytes.Buffer).Len"] = func(ev *eval.Evaluator, pos token.Pos, recv eval.Value, args []eval.Value) eval.Value {
		if m, ok := unref(recv).(*bytesBufModel); ok {
			return eval.K(int64(len(m.data)))
		}
		return eval.K(0)
	}
	ev.Extern["(*bytes.Buffer).String"] = func(ev *eval.Evaluator, pos token.Pos, recv eval.Value, args []eval.Value) eval.Value {
		if m, ok := unref(recv).(*bytesBufModel); ok {
			return eval.S(string(m.data))
		}
		return eval.S("")
	}
	ev.Extern["(*bytes.Buffer).Grow"] = func(ev *eval.Evaluator, pos token.Pos, recv eval.Value, args []eval.Value) eval.Value {
		return nil
	}
	ev.Extern["bytes.NewBufferString"] = func(ev *eval.Evaluator, pos token.Pos, recv eval.Value, args []eval.Value) eval.Value {
		s, _ := args[0].(eval.Str)
		m := &bytesReaderModel{data: []byte(s.Const())}
		return &eval.Ref{Get: func() eval.Value { return m }, Set: func(eval.Value) {}}
	}
	ev.Extern["strings.NewReader"] = ev.Extern["bytes.NewBufferString"]
	ev.Extern["(*bytes.Buffer).Bytes"] = func(ev *eval.Evaluator, pos token.Pos, recv eval.Value, args []eval.Value) eval.Value {
		if m, ok := unref(recv).(*bytesBufModel); ok {
			return bytesVal(string(m.data))
		}
		return eval.NewSlice()
	}
	ev.Extern["(*bytes.Buffer).Reset"] = func(ev *eval.Evaluator, pos token.Pos, recv eval.Value, args []eval.Value) eval.Value {
		bufOf(recv).data = nil
		return nil
	}
	ev.Extern["(*bytes.Buffer).Truncate"] = func(ev *eval.Evaluator, pos token.Pos, recv eval.Value, args []eval.Value) eval.Value {
		m := bufOf(recv)
		l, ok := args[0].(eval.Lin)
		if !ok || !l.IsConst() || l.C < 0 || int(l.C) > len(m.data) {
			ev.Failf(pos, "bytes.Buffer.Truncate out of range")
		}
		m.data = m.data[:l.C]
		return nil
	}
}

func installBytesAndRegexp(ev *eval.Evaluator, fileLines []string) {
	installBytesBuffer(ev)
	ev.Extern["bytes.NewReader"] = func(ev *eval.Evaluator, pos token.Pos, recv eval.Value, args []eval.Value) eval.Value {
		s, _ := bytesStr(args[0])
		m := &bytesReaderModel{data: []byte(s)}
		return &eval.Ref{Get: func() eval.Value { return m }, Set: func(eval.Value) {}}
	}
	// regular expressions on concrete text are decided by the library itself
	match := func(pat, text eval.Value) (bool, bool) {
		ps, ok1 := pat.(eval.Str)
		ts, ok2 := text.(eval.Str)
		if !ok1 || !ok2 || !ps.IsConst() || !ts.IsConst() {
			return false, false
		}
		re, err := regexp.Compile(ps.Const())
		if err != nil {
			return false, false
		}
		return re.MatchString(ts.Const()), true
	}
	ev.Extern["regexp.MatchString"] = func(ev *eval.Evaluator, pos token.Pos, recv eval.Value, args []eval.Value) eval.Value {
		m, ok := match(args[0], args[1])
		if !ok {
			ev.Failf(pos, "regexp.MatchString on a symbolic pattern or text")
		}
		return eval.Tuple{m, eval.Nil{}}
	}
	ev.Extern["regexp.MustCompile"] = func(ev *eval.Evaluator, pos token.Pos, recv eval.Value, args []eval.Value) eval.Value {
		s, _ := args[0].(eval.Str)
		return &eval.Handle{Dyn: "*regexp.Regexp", Tag: s.Const()}
	}
	ev.Extern["(*regexp.Regexp).MatchString"] = func(ev *eval.Evaluator, pos token.Pos, recv eval.Value, args []eval.Value) eval.Value {
		h, _ := unref(recv).(*eval.Handle)
		if h == nil {
			ev.Failf(pos, "MatchString on an unknown regular expression")
		}
		m, ok := match(eval.S(h.Tag), args[0])
		if !ok {
			ev.Failf(pos, "(*Regexp).MatchString on symbolic text")
		}
		return m
	}
	// scanner over either the annotation file or the in-memory FASTA section
	installScanner(ev, fileLines)
	ev.Extern["bufio.NewScanner"] = func(ev *eval.Evaluator, pos token.Pos, recv eval.Value, args []eval.Value) eval.Value {
		lines := fileLines
		if m, ok := unref(args[0]).(*bytesReaderModel); ok {
			lines = strings.Split(strings.TrimSuffix(string(m.data), "\n"), "\n")
		}
		if m, ok := unref(args[0]).(*bytesBufModel); ok { // a *bytes.Buffer is a reader of what was written to it
			lines = strings.Split(strings.TrimSuffix(string(m.data), "\n"), "\n")
		}
		sm := &scanModel{lines: lines}
		return &eval.Ref{Get: func() eval.Value { return sm }, Set: func(eval.Value) {}}
	}
}

type textAnno struct {
	name string
	gb   []string
	gff  []string
}

func genbankText(feats []gbFeature, ref string) []string {
	lines := []string{"LOCUS       TEST " + fmt.Sprint(len(ref)) + " bp DNA linear", "DEFINITION  test record.", "FEATURES             Location/Qualifiers",
		"     source          1.." + fmt.Sprint(len(ref)), "                     /organism=\"test virus\""}
	for _, f := range feats {
		lines = append(lines, "     "+f.kind+strings.Repeat(" ", 16-len(f.kind))+f.location)
		if f.gene != "" {
			lines = append(lines, "                     /gene=\""+f.gene+"\"")
		}
		if f.codonStart > 0 {
			lines = append(lines, fmt.Sprintf("                     /codon_start=%d", f.codonStart))
			tr := gbTranslation(f, ref)
			// wrap the translation over two lines to exercise quoted continuation
			if len(tr) > 2 {
				lines = append(lines, "                     /translation=\""+tr[:2], "                     "+tr[2:]+"\"")
			} else {
				lines = append(lines, "                     /translation=\""+tr+"\"")
			}
		}
	}
	lines = append(lines, "ORIGIN")
	low := strings.ToLower(ref)
	for i := 0; i < len(low); i += 10 {
		j := i + 10
		if j > len(low) {
			j = len(low)
		}
		lines = append(lines, fmt.Sprintf("%9d %s", i+1, low[i:j]))
	}
	lines = append(lines, "//")
	return lines
}

func C14(c *core.Ctx) {
	c.Explanation("C14: for eight feature layouts expressible in both formats (forward gene, overlapping genes, complement, join with segment lengths not divisible by three, join with lengths divisible by three, complement(join), a partial gene with codon_start=2 / phase 1, extra non-CDS features) RegionsFromGenbank and RegionsFromGFF are interpreted and must return the same regions (name, strand, start, stop, ordered position list, translation) and the same intergenic list, both equal to an independent reading of the location expression (join = concatenation, complement = reversal, codon_start/phase trims the 5' end once; later GFF rows' phases describe codons that straddle the join and remove nothing). For three layouts the same comparison is made end to end from file text: ReadGenBank and ReadGFF are interpreted against the scanner model on equivalent GenBank and GFF3 texts. The regions each constructor builds are also handed to GetVariantsPair for every single-base change of the reference under every layout (incl. two ribosomal-slippage joins that read one base twice and are listed in an order that differs from start order): the two lists of records must be equal as multisets. A location wrapped over two lines must be read whole or rejected (never silently cut at the line break). Locations with '<'/'>' partial markers must be read as the marked range or rejected. Not decided: location syntaxes outside these shapes.")
	checkReferenceRecordName(c, "R6")
	var bad, badSpec []string
	n := 0
	for _, ac := range annoCases(c) {
		n++
		g := evalRegionsGFF(c, ac.gff, annoRef)
		b := evalRegionsGenbank(c, ac.gb, annoRef)
		if strings.HasPrefix(b.err, "undecided") || strings.HasPrefix(g.err, "undecided") || strings.HasPrefix(b.err, "UNRESOLVED") || strings.HasPrefix(g.err, "UNRESOLVED") {
			c.Und("R1/regions-agree/"+ac.name, funcPos(c, "pkg/variants", "RegionsFromGFF"), "%s %s", g.err, b.err)
			continue
		}
		// independent specification
		var want []string
		for _, f := range ac.gb {
			if f.kind != "CDS" {
				continue
			}
			ps := locPositions(f.location)
			strand := 1
			if strings.Contains(f.location, "complement(") {
				strand = -1 // what the location says; the order of the positions is no evidence (origin-spanning genes)
			}
			if f.codonStart > 1 {
				ps = ps[f.codonStart-1:]
			}
			lo, hi := 1<<30, 0
			var pss []string
			for _, p := range ps {
				if p < lo {
					lo = p
				}
				if p > hi {
					hi = p
				}
				pss = append(pss, fmt.Sprint(p))
			}
			tr := gbTranslation(f, annoRef)
			want = append(want, fmt.Sprintf("%s strand=%d start=%d stop=%d positions=[%s] translation=%s", f.gene, strand, lo, hi, strings.Join(pss, " "), tr))
		}
		norm := func(rs []string) []string {
			out := []string{}
			for _, r := range rs {
				out = append(out, strings.TrimSuffix(r, "*"))
			}
			return out
		}
		if b.err != "" {
			badSpec = append(badSpec, fmt.Sprintf("%s: GenBank: %s", ac.name, b.err))
		} else if !sameSet(norm(b.regions), want) {
			badSpec = append(badSpec, fmt.Sprintf("%s: GenBank gives %v, the location expression means %v", ac.name, norm(b.regions), want))
		}
		if g.err != "" {
			bad = append(bad, fmt.Sprintf("%s: the GFF form is rejected (%s) while the GenBank form gives %v", ac.name, g.err, norm(b.regions)))
			continue
		}
		if b.err == "" && (!sameSet(norm(g.regions), norm(b.regions)) || fmt.Sprint(g.inter) != fmt.Sprint(b.inter)) {
			bad = append(bad, fmt.Sprintf("%s: GFF gives %v intergenic %v; GenBank gives %v intergenic %v", ac.name, norm(g.regions), g.inter, norm(b.regions), b.inter))
		}
	}
	c.Count("layouts_evaluated", n)
	c.Ob("R1/RegionsFromGenbank/equals-location-semantics", len(badSpec) == 0, funcPos(c, "pkg/variants", "CDSRegion2fromGenbank"), "%s", first(badSpec, 3))
	c.Ob("R1-R2/RegionsFromGFF/equals-genbank-regions", len(bad) == 0, funcPos(c, "pkg/variants", "CDSRegion2fromGFF"), "%s", first(bad, 3))
	c.Sample(map[string]string{"rule": "R2", "genbank": "join(1..4,10..17) codon_start=1", "gff": "rows 1..4 phase 0, 10..17 phase 2", "specified_positions": "1 2 3 4 10 11 12 13 14 15 16 17"})
	c14Text(c)
	c14Translations(c)
	c14Mutations(c)
	c14NotWholeCodons(c)
	c14ResolvableAmbiguity(c)
}

// c14Text: end to end from file text.
func c14Text(c *core.Ctx) {
	rg := c.LookupFunc("pkg/genbank", "ReadGenBank")
	rf := c.LookupFunc("pkg/gff", "ReadGFF")
	fg := c.LookupFunc("pkg/variants", "RegionsFromGenbank")
	ff := c.LookupFunc("pkg/variants", "RegionsFromGFF")
	if rg == nil || rf == nil || fg == nil || ff == nil {
		c.Und("R3/text", token.NoPos, "UNRESOLVED anchors ReadGenBank/ReadGFF")
		return
	}
	cases := []struct {
		name string
		gb   []gbFeature
		rows []string
	}{
		{"forward + reverse genes", []gbFeature{{"CDS", "1..9", "g1", 1}, {"CDS", "complement(13..21)", "g2", 1}},
			[]string{"ref\tsrc\tCDS\t1\t9\t.\t+\t0\tID=c1;Name=g1", "ref\tsrc\tCDS\t13\t21\t.\t-\t0\tID=c2;Name=g2"}},
		{"joined gene 6+6", []gbFeature{{"gene", "1..24", "g1", 0}, {"CDS", "join(1..6,10..15)", "g1", 1}},
			[]string{"ref\tsrc\tgene\t1\t24\t.\t+\t.\tID=gene1;Name=g1", "ref\tsrc\tCDS\t1\t6\t.\t+\t0\tID=c1;Name=g1;Parent=gene1", "ref\tsrc\tCDS\t10\t15\t.\t+\t0\tID=c1;Name=g1;Parent=gene1"}},
		{"attribute values containing spaces", []gbFeature{{"CDS", "1..9", "g1", 1}, {"CDS", "13..21", "env protein", 1}},
			[]string{"ref\tsrc\tCDS\t1\t9\t.\t+\t0\tID=c1;Note=spike glycoprotein, surface;Name=g1", "ref\tsrc\tCDS\t13\t21\t.\t+\t0\tID=c2;Name=env protein"}},
		{"gene names with '+', '_' and '.'", []gbFeature{{"CDS", "1..9", "NS1+2", 1}, {"CDS", "13..21", "orf_7.a", 1}},
			[]string{"ref\tsrc\tCDS\t1\t9\t.\t+\t0\tID=c1;Name=NS1+2", "ref\tsrc\tCDS\t13\t21\t.\t+\t0\tID=c2;Name=orf_7.a"}},
		{"complement(join) 6+6", []gbFeature{{"CDS", "complement(join(4..9,16..21))", "g1", 1}},
			[]string{"ref\tsrc\tCDS\t4\t9\t.\t-\t0\tID=c1;Name=g1", "ref\tsrc\tCDS\t16\t21\t.\t-\t0\tID=c1;Name=g1"}},
	}
	var bad []string
	for _, tc := range cases {
		gbLines := genbankText(tc.gb, annoRef)
		gffLines := append([]string{"##gff-version 3", "##sequence-region ref 1 " + fmt.Sprint(len(annoRef))}, tc.rows...)
		gffLines = append(gffLines, "##FASTA", ">ref", annoRef[:12], annoRef[12:])
		// GenBank
		ev := newEval(c)
		installBytesAndRegexp(ev, gbLines)
		gv, err := ev.CallFunc(rg, eval.Opaque{Why: "genbank file"})
		if err != nil {
			c.Und("R3/text/"+tc.name, rg.Pos(), "cannot evaluate ReadGenBank: %v", err)
			continue
		}
		gt := gv.(eval.Tuple)
		gbStruct := gt[0].(*eval.StructVal)
		origin, _ := bytesStr(gbStruct.F["ORIGIN"])
		if strings.ToUpper(origin) != annoRef {
			bad = append(bad, fmt.Sprintf("%s: ORIGIN parsed as %q, want %q", tc.name, origin, annoRef))
		}
		bv, err := ev.CallFunc(fg, gbStruct, eval.K(int64(len(annoRef))))
		if err != nil {
			c.Und("R3/text/"+tc.name, fg.Pos(), "cannot evaluate RegionsFromGenbank on the parsed record: %v", err)
			continue
		}
		b := readRegions(bv)
		// GFF
		ev2 := newEval(c)
		installBytesAndRegexp(ev2, gffLines)
		fv, err := ev2.CallFunc(rf, eval.Opaque{Why: "gff file"})
		if err != nil {
			c.Und("R3/text/"+tc.name, rf.Pos(), "cannot evaluate ReadGFF: %v", err)
			continue
		}
		ft := fv.(eval.Tuple)
		if e, isErr := ft[1].(eval.ErrVal); isErr {
			bad = append(bad, tc.name+": ReadGFF rejects a valid GFF3 text ("+eval.Show(e)+")")
			continue
		}
		gffStruct := ft[0].(*eval.StructVal)
		// the ##FASTA record
		if fm, ok := gffStruct.F["FASTA"].(*eval.MapVal); !ok || len(fm.M) != 1 {
			bad = append(bad, tc.name+": ##FASTA section not parsed into one record")
		}
		rv, err := ev2.CallFunc(ff, gffStruct, eval.S(annoRef))
		if err != nil {
			c.Und("R3/text/"+tc.name, ff.Pos(), "cannot evaluate RegionsFromGFF on the parsed file: %v", err)
			continue
		}
		g := readRegions(rv)
		norm := func(rs []string) []string {
			out := []string{}
			for _, r := range rs {
				out = append(out, strings.TrimSuffix(r, "*"))
			}
			return out
		}
		if g.err != "" || b.err != "" || !sameSet(norm(g.regions), norm(b.regions)) || fmt.Sprint(g.inter) != fmt.Sprint(b.inter) {
			bad = append(bad, fmt.Sprintf("%s: from GFF text %v %v %s; from GenBank text %v %v %s", tc.name, norm(g.regions), g.inter, g.err, norm(b.regions), b.inter, b.err))
		}
	}
	c.Ob("R3/text/parsed-files-give-same-regions", len(bad) == 0, rg.Pos(), "%s", first(bad, 3))
	// a location wrapped over two lines (GenBank breaks long joins after a comma): read whole, or rejected - a gene
	// silently cut at the line break would give other mutations than the GFF form of the same annotation
	{
		var badWrap []string
		for _, loc := range []string{"join(1..6,10..15)", "complement(join(4..9,16..21))", "join(1..3,7..9,13..18)"} {
			feats := []gbFeature{{"CDS", loc, "g1", 1}}
			regionsOf := func(lines []string) (regionsOut, string) {
				ev := newEval(c)
				installBytesAndRegexp(ev, lines)
				gv, err := ev.CallFunc(rg, eval.Opaque{Why: "genbank file"})
				if err != nil {
					return regionsOut{}, "undecided: " + err.Error()
				}
				gt, ok := gv.(eval.Tuple)
				if !ok || len(gt) != 2 {
					return regionsOut{}, "undecided: unexpected result of ReadGenBank"
				}
				if _, isErr := gt[1].(eval.ErrVal); isErr {
					return regionsOut{err: "rejected by ReadGenBank"}, ""
				}
				bv, err := ev.CallFunc(fg, gt[0], eval.K(int64(len(annoRef))))
				if err != nil {
					if strings.Contains(err.Error(), "out of range") {
						// the program stops with a run-time panic: not a reading of the gene (that such input is not refused
						// with a message is outside this property)
						return regionsOut{err: "the location parser indexes out of range (" + err.Error() + ")"}, ""
					}
					return regionsOut{}, "undecided: " + err.Error()
				}
				return readRegions(bv), ""
			}
			whole, und := regionsOf(genbankText(feats, annoRef))
			if und != "" || whole.err != "" {
				c.Und("R3/text/wrapped-location-read-whole-or-rejected", rg.Pos(), "%s on one line: %s %s", loc, und, whole.err)
				continue
			}
			// the same text with the location broken after its last comma
			var wrapped []string
			for _, l := range genbankText(feats, annoRef) {
				if i := strings.LastIndex(l, ","); i >= 0 && strings.HasSuffix(l, loc) {
					wrapped = append(wrapped, l[:i+1], strings.Repeat(" ", 21)+l[i+1:])
					continue
				}
				wrapped = append(wrapped, l)
			}
			got, und := regionsOf(wrapped)
			if und != "" {
				c.Und("R3/text/wrapped-location-read-whole-or-rejected", rg.Pos(), "%s wrapped: %s", loc, und)
				continue
			}
			if got.err != "" {
				c.Note("a GenBank location wrapped over two lines (%s) is not read: %s", loc, got.err)
			}
			if got.err == "" && (!sameSet(got.regions, whole.regions) || fmt.Sprint(got.inter) != fmt.Sprint(whole.inter)) {
				badWrap = append(badWrap, fmt.Sprintf("%s broken after its last comma is accepted and read as %v (intergenic %v); on one line it is %v (intergenic %v)", loc, got.regions, got.inter, whole.regions, whole.inter))
			}
		}
		c.Ob("R3/text/wrapped-location-read-whole-or-rejected", len(badWrap) == 0, funcPos(c, "pkg/genbank", "parseGenbankFEATURES"), "%s", first(badWrap, 3))
	}
	// the reference taken from ORIGIN keeps every IUPAC letter, so coordinates agree with the GFF's ##FASTA record
	{
		amb := "ACGTRYKMSWBDHVNNACGTACGTRYACGT"
		ev := newEval(c)
		installBytesAndRegexp(ev, genbankText(nil, amb))
		gv, err := ev.CallFunc(rg, eval.Opaque{Why: "genbank file"})
		if err != nil {
			c.Und("R3/text/origin-keeps-every-iupac-letter", rg.Pos(), "cannot evaluate ReadGenBank: %v", err)
		} else {
			origin := ""
			if gt, ok := gv.(eval.Tuple); ok && len(gt) == 2 {
				if st, ok := gt[0].(*eval.StructVal); ok {
					origin, _ = bytesStr(st.F["ORIGIN"])
				}
			}
			c.Ob("R3/text/origin-keeps-every-iupac-letter", strings.ToUpper(origin) == amb, funcPos(c, "pkg/genbank", "parseGenbankORIGIN"), "ORIGIN %q parsed as %q (%d of %d letters): every later coordinate is shifted against the GFF form of the same annotation", strings.ToLower(amb), origin, len(origin), len(amb))
		}
	}
}

// c14Translations: GetPositions / IsReverse on the location shapes, directly.
func c14Translations(c *core.Ctx) {
	gp := c.LookupFunc("pkg/genbank", "Location.GetPositions")
	ir := c.LookupFunc("pkg/genbank", "Location.IsReverse")
	if gp == nil || ir == nil {
		c.Und("R4/location", token.NoPos, "UNRESOLVED anchors Location.GetPositions/IsReverse")
		return
	}
	locs := []string{"3..7", "join(1..3,7..9)", "join(1..3,7..9,12..13)", "complement(3..7)", "complement(join(1..3,7..9))",
		"join(complement(7..9),complement(1..3))", "complement(join(1..3,7..9,12..13))", "join(1..2,3..4)"}
	ev := newEval(c)
	var bad []string
	for _, l := range locs {
		recv := &eval.StructVal{F: map[string]eval.Value{"Representation": eval.S(l)}}
		v, err := ev.CallMethod(gp, recv)
		if err != nil {
			bad = append(bad, fmt.Sprintf("%s: undecided: %v", l, err))
			continue
		}
		t := v.(eval.Tuple)
		want := fmt.Sprint(locPositions(l))
		got := "error"
		if _, isErr := t[1].(eval.ErrVal); !isErr {
			var ps []int
			for _, e := range t[0].(eval.Slice).Elems() {
				n, _ := linConst(e)
				ps = append(ps, int(n))
			}
			got = fmt.Sprint(ps)
		}
		if got != want {
			bad = append(bad, fmt.Sprintf("%s -> %s, want %s", l, got, want))
		}
		rv, err := ev.CallMethod(ir, recv)
		if err == nil {
			rt := rv.(eval.Tuple)
			wantRev := strings.Contains(l, "complement")
			if b, _ := rt[0].(bool); b != wantRev {
				bad = append(bad, fmt.Sprintf("%s: reverse=%v, want %v", l, b, wantRev))
			}
		}
	}
	// partial-feature markers ('<' before the first, '>' before the last coordinate): the gene is the marked range
	// (the GFF form of the same gene has plain coordinates), or the annotation is refused (an error, or a run-time
	// panic: not a reading); never a region over some other set of positions. Decided on the regions
	// RegionsFromGenbank builds, not on GetPositions alone (an empty position list stops the constructor).
	var badPartial []string
	partial := []string{"<4..9", "4..>9", "<4..>9", "join(<1..3,7..9)", "join(1..3,7..>9)", "complement(<4..9)", "complement(4..>9)", "complement(join(<4..9,16..>21))",
		"join(complement(<16..21),complement(4..9))", "join(complement(16..21),complement(4..>9))"}
	for _, l := range partial {
		plain := strings.NewReplacer("<", "", ">", "").Replace(l)
		want := evalRegionsGenbank(c, []gbFeature{{"CDS", plain, "g1", 1}}, annoRef)
		got := evalRegionsGenbank(c, []gbFeature{{"CDS", l, "g1", 1}}, annoRef)
		if want.err != "" {
			badPartial = append(badPartial, fmt.Sprintf("%s: undecided: %s", plain, want.err))
			continue
		}
		if got.err != "" {
			if strings.HasPrefix(got.err, "undecided") && !strings.Contains(got.err, "out of range") && !strings.Contains(got.err, "panic") {
				badPartial = append(badPartial, fmt.Sprintf("%s: %s", l, got.err))
			} else {
				c.Note("a GenBank location with partial markers (%s) is not read: %s", l, strings.TrimPrefix(got.err, "undecided: "))
			}
			continue
		}
		if !sameSet(got.regions, want.regions) || fmt.Sprint(got.inter) != fmt.Sprint(want.inter) {
			badPartial = append(badPartial, fmt.Sprintf("%s is accepted and gives %v (intergenic %v); the gene is %v (intergenic %v)", l, got.regions, got.inter, want.regions, want.inter))
		}
	}
	c.Ob("R4/genbank-location/partial-markers-read-or-rejected", len(badPartial) == 0, gp.Pos(), "%s", first(badPartial, 4))
	c.Count("locations_evaluated", len(locs)+len(partial))
	c.Ob("R4/genbank-location/positions-and-strand", len(bad) == 0, gp.Pos(), "%s", first(bad, 4))
	_ = oracle.A
}

// c14Mutations: the regions each constructor builds from the two descriptions of one layout are handed to
// GetVariantsPair for every single-base change of the reference; the two lists of records must be the same records
// (compared as multisets: the property leaves open only the order of records that share a position, so equal
// multisets are a necessary condition). The two constructors legitimately return the regions in different orders
// (feature-table order, start order): nothing in the records may depend on that order.
func c14Mutations(c *core.Ctx) {
	rg := c.LookupFunc("pkg/variants", "RegionsFromGFF")
	rb := c.LookupFunc("pkg/variants", "RegionsFromGenbank")
	if rg == nil || rb == nil {
		c.Und("R7/mutations-agree", token.NoPos, "UNRESOLVED region constructors")
		return
	}
	tabs := extractTables(c, newEval(c), "R7")
	if !tabs.OK {
		return
	}
	var bad []string
	n := 0
	for _, ac := range annoCases(c) {
		var forms [2][]eval.Value
		ok := true
		for i, form := range []string{"gff", "genbank"} {
			ev := newEval(c)
			var rv eval.Value
			var err error
			if form == "gff" {
				rv, err = ev.CallFunc(rg, mkGFF(c, ac.gff), eval.S(annoRef))
			} else {
				rv, err = ev.CallFunc(rb, mkGenbank(c, ac.gb, annoRef), eval.K(int64(len(annoRef))))
			}
			t, isT := rv.(eval.Tuple)
			if err != nil || !isT || len(t) != 3 {
				c.Und("R7/mutations-agree/"+ac.name, rg.Pos(), "cannot build the regions (%s form): %v", form, err)
				ok = false
				break
			}
			if _, isErr := t[2].(eval.ErrVal); isErr {
				ok = false // a rejected layout is reported by the region rules
				break
			}
			forms[i] = []eval.Value{t[0], t[1]}
		}
		if !ok {
			continue
		}
		for p := 0; p < len(annoRef); p++ {
			for _, alt := range []byte("ACGT") {
				if alt == annoRef[p] {
					continue
				}
				q := []byte(annoRef)
				q[p] = alt
				n++
				var lists [2][]string
				for i := range forms {
					got, err := evalVariantsPairWith(c, tabs, annoRef, string(q), nil, forms[i])
					if err != nil {
						bad = append(bad, fmt.Sprintf("%s: undecided: %v", ac.name, err))
						continue
					}
					lists[i] = append([]string{}, got.all...)
					sort.Strings(lists[i])
				}
				if strings.Join(lists[0], " ") != strings.Join(lists[1], " ") {
					bad = append(bad, fmt.Sprintf("%s, %c%d%c: the GFF description gives %v, the GenBank description gives %v", ac.name, annoRef[p], p+1, alt, lists[0], lists[1]))
				}
			}
		}
		if len(bad) > 12 {
			break
		}
	}
	c.Count("mutation_lists_compared", n)
	c.Ob("R7/mutations-agree/same-records-from-both-descriptions", len(bad) == 0, funcPos(c, "pkg/variants", "GetVariantsPair"), "%s", first(bad, 3))
}

// c14NotWholeCodons: a CDS whose length after the codon_start / phase offset is not a whole number of codons (a gene
// running off a contig end). Whatever is done with it - refused, or its whole codons used - is done the same under
// both descriptions: one format accepting what the other refuses gives mutations under one and none under the other.
func c14NotWholeCodons(c *core.Ctx) {
	A := func(kv ...string) map[string]string {
		m := map[string]string{}
		for i := 0; i+1 < len(kv); i += 2 {
			m[kv[i]] = kv[i+1]
		}
		return m
	}
	cases := []annoCase{
		{name: "forward gene of 11 bases",
			gff: []*eval.StructVal{mkGFFFeature(c, "CDS", 4, 14, "+", 0, A("ID", "c1", "Name", "g1"))},
			gb:  []gbFeature{{"CDS", "4..14", "g1", 1}}},
		{name: "forward gene of 10 bases after the frame offset",
			gff: []*eval.StructVal{mkGFFFeature(c, "CDS", 4, 15, "+", 2, A("ID", "c1", "Name", "g1"))},
			gb:  []gbFeature{{"CDS", "4..15", "g1", 3}}},
		{name: "reverse gene of 10 bases",
			gff: []*eval.StructVal{mkGFFFeature(c, "CDS", 5, 14, "-", 0, A("ID", "c1", "Name", "g1"))},
			gb:  []gbFeature{{"CDS", "complement(5..14)", "g1", 1}}},
		{name: "joined gene of 6+5 bases",
			gff: []*eval.StructVal{mkGFFFeature(c, "CDS", 1, 6, "+", 0, A("ID", "c1", "Name", "g1")), mkGFFFeature(c, "CDS", 10, 14, "+", 0, A("ID", "c1", "Name", "g1"))},
			gb:  []gbFeature{{"CDS", "join(1..6,10..14)", "g1", 1}}},
	}
	refused := func(o regionsOut) (bool, string) {
		if o.err == "" {
			return false, ""
		}
		if strings.HasPrefix(o.err, "UNRESOLVED") || (strings.HasPrefix(o.err, "undecided") && !strings.Contains(o.err, "panic") && !strings.Contains(o.err, "out of range")) {
			return false, o.err
		}
		return true, ""
	}
	var bad []string
	for _, ac := range cases {
		g := evalRegionsGFF(c, ac.gff, annoRef)
		b := evalRegionsGenbank(c, ac.gb, annoRef)
		gr, gu := refused(g)
		br, bu := refused(b)
		if gu != "" || bu != "" {
			c.Und("R8/not-whole-codons/"+ac.name, funcPos(c, "pkg/variants", "RegionsFromGFF"), "%s %s", gu, bu)
			continue
		}
		switch {
		case gr != br:
			acc, rej, regs := "GenBank", "GFF", b.regions
			if br {
				acc, rej, regs = "GFF", "GenBank", g.regions
			}
			bad = append(bad, fmt.Sprintf("%s: the %s description is accepted (%v), the %s description of the same gene is refused", ac.name, acc, regs, rej))
		case !gr && (!sameSet(g.regions, b.regions) || fmt.Sprint(g.inter) != fmt.Sprint(b.inter)):
			bad = append(bad, fmt.Sprintf("%s: GFF gives %v intergenic %v; GenBank gives %v intergenic %v", ac.name, g.regions, g.inter, b.regions, b.inter))
		}
	}
	c.Ob("R8/not-whole-codons/both-descriptions-treated-alike", len(bad) == 0, funcPos(c, "pkg/variants", "CDSRegion2fromGenbank"), "%s", first(bad, 3))
}

// c14ResolvableAmbiguity: a reference codon that contains an ambiguity code but still has a single translation (CCN is
// proline) is a codon like any other: both descriptions are accepted and give the same regions.
func c14ResolvableAmbiguity(c *core.Ctx) {
	A := map[string]string{"ID": "c1", "Name": "g1"}
	var bad []string
	for _, tc := range []struct {
		at   int
		code byte
	}{{5, 'N'}, {5, 'Y'}, {8, 'R'}} { // CCC -> CCN / CCY (P), AAA -> AAR (K)
		ref := []byte(annoRef)
		ref[tc.at] = tc.code
		g := evalRegionsGFF(c, []*eval.StructVal{mkGFFFeature(c, "CDS", 1, 9, "+", 0, A)}, string(ref))
		b := evalRegionsGenbank(c, []gbFeature{{"CDS", "1..9", "g1", 1}}, string(ref))
		if strings.HasPrefix(g.err, "undecided") || strings.HasPrefix(b.err, "undecided") || strings.HasPrefix(g.err, "UNRESOLVED") || strings.HasPrefix(b.err, "UNRESOLVED") {
			c.Und("R9/resolvable-ambiguity-in-the-reference", funcPos(c, "pkg/variants", "CDSRegion2fromGFF"), "%s %s", g.err, b.err)
			return
		}
		switch {
		case g.err != "" && b.err == "":
			bad = append(bad, fmt.Sprintf("reference %s: the GenBank description is accepted, the GFF description is refused (%s)", ref, g.err))
		case g.err == "" && b.err != "":
			bad = append(bad, fmt.Sprintf("reference %s: the GFF description is accepted, the GenBank description is refused (%s)", ref, b.err))
		case g.err == "" && !sameSet(trimStars(g.regions), trimStars(b.regions)):
			bad = append(bad, fmt.Sprintf("reference %s: GFF gives %v, GenBank gives %v", ref, g.regions, b.regions))
		}
	}
	c.Ob("R9/resolvable-ambiguity-in-the-reference/both-descriptions-treated-alike", len(bad) == 0, funcPos(c, "pkg/variants", "CDSRegion2fromGFF"), "%s", first(bad, 3))
}

// trimStars drops the marker the GenBank rendering puts after a translation taken from the file.
func trimStars(rs []string) []string {
	out := []string{}
	for _, r := range rs {
		out = append(out, strings.TrimSuffix(r, "*"))
	}
	return out
}
