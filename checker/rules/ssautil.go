package rules

import (
	"go/token"
	"go/types"

	"golang.org/x/tools/go/ssa"

	"gofasta-verif/core"
)

// calleeName returns the static callee's name of a call instruction ("" if dynamic).
func calleeOf(call ssa.CallInstruction) *ssa.Function {
	return call.Common().StaticCallee()
}

// allInstrs visits every instruction of f and of the anonymous functions nested in it.
func allInstrs(f *ssa.Function, visit func(fn *ssa.Function, ins ssa.Instruction)) {
	var walk func(fn *ssa.Function)
	walk = func(fn *ssa.Function) {
		for _, b := range fn.Blocks {
			for _, ins := range b.Instrs {
				visit(fn, ins)
			}
		}
		for _, a := range fn.AnonFuncs {
			walk(a)
		}
	}
	walk(f)
}

// checkBoolArgIsParam: every call in f to one of the named functions passes f's own
// boolean parameter (unchanged) as the callee's boolean argument.
func checkBoolArgIsParam(c *core.Ctx, key string, f *ssa.Function, callees []string) int {
	want := map[string]bool{}
	for _, n := range callees {
		want[n] = true
	}
	n := 0
	allInstrs(f, func(fn *ssa.Function, ins ssa.Instruction) {
		call, ok := ins.(ssa.CallInstruction)
		if !ok {
			return
		}
		cal := calleeOf(call)
		if cal == nil || !want[cal.Name()] {
			return
		}
		for i, a := range call.Common().Args {
			if b, ok := a.Type().Underlying().(*types.Basic); ok && b.Kind() == types.Bool {
				n++
				_, isParam := a.(*ssa.Parameter)
				if !isParam {
					if fv, ok := a.(*ssa.FreeVar); ok {
						_ = fv
						isParam = true
					}
				}
				c.Ob(key+"/"+cal.Name(), isParam, ins.Pos(), "argument %d of %s is %s, not the caller's flag parameter", i, cal.Name(), a.String())
			}
		}
	})
	return n
}

func posOf(v interface{ Pos() token.Pos }) token.Pos { return v.Pos() }

// origins follows a value back through loads of local allocations (flow-insensitively
// over the stores into them), phis, extracts and representation changes, and
// returns the root values it can originate from.
func origins(v ssa.Value) []ssa.Value {
	seen := map[ssa.Value]bool{}
	var out []ssa.Value
	var rec func(v ssa.Value)
	rec = func(v ssa.Value) {
		if v == nil || seen[v] {
			return
		}
		seen[v] = true
		switch x := v.(type) {
		case *ssa.UnOp:
			if x.Op == token.MUL {
				if a, ok := x.X.(*ssa.Alloc); ok {
					for _, r := range *a.Referrers() {
						if st, ok := r.(*ssa.Store); ok && st.Addr == a {
							rec(st.Val)
						}
					}
					return
				}
			}
			if x.Op == token.ARROW {
				out = append(out, x)
				return
			}
			out = append(out, x)
		case *ssa.Phi:
			for _, e := range x.Edges {
				rec(e)
			}
		case *ssa.Extract:
			// keep the tuple producer as origin (call, next, select, comma-ok receive)
			if u, ok := x.Tuple.(*ssa.UnOp); ok && u.Op == token.ARROW {
				out = append(out, u)
				return
			}
			out = append(out, x)
		case *ssa.ChangeType:
			rec(x.X)
		case *ssa.Convert:
			rec(x.X)
		case *ssa.MakeInterface:
			rec(x.X)
		case *ssa.ChangeInterface:
			rec(x.X)
		default:
			out = append(out, v)
		}
	}
	rec(v)
	return out
}

func allOrigins(v ssa.Value, pred func(ssa.Value) bool) bool {
	os := origins(v)
	if len(os) == 0 {
		return false
	}
	for _, o := range os {
		if !pred(o) {
			return false
		}
	}
	return true
}
