package rules

// Engine E: pipeline wiring. An entry point that builds a pipeline (reader -> workers -> writer) is interpreted
// in the evaluator's sequential pipeline model with every stage function replaced by a recorder: the recorder
// notes the function and its arguments, and reports completion on its `chan bool` parameters (or, in a failure
// scenario, an error on its error channel). What is decided: which stages the entry point starts, with which
// options, data and streams, under each scenario of its parameters; that it returns nil when every stage
// completes; and that it returns an error when any one stage reports one. Channel identity, scheduling and what
// the stages do are decided elsewhere (engines A, B, C).

import (
	"fmt"
	"go/token"
	"go/types"
	"sort"
	"strings"

	"gofasta-verif/core"
	"gofasta-verif/eval"
)

type wireRun struct {
	events []string
	stages []string // names of the recorded functions that own an error channel (candidates for the failure scenarios)
	result eval.Value
	err    error
}

type wireCanned func(args []eval.Value, sig *types.Signature) eval.Value

func renderWire(v eval.Value) string {
	switch x := unref(v).(type) {
	case nil:
		return "nil"
	case eval.Nil:
		return "nil"
	case eval.Opaque:
		return x.Why
	case *eval.ChanVal:
		return "chan"
	case bool:
		return fmtB(x)
	case eval.Lin:
		if x.IsConst() {
			return fmtI(x.C)
		}
	case eval.Str:
		if x.IsConst() {
			return fmtS(x.Const())
		}
	case *eval.FExpr:
		if x.IsConst() {
			return fmtF(x.C)
		}
	case *eval.StructVal:
		liftEmbedded(x, map[*eval.StructVal]bool{}) // promoted fields count as the struct's own
		if tag, ok := x.F["ID"].(eval.Str); ok && tag.IsConst() {
			return "record(" + tag.Const() + ")"
		}
		if tag, ok := x.F["_tag"].(eval.Str); ok && tag.IsConst() {
			return tag.Const()
		}
		if _, ok := x.F["qidx"]; ok {
			return "res"
		}
		var ks []string
		for k := range x.F {
			ks = append(ks, k)
		}
		sort.Strings(ks)
		var fs []string
		for _, k := range ks {
			fs = append(fs, k+":"+renderWire(x.F[k]))
		}
		return "{" + strings.Join(fs, " ") + "}"
	case eval.Slice:
		var ss []string
		for _, e := range x.Elems() {
			ss = append(ss, renderWire(e))
		}
		if len(ss) > 6 {
			ss = append(ss[:6], "…")
		}
		return "[" + strings.Join(ss, " ") + "]"
	case eval.ArrayVal:
		var ss []string
		for _, e := range x.A.E {
			ss = append(ss, renderWire(e))
		}
		return "[" + strings.Join(ss, " ") + "]"
	case *eval.FuncVal:
		return "func"
	}
	s := eval.Show(v)
	if len(s) > 60 {
		s = s[:60] + "…"
	}
	return s
}

// runWiring interprets pkg.entry(args...) in the pipeline model. canned gives results for recorded functions that
// return values (keyed by "pkgname.Func"); failing names a stage that reports an error instead of completing.
func runWiring(c *core.Ctx, pkg, entry string, args []eval.Value, numCPU int, canned map[string]wireCanned, failing string, stageNames ...map[string]bool) wireRun {
	var known map[string]bool
	if len(stageNames) > 0 {
		known = stageNames[0]
	}
	var run wireRun
	fn := c.LookupFunc(pkg, entry)
	if fn == nil {
		run.err = fmt.Errorf("UNRESOLVED anchor %s.%s", pkg, entry)
		return run
	}
	ev := newEval(c)
	ev.Pipeline = true
	ev.NumCPU = numCPU
	installBiogo(ev)
	errT := types.Universe.Lookup("error").Type()
	seenStage := map[string]bool{}
	for rel, p := range c.Pkgs {
		if !strings.HasPrefix(rel, "pkg/") {
			continue
		}
		scope := p.Types.Scope()
		for _, name := range scope.Names() {
			f, ok := scope.Lookup(name).(*types.Func)
			if !ok || f == fn {
				continue
			}
			sig := f.Type().(*types.Signature)
			hasChan := false
			for i := 0; i < sig.Params().Len(); i++ {
				if _, ok := sig.Params().At(i).Type().Underlying().(*types.Chan); ok {
					hasChan = true
				}
			}
			key := p.Types.Name() + "." + name
			can, isCanned := canned[key]
			if !hasChan && !isCanned {
				continue
			}
			// only the specification's stage functions are recorders; a helper that merely takes channels
			// (`go signalWhenDone(&wg, done)`, `awaitStage(done, errs)`) is interpreted like the entry point itself
			if known != nil && !isCanned && !known[key] {
				continue
			}
			ev.Extern[f.FullName()] = func(ev *eval.Evaluator, pos token.Pos, recv eval.Value, a []eval.Value) eval.Value {
				var rs []string
				for _, v := range a {
					rs = append(rs, renderWire(v))
				}
				run.events = append(run.events, key+"("+strings.Join(rs, ", ")+")")
				fail := failing == key
				var errCh *eval.ChanVal
				for i := 0; i < sig.Params().Len() && i < len(a); i++ {
					ct, ok := sig.Params().At(i).Type().Underlying().(*types.Chan)
					ch, isCh := a[i].(*eval.ChanVal)
					if !ok || !isCh {
						continue
					}
					if types.Identical(ct.Elem(), errT) {
						errCh = ch
					}
				}
				errIdx := errResultIndex(sig)
				if (errCh != nil || errIdx >= 0) && !seenStage[key] {
					seenStage[key] = true
					run.stages = append(run.stages, key)
				}
				if fail && errCh == nil && errIdx >= 0 {
					// a synchronous step (reader, region builder, writer) that returns an error
					e := eval.ErrVal{Msg: eval.S("step " + key + " failed")}
					if sig.Results().Len() == 1 {
						return e
					}
					t := eval.Tuple{}
					for i := 0; i < sig.Results().Len(); i++ {
						if i == errIdx {
							t = append(t, e)
						} else {
							t = append(t, ev.Zero(sig.Results().At(i).Type()))
						}
					}
					return t
				}
				if fail && errCh != nil {
					e := eval.ErrVal{Msg: eval.S("stage " + key + " failed")}
					errCh.Sent = append(errCh.Sent, e)
					errCh.Feed = append(errCh.Feed, e)
				} else {
					for i := 0; i < sig.Params().Len() && i < len(a); i++ {
						ct, ok := sig.Params().At(i).Type().Underlying().(*types.Chan)
						ch, isCh := a[i].(*eval.ChanVal)
						if !ok || !isCh {
							continue
						}
						if b, isB := ct.Elem().Underlying().(*types.Basic); isB && b.Kind() == types.Bool {
							ch.Sent = append(ch.Sent, true)
							ch.Feed = append(ch.Feed, true)
						} else if st, isSt := ct.Elem().Underlying().(*types.Struct); isSt && st.NumFields() == 0 {
							// a `chan struct{}` completion channel: whether the real stage sends a token or closes it,
							// the waiting receive returns
							z := ev.Zero(ct.Elem())
							ch.Sent = append(ch.Sent, z)
							ch.Feed = append(ch.Feed, z)
						} else if strings.HasSuffix(ct.Elem().String(), "sam.Header") {
							h := &eval.StructVal{F: map[string]eval.Value{"_tag": eval.S("samheader")}}
							ch.Sent = append(ch.Sent, h)
							ch.Feed = append(ch.Feed, h)
						}
					}
				}
				if isCanned && can != nil {
					return can(a, sig)
				}
				switch sig.Results().Len() {
				case 0:
					return nil
				case 1:
					return ev.Zero(sig.Results().At(0).Type())
				}
				t := eval.Tuple{}
				for i := 0; i < sig.Results().Len(); i++ {
					t = append(t, ev.Zero(sig.Results().At(i).Type()))
				}
				return t
			}
		}
	}
	// the SAM header a reader stage delivers: one reference of 30 bases
	for _, recvT := range []string{"(*" + biogo + ".Header).Refs", "(" + biogo + ".Header).Refs"} {
		ev.Extern[recvT] = func(ev *eval.Evaluator, pos token.Pos, recv eval.Value, a []eval.Value) eval.Value {
			r := &eval.StructVal{F: map[string]eval.Value{"_tag": eval.S("samref")}}
			return eval.NewSlice(&eval.Ref{Get: func() eval.Value { return r }, Set: func(eval.Value) {}})
		}
	}
	ev.Extern["(*"+biogo+".Reference).Len"] = func(ev *eval.Evaluator, pos token.Pos, recv eval.Value, a []eval.Value) eval.Value {
		return eval.K(30)
	}
	ev.Extern["(*os.File).Seek"] = func(ev *eval.Evaluator, pos token.Pos, recv eval.Value, a []eval.Value) eval.Value {
		return eval.Tuple{eval.K(0), eval.Nil{}}
	}
	ev.Extern["(*bytes.Reader).Seek"] = ev.Extern["(*os.File).Seek"]
	// the entry point's own diagnostics
	okWrite := func(ev *eval.Evaluator, pos token.Pos, recv eval.Value, a []eval.Value) eval.Value {
		return eval.Tuple{eval.K(0), eval.Nil{}}
	}
	for _, name := range []string{"fmt.Fprintln", "fmt.Fprint", "fmt.Fprintf", "(*os.File).WriteString", "io.WriteString", "fmt.Println", "fmt.Printf", "fmt.Print"} {
		ev.Extern[name] = okWrite
	}
	for _, name := range []string{"Stdin", "Stdout", "Stderr"} {
		if v := lookupPkgVar(c, "os", name); v != nil {
			ev.SetGlobal(v, eval.Opaque{Why: "os." + name})
		}
	}
	run.result, run.err = ev.CallFunc(fn, args...)
	return run
}

func sortedCopy(ss []string) []string {
	out := append([]string{}, ss...)
	sort.Strings(out)
	return out
}

type wireScenario struct {
	label   string
	args    []eval.Value
	numCPU  int
	canned  map[string]wireCanned
	want    []string // expected events (as a multiset); nil with wantErr = the entry point must fail
	wantErr bool
}

// checkWiring runs the scenarios of one entry point.
func checkWiring(c *core.Ctx, rule, pkg, entry string, scenarios []wireScenario) {
	key := rule + "/wiring/" + strings.TrimPrefix(pkg, "pkg/") + "." + entry
	pos := funcPos(c, pkg, entry)
	var bad, badErr, und []string
	n := 0
	known := map[string]bool{}
	for _, sc := range scenarios {
		for _, e := range currentStageNames(c, sc.want) {
			if i := strings.Index(e, "("); i > 0 {
				known[e[:i]] = true
			}
		}
	}
	for _, sc := range scenarios {
		n++
		r := runWiring(c, pkg, entry, sc.args, sc.numCPU, sc.canned, "", known)
		if r.err != nil {
			und = append(und, fmt.Sprintf("[%s] %v", sc.label, r.err))
			continue
		}
		_, isErr := r.result.(eval.ErrVal)
		if sc.wantErr {
			if !isErr {
				bad = append(bad, fmt.Sprintf("[%s] must fail; it starts %v and returns %s", sc.label, r.events, eval.Show(r.result)))
			}
			continue
		}
		if isErr {
			bad = append(bad, fmt.Sprintf("[%s] every stage completes, yet the entry point returns %s", sc.label, eval.Show(r.result)))
			continue
		}
		got, want := sortedCopy(r.events), sortedCopy(currentStageNames(c, sc.want))
		if strings.Join(got, "\n") != strings.Join(want, "\n") && !sameWiringUpToRefactoredInterfaces(c, got, want) {
			bad = append(bad, fmt.Sprintf("[%s] started but not specified: %s; specified but not started: %s", sc.label, strings.Join(diffOnly(got, want), " + "), strings.Join(diffOnly(want, got), " + ")))
			continue
		}
		// any one stage reporting an error makes the entry point return an error
		for _, st := range r.stages {
			n++
			rf := runWiring(c, pkg, entry, sc.args, sc.numCPU, sc.canned, st, known)
			if rf.err != nil {
				und = append(und, fmt.Sprintf("[%s; %s fails] %v", sc.label, st, rf.err))
				continue
			}
			if _, ok := rf.result.(eval.ErrVal); !ok {
				badErr = append(badErr, fmt.Sprintf("[%s] %s reports an error (on the error channel, or as its result), yet the entry point returns %s", sc.label, st, eval.Show(rf.result)))
			}
		}
	}
	c.Count("wiring_runs", n)
	if len(und) > 0 {
		c.Und(key+"/decided", pos, "%s", first(und, 3))
	} else {
		c.Ob(key+"/decided", true, pos, "")
	}
	c.Ob(key+"/stages-and-their-arguments", len(bad) == 0, pos, "%s", first(bad, 2))
	c.Ob(key+"/a-failing-stage-fails-the-entry-point", len(badErr) == 0, pos, "%s", first(badErr, 3))
}

// diffOnly lists the elements of a (multiset) not matched in b.
func diffOnly(a, b []string) []string {
	cnt := map[string]int{}
	for _, x := range b {
		cnt[x]++
	}
	var out []string
	for _, x := range a {
		if cnt[x] > 0 {
			cnt[x]--
			continue
		}
		out = append(out, x)
	}
	if len(out) == 0 {
		out = []string{"(nothing else)"}
	}
	return out
}

// currentStageNames maps the stage names of a specification (reference tree) to the names those functions
// carry on the analysed tree (an unexported stage may have been renamed; anchors resolve by signature).
func currentStageNames(c *core.Ctx, events []string) []string {
	out := make([]string, len(events))
	for i, e := range events {
		out[i] = e
		par := strings.Index(e, "(")
		dot := strings.Index(e, ".")
		if par < 0 || dot < 0 || dot > par {
			continue
		}
		pkg, name := e[:dot], e[dot+1:par]
		if cur := currentName(c, "pkg/"+pkg, name); cur != name {
			out[i] = pkg + "." + cur + e[par:]
		}
	}
	return out
}

// wireLeaves splits a rendered event into its function name and the sorted multiset of its leaf arguments
// (struct arguments flattened, field names dropped).
func wireLeaves(e string) (string, []string) {
	par := strings.Index(e, "(")
	if par < 0 || !strings.HasSuffix(e, ")") {
		return e, nil
	}
	name, body := e[:par], e[par+1:len(e)-1]
	var leaves []string
	depthSq := 0
	cur := ""
	flush := func() {
		t := strings.TrimSpace(cur)
		cur = ""
		if t == "" {
			return
		}
		if i := strings.Index(t, ":"); i > 0 && !strings.ContainsAny(t[:i], "[(\" ") && depthSq == 0 {
			t = t[i+1:] // a struct field: drop its name
		}
		if t != "" && t != "chan" { // channels carry no information in an event; an unused one may have been dropped
			leaves = append(leaves, t)
		}
	}
	inStr := false
	for i := 0; i < len(body); i++ {
		ch := body[i]
		switch {
		case ch == '"':
			inStr = !inStr
			cur += string(ch)
		case inStr:
			cur += string(ch)
		case ch == '[' || ch == '(':
			depthSq++
			cur += string(ch)
		case ch == ']' || ch == ')':
			depthSq--
			cur += string(ch)
		case (ch == '{' || ch == '}') && depthSq == 0:
			flush()
		case (ch == ',' || ch == ' ') && depthSq == 0:
			flush()
		default:
			cur += string(ch)
		}
	}
	flush()
	sort.Strings(leaves)
	return name, leaves
}

// sameWiringUpToRefactoredInterfaces: the stages started differ from the specification only in how arguments are
// packaged (order, bundling into a struct) for stage functions whose signature is no longer the reference one.
// For functions with the reference signature the comparison stays positional.
func sameWiringUpToRefactoredInterfaces(c *core.Ctx, got, want []string) bool {
	if len(got) != len(want) {
		return false
	}
	canon := func(es []string) ([]string, bool) {
		var out []string
		for _, e := range es {
			name, leaves := wireLeaves(e)
			dot := strings.Index(name, ".")
			if dot < 0 {
				return nil, false
			}
			if c.SigChanged("pkg/"+name[:dot], name[dot+1:]) {
				out = append(out, name+"~"+strings.Join(leaves, ","))
			} else {
				out = append(out, e)
			}
		}
		sort.Strings(out)
		return out, true
	}
	g, ok1 := canon(got)
	w, ok2 := canon(want)
	return ok1 && ok2 && strings.Join(g, "\n") == strings.Join(w, "\n")
}

// wireTyped lists the arguments of a recorded call with their static types; struct-typed parameters are opened
// one level (a bundle of options is as good as the options themselves).
type wireTypedArg struct {
	t types.Type
	v eval.Value
}

func wireTyped(a []eval.Value, sig *types.Signature) []wireTypedArg {
	var out []wireTypedArg
	for i := 0; i < sig.Params().Len() && i < len(a); i++ {
		pt := sig.Params().At(i).Type()
		out = append(out, wireTypedArg{pt, a[i]})
		if st, ok := pt.Underlying().(*types.Struct); ok {
			if sv, ok := unref(a[i]).(*eval.StructVal); ok {
				for k := 0; k < st.NumFields(); k++ {
					if fv, ok := sv.F[st.Field(k).Name()]; ok {
						out = append(out, wireTypedArg{st.Field(k).Type(), fv})
					}
				}
			}
		}
	}
	return out
}

func wireFind(a []eval.Value, sig *types.Signature, pred func(t types.Type, v eval.Value) bool) eval.Value {
	for _, ta := range wireTyped(a, sig) {
		if pred(ta.t, ta.v) {
			return ta.v
		}
	}
	return nil
}
