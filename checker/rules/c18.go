package rules

import (
	"fmt"
	"go/constant"
	"go/token"
	"go/types"
	"gofasta-verif/eval"
	"sort"

	"golang.org/x/tools/go/ssa"

	"gofasta-verif/core"
)

func init() { register("C18", C18) }

// ---------------------------------------------------------------- B3: every wait also listens for errors

// sendsOn lists the Send instructions (anywhere in the repository) whose channel may be mc.
func (p *progFacts) sendsOn(mc *ssa.MakeChan) []*ssa.Send {
	var out []*ssa.Send
	for _, f := range p.funcs {
		for _, b := range f.Blocks {
			for _, ins := range b.Instrs {
				if s, ok := ins.(*ssa.Send); ok {
					for _, src := range p.chanSources(s.Chan) {
						if src == mc {
							out = append(out, s)
						}
					}
				}
			}
		}
	}
	return out
}

func (p *progFacts) isChanFrom(v ssa.Value, mcs map[*ssa.MakeChan]bool) bool {
	for _, src := range p.chanSources(v) {
		if mcs[src] {
			return true
		}
	}
	return false
}

// errSendBefore reports whether, in f, a send on one of the error channels is reachable from
// the entry without first passing a send on the awaited channel.
func (p *progFacts) errSendBefore(f *ssa.Function, awaited *ssa.MakeChan, errs map[*ssa.MakeChan]bool) (bool, token.Pos) {
	if len(f.Blocks) == 0 {
		return false, token.NoPos
	}
	aw := map[*ssa.MakeChan]bool{awaited: true}
	seen := map[*ssa.BasicBlock]bool{}
	var walk func(b *ssa.BasicBlock) (bool, token.Pos)
	walk = func(b *ssa.BasicBlock) (bool, token.Pos) {
		if seen[b] {
			return false, token.NoPos
		}
		seen[b] = true
		for _, ins := range b.Instrs {
			if s, ok := ins.(*ssa.Send); ok {
				if p.isChanFrom(s.Chan, aw) {
					return false, token.NoPos // this path has delivered what the waiter waits for
				}
				if p.isChanFrom(s.Chan, errs) {
					return true, s.Pos()
				}
			}
		}
		for _, s := range b.Succs {
			if bad, pos := walk(s); bad {
				return true, pos
			}
		}
		return false, token.NoPos
	}
	return walk(f.Blocks[0])
}

// checkWaits applies B3 to every function that creates an error channel.
func checkWaits(c *core.Ctx, p *progFacts, rule string, pkgs ...string) (nSelect, nBare int) {
	for _, f := range p.funcs {
		if f.Parent() != nil || isDeprecatedIndels(f) {
			continue
		}
		if len(pkgs) > 0 && (f.Pkg == nil || !containsStr(pkgs, c.RelOf(f.Pkg.Pkg))) {
			continue
		}
		errChans := map[*ssa.MakeChan]bool{}
		allInstrs(f, func(fn *ssa.Function, ins ssa.Instruction) {
			if mc, ok := ins.(*ssa.MakeChan); ok {
				if ch, ok := mc.Type().Underlying().(*types.Chan); ok && isErrorType(ch.Elem()) {
					errChans[mc] = true
				}
			}
		})
		if len(errChans) == 0 {
			continue
		}
		nsel, nbare := 0, 0
		// only waits performed by f itself (not by the goroutines it starts)
		for _, b := range f.Blocks {
			for _, ins := range b.Instrs {
				switch x := ins.(type) {
				case *ssa.Select:
					if !x.Blocking {
						continue
					}
					nsel++
					nSelect++
					hasErr := false
					onlyRecv := true
					var awaited []*ssa.MakeChan
					for i, st := range x.States {
						if st.Dir != types.RecvOnly {
							onlyRecv = false
							continue
						}
						if p.isChanFrom(st.Chan, errChans) {
							k := 0
							for j := 0; j < i; j++ {
								if x.States[j].Dir == types.RecvOnly {
									k++
								}
							}
							for _, r := range *x.Referrers() {
								if ex, ok := r.(*ssa.Extract); ok && ex.Index == 2+k {
									ft := p.fateOf(ex)
									if ft.returned || ft.sent {
										hasErr = true
									}
								}
							}
						} else {
							awaited = append(awaited, p.chanSources(st.Chan)...)
						}
					}
					key := fmt.Sprintf("%s/%s/select#%d", rule, fnKey(f), nsel)
					if hasErr {
						c.Ob(key, true, x.Pos(), "")
						continue
					}
					// no error case: acceptable only if no sender of the awaited channels can block on the error channel first
					ok, why := onlyRecv, "the select has no case receiving from the error channel"
					if ok {
						for _, aw := range awaited {
							for _, s := range p.sendsOn(aw) {
								if bad, pos := p.errSendBefore(s.Parent(), aw, errChans); bad {
									ok = false
									why = fmt.Sprintf("the select does not listen on the error channel, but %s can block sending an error (%s) before it signals completion", s.Parent().Name(), c.PosStr(pos))
								}
							}
						}
					}
					c.Ob(key, ok, x.Pos(), "%s", why)
				case *ssa.UnOp:
					if x.Op != token.ARROW {
						continue
					}
					if p.isChanFrom(x.X, errChans) {
						continue // receiving the error itself
					}
					nbare++
					nBare++
					key := fmt.Sprintf("%s/%s/receive#%d", rule, fnKey(f), nbare)
					ok, why := true, ""
					srcs := p.chanSources(x.X)
					if len(srcs) == 0 {
						// a channel parameter of an entry point: nothing to decide here
						c.Ob(key, true, x.Pos(), "")
						continue
					}
					for _, aw := range srcs {
						for _, s := range p.sendsOn(aw) {
							if bad, pos := p.errSendBefore(s.Parent(), aw, errChans); bad {
								ok = false
								why = fmt.Sprintf("bare receive waits for %s, which can block sending an error (%s) that only this function would drain: the command hangs instead of failing", s.Parent().Name(), c.PosStr(pos))
							}
						}
					}
					c.Ob(key, ok, x.Pos(), "%s", why)
				}
			}
		}
	}
	return
}

// ---------------------------------------------------------------- B2 general: internal errors are not dropped

// droppedInternalErrors checks every call of a repository function that returns an error.
func droppedInternalErrors(c *core.Ctx, p *progFacts, rule string) int {
	// no exceptions. (Two calls in genbank.unNestRecur used to be listed here with the reason "the parse error surfaces as a
	// short position list that a later check rejects"; C14's partial-marker family showed that it does not - the gene was
	// silently cut short - and the calls were repaired in /repo 37a429b.)
	allow := map[string]string{}
	n := 0
	type site struct {
		callee *ssa.Function
		call   ssa.CallInstruction
	}
	var sites []site
	for callee, cs := range p.callers {
		if !inRepo(callee) || errResultIndex(callee.Signature) < 0 {
			continue
		}
		for _, s := range cs {
			if isDeprecatedIndels(topFunc(s.Parent())) || isDeprecatedIndels(callee) {
				continue
			}
			sites = append(sites, site{callee, s})
		}
	}
	sort.Slice(sites, func(i, j int) bool { return sites[i].call.Pos() < sites[j].call.Pos() })
	ord := map[string]int{}
	for _, s := range sites {
		base := fnKey(s.callee) + "<-" + fnKey(topFunc(s.call.Parent()))
		ord[base]++
		key := fmt.Sprintf("%s/%s#%d", rule, base, ord[base])
		n++
		if why, ok := allow[base]; ok {
			c.Note("dropped error tolerated at %s (%s): %s", c.PosStr(s.call.Pos()), base, why)
			c.Ob(key, true, s.call.Pos(), "")
			continue
		}
		if _, isCall := s.call.(*ssa.Call); !isCall {
			c.Ob(key, false, s.call.Pos(), "%s returns an error but is started with go/defer", s.callee.Name())
			continue
		}
		ev := errValueOf(s.call)
		if ev == nil {
			c.Ob(key, false, s.call.Pos(), "the error returned by %s is discarded", s.callee.Name())
			continue
		}
		ft := p.fateOf(ev)
		ok := ft.returned || ft.sent
		why := "is neither returned nor sent on an error channel"
		if ok {
			for _, ch := range ft.sendChans {
				if ok2, w := p.sentErrorReachesCaller(ch, 0); !ok2 {
					ok, why = false, w
				}
			}
		}
		c.Ob(key, ok, s.call.Pos(), "the error returned by %s %s", s.callee.Name(), why)
	}
	return n
}

// errorSendsReachCaller: every send on an error channel is drained into a return by the channel's creator.
func errorSendsReachCaller(c *core.Ctx, p *progFacts, rule string) int {
	n := 0
	ord := map[string]int{}
	for _, f := range p.funcs {
		if isDeprecatedIndels(topFunc(f)) {
			continue
		}
		for _, b := range f.Blocks {
			for _, ins := range b.Instrs {
				s, ok := ins.(*ssa.Send)
				if !ok {
					continue
				}
				ch, ok := s.Chan.Type().Underlying().(*types.Chan)
				if !ok || !isErrorType(ch.Elem()) {
					continue
				}
				n++
				base := fnKey(topFunc(f))
				ord[base]++
				ok2, why := p.sentErrorReachesCaller(s.Chan, 0)
				c.Ob(fmt.Sprintf("%s/%s/send#%d", rule, base, ord[base]), ok2, s.Pos(), "error sent on a channel, but %s", why)
			}
		}
	}
	return n
}

// ---------------------------------------------------------------- structural rows of the obligation table

// guardReturnsError: v is a slice value; some `len(v) > 1` / `len(v) != 1` guard must lead to a return of a non-nil error.
func guardOnLenOne(v ssa.Value) bool {
	found := false
	var follow func(v ssa.Value, depth int)
	seen := map[ssa.Value]bool{}
	follow = func(v ssa.Value, depth int) {
		if seen[v] || depth > 6 {
			return
		}
		seen[v] = true
		for _, r := range *v.Referrers() {
			switch x := r.(type) {
			case *ssa.Call:
				if b, ok := x.Common().Value.(*ssa.Builtin); ok && b.Name() == "len" {
					for _, r2 := range *x.Referrers() {
						bo, ok := r2.(*ssa.BinOp)
						if !ok {
							continue
						}
						k, isC := bo.Y.(*ssa.Const)
						if !isC || k.Value == nil || k.Value.Kind() != constant.Int {
							continue
						}
						one, _ := constant.Int64Val(k.Value)
						if !((bo.Op == token.GTR && one == 1) || (bo.Op == token.NEQ && one == 1) || (bo.Op == token.GEQ && one == 2)) {
							continue
						}
						for _, r3 := range *bo.Referrers() {
							if iff, ok := r3.(*ssa.If); ok {
								if blockReturnsError(iff.Block().Succs[0]) {
									found = true
								}
							}
						}
					}
				}
			case *ssa.Phi:
				follow(x, depth+1)
			case *ssa.Extract:
				follow(x, depth+1)
			case *ssa.Store:
				if a, ok := x.Addr.(*ssa.Alloc); ok && x.Val == v {
					for _, ar := range *a.Referrers() {
						if u, ok := ar.(*ssa.UnOp); ok && u.Op == token.MUL {
							follow(u, depth+1)
						}
					}
				}
			}
		}
	}
	follow(v, 0)
	return found
}

func blockReturnsError(b *ssa.BasicBlock) bool {
	for _, ins := range b.Instrs {
		if r, ok := ins.(*ssa.Return); ok {
			for _, res := range r.Results {
				if isErrorType(res.Type()) {
					if k, isC := res.(*ssa.Const); isC && k.Value == nil {
						continue // nil
					}
					return true
				}
			}
		}
	}
	return false
}

func blockSendsError(b *ssa.BasicBlock) bool {
	for _, ins := range b.Instrs {
		if s, ok := ins.(*ssa.Send); ok {
			if ch, ok := s.Chan.Type().Underlying().(*types.Chan); ok && isErrorType(ch.Elem()) {
				return true
			}
		}
	}
	return false
}

// indexedAtZero reports whether the slice value (or a copy in a local) is indexed with constant 0.
func indexedAtZero(v ssa.Value) bool {
	hit := false
	seen := map[ssa.Value]bool{}
	var follow func(v ssa.Value, d int)
	follow = func(v ssa.Value, d int) {
		if seen[v] || d > 6 {
			return
		}
		seen[v] = true
		for _, r := range *v.Referrers() {
			switch x := r.(type) {
			case *ssa.IndexAddr:
				if k, ok := x.Index.(*ssa.Const); ok && k.Value != nil && constant.Sign(k.Value) == 0 {
					hit = true
				}
			case *ssa.Phi:
				follow(x, d+1)
			case *ssa.Extract:
				follow(x, d+1)
			case *ssa.Store:
				if a, ok := x.Addr.(*ssa.Alloc); ok && x.Val == v {
					for _, ar := range *a.Referrers() {
						if u, ok := ar.(*ssa.UnOp); ok && u.Op == token.MUL {
							follow(u, d+1)
						}
					}
				}
			}
		}
	}
	follow(v, 0)
	return hit
}

func c18SingleReference(c *core.Ctx, p *progFacts) {
	n := 0
	for _, f := range p.funcs {
		if f.Parent() != nil || isDeprecatedIndels(f) {
			continue
		}
		for _, b := range f.Blocks {
			for _, ins := range b.Instrs {
				call, ok := ins.(*ssa.Call)
				if !ok {
					continue
				}
				cal := call.Common().StaticCallee()
				if cal == nil || cal.Name() != "ReadEncodeAlignmentToList" {
					continue
				}
				// the record list: Extract #0
				var list ssa.Value
				for _, r := range *call.Referrers() {
					if ex, ok := r.(*ssa.Extract); ok && ex.Index == 0 {
						list = ex
					}
				}
				if list == nil || !indexedAtZero(list) {
					continue // not used as "the" reference record
				}
				n++
				c.Ob("T/single-reference/"+fnKey(f), guardOnLenOne(list), call.Pos(), "%s takes record [0] of --reference as the reference without refusing a file with more than one record", f.Name())
			}
		}
	}
	c.Floor("T/single-reference", n, 3)
}

// c18WidthGuards: splitters compare query and target widths and report a mismatch.
func c18WidthGuards(c *core.Ctx) {
	for _, name := range []string{"splitInput", "splitInputN"} {
		f := c.SSAFunc("pkg/closest", name)
		if f == nil {
			c.Und("T/query-target-width/"+name, token.NoPos, "UNRESOLVED anchor closest.%s", name)
			continue
		}
		ok := false
		for _, b := range f.Blocks {
			for _, ins := range b.Instrs {
				bo, isB := ins.(*ssa.BinOp)
				if !isB || bo.Op != token.NEQ {
					continue
				}
				if !isLenCall(bo.X) || !isLenCall(bo.Y) {
					continue
				}
				for _, r := range *bo.Referrers() {
					if iff, isIf := r.(*ssa.If); isIf {
						t := iff.Block().Succs[0]
						if blockSendsError(t) || blockReturnsError(t) {
							ok = true
						}
					}
				}
			}
		}
		c.Ob("T/query-target-width/"+name, ok, f.Pos(), "no comparison of query and target widths that reports a mismatch as an error")
	}
	c18WidthGuardsEvaluated(c)
}

// c18WidthGuardsEvaluated: the two splitters are interpreted (pipeline model, per-query searchers replaced by
// recorders) on target streams whose first record is narrower / wider than the queries, and on one of equal
// width: the mismatch must be reported on the error channel, equal widths must not.
func c18WidthGuardsEvaluated(c *core.Ctx) {
	recT := namedType(c, "pkg/fastaio", "EncodedFastaRecord")
	for _, name := range []string{"splitInput", "splitInputN"} {
		fn := c.LookupFunc("pkg/closest", name)
		key := "T/query-target-width/" + name + "/evaluated"
		if fn == nil || recT == nil {
			c.Und(key, token.NoPos, "UNRESOLVED anchor closest.%s", name)
			continue
		}
		mk := func(id string, w int) eval.Value {
			r := absValue(recT, id, eval.K(int64(w))).(*eval.StructVal)
			r.F["ID"] = eval.S(id)
			vs := make([]eval.Value, w)
			for i := range vs {
				vs[i] = eval.K(136)
			}
			r.F["Seq"] = eval.NewSlice(vs...)
			return r
		}
		var bad []string
		for _, tc := range []struct {
			label   string
			widths  []int
			wantErr bool
		}{{"target narrower than the queries", []int{2, 2}, true}, {"target wider than the queries", []int{5}, true}, {"equal widths", []int{3, 3}, false}} {
			ev := newEval(c)
			ev.Pipeline = true
			ev.NumCPU = 2
			for _, st := range []string{"findClosest", "findClosestN"} {
				if sf := c.LookupFunc("pkg/closest", st); sf != nil {
					ev.Extern[sf.FullName()] = func(ev *eval.Evaluator, pos token.Pos, recv eval.Value, a []eval.Value) eval.Value { return nil }
				}
			}
			ev.Extern["fmt.Fprintf"] = func(ev *eval.Evaluator, pos token.Pos, recv eval.Value, a []eval.Value) eval.Value {
				return eval.Tuple{eval.K(0), eval.Nil{}}
			}
			if v := lookupPkgVar(c, "os", "Stderr"); v != nil {
				ev.SetGlobal(v, eval.Opaque{Why: "os.Stderr"})
			}
			var feed []eval.Value
			for i, w := range tc.widths {
				feed = append(feed, mk(fmt.Sprintf("t%d", i), w))
			}
			errs := &eval.ChanVal{Name: "err", Queue: true}
			sig := fn.Type().(*types.Signature)
			var args []eval.Value
			for i := 0; i < sig.Params().Len(); i++ {
				pt := sig.Params().At(i).Type()
				switch u := pt.Underlying().(type) {
				case *types.Slice:
					args = append(args, eval.NewSlice(mk("q0", 3), mk("q1", 3)))
				case *types.Chan:
					switch {
					case types.Identical(u.Elem(), recT):
						args = append(args, &eval.ChanVal{Name: "in", Feed: feed})
					case isErrorType(u.Elem()):
						args = append(args, errs)
					default:
						args = append(args, &eval.ChanVal{Name: sig.Params().At(i).Name(), Queue: true})
					}
				case *types.Basic:
					switch {
					case u.Info()&types.IsString != 0:
						args = append(args, eval.S("snp"))
					case u.Info()&types.IsFloat != 0:
						args = append(args, eval.FConst(-1))
					default:
						args = append(args, eval.K(1))
					}
				default:
					args = append(args, eval.Opaque{Why: sig.Params().At(i).Name()})
				}
			}
			if _, err := ev.CallFuncBound(fn, args...); err != nil {
				c.Und(key, fn.Pos(), "[%s] cannot evaluate: %v", tc.label, err)
				bad = nil
				break
			}
			if got := len(errs.Sent) > 0; got != tc.wantErr {
				bad = append(bad, fmt.Sprintf("%s (queries 3 columns, targets %v): error reported=%v, want %v", tc.label, tc.widths, got, tc.wantErr))
			}
		}
		c.Ob(key, len(bad) == 0, fn.Pos(), "%s", first(bad, 3))
	}
}

func isLenCall(v ssa.Value) bool {
	call, ok := v.(*ssa.Call)
	if !ok {
		return false
	}
	b, ok := call.Common().Value.(*ssa.Builtin)
	return ok && b.Name() == "len"
}

func C18(c *core.Ctx) {
	c.Explanation("C18: an obligation table derived from the property's list. Uniform rules: (B2) every error returned by a repository function is returned or sent onward by each caller, every error sent on a channel is received by the channel's creator into a return, cmd.Execute exits 1; (B3) in every function that creates an error channel, each blocking select listens on that channel (value returned), and each bare receive is provably safe: no sender of the awaited channel can reach a send on the error channel before delivering. Rows: width/symbol/header/empty checks of the five FASTA readers and both CSV readers (interpreted against a modelled scanner / csv reader), reference-vs-alignment width in the three workers, query-vs-target width guards, single-record --reference guards, window coordinates (checkArgs, exhaustive), unrecognised file-type suffix (default branches), no size/dist option (checkArgs, exhaustive).")
	p := facts(c)
	nsel, nbare := checkWaits(c, p, "B3")
	c.Count("blocking_selects", nsel)
	c.Count("bare_receives", nbare)
	c.Floor("B3/selects", nsel, 20)
	c.Floor("B3/bare-receives", nbare, 3)
	// a panic is how several invalid inputs are refused (exit status 2): a recover() that does not end the process with a
	// non-zero status, or panic again, turns such a refusal into a success
	{
		var bad []string
		var rpos token.Pos
		for _, f := range p.funcs {
			allInstrs(f, func(fn *ssa.Function, ins ssa.Instruction) {
				call, ok := ins.(ssa.CallInstruction)
				if !ok {
					return
				}
				if b, isB := call.Common().Value.(*ssa.Builtin); !isB || b.Name() != "recover" {
					return
				}
				ends := false
				for _, blk := range fn.Blocks {
					for _, in2 := range blk.Instrs {
						switch y := in2.(type) {
						case *ssa.Panic:
							ends = true
						case *ssa.Store:
							// the exit status handed back through a variable of the enclosing function (a named result): non-zero
							if k, isC := y.Val.(*ssa.Const); isC && k.Value != nil && k.Value.Kind() == constant.Int && k.Value.ExactString() != "0" {
								if _, captured := y.Addr.(*ssa.FreeVar); captured {
									ends = true
								}
							}
						case ssa.CallInstruction:
							if cal := y.Common().StaticCallee(); cal != nil && cal.String() == "os.Exit" {
								if k, isC := y.Common().Args[0].(*ssa.Const); isC && k.Value != nil && k.Value.ExactString() != "0" {
									ends = true
								}
							}
						}
					}
				}
				if !ends {
					bad = append(bad, fmt.Sprintf("%s: %s recovers from a panic without exiting non-zero or panicking again", c.PosStr(ins.Pos()), fnKey(fn)))
					rpos = ins.Pos()
				}
			})
		}
		c.Ob("B2/no-swallowed-panic", len(bad) == 0, rpos, "%s", first(bad, 3))
	}
	n := droppedInternalErrors(c, p, "B2/call")
	c.Count("internal_error_call_sites", n)
	c.Floor("B2/call", n, 28)
	ns := errorSendsReachCaller(c, p, "B2")
	c.Count("error_sends", ns)
	c.Floor("B2/sends", ns, 40)
	checkExecuteExits(c, "B2/cmd.Execute")
	c18SingleReference(c, p)
	c18WidthGuards(c)
	// unrecognised file-type suffixes: decided by interpretation - Engine D (annotation / query / target suffix scenarios of the
	// commands) and Engine E (variants.Variants with an unknown annotation kind); the former syntactic switch rule is gone
	c18Evaluated(c)
}
