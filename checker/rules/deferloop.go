package rules

import (
	"fmt"
	"go/ast"
	"go/token"
	"go/types"
	"sort"
	"strings"

	"golang.org/x/tools/go/packages"

	"gofasta-verif/core"
)

// checkNoDeferInLoops: a `defer` inside a loop of a library function runs only when the function returns, so a
// per-item resource (one output file per query) stays open for every item processed: on a large input the process
// runs out of file descriptors part-way through. Deferred calls in library code must sit outside loops whose trip
// count depends on the input. A function literal is its own function (its defers run when the literal returns), and
// a loop whose trip count is a compile-time constant (range over an array or a composite literal, `i < constant`)
// holds a bounded number of deferred calls and is not reported.
func checkNoDeferInLoops(c *core.Ctx, rule string) {
	var bad []string
	var pos token.Pos
	n := 0
	for rel, p := range c.Pkgs {
		if !strings.HasPrefix(rel, "pkg/") {
			continue
		}
		for _, file := range p.Syntax {
			if strings.HasSuffix(c.Fset.Position(file.Pos()).Filename, "_test.go") {
				continue
			}
			var stack []ast.Node
			ast.Inspect(file, func(nd ast.Node) bool {
				if nd == nil {
					stack = stack[:len(stack)-1]
					return true
				}
				stack = append(stack, nd)
				d, ok := nd.(*ast.DeferStmt)
				if !ok {
					return true
				}
				n++
				fn := ""
				var loop ast.Node
				for i := len(stack) - 2; i >= 0; i-- {
					switch s := stack[i].(type) {
					case *ast.FuncLit:
						i = -1 // the literal's own frame
					case *ast.FuncDecl:
						fn = s.Name.Name
						i = -1
					case *ast.ForStmt, *ast.RangeStmt:
						if loop == nil && !constantTripCount(p, s) {
							loop = s
						}
					}
				}
				if loop != nil {
					bad = append(bad, fmt.Sprintf("%s: %s.%s defers %s inside the loop at line %d: it runs when the function returns, not at the end of the iteration", c.PosStr(d.Pos()), p.Types.Name(), fn, types.ExprString(d.Call.Fun), c.Fset.Position(loop.Pos()).Line))
					pos = d.Pos()
				}
				return true
			})
		}
	}
	sort.Strings(bad)
	c.Count("deferred_calls_in_library_code", n)
	c.Ob(rule+"/no-defer-inside-a-loop", len(bad) == 0, pos, "%s", first(bad, 3))
}

// constantTripCount: the loop runs a number of times fixed at compile time.
func constantTripCount(p *packages.Package, loop ast.Node) bool {
	isConst := func(e ast.Expr) bool {
		tv, ok := p.TypesInfo.Types[e]
		return ok && tv.Value != nil
	}
	switch s := loop.(type) {
	case *ast.RangeStmt:
		x := ast.Unparen(s.X)
		if cl, ok := x.(*ast.CompositeLit); ok {
			for _, e := range cl.Elts {
				if _, kv := e.(*ast.KeyValueExpr); kv {
					return false
				}
			}
			return true
		}
		if isConst(x) {
			return true // range over an integer constant or a constant string
		}
		t := p.TypesInfo.TypeOf(x)
		if t == nil {
			return false
		}
		if pt, ok := t.Underlying().(*types.Pointer); ok {
			t = pt.Elem()
		}
		_, arr := t.Underlying().(*types.Array)
		return arr
	case *ast.ForStmt:
		// for i := c0; i < c1; i++ with constant bounds and no other assignment to i
		init, ok := s.Init.(*ast.AssignStmt)
		if !ok || len(init.Lhs) != 1 || len(init.Rhs) != 1 || !isConst(init.Rhs[0]) {
			return false
		}
		iv, ok := init.Lhs[0].(*ast.Ident)
		if !ok {
			return false
		}
		cond, ok := s.Cond.(*ast.BinaryExpr)
		if !ok || (cond.Op != token.LSS && cond.Op != token.LEQ && cond.Op != token.NEQ) || !isConst(cond.Y) {
			return false
		}
		if ci, ok := cond.X.(*ast.Ident); !ok || p.TypesInfo.ObjectOf(ci) != p.TypesInfo.ObjectOf(iv) {
			return false
		}
		post, ok := s.Post.(*ast.IncDecStmt)
		if !ok || post.Tok != token.INC {
			return false
		}
		if pi, ok := post.X.(*ast.Ident); !ok || p.TypesInfo.ObjectOf(pi) != p.TypesInfo.ObjectOf(iv) {
			return false
		}
		obj := p.TypesInfo.ObjectOf(iv)
		mutated := false
		ast.Inspect(s.Body, func(nd ast.Node) bool {
			switch a := nd.(type) {
			case *ast.AssignStmt:
				for _, l := range a.Lhs {
					if id, ok := l.(*ast.Ident); ok && p.TypesInfo.ObjectOf(id) == obj {
						mutated = true
					}
				}
			case *ast.IncDecStmt:
				if id, ok := a.X.(*ast.Ident); ok && p.TypesInfo.ObjectOf(id) == obj {
					mutated = true
				}
			case *ast.UnaryExpr:
				if id, ok := a.X.(*ast.Ident); ok && a.Op == token.AND && p.TypesInfo.ObjectOf(id) == obj {
					mutated = true
				}
			}
			return true
		})
		return !mutated
	}
	return false
}
