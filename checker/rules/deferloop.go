package rules

import (
	"fmt"
	"go/token"
	"sort"
	"strings"

	"golang.org/x/tools/go/ssa"

	"gofasta-verif/core"
)

// checkNoDeferInLoops: a `defer` inside a loop of a library function runs only when the function returns, so a
// per-item resource (one output file per query) stays open for every item processed: on a large input the process
// runs out of file descriptors part-way through. Deferred calls in library code must sit outside loops.
func checkNoDeferInLoops(c *core.Ctx, rule string) {
	var bad []string
	var pos token.Pos
	n := 0
	for _, f := range c.RepoFuncs() {
		if f.Pkg == nil || !strings.HasPrefix(c.RelOf(f.Pkg.Pkg), "pkg/") {
			continue
		}
		for _, b := range f.Blocks {
			for _, ins := range b.Instrs {
				d, ok := ins.(*ssa.Defer)
				if !ok {
					continue
				}
				n++
				if blockInLoop(b) {
					bad = append(bad, fmt.Sprintf("%s: %s defers %s inside a loop: it runs when the function returns, not at the end of the iteration", c.PosStr(d.Pos()), fnKey(f), d.Common().String()))
					pos = d.Pos()
				}
			}
		}
	}
	sort.Strings(bad)
	c.Count("deferred_calls_in_library_code", n)
	c.Ob(rule+"/no-defer-inside-a-loop", len(bad) == 0, pos, "%s", first(bad, 3))
}
