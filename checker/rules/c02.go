package rules

import (
	"fmt"
	"go/token"
	"strings"

	"gofasta-verif/core"
	"gofasta-verif/eval"
)

func init() { register("C02", C02) }

type insertion struct {
	at  int // number of reference bases to the left
	seq string
}

func recordInsertions(r samRec) []insertion {
	var out []insertion
	q, p := 0, r.Pos
	for _, o := range parseCigar(r.Cigar) {
		switch o.Op {
		case 'M', '=', 'X':
			q += o.Len
			p += o.Len
		case 'I':
			out = append(out, insertion{p, r.Seq[q : q+o.Len]})
			q += o.Len
		case 'S':
			q += o.Len
		case 'D', 'N':
			p += o.Len
		}
	}
	return out
}

// specPairAlign: the specified (reference row, query row) of one query's records. ok=false when
// two records insert at the same reference position (conflicting; outside the property).
func specPairAlign(recs []samRec, ref string) (string, string, bool) {
	ins := map[int]string{}
	for _, r := range recs {
		for _, in := range recordInsertions(r) {
			if prev, dup := ins[in.at]; dup && prev != in.seq {
				return "", "", false
			} else if dup {
				return "", "", false
			}
			ins[in.at] = in.seq
		}
	}
	var rows [][]byte
	for _, r := range recs {
		rows = append(rows, projectRecord(r, len(ref)))
	}
	flat := flattenSpec(rows)
	var rr, qq strings.Builder
	for p := 0; p <= len(ref); p++ {
		if s, ok := ins[p]; ok {
			rr.WriteString(strings.Repeat("-", len(s)))
			qq.WriteString(s)
		}
		if p < len(ref) {
			rr.WriteByte(ref[p])
			if flat[p] == '*' {
				qq.WriteByte('N')
			} else {
				qq.WriteByte(flat[p])
			}
		}
	}
	return rr.String(), qq.String(), true
}

type pairOut struct {
	refRow, qryRow, refName, qryName string
	idx                              int64
}

func evalPairAlign(c *core.Ctx, recs []samRec, ref string, omitIns bool) (refRow, qryRow, refName, qryName string, idx int64, err error) {
	outs, err := evalPairAlignBatch(c, [][]samRec{recs}, []int64{5}, ref, omitIns)
	if err != nil {
		return "", "", "", "", 0, err
	}
	o := outs[0]
	return o.refRow, o.qryRow, o.refName, o.qryName, o.idx, nil
}

// evalPairAlignBatch feeds the groups through ONE activation of blockToPairwiseAlignment (one pool worker) and reads
// the emitted pairs after the whole batch.
func evalPairAlignBatch(c *core.Ctx, groups [][]samRec, idxs []int64, ref string, omitIns bool) ([]pairOut, error) {
	fn := c.LookupFunc("pkg/sam", "blockToPairwiseAlignment")
	if fn == nil {
		return nil, fmt.Errorf("UNRESOLVED sam.blockToPairwiseAlignment")
	}
	ev := newEval(c)
	installBiogo(ev)
	out := &eval.ChanVal{Name: "out"}
	errs := &eval.ChanVal{Name: "err"}
	var feed []eval.Value
	for i, g := range groups {
		feed = append(feed, samGroupValue(c, g, idxs[i]))
	}
	_, e := ev.CallFunc(fn, &eval.ChanVal{Name: "in", Feed: feed}, out, errs, bytesVal(ref), omitIns)
	if e != nil {
		return nil, e
	}
	if len(errs.Sent) > 0 || len(out.Sent) != len(groups) {
		return nil, fmt.Errorf("%d errors, %d pairs for %d queries", len(errs.Sent), len(out.Sent), len(groups))
	}
	var res []pairOut
	for _, v := range out.Sent {
		p, ok := v.(*eval.StructVal)
		if !ok {
			return nil, fmt.Errorf("unexpected item %s", eval.Show(v))
		}
		rr, ok1 := bytesStr(p.F["ref"])
		qq, ok2 := bytesStr(p.F["query"])
		if !ok1 || !ok2 {
			return nil, fmt.Errorf("non-constant rows")
		}
		rn, _ := p.F["refname"].(eval.Str)
		qn, _ := p.F["queryname"].(eval.Str)
		ix, _ := linConst(p.F["idx"])
		res = append(res, pairOut{rr, qq, rn.Const(), qn.Const(), ix})
	}
	return res, nil
}

// samWorkerBatches: batches of queries for one worker activation - single- and multi-record queries at different
// start positions, with and without insertions, in both orders.
func samWorkerBatches(ref string) [][][]samRec {
	a := []samRec{{Name: "a", Pos: 3, Cigar: "3M", Seq: "TTG"}}
	b := []samRec{{Name: "b", Pos: 0, Cigar: "2M1I1M", Seq: "ACTG"}, {Name: "b", Pos: 4, Cigar: "3M", Seq: "TGA"}}
	d := []samRec{{Name: "d", Pos: 1, Cigar: "2M", Seq: "CG"}, {Name: "d", Pos: 3, Cigar: "1M2I2M", Seq: "TCCTG"}, {Name: "d", Pos: 6, Cigar: "1M", Seq: "A"}}
	e := []samRec{{Name: "e", Pos: 0, Cigar: "7M", Seq: "ACGTTGA"}}
	f := []samRec{{Name: "f", Pos: 2, Cigar: "1M1D2M", Seq: "GTG"}, {Name: "f", Pos: 0, Cigar: "1M1I1M", Seq: "AGC"}}
	return [][][]samRec{{a, b}, {b, a}, {e, d, b}, {d, f, a, b}, {f, d}, {a, a, b, b}}
}

// c02WorkerBatches: what the pairwise worker emits for a query does not depend on the queries it handled before.
func c02WorkerBatches(c *core.Ctx, rule string) {
	ref := "ACGTTGA"
	pos := funcPos(c, "pkg/sam", "blockToPairwiseAlignment")
	var bad []string
	for _, omitIns := range []bool{false, true} {
		for _, batch := range samWorkerBatches(ref) {
			idxs := make([]int64, len(batch))
			for i := range idxs {
				idxs[i] = int64(i)
			}
			got, err := evalPairAlignBatch(c, batch, idxs, ref, omitIns)
			if err != nil {
				c.Und(rule+"/no-state-between-queries", pos, "cannot evaluate a batch: %v", err)
				return
			}
			for i, g := range batch {
				alone, err := evalPairAlignBatch(c, [][]samRec{g}, []int64{int64(i)}, ref, omitIns)
				if err != nil {
					c.Und(rule+"/no-state-between-queries", pos, "cannot evaluate %s: %v", recString(g), err)
					return
				}
				if got[i] != alone[0] {
					bad = append(bad, fmt.Sprintf("query %s as item %d of a batch through one worker (skip-insertions=%v) gives %q/%q; handled alone it gives %q/%q", recString(g), i, omitIns, got[i].refRow, got[i].qryRow, alone[0].refRow, alone[0].qryRow))
				}
			}
		}
	}
	c.Ob(rule+"/no-state-between-queries", len(bad) == 0, pos, "%s", first(bad, 2))
}

func C02(c *core.Ctx) {
	c.Explanation("C02: (R1) the operator functions of both with-reference CIGAR tables are interpreted on symbolic arguments and must equal the SAM specification for all nine operators (query row, reference row, and equal extension lengths, for every q, r, n); (R2) blockToPairwiseAlignment (getOneLinePlusRef, blockToSeqPair, flattening, N substitution) is interpreted on a bounded family of groups of one and two records (three start positions x fourteen CIGAR strings covering all operators, incl. insertions after =/X; pairs with insertions in one, the other or both records) against an independent construction of the pairwise alignment: insertion columns carry '-' in the reference row and the inserted bases in the query row, every reference base appears once and in order, the query row carries the projected base, '-' for deletions and N for uncovered positions; with --skip-insertions the query row is the toMultiAlign --pad row; names and input index are carried. The interpreter implements Go's append semantics (in-place when capacity allows), so writes through aliased record buffers are observed. (R5) the reference-coordinate cut is checked as in C15; (R6) output order as in C12.")
	checkNoDeferInLoops(c, "R8")                                                                // one file per query: each is closed before the next is opened
	checkStdoutWriters(c, facts(c), "R9", "pkg/sam", "pkg/fastaio", "pkg/gfio", "pkg/encoding") // with -o stdout the pairs are the only thing on the output stream
	checkArrivalOrderIndependence(c, "R6/reorder", "sam.writePairwiseAlignment")
	c.Assumption("records of one query are non-conflicting: no two records insert at the same reference position (groups violating this are skipped)")
	checkCigarTables(c, "R1", func(t cigarTable) bool { return t.withRef })
	c02Rows(c)
	c15TrimAlignment(c)
	c02Writer(c)
	checkPoolOrder(c, "R6", "pkg/sam", "ToPairAlign")
}

// c02Writer: the stdout branch of the pairwise writer on one symbolic pair.
func c02Writer(c *core.Ctx) {
	fn := c.LookupFunc("pkg/sam", "writePairwiseAlignment")
	pairT := namedType(c, "pkg/sam", "alignPair")
	if fn == nil || pairT == nil {
		c.Und("R6/writePairwiseAlignment", token.NoPos, "UNRESOLVED anchor sam.writePairwiseAlignment")
		return
	}
	var bad []string
	for _, omitRef := range []bool{false, true} {
		for _, w := range []int{-1, 3, 4, 8, 10} { // widths that do not divide the row, divide it, equal it and exceed it
			ev := newEval(c)
			writes := captureWrites(ev)
			pair := absValue(pairT, "p", eval.K(0)).(*eval.StructVal)
			pair.F["ref"] = bytesVal("AC-GTTGA")
			pair.F["query"] = bytesVal("ACGTNNNN")
			pair.F["refname"] = eval.S("REF")
			pair.F["queryname"] = eval.S("q/1")
			pair.F["idx"] = eval.K(0)
			done := &eval.ChanVal{Name: "done"}
			errs := &eval.ChanVal{Name: "err"}
			_, err := ev.CallFunc(fn, eval.S("stdout"), eval.K(int64(w)), &eval.ChanVal{Name: "in", Feed: []eval.Value{pair}}, done, errs, omitRef)
			if err != nil {
				bad = append(bad, "undecided: "+err.Error())
				continue
			}
			var sb strings.Builder
			for _, s := range *writes {
				sb.WriteString(s.String())
			}
			want := ""
			if !omitRef {
				want += ">REF\n" + wrapSpec("AC-GTTGA", w)
			}
			want += ">q/1\n" + wrapSpec("ACGTNNNN", w)
			if sb.String() != want || len(done.Sent) != 1 || len(errs.Sent) != 0 {
				bad = append(bad, fmt.Sprintf("omit-reference=%v wrap=%d -> %q, want %q", omitRef, w, sb.String(), want))
			}
		}
	}
	c.Ob("R6/writePairwiseAlignment/stdout-layout", len(bad) == 0, fn.Pos(), "%s", first(bad, 3))
	// the directory branch: one file per query, named after it, holding the same text
	bad = nil
	for _, omitRef := range []bool{false, true} {
		for _, w := range []int{-1, 4, 8} {
			ev := newEval(c)
			files := map[string]*strings.Builder{}
			var order []string
			closed := map[string]bool{}
			ev.Extern["os.MkdirAll"] = func(ev *eval.Evaluator, pos token.Pos, recv eval.Value, a []eval.Value) eval.Value { return eval.Nil{} }
			ev.Extern["os.Create"] = func(ev *eval.Evaluator, pos token.Pos, recv eval.Value, a []eval.Value) eval.Value {
				name, _ := a[0].(eval.Str)
				files[name.Const()] = &strings.Builder{}
				order = append(order, name.Const())
				return eval.Tuple{&eval.Handle{Dyn: "*os.File", Tag: name.Const()}, eval.Nil{}}
			}
			write := func(recv eval.Value, v eval.Value) eval.Value {
				h, ok := unref(recv).(*eval.Handle)
				st, ok2 := v.(eval.Str)
				if !ok || !ok2 || files[h.Tag] == nil || closed[h.Tag] || !st.IsConst() {
					ev.Failf(token.NoPos, "write of %s to %s", eval.Show(v), eval.Show(recv))
				}
				files[h.Tag].WriteString(st.Const())
				return eval.Tuple{eval.K(int64(len(st.Const()))), eval.Nil{}}
			}
			ev.Extern["(*os.File).WriteString"] = func(ev *eval.Evaluator, pos token.Pos, recv eval.Value, a []eval.Value) eval.Value {
				return write(recv, a[0])
			}
			ev.Extern["io.WriteString"] = func(ev *eval.Evaluator, pos token.Pos, recv eval.Value, a []eval.Value) eval.Value {
				return write(a[0], a[1])
			}
			for _, name := range []string{"fmt.Fprint", "fmt.Fprintln"} {
				nl := name == "fmt.Fprintln"
				ev.Extern[name] = func(ev *eval.Evaluator, pos token.Pos, recv eval.Value, a []eval.Value) eval.Value {
					if o, ok := unref(a[0]).(eval.Opaque); ok && strings.Contains(o.Why, "Stderr") {
						return eval.Tuple{eval.K(0), eval.Nil{}}
					}
					line := eval.S("")
					for i, x := range a[1:] {
						if i > 0 && nl {
							line = line.Concat(eval.S(" "))
						}
						st, _ := x.(eval.Str)
						line = line.Concat(st)
					}
					if nl {
						line = line.Concat(eval.S("\n"))
					}
					return write(a[0], line)
				}
			}
			ev.Extern["(*os.File).Close"] = func(ev *eval.Evaluator, pos token.Pos, recv eval.Value, a []eval.Value) eval.Value {
				if h, ok := unref(recv).(*eval.Handle); ok {
					closed[h.Tag] = true
				}
				return eval.Nil{}
			}
			mk := func(name string, idx int64, r, q string) eval.Value {
				pair := absValue(pairT, "p", eval.K(0)).(*eval.StructVal)
				pair.F["ref"] = bytesVal(r)
				pair.F["query"] = bytesVal(q)
				pair.F["refname"] = eval.S("REF")
				pair.F["queryname"] = eval.S(name)
				pair.F["idx"] = eval.K(idx)
				return pair
			}
			done := &eval.ChanVal{Name: "done"}
			errs := &eval.ChanVal{Name: "err"}
			_, err := ev.CallFunc(fn, eval.S("outdir"), eval.K(int64(w)), &eval.ChanVal{Name: "in", Feed: []eval.Value{mk("q/1", 0, "AC-GTTGA", "ACGTNNNN"), mk("q2", 1, "ACGTTGA-", "ACGTTGAC")}}, done, errs, omitRef)
			if err != nil {
				bad = append(bad, "undecided: "+err.Error())
				continue
			}
			want := map[string]string{}
			for _, pr := range [][3]string{{"outdir/q_1.fasta", "q/1", "AC-GTTGA|ACGTNNNN"}, {"outdir/q2.fasta", "q2", "ACGTTGA-|ACGTTGAC"}} {
				rows := strings.Split(pr[2], "|")
				t := ""
				if !omitRef {
					t += ">REF\n" + wrapSpec(rows[0], w)
				}
				want[pr[0]] = t + ">" + pr[1] + "\n" + wrapSpec(rows[1], w)
			}
			for name, text := range want {
				got, ok := files[name]
				if !ok {
					bad = append(bad, fmt.Sprintf("omit-reference=%v wrap=%d: no file %s is created (created: %v)", omitRef, w, name, order))
				} else if got.String() != text || !closed[name] {
					bad = append(bad, fmt.Sprintf("omit-reference=%v wrap=%d: %s holds %q (closed=%v), want %q", omitRef, w, name, got.String(), closed[name], text))
				}
			}
			if len(files) != len(want) || len(done.Sent) != 1 || len(errs.Sent) != 0 {
				bad = append(bad, fmt.Sprintf("omit-reference=%v wrap=%d: files %v, %d completion signals, %d errors", omitRef, w, order, len(done.Sent), len(errs.Sent)))
			}
		}
	}
	c.Ob("R6/writePairwiseAlignment/one-file-per-query", len(bad) == 0, fn.Pos(), "%s", first(bad, 3))
}

// c02Rows: the (reference row, query row) pairs of one- and two-record queries against an independent
// construction (shared with C04, C05 and C11: sam variants calls mutations on exactly these rows).
func c02Rows(c *core.Ctx) {
	ref := "ACGTTGA"
	groups := groupsFor(len(ref), false)
	var badSingle, badMulti, badSkip []string
	n := 0
	for gi, g := range groups {
		if c.Tier != "thorough" && len(g) == 2 && gi%3 != 0 {
			continue
		}
		wr, wq, ok := specPairAlign(g, ref)
		if !ok {
			continue
		}
		n++
		gr, gq, rn, qn, idx, err := evalPairAlign(c, g, ref, false)
		bad := &badSingle
		if len(g) > 1 {
			bad = &badMulti
		}
		if err != nil {
			*bad = append(*bad, fmt.Sprintf("%s: %v", recString(g), err))
		} else {
			if gr != wr || gq != wq {
				*bad = append(*bad, fmt.Sprintf("%s on reference %s -> ref row %q query row %q, want %q %q", recString(g), ref, gr, gq, wr, wq))
			}
			if rn != "REF" || qn != "q" || idx != 5 {
				*bad = append(*bad, "names / input index not carried")
			}
		}
		// the strand flag (0x10) and the supplementary flag (0x800) do not change the rows: SEQ is stored in the
		// reference's orientation whatever strand the query aligned to
		if err == nil && (gi%4 == 0 || c.Tier == "thorough") {
			for _, fl := range []int{16, 2064} {
				g2 := append([]samRec{}, g...)
				g2[len(g2)-1].Flags = fl
				fr, fq, _, _, _, err2 := evalPairAlign(c, g2, ref, false)
				if err2 != nil || fr != gr || fq != gq {
					*bad = append(*bad, fmt.Sprintf("%s with FLAG %d on its last record -> %q/%q (%v), with FLAG 0 %q/%q", recString(g), fl, fr, fq, err2, gr, gq))
				}
			}
		}
		// --skip-insertions
		wantPad, specified := specMultiAlignRow(g, len(ref), true)
		if specified {
			gr2, gq2, _, _, _, err := evalPairAlign(c, g, ref, true)
			if err != nil {
				badSkip = append(badSkip, fmt.Sprintf("%s: %v", recString(g), err))
			} else if gr2 != ref || gq2 != wantPad {
				badSkip = append(badSkip, fmt.Sprintf("%s --skip-insertions -> %q/%q, want %q/%q (the toMultiAlign --pad row)", recString(g), gr2, gq2, ref, wantPad))
			}
		}
		if len(badSingle)+len(badMulti)+len(badSkip) > 40 {
			break
		}
	}
	c02WorkerBatches(c, "R2/blockToPairwiseAlignment")
	pos := funcPos(c, "pkg/sam", "blockToPairwiseAlignment")
	c.Count("record_groups_evaluated", n)
	c.Ob("R2/single-record-queries", len(badSingle) == 0, pos, "%s", first(badSingle, 3))
	c.Ob("R2/multi-record-queries", len(badMulti) == 0, funcPos(c, "pkg/sam", "blockToSeqPair"), "%s", first(badMulti, 3))
	c.Ob("R2/skip-insertions-equals-toMultiAlign-pad", len(badSkip) == 0, pos, "%s", first(badSkip, 3))
	c.Sample(map[string]string{"rule": "R2", "group": "q@1:2M1I1M:ACGT", "reference": ref, "ref_row": "AC-GTTGA", "query_row": "ACGTNNNN"})
}
