package rules

import (
	"fmt"
	"go/token"
	"strings"

	"gofasta-verif/core"
	"gofasta-verif/eval"
)

func init() { register("C02", C02) }

type insertion struct {
	at  int // number of reference bases to the left
	seq string
}

func recordInsertions(r samRec) []insertion {
	var out []insertion
	q, p := 0, r.Pos
	for _, o := range parseCigar(r.Cigar) {
		switch o.Op {
		case 'M', '=', 'X':
			q += o.Len
			p += o.Len
		case 'I':
			out = append(out, insertion{p, r.Seq[q : q+o.Len]})
			q += o.Len
		case 'S':
			q += o.Len
		case 'D', 'N':
			p += o.Len
		}
	}
	return out
}

// specPairAlign: the specified (reference row, query row) of one query's records. ok=false when
// two records insert at the same reference position (conflicting; outside the property).
func specPairAlign(recs []samRec, ref string) (string, string, bool) {
	ins := map[int]string{}
	for _, r := range recs {
		for _, in := range recordInsertions(r) {
			if prev, dup := ins[in.at]; dup && prev != in.seq {
				return "", "", false
			} else if dup {
				return "", "", false
			}
			ins[in.at] = in.seq
		}
	}
	var rows [][]byte
	for _, r := range recs {
		rows = append(rows, projectRecord(r, len(ref)))
	}
	flat := flattenSpec(rows)
	var rr, qq strings.Builder
	for p := 0; p <= len(ref); p++ {
		if s, ok := ins[p]; ok {
			rr.WriteString(strings.Repeat("-", len(s)))
			qq.WriteString(s)
		}
		if p < len(ref) {
			rr.WriteByte(ref[p])
			if flat[p] == '*' {
				qq.WriteByte('N')
			} else {
				qq.WriteByte(flat[p])
			}
		}
	}
	return rr.String(), qq.String(), true
}

func evalPairAlign(c *core.Ctx, recs []samRec, ref string, omitIns bool) (refRow, qryRow, refName, qryName string, idx int64, err error) {
	fn := c.LookupFunc("pkg/sam", "blockToPairwiseAlignment")
	if fn == nil {
		return "", "", "", "", 0, fmt.Errorf("UNRESOLVED sam.blockToPairwiseAlignment")
	}
	ev := newEval(c)
	installBiogo(ev)
	out := &eval.ChanVal{Name: "out"}
	errs := &eval.ChanVal{Name: "err"}
	_, e := ev.CallFunc(fn, &eval.ChanVal{Name: "in", Feed: []eval.Value{samGroupValue(c, recs, 5)}}, out, errs, bytesVal(ref), omitIns)
	if e != nil {
		return "", "", "", "", 0, e
	}
	if len(errs.Sent) > 0 || len(out.Sent) != 1 {
		return "", "", "", "", 0, fmt.Errorf("%d errors, %d pairs", len(errs.Sent), len(out.Sent))
	}
	p := out.Sent[0].(*eval.StructVal)
	rr, ok1 := bytesStr(p.F["ref"])
	qq, ok2 := bytesStr(p.F["query"])
	if !ok1 || !ok2 {
		return "", "", "", "", 0, fmt.Errorf("non-constant rows")
	}
	rn, _ := p.F["refname"].(eval.Str)
	qn, _ := p.F["queryname"].(eval.Str)
	ix, _ := linConst(p.F["idx"])
	return rr, qq, rn.Const(), qn.Const(), ix, nil
}

func C02(c *core.Ctx) {
	c.Explanation("C02: (R1) the operator functions of both with-reference CIGAR tables are interpreted on symbolic arguments and must equal the SAM specification for all nine operators (query row, reference row, and equal extension lengths, for every q, r, n); (R2) blockToPairwiseAlignment (getOneLinePlusRef, blockToSeqPair, flattening, N substitution) is interpreted on a bounded family of groups of one and two records (three start positions x fourteen CIGAR strings covering all operators, incl. insertions after =/X; pairs with insertions in one, the other or both records) against an independent construction of the pairwise alignment: insertion columns carry '-' in the reference row and the inserted bases in the query row, every reference base appears once and in order, the query row carries the projected base, '-' for deletions and N for uncovered positions; with --skip-insertions the query row is the toMultiAlign --pad row; names and input index are carried. The interpreter implements Go's append semantics (in-place when capacity allows), so writes through aliased record buffers are observed. (R5) the reference-coordinate cut is checked as in C15; (R6) output order as in C12.")
	checkNoDeferInLoops(c, "R8") // one file per query: each is closed before the next is opened
	checkArrivalOrderIndependence(c, "R6/reorder", "sam.writePairwiseAlignment")
	c.Assumption("records of one query are non-conflicting: no two records insert at the same reference position (groups violating this are skipped)")
	checkCigarTables(c, "R1", func(t cigarTable) bool { return t.withRef })
	c02Rows(c)
	c15TrimAlignment(c)
	c02Writer(c)
	checkPoolOrder(c, "R6", "pkg/sam", "ToPairAlign")
}

// c02Writer: the stdout branch of the pairwise writer on one symbolic pair.
func c02Writer(c *core.Ctx) {
	fn := c.LookupFunc("pkg/sam", "writePairwiseAlignment")
	pairT := namedType(c, "pkg/sam", "alignPair")
	if fn == nil || pairT == nil {
		c.Und("R6/writePairwiseAlignment", token.NoPos, "UNRESOLVED anchor sam.writePairwiseAlignment")
		return
	}
	var bad []string
	for _, omitRef := range []bool{false, true} {
		for _, w := range []int{-1, 3} {
			ev := newEval(c)
			writes := captureWrites(ev)
			pair := absValue(pairT, "p", eval.K(0)).(*eval.StructVal)
			pair.F["ref"] = bytesVal("AC-GTTGA")
			pair.F["query"] = bytesVal("ACGTNNNN")
			pair.F["refname"] = eval.S("REF")
			pair.F["queryname"] = eval.S("q/1")
			pair.F["idx"] = eval.K(0)
			done := &eval.ChanVal{Name: "done"}
			errs := &eval.ChanVal{Name: "err"}
			_, err := ev.CallFunc(fn, eval.S("stdout"), eval.K(int64(w)), &eval.ChanVal{Name: "in", Feed: []eval.Value{pair}}, done, errs, omitRef)
			if err != nil {
				bad = append(bad, "undecided: "+err.Error())
				continue
			}
			var sb strings.Builder
			for _, s := range *writes {
				sb.WriteString(s.String())
			}
			want := ""
			if !omitRef {
				want += ">REF\n" + wrapSpec("AC-GTTGA", w)
			}
			want += ">q/1\n" + wrapSpec("ACGTNNNN", w)
			if sb.String() != want || len(done.Sent) != 1 || len(errs.Sent) != 0 {
				bad = append(bad, fmt.Sprintf("omit-reference=%v wrap=%d -> %q, want %q", omitRef, w, sb.String(), want))
			}
		}
	}
	c.Ob("R6/writePairwiseAlignment/stdout-layout", len(bad) == 0, fn.Pos(), "%s", first(bad, 3))
}

// c02Rows: the (reference row, query row) pairs of one- and two-record queries against an independent
// construction (shared with C04, C05 and C11: sam variants calls mutations on exactly these rows).
func c02Rows(c *core.Ctx) {
	ref := "ACGTTGA"
	groups := groupsFor(len(ref), false)
	var badSingle, badMulti, badSkip []string
	n := 0
	for gi, g := range groups {
		if c.Tier != "thorough" && len(g) == 2 && gi%3 != 0 {
			continue
		}
		wr, wq, ok := specPairAlign(g, ref)
		if !ok {
			continue
		}
		n++
		gr, gq, rn, qn, idx, err := evalPairAlign(c, g, ref, false)
		bad := &badSingle
		if len(g) > 1 {
			bad = &badMulti
		}
		if err != nil {
			*bad = append(*bad, fmt.Sprintf("%s: %v", recString(g), err))
		} else {
			if gr != wr || gq != wq {
				*bad = append(*bad, fmt.Sprintf("%s on reference %s -> ref row %q query row %q, want %q %q", recString(g), ref, gr, gq, wr, wq))
			}
			if rn != "REF" || qn != "q" || idx != 5 {
				*bad = append(*bad, "names / input index not carried")
			}
		}
		// --skip-insertions
		wantPad, specified := specMultiAlignRow(g, len(ref), true)
		if specified {
			gr2, gq2, _, _, _, err := evalPairAlign(c, g, ref, true)
			if err != nil {
				badSkip = append(badSkip, fmt.Sprintf("%s: %v", recString(g), err))
			} else if gr2 != ref || gq2 != wantPad {
				badSkip = append(badSkip, fmt.Sprintf("%s --skip-insertions -> %q/%q, want %q/%q (the toMultiAlign --pad row)", recString(g), gr2, gq2, ref, wantPad))
			}
		}
		if len(badSingle)+len(badMulti)+len(badSkip) > 40 {
			break
		}
	}
	pos := funcPos(c, "pkg/sam", "blockToPairwiseAlignment")
	c.Count("record_groups_evaluated", n)
	c.Ob("R2/single-record-queries", len(badSingle) == 0, pos, "%s", first(badSingle, 3))
	c.Ob("R2/multi-record-queries", len(badMulti) == 0, funcPos(c, "pkg/sam", "blockToSeqPair"), "%s", first(badMulti, 3))
	c.Ob("R2/skip-insertions-equals-toMultiAlign-pad", len(badSkip) == 0, pos, "%s", first(badSkip, 3))
	c.Sample(map[string]string{"rule": "R2", "group": "q@1:2M1I1M:ACGT", "reference": ref, "ref_row": "AC-GTTGA", "query_row": "ACGTNNNN"})
}
