package rules

import (
	"fmt"
	"go/parser"
	"go/token"
	"go/types"
	"sort"
	"strings"

	"golang.org/x/tools/go/ssa"

	"gofasta-verif/core"
	"gofasta-verif/eval"
)

func init() { register("C12", C12) }

// mapOrderHarness evaluates the function containing an order-sensitive map iteration under
// two different map iteration orders on an input built to contain ties; the observable result
// must be identical.
type mapOrderHarness func(c *core.Ctx, reverse bool) (string, error)

var mapHarness = map[string]mapOrderHarness{
	"sam.getSetFromSlice":             harnessNucFromSite,
	"variants.RegionsFromGFF":         harnessRegionsFromGFF,
	"variants.AggregateWriteVariants": harnessAggregateVariants,
	"snps.aggregateWriteOutput":       harnessAggregateSNPs,
	"updown.pushCatchment2Catchment":  harnessPush,
}

func C12(c *core.Ctx) {
	c.Explanation("C12 (ordering clauses only; data-race freedom is not decided statically): (C-fanin) for every entry point that starts a worker pool, every channel written by the pool is traced to its receivers; in each receiving function a forward taint from the received item must not reach an output write, a forwarding send or shared storage except through a map keyed by the item's index (re-order buffer), a slot store at the item's own index, an aggregation map, or a file created per item; (C-map) every iteration over a map is classified: guarded by len==1, commutative body (guarded extrema, counters, set updates), or order-sensitive - an order-sensitive iteration must have an evaluation harness in which the enclosing routine is interpreted twice, with forward and reversed map iteration order, on an input containing ties, and must produce identical output; (C-src) no math/rand, time.Now, pid or similar in pkg/.")
	checkNoDeferInLoops(c, "C-src")
	c.Assumption("data-race freedom is NOT decided: no sound static race analysis is available with the installed tools; the race detector is a runtime tool and is not used")
	c.Assumption("reversing map iteration order stands in for all permutations; inputs with ties are chosen per routine")
	p := facts(c)
	// ---- C-fanin
	nPools, nCons := 0, 0
	for _, f := range p.funcs {
		if f.Parent() != nil || isDeprecatedIndels(f) || f.Pkg == nil || !strings.Contains(f.Pkg.Pkg.Path(), "/pkg/") {
			continue
		}
		np, nc := checkPoolOrderSSA(c, p, "C-fanin", f)
		nPools += np
		nCons += nc
	}
	c.Count("entry_points_with_pools", nPools)
	c.Count("pool_consumers", nCons)
	c.Floor("C-fanin/entry-points-with-pools", nPools, 6)
	c.Floor("C-fanin/consumers", nCons, 6)
	c.Floor("C-fanin/closes-under-completion-token", c.Counts["closes_under_completion_token"], 10)
	// result slots of the per-query fan-outs
	for _, e := range []struct{ pkg, fn, field string }{{"pkg/closest", "Closest", "qidx"}, {"pkg/closest", "ClosestN", "qidx"}, {"pkg/updown", "TopRanking", "qidx"}} {
		f := c.SSAFunc(e.pkg, e.fn)
		if f == nil {
			c.Und("C-fanin/slot-store/"+e.fn, token.NoPos, "UNRESOLVED anchor %s", e.fn)
			continue
		}
		n := checkSlotStore(c, "C-fanin/slot-store/"+e.fn, f, e.field)
		c.Floor("C-fanin/slot-store/"+e.fn, n, 1)
	}
	// every index re-orderer gives the same output for every arrival order of a small batch
	nre := checkArrivalOrderIndependence(c, "C-reorder")
	c.Floor("C-reorder/consumers", nre, 6)
	// ---- C-map
	checkMapRanges(c, "C-map")
	// ---- C-src with positive control
	nuses := 0
	for k, pk := range c.Pkgs {
		if !strings.HasPrefix(k, "pkg/") {
			continue
		}
		for _, file := range pk.Syntax {
			for _, pos := range nondetUses(file) {
				nuses++
				c.Ob(fmt.Sprintf("C-src/%s#%d", k, nuses), false, pos, "use of a source of run-to-run nondeterminism (random numbers, clock, process identity) in library code")
			}
		}
	}
	ctrl := "package x\nimport (\"math/rand\"; \"time\")\nfunc f() int { _ = time.Now(); return rand.Intn(3) }\n"
	cf, err := parser.ParseFile(token.NewFileSet(), "control.go", ctrl, 0)
	c.Ob("C-src/positive-control", err == nil && len(nondetUses(cf)) == 2, token.NoPos, "the matcher must find both banned uses in the control source")
	c.Ob("C-src/none-in-pkg", nuses == 0, token.NoPos, "%d uses", nuses)
	checkStdoutWriters(c, p, "C-src")
	// what a pool worker emits for a record does not depend on the records it handled before
	if tabs := extractTables(c, newEval(c), "R0"); tabs.OK {
		c.Count("workers_checked_stateless", checkWorkersStateless(c, "C-worker", tabs))
		c15TrimAlignment(c) // several pairs through one trimming worker
	}
	// NumCPU may only size pools/buffers
	checkNumCPU(c, p)
	// code that runs in goroutines writes no package-level state (a necessary condition of race freedom)
	roots := goroutineRoots(p)
	nfun := checkNoSharedWrites(c, "C-shared/goroutine-code-writes-no-package-state", roots, "functions running in concurrently started goroutines must not write package-level variables (unsynchronised shared state: results depend on scheduling)")
	c.Count("goroutine_roots", len(roots))
	c.Count("functions_reachable_from_goroutines", nfun)
	c.Floor("C-shared/goroutine-roots", len(roots), 20)
	ncl := checkNoCapturedWrites(c, "C-shared/goroutine-literals-assign-no-captured-variable", p)
	nsa := checkNoSharedArgumentWrites(c, "C-shared/goroutines-write-no-argument-they-all-share", p)
	c.Count("shared_result_call_sites", checkNoWritesThroughSharedResults(c, "C-shared/no-write-through-a-table-handed-out-by-reference", p))
	c.Count("shared_goroutine_arguments_checked", nsa)
	c.Floor("C-shared/goroutines-write-no-argument-they-all-share", nsa, 1)
	c.Count("goroutine_literals", ncl)
	c.Floor("C-shared/goroutine-literals", ncl, 10)
}

// checkNumCPU: runtime.NumCPU() flows only to channel capacities, loop bounds, WaitGroup.Add, GOMAXPROCS, comparisons.
func checkNumCPU(c *core.Ctx, p *progFacts) {
	n := 0
	for _, f := range p.funcs {
		for _, b := range f.Blocks {
			for _, ins := range b.Instrs {
				call, ok := ins.(*ssa.Call)
				if !ok {
					continue
				}
				cal := call.Common().StaticCallee()
				if cal == nil || cal.String() != "runtime.NumCPU" {
					continue
				}
				n++
				ok2 := true
				var bad ssa.Instruction
				var follow func(v ssa.Value, d int)
				seen := map[ssa.Value]bool{}
				follow = func(v ssa.Value, d int) {
					if seen[v] || d > 5 {
						return
					}
					seen[v] = true
					for _, r := range *v.Referrers() {
						switch x := r.(type) {
						case *ssa.MakeChan:
						case *ssa.BinOp:
							switch x.Op {
							case token.LSS, token.LEQ, token.GTR, token.GEQ, token.EQL, token.NEQ:
							case token.ADD, token.SUB, token.MUL:
								follow(x, d+1)
							default:
								ok2, bad = false, x
							}
						case *ssa.Phi:
							follow(x, d+1)
						case *ssa.Convert, *ssa.ChangeType:
							follow(x.(ssa.Value), d+1)
						case *ssa.Store:
							if a, isA := x.Addr.(*ssa.Alloc); isA {
								for _, ar := range *a.Referrers() {
									if u, isU := ar.(*ssa.UnOp); isU && u.Op == token.MUL {
										follow(u, d+1)
									}
								}
							} else {
								ok2, bad = false, x
							}
						case *ssa.Call:
							cal2 := x.Common().StaticCallee()
							if cal2 != nil && (cal2.String() == "(*sync.WaitGroup).Add" || cal2.String() == "runtime.GOMAXPROCS") {
								continue
							}
							// handed to a helper of the repository as a count: the same rule holds for the helper's parameter
							if cal2 != nil && inRepo(cal2) && len(cal2.Blocks) > 0 {
								followed := false
								for k, a := range x.Common().Args {
									if a == v && k < len(cal2.Params) {
										follow(cal2.Params[k], d+1)
										followed = true
									}
								}
								if followed {
									continue
								}
							}
							ok2, bad = false, x
						case *ssa.Go:
							cal2 := x.Common().StaticCallee()
							if cal2 != nil && inRepo(cal2) && len(cal2.Blocks) > 0 {
								for k, a := range x.Common().Args {
									if a == v && k < len(cal2.Params) {
										follow(cal2.Params[k], d+1)
									}
								}
								continue
							}
							ok2, bad = false, x
						case *ssa.If:
						default:
							ok2, bad = false, r
						}
					}
				}
				follow(call, 0)
				pos := call.Pos()
				detail := ""
				if bad != nil {
					detail = "flows into " + bad.String()
				}
				c.Ob(fmt.Sprintf("C-src/NumCPU/%s#%d", fnKey(topFunc(f)), n), ok2, pos, "the processor count must only size pools and buffers; it %s", detail)
			}
		}
	}
	c.Count("numcpu_uses", n)
}

// ---------------------------------------------------------------- harnesses

func siteSpec(site []byte) byte {
	letters := map[byte]bool{}
	hasGap := false
	for _, b := range site {
		if (b >= 'A' && b <= 'Z') || (b >= 'a' && b <= 'z') {
			letters[b] = true
		}
		if b == '-' {
			hasGap = true
		}
	}
	if len(letters) > 1 {
		return 'N'
	}
	for l := range letters {
		return l
	}
	if hasGap {
		return '-'
	}
	return '*'
}

func allSites(alpha []byte, maxLen int) [][]byte {
	var out [][]byte
	var rec func(cur []byte)
	rec = func(cur []byte) {
		if len(cur) > 0 {
			out = append(out, append([]byte{}, cur...))
		}
		if len(cur) == maxLen {
			return
		}
		for _, a := range alpha {
			rec(append(cur, a))
		}
	}
	rec(nil)
	return out
}

func evalNucFromSite(c *core.Ctx, reverse bool, visit func(site []byte, got byte)) error {
	fn := c.LookupFunc("pkg/sam", "getNucFromSite")
	if fn == nil {
		return fmt.Errorf("UNRESOLVED sam.getNucFromSite")
	}
	ev := newEval(c)
	ev.MapReverse = reverse
	for _, site := range allSites([]byte("*-ACNa"), 3) {
		vs := make([]eval.Value, len(site))
		for i, b := range site {
			vs[i] = eval.K(int64(b))
		}
		v, err := ev.CallFunc(fn, eval.NewSlice(vs...), eval.S("q"), eval.K(4))
		if err != nil {
			return err
		}
		n, ok := linConst(v)
		if !ok {
			return fmt.Errorf("non-constant result for site %q", site)
		}
		visit(site, byte(n))
	}
	return nil
}

func harnessNucFromSite(c *core.Ctx, reverse bool) (string, error) {
	var sb strings.Builder
	err := evalNucFromSite(c, reverse, func(site []byte, got byte) { sb.WriteByte(got) })
	return sb.String(), err
}

func mkGFFFeature(c *core.Ctx, typ string, start, end int64, strand string, phase int64, attrs map[string]string) *eval.StructVal {
	ft := namedType(c, "pkg/gff", "Feature")
	f := absValue(ft, "f", eval.K(0)).(*eval.StructVal)
	f.F["Seqid"] = eval.S("ref")
	f.F["Source"] = eval.S("src")
	f.F["Type"] = eval.S(typ)
	f.F["Start"] = eval.K(start)
	f.F["End"] = eval.K(end)
	f.F["Score"] = eval.S(".")
	f.F["Strand"] = eval.S(strand)
	f.F["Phase"] = eval.K(phase)
	m := eval.NewMap()
	keys := make([]string, 0, len(attrs))
	for k := range attrs {
		keys = append(keys, k)
	}
	sort.Strings(keys)
	for _, k := range keys {
		m.Set(eval.S(k), eval.NewSlice(eval.S(attrs[k])))
	}
	f.F["Attributes"] = m
	return f
}

func mkGFF(c *core.Ctx, feats []*eval.StructVal) *eval.StructVal {
	gt := namedType(c, "pkg/gff", "GFF")
	g := absValue(gt, "gff", eval.K(0)).(*eval.StructVal)
	fs := make([]eval.Value, len(feats))
	for i, f := range feats {
		fs[i] = f
	}
	g.F["Features"] = eval.NewSlice(fs...)
	g.F["SequenceRegions"] = eval.NewMap()
	g.F["IDmap"] = eval.NewMap()
	g.F["FASTA"] = eval.NewMap()
	g.F["HeaderLines"] = eval.NewSlice()
	g.F["CommentLines"] = eval.NewSlice()
	return g
}

// regionNames renders the regions returned by a RegionsFrom* constructor.
func regionNames(v eval.Value) string {
	sl, ok := v.(eval.Slice)
	if !ok {
		return eval.Show(v)
	}
	var parts []string
	for _, e := range sl.Elems() {
		r, _ := e.(*eval.StructVal)
		if r == nil {
			continue
		}
		n, _ := r.F["Name"].(eval.Str)
		parts = append(parts, fmt.Sprintf("%s[%s..%s]", n.Const(), eval.Show(r.F["Start"]), eval.Show(r.F["Stop"])))
	}
	return strings.Join(parts, " ")
}

func harnessRegionsFromGFF(c *core.Ctx, reverse bool) (string, error) {
	fn := c.LookupFunc("pkg/variants", "RegionsFromGFF")
	if fn == nil {
		return "", fmt.Errorf("UNRESOLVED variants.RegionsFromGFF")
	}
	ev := newEval(c)
	ev.MapReverse = reverse
	ref := "ATGAAATAAATGCCCTAA"
	feats := []*eval.StructVal{
		mkGFFFeature(c, "CDS", 1, 9, "+", 0, map[string]string{"ID": "cds-b", "Name": "geneB"}),
		mkGFFFeature(c, "CDS", 1, 9, "+", 0, map[string]string{"ID": "cds-a", "Name": "geneA"}),
		mkGFFFeature(c, "CDS", 1, 9, "+", 0, map[string]string{"ID": "cds-c", "Name": "geneC"}),
		mkGFFFeature(c, "CDS", 10, 18, "+", 0, map[string]string{"ID": "cds-d", "Name": "geneD"}),
	}
	v, err := ev.CallFunc(fn, mkGFF(c, feats), eval.S(ref))
	if err != nil {
		return "", err
	}
	t, ok := v.(eval.Tuple)
	if !ok || len(t) != 3 {
		return "", fmt.Errorf("unexpected result %s", eval.Show(v))
	}
	if e, isErr := t[2].(eval.ErrVal); isErr {
		return "", fmt.Errorf("constructor failed on a valid annotation: %s", e.Msg)
	}
	return regionNames(t[0]) + " | intergenic " + eval.Show(t[1]), nil
}

func mkVariant(c *core.Ctx, kind string, pos, length int64, ref, alt string) *eval.StructVal {
	vt := namedType(c, "pkg/variants", "Variant")
	v := absValue(vt, "v", eval.K(0)).(*eval.StructVal)
	for k := range v.F {
		switch v.F[k].(type) {
		case eval.Str:
			v.F[k] = eval.S("")
		case eval.Lin:
			v.F[k] = eval.K(0)
		}
	}
	v.F["Changetype"] = eval.S(kind)
	v.F["Position"] = eval.K(pos)
	v.F["Length"] = eval.K(length)
	v.F["RefAl"] = eval.S(ref)
	v.F["QueAl"] = eval.S(alt)
	return v
}

func mkAnno(c *core.Ctx, name string, idx int64, vs ...*eval.StructVal) *eval.StructVal {
	at := namedType(c, "pkg/variants", "AnnoStructs")
	a := absValue(at, "a", eval.K(0)).(*eval.StructVal)
	a.F["Queryname"] = eval.S(name)
	a.F["Idx"] = eval.K(idx)
	es := make([]eval.Value, len(vs))
	for i, v := range vs {
		es[i] = v
	}
	a.F["Vs"] = eval.NewSlice(es...)
	return a
}

// callWriter interprets a channel-fed writer: parameters are bound by type.
func callWriter(c *core.Ctx, ev *eval.Evaluator, fn *types.Func, feedType types.Type, feed []eval.Value, scalars map[string]eval.Value) (string, *eval.ChanVal, error) {
	writes := captureWrites(ev)
	installBufioWriter(ev)
	doneAt := -1
	sig := fn.Type().(*types.Signature)
	errs := &eval.ChanVal{Name: "err"}
	var args []eval.Value
	for i := 0; i < sig.Params().Len(); i++ {
		p := sig.Params().At(i)
		if v, ok := scalars[p.Name()]; ok {
			args = append(args, v)
			continue
		}
		switch t := p.Type().Underlying().(type) {
		case *types.Chan:
			switch {
			case types.Identical(t.Elem(), feedType):
				args = append(args, &eval.ChanVal{Name: "in", Feed: feed})
			case isErrorType(t.Elem()):
				args = append(args, errs)
			default:
				// a completion signal: what has been handed to the destination by then is what the caller may rely on
				args = append(args, &eval.ChanVal{Name: p.Name(), OnSend: func(eval.Value) {
					if doneAt < 0 {
						doneAt = len(*writes)
					}
				}})
			}
		case *types.Interface:
			args = append(args, eval.Opaque{Why: "writer"})
		default:
			return "", errs, fmt.Errorf("no value for parameter %s", p.Name())
		}
	}
	if _, err := ev.CallFuncBound(fn, args...); err != nil {
		return "", errs, err
	}
	var sb strings.Builder
	for i, w := range *writes {
		if doneAt >= 0 && i >= doneAt {
			// handed to the destination only after the writer said it was done (a deferred flush behind the completion
			// signal): the caller closes the file and returns on that signal, so these bytes are not part of the output
			c.Note("%s: %d write(s) reach the destination after the completion signal was sent; they are not counted as output", fn.Name(), len(*writes)-doneAt)
			break
		}
		sb.WriteString(w.String())
	}
	return sb.String(), errs, nil
}

// bufioWriterModel: bufio.Writer as a buffer that reaches the underlying writer at Flush (or when it is full: 4096
// bytes by default).
type bufioWriterModel struct {
	under eval.Value
	size  int
	data  []byte
}

func installBufioWriter(ev *eval.Evaluator) {
	flush := func(ev *eval.Evaluator, pos token.Pos, m *bufioWriterModel) {
		if len(m.data) == 0 {
			return
		}
		w, ok := ev.Extern["(io.Writer).Write"]
		if !ok {
			ev.Failf(pos, "bufio.Writer over an unmodelled destination")
		}
		w(ev, pos, m.under, []eval.Value{eval.BytesOf{S: eval.S(string(m.data))}})
		m.data = nil
	}
	mk := func(ev *eval.Evaluator, pos token.Pos, recv eval.Value, args []eval.Value) eval.Value {
		m := &bufioWriterModel{under: args[0], size: 4096}
		if len(args) > 1 {
			if n, ok := linConst(args[1]); ok && n > 0 {
				m.size = int(n)
			}
		}
		return &eval.Ref{Get: func() eval.Value { return m }, Set: func(eval.Value) {}}
	}
	ev.Extern["bufio.NewWriter"] = mk
	ev.Extern["bufio.NewWriterSize"] = mk
	add := func(ev *eval.Evaluator, pos token.Pos, recv eval.Value, b []byte) {
		m, ok := unref(recv).(*bufioWriterModel)
		if !ok {
			ev.Failf(pos, "method of an unknown bufio.Writer")
		}
		m.data = append(m.data, b...)
		for len(m.data) >= m.size { // the library writes full buffers through
			chunk := m.data[:m.size]
			rest := append([]byte{}, m.data[m.size:]...)
			m.data = chunk
			flush(ev, pos, m)
			m.data = rest
		}
	}
	ev.Extern["(*bufio.Writer).Write"] = func(ev *eval.Evaluator, pos token.Pos, recv eval.Value, args []eval.Value) eval.Value {
		var b []byte
		switch x := args[0].(type) {
		case eval.BytesOf:
			if !x.S.IsConst() {
				ev.Failf(pos, "bufio.Writer.Write of symbolic text")
			}
			b = []byte(x.S.Const())
		case eval.Slice:
			s, _ := bytesStr(x)
			b = []byte(s)
		}
		add(ev, pos, recv, b)
		return eval.Tuple{eval.K(int64(len(b))), eval.Nil{}}
	}
	ev.Extern["(*bufio.Writer).WriteString"] = func(ev *eval.Evaluator, pos token.Pos, recv eval.Value, args []eval.Value) eval.Value {
		s, ok := args[0].(eval.Str)
		if !ok || !s.IsConst() {
			ev.Failf(pos, "bufio.Writer.WriteString of symbolic text")
		}
		add(ev, pos, recv, []byte(s.Const()))
		return eval.Tuple{eval.K(int64(len(s.Const()))), eval.Nil{}}
	}
	ev.Extern["(*bufio.Writer).WriteByte"] = func(ev *eval.Evaluator, pos token.Pos, recv eval.Value, args []eval.Value) eval.Value {
		n, ok := linConst(args[0])
		if !ok {
			ev.Failf(pos, "bufio.Writer.WriteByte of a symbolic byte")
		}
		add(ev, pos, recv, []byte{byte(n)})
		return eval.Nil{}
	}
	ev.Extern["(*bufio.Writer).Flush"] = func(ev *eval.Evaluator, pos token.Pos, recv eval.Value, args []eval.Value) eval.Value {
		m, ok := unref(recv).(*bufioWriterModel)
		if !ok {
			ev.Failf(pos, "Flush of an unknown bufio.Writer")
		}
		flush(ev, pos, m)
		return eval.Nil{}
	}
}

func evalAggregateVariants(c *core.Ctx, reverse bool, feed []eval.Value, start, end int64, appendSNP bool, thr float64, refID string) (string, error) {
	fn := c.LookupFunc("pkg/variants", "AggregateWriteVariants")
	if fn == nil {
		return "", fmt.Errorf("UNRESOLVED variants.AggregateWriteVariants")
	}
	ev := newEval(c)
	ev.MapReverse = reverse
	out, errs, err := callWriter(c, ev, fn, namedType(c, "pkg/variants", "AnnoStructs"), feed, map[string]eval.Value{
		"start": eval.K(start), "end": eval.K(end), "appendSNP": appendSNP, "threshold": eval.FConst(thr), "refID": eval.S(refID)})
	if err != nil {
		return "", err
	}
	if len(errs.Sent) > 0 {
		return "", fmt.Errorf("writer reported an error on valid input")
	}
	return out, nil
}

func harnessAggregateVariants(c *core.Ctx, reverse bool) (string, error) {
	// the same replacement at the same position seen through overlapping features: ties on every numeric key
	aaIn := func(feature string, residue int64) *eval.StructVal {
		v := mkVariant(c, "aa", 7, 0, "P", "L")
		v.F["Feature"] = eval.S(feature)
		v.F["Residue"] = eval.K(residue)
		return v
	}
	feed := []eval.Value{
		mkAnno(c, "q1", 0, mkVariant(c, "ins", 3, 1, "", ""), mkVariant(c, "ins", 3, 2, "", ""), mkVariant(c, "ins", 3, 3, "", ""),
			mkVariant(c, "del", 3, 2, "", ""), mkVariant(c, "nuc", 3, 0, "A", "T"), mkVariant(c, "nuc", 3, 0, "A", "G")),
		mkAnno(c, "q2", 1, mkVariant(c, "ins", 3, 2, "", ""), mkVariant(c, "del", 3, 1, "", ""), aaIn("geneB", 2), aaIn("geneA", 3), aaIn("geneC", 1)),
	}
	return evalAggregateVariants(c, reverse, feed, -1, -1, false, 0, "ref")
}

func evalAggregateSNPs(c *core.Ctx, reverse bool, lines [][]string, thr float64, names ...string) (string, error) {
	fn := c.LookupFunc("pkg/snps", "aggregateWriteOutput")
	if fn == nil {
		return "", fmt.Errorf("UNRESOLVED snps.aggregateWriteOutput")
	}
	lt := namedType(c, "pkg/snps", "snpLine")
	var feed []eval.Value
	for i, l := range lines {
		r := absValue(lt, "l", eval.K(0)).(*eval.StructVal)
		name := fmt.Sprintf("q%d", i)
		if i < len(names) {
			name = names[i]
		}
		r.F["queryname"] = eval.S(name)
		r.F["idx"] = eval.K(int64(i))
		es := make([]eval.Value, len(l))
		for k, s := range l {
			es[k] = eval.S(s)
		}
		r.F["snps"] = eval.NewSlice(es...)
		feed = append(feed, r)
	}
	ev := newEval(c)
	ev.MapReverse = reverse
	out, errs, err := callWriter(c, ev, fn, lt, feed, map[string]eval.Value{"threshold": eval.FConst(thr)})
	if err != nil {
		return "", err
	}
	if len(errs.Sent) > 0 {
		return "", fmt.Errorf("writer reported an error on valid input")
	}
	return out, nil
}

func harnessAggregateSNPs(c *core.Ctx, reverse bool) (string, error) {
	return evalAggregateSNPs(c, reverse, [][]string{{"C5G", "A10T", "A100G"}, {"A10G", "C5T", "A10T"}, {"A9C", "A10T"}}, 0)
}

func harnessPush(c *core.Ctx, reverse bool) (string, error) {
	fn := c.LookupFunc("pkg/updown", "findUpDownCatchmentPushDistance")
	lineT := namedType(c, "pkg/updown", "updownLine")
	if fn == nil || lineT == nil {
		return "", fmt.Errorf("UNRESOLVED updown.findUpDownCatchmentPushDistance")
	}
	var sb strings.Builder
	for bin := 1; bin < 4; bin++ {
		ts := []udTgt{{"t0", bin, 2, 1, 0}, {"t1", bin, 1, 0, 1}, {"t2", bin, 2, 0, 2}, {"t3", bin, 1, 0, 3}, {"t4", bin, 3, 0, 4}, {"t5", bin, 2, 1, 5}}
		ev := newEval(c)
		ev.MapReverse = reverse
		table := map[string]udTgt{}
		var feed []eval.Value
		for _, t := range ts {
			table[t.name] = t
			feed = append(feed, mkLine(lineT, t.name, int64(t.pos), int64(t.amb)))
		}
		stubWhichWay(c, ev, table)
		out := &eval.ChanVal{Name: "out"}
		_, err := ev.CallFunc(fn, mkLine(lineT, "q", 7, 0), eval.NewSlice(), intArray4([4]int{}), eval.K(2), eval.FConst(0.1), &eval.ChanVal{Name: "in", Feed: feed}, out)
		if err != nil || len(out.Sent) != 1 {
			return "", fmt.Errorf("cannot evaluate: %v", err)
		}
		sb.WriteString(strings.Join(catchmentNames(out.Sent[0].(*eval.StructVal), binNames[bin]), ","))
		sb.WriteString(";")
	}
	return sb.String(), nil
}

// checkStdoutWriters: who may write to the process's standard output - only the stage that writes the results
// there. A diagnostic printed to stdout (through os.Stdout or fmt.Print*) by a reader, worker or entry point lands
// among, or in front of, the result bytes.
// stdoutAllowed: the function is one of the result writers, or an unexported helper all of whose call sites lie in
// functions that are (a writer's own helper writes on the writer's behalf).
func stdoutAllowed(p *progFacts, base map[string]bool, f *ssa.Function, depth int) bool {
	if base[fnKey(f)] {
		return true
	}
	if depth > 3 || f.Object() == nil || f.Object().Exported() {
		return false
	}
	sites := p.callers[f]
	if len(sites) == 0 {
		return false
	}
	for _, s := range sites {
		if !stdoutAllowed(p, base, topFunc(s.Parent()), depth+1) {
			return false
		}
	}
	return true
}

// onlyReturned: the loaded value reaches nothing but return instructions (through phis and interface conversions).
func onlyReturned(v ssa.Value) bool {
	seen := map[ssa.Value]bool{}
	var walk func(v ssa.Value) bool
	walk = func(v ssa.Value) bool {
		if seen[v] {
			return true
		}
		seen[v] = true
		refs := v.Referrers()
		if refs == nil || len(*refs) == 0 {
			return false
		}
		for _, r := range *refs {
			switch x := r.(type) {
			case *ssa.Return:
			case *ssa.Phi:
				if !walk(x) {
					return false
				}
			case *ssa.MakeInterface:
				if !walk(x) {
					return false
				}
			case *ssa.ChangeInterface:
				if !walk(x) {
					return false
				}
			case *ssa.DebugRef:
			default:
				return false
			}
		}
		return true
	}
	return walk(v)
}

// pkgs restricts the rule to code of the named packages (the ones the property's command runs); none means all of pkg/.
func checkStdoutWriters(c *core.Ctx, p *progFacts, rule string, pkgs ...string) {
	allowed := map[string]bool{"sam." + currentName(c, "pkg/sam", "writePairwiseAlignment"): true, "gfio." + currentName(c, "pkg/gfio", "OpenOut"): true}
	var bad []string
	var bpos token.Pos
	nref := 0
	for _, f := range p.funcs {
		if f.Pkg == nil || !strings.HasPrefix(c.RelOf(f.Pkg.Pkg), "pkg/") {
			continue
		}
		if len(pkgs) > 0 && !containsStr(pkgs, c.RelOf(f.Pkg.Pkg)) {
			continue
		}
		if strings.HasSuffix(c.Fset.Position(f.Pos()).Filename, "pkg/sam/indels.go") {
			continue // the deprecated command prints its deprecation notice; its results go to the two named files
		}
		for _, b := range f.Blocks {
			for _, ins := range b.Instrs {
				what := ""
				switch x := ins.(type) {
				case *ssa.UnOp:
					if g, ok := x.X.(*ssa.Global); ok && x.Op == token.MUL && g.Pkg != nil && g.Pkg.Pkg.Path() == "os" && g.Name() == "Stdout" {
						what = "os.Stdout"
					}
				case ssa.CallInstruction:
					if cal := x.Common().StaticCallee(); cal != nil {
						switch cal.String() {
						case "fmt.Print", "fmt.Printf", "fmt.Println":
							what = cal.String()
						}
					}
					if bi, ok := x.Common().Value.(*ssa.Builtin); ok && (bi.Name() == "print" || bi.Name() == "println") {
						what = ""
					}
				}
				if what == "" {
					continue
				}
				nref++
				if u, ok := ins.(*ssa.UnOp); ok && onlyReturned(u) {
					continue // the function hands the stream to its caller as the selected sink; it writes nothing itself
				}
				if !stdoutAllowed(p, allowed, topFunc(f), 0) {
					bad = append(bad, c.PosStr(ins.Pos())+": "+fnKey(topFunc(f))+" uses "+what+"; only the result writers may write to standard output (diagnostics go to os.Stderr)")
					bpos = ins.Pos()
				}
			}
		}
	}
	sort.Strings(bad)
	c.Ob(rule+"/only-result-writers-use-stdout", len(bad) == 0, bpos, "%s", first(bad, 3))
	if len(pkgs) == 0 {
		c.Floor(rule+"/stdout-references", nref, 2)
	} else {
		c.Count("stdout_references_in_scope", nref)
	}
}

// checkMapRanges: every iteration over a map (in the given packages; none = all of pkg/) is classified - guarded by
// len==1, commutative body, or order-sensitive; an order-sensitive one must have an evaluation harness that gives the
// same result under forward and reversed iteration, and no unstable sort may receive map-ordered input with ties.
func checkMapRanges(c *core.Ctx, rule string, pkgs ...string) {
	var mrs []mapRange
	for _, mr := range listMapRanges(c) {
		if len(pkgs) == 0 || containsStr(pkgs, mr.pkg) {
			mrs = append(mrs, mr)
		}
	}
	counts := map[string]int{}
	ord := map[string]int{}
	for _, mr := range mrs {
		counts[mr.class]++
		pkgName := mr.pkg[strings.LastIndex(mr.pkg, "/")+1:]
		fkey := pkgName + "." + mr.fn.Name.Name
		ord[fkey]++
		key := fmt.Sprintf("%s/%s#%d", rule, fkey, ord[fkey])
		switch mr.class {
		case "single", "commutative":
			c.Ob(key+"/"+mr.class, true, mr.stmt.Pos(), "")
		case "arbitrary-pick":
			c.Ob(key+"/takes-one-entry-of-a-map-that-may-hold-several", false, mr.stmt.Pos(), "the loop over the map ends after its first iteration and nothing ensures that the map has exactly one entry: which entry is taken differs from run to run")
		default:
			h, ok := mapHarness[fkey]
			if !ok {
				// the routine may have been renamed: compare with the current names of the registered anchors
				for ref, hh := range mapHarness {
					i := strings.Index(ref, ".")
					pkgRel := map[string]string{"sam": "pkg/sam", "variants": "pkg/variants", "snps": "pkg/snps", "updown": "pkg/updown"}[ref[:i]]
					if ref[:i] == pkgName && currentName(c, pkgRel, ref[i+1:]) == mr.fn.Name.Name {
						h, ok = hh, true
					}
				}
			}
			if !ok {
				// a helper of a routine that has a harness (the iteration moved into a function of its own): the harness of the
				// caller interprets the helper too, under both iteration orders
				if f := c.SSAFunc(mr.pkg, mr.fn.Name.Name); f != nil {
					seenF := map[*ssa.Function]bool{f: true}
					frontier := []*ssa.Function{f}
					for depth := 0; depth < 3 && !ok; depth++ {
						var next []*ssa.Function
						for _, g := range frontier {
							for _, site := range facts(c).callers[g] {
								caller := topFunc(site.Parent())
								if caller == nil || seenF[caller] || caller.Pkg != f.Pkg {
									continue
								}
								seenF[caller] = true
								next = append(next, caller)
								if hh, has := mapHarness[pkgName+"."+caller.Name()]; has && !ok {
									h, ok = hh, true
								}
							}
						}
						frontier = next
					}
				}
			}
			if !ok {
				c.Und(key+"/order-sensitive", mr.stmt.Pos(), "iteration over a map whose body depends on iteration order, in a routine with no order-independence harness: map order must not reach output")
				continue
			}
			var evA, evB []*eval.Evaluator
			evalTrace = &evA
			a, err1 := h(c, false)
			evalTrace = &evB
			b, err2 := h(c, true)
			evalTrace = nil
			if err1 != nil || err2 != nil {
				c.Und(key+"/order-sensitive", mr.stmt.Pos(), "cannot evaluate the enclosing routine: %v %v", err1, err2)
				continue
			}
			c.Ob(key+"/order-independent-result", a == b, mr.stmt.Pos(), "result depends on map iteration order: forward %q, reversed %q", firstN(a, 200), firstN(b, 200))
			// the model sorts stably; sort.Slice promises no order among elements that compare equal, so where such a
			// sort receives its input in an order that follows the map's, the result is not determined by the input
			var unstable []string
			var upos token.Pos
			for i := 0; i < len(evA) && i < len(evB); i++ {
				sa, sb := evA[i].SortCalls, evB[i].SortCalls
				for k := 0; k < len(sa) && k < len(sb); k++ {
					if sa[k].Func != "sort.SliceStable" && (sa[k].Ties || sb[k].Ties) && sa[k].Input != sb[k].Input {
						unstable = append(unstable, fmt.Sprintf("%s: %s sorts elements that arrive in map iteration order and some of them compare equal: their final order is whatever the unstable sort leaves", c.PosStr(sa[k].Pos), sa[k].Func))
						upos = sa[k].Pos
					}
				}
			}
			sort.Strings(unstable)
			unstable = uniqStrings(unstable)
			c.Ob(key+"/no-unstable-sort-of-map-ordered-ties", len(unstable) == 0, upos, "%s", first(unstable, 2))
			c.Sample(map[string]string{"rule": "C-map", "routine": fkey, "result_under_both_orders": firstN(a, 120)})
		}
	}
	c.Count("map_iterations", len(mrs))
	c.Count("map_iterations_single", counts["single"])
	c.Count("map_iterations_commutative", counts["commutative"])
	c.Count("map_iterations_order_sensitive", counts["order-sensitive"])
	if len(pkgs) == 0 {
		c.Floor(rule+"/sites", len(mrs), 5)
	} else {
		c.Floor(rule+"/sites", len(mrs), 1)
	}
}
