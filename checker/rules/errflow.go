package rules

import (
	"fmt"
	"go/token"
	"go/types"
	"strings"

	"golang.org/x/tools/go/ssa"

	"gofasta-verif/core"
)

// ---------------------------------------------------------------- program facts (engine B)

type progFacts struct {
	c          *core.Ctx
	funcs      []*ssa.Function
	callers    map[*ssa.Function][]ssa.CallInstruction // static call/go/defer sites per callee
	closure    map[*ssa.Function][]*ssa.MakeClosure    // closure creation sites
	fieldLoads map[string][]*ssa.UnOp                  // loads of a struct field, by struct type and field index (any object)
}

func facts(c *core.Ctx) *progFacts {
	p := &progFacts{c: c, callers: map[*ssa.Function][]ssa.CallInstruction{}, closure: map[*ssa.Function][]*ssa.MakeClosure{}, fieldLoads: map[string][]*ssa.UnOp{}}
	p.funcs = c.RepoFuncs()
	for _, f := range p.funcs {
		for _, b := range f.Blocks {
			for _, ins := range b.Instrs {
				switch x := ins.(type) {
				case ssa.CallInstruction:
					if cal := x.Common().StaticCallee(); cal != nil {
						p.callers[cal] = append(p.callers[cal], x)
					} else if mc, ok := x.Common().Value.(*ssa.MakeClosure); ok {
						if fn, ok := mc.Fn.(*ssa.Function); ok {
							p.callers[fn] = append(p.callers[fn], x)
						}
					}
				case *ssa.MakeClosure:
					if fn, ok := x.Fn.(*ssa.Function); ok {
						p.closure[fn] = append(p.closure[fn], x)
					}
				case *ssa.UnOp:
					if fa, ok := x.X.(*ssa.FieldAddr); ok && x.Op == token.MUL {
						p.fieldLoads[fieldKeyOf(fa)] = append(p.fieldLoads[fieldKeyOf(fa)], x)
					}
				}
			}
		}
	}
	return p
}

func inRepo(f *ssa.Function) bool {
	return f != nil && f.Pkg != nil && strings.HasPrefix(f.Pkg.Pkg.Path(), core.ModPath)
}

func isErrorType(t types.Type) bool {
	return types.Identical(t, types.Universe.Lookup("error").Type())
}

// errResultIndex returns the index of the error result of a signature, or -1.
func errResultIndex(sig *types.Signature) int {
	r := sig.Results()
	for i := r.Len() - 1; i >= 0; i-- {
		if isErrorType(r.At(i).Type()) {
			return i
		}
	}
	return -1
}

// errValueOf returns the SSA value holding the error result of a call (nil if it is dropped).
func errValueOf(call ssa.CallInstruction) ssa.Value {
	v := call.Value()
	if v == nil {
		return nil // go / defer
	}
	sig := call.Common().Signature()
	idx := errResultIndex(sig)
	if idx < 0 {
		return nil
	}
	if sig.Results().Len() == 1 {
		return v
	}
	for _, r := range *v.Referrers() {
		if ex, ok := r.(*ssa.Extract); ok && ex.Index == idx {
			return ex
		}
	}
	return nil
}

type errFate struct {
	returned, sent, checked, exits bool
	sendChans                      []ssa.Value
}

// fateOf follows an error value through phis, local variables, interface conversions,
// closures and wrapping calls and reports whether it reaches a return or a channel send.
func (p *progFacts) fateOf(v ssa.Value) errFate {
	var fate errFate
	seen := map[ssa.Value]bool{}
	var follow func(v ssa.Value)
	follow = func(v ssa.Value) {
		if v == nil || seen[v] {
			return
		}
		seen[v] = true
		refs := v.Referrers()
		if refs == nil {
			return
		}
		for _, r := range *refs {
			switch x := r.(type) {
			case *ssa.Return:
				fate.returned = true
			case *ssa.Send:
				if x.X == v {
					fate.sent = true
					fate.sendChans = append(fate.sendChans, x.Chan)
				}
			case *ssa.Phi:
				follow(x)
			case *ssa.MakeInterface:
				follow(x)
			case *ssa.ChangeInterface:
				follow(x)
			case *ssa.ChangeType:
				follow(x)
			case *ssa.BinOp:
				isNilConst := func(v ssa.Value) bool { k, ok := v.(*ssa.Const); return ok && k.IsNil() }
				if (x.Op == token.NEQ || x.Op == token.EQL) && (isNilConst(x.X) || isNilConst(x.Y)) { // compared with nil (a comparison with one particular error says nothing about the others)
					fate.checked = true
					// `if err != nil { return otherErr }` / `{ cErr <- otherErr }` also reports the failure
					for _, br := range *x.Referrers() {
						iff, ok := br.(*ssa.If)
						if !ok {
							continue
						}
						nonNil := iff.Block().Succs[0]
						if x.Op == token.EQL {
							nonNil = iff.Block().Succs[1]
						}
						if branchReportsError(nonNil) {
							fate.returned = true
						}
					}
				}
			case *ssa.Store:
				if x.Val != v {
					continue
				}
				if fa, ok := x.Addr.(*ssa.FieldAddr); ok {
					if la, isLocal := fa.X.(*ssa.Alloc); isLocal && !la.Heap {
						// a field of a LOCAL struct value (the copy a method with a value receiver works on): the error lives and
						// dies with this call unless this function reads it back
						for _, ld := range p.fieldLoads[fieldKeyOf(fa)] {
							if lfa, ok := ld.X.(*ssa.FieldAddr); ok && lfa.X == la {
								follow(ld)
							}
						}
					} else {
						// the error is kept in a field of an object that outlives the call (a writer that remembers its first
						// failure): it is reported where that field is read and returned or sent - by any function of the
						// repository (field-sensitive, object-insensitive, like the rest of this rule)
						for _, ld := range p.fieldLoads[fieldKeyOf(fa)] {
							follow(ld)
						}
					}
				}
				if a, ok := x.Addr.(*ssa.Alloc); ok {
					for _, ar := range *a.Referrers() {
						switch y := ar.(type) {
						case *ssa.UnOp:
							if y.Op == token.MUL {
								follow(y)
							}
						case *ssa.MakeClosure:
							// captured by reference: follow loads of the free variable
							if fn, ok := y.Fn.(*ssa.Function); ok {
								for i, b := range y.Bindings {
									if b == a && i < len(fn.FreeVars) {
										for _, fr := range *fn.FreeVars[i].Referrers() {
											if u, ok := fr.(*ssa.UnOp); ok && u.Op == token.MUL {
												follow(u)
											}
										}
									}
								}
							}
						}
					}
				}
			case ssa.CallInstruction:
				// wrapping idiom: f(err) returning an error, or a method of the error
				// whose result is used to build a new error
				if cv := x.Value(); cv != nil {
					sig := x.Common().Signature()
					if errResultIndex(sig) >= 0 {
						if ev := errValueOf(x); ev != nil {
							follow(ev)
						}
					} else if x.Common().IsInvoke() && x.Common().Value == v {
						// err.Error() -> string -> errors.New(...): follow the string
						follow(cv)
					} else if cv.Type().String() == "string" {
						follow(cv)
					}
				}
			case *ssa.Extract:
				follow(x)
			}
		}
	}
	follow(v)
	return fate
}

// ---------------------------------------------------------------- write sinks

type sink struct {
	call ssa.CallInstruction
	fn   *ssa.Function
	dest ssa.Value
	what string
}

func isGlobalNamed(v ssa.Value, pkg, name string) bool {
	for _, o := range origins(v) {
		if u, ok := o.(*ssa.UnOp); ok && u.Op == token.MUL {
			if g, ok := u.X.(*ssa.Global); ok && g.Pkg != nil && g.Pkg.Pkg.Path() == pkg && g.Name() == name {
				return true
			}
		}
	}
	return false
}

// stdoutDest stands for the implicit destination of fmt.Print*.
type stdoutDest struct{ ssa.Value }

// reportsAnError: every operand formatted by the fmt call is an error value (fmt.Println(err), fmt.Fprintf(w, "%v\n", err)).
func reportsAnError(com *ssa.CallCommon) bool {
	cal := com.StaticCallee()
	if cal == nil || cal.Pkg == nil || cal.Pkg.Pkg.Path() != "fmt" || len(com.Args) == 0 {
		return false
	}
	sl, ok := com.Args[len(com.Args)-1].(*ssa.Slice)
	if !ok {
		return false
	}
	arr, ok := sl.X.(*ssa.Alloc)
	if !ok || arr.Referrers() == nil {
		return false
	}
	n := 0
	for _, r := range *arr.Referrers() {
		ia, ok := r.(*ssa.IndexAddr)
		if !ok || ia.Referrers() == nil {
			continue
		}
		for _, r2 := range *ia.Referrers() {
			st, ok := r2.(*ssa.Store)
			if !ok || st.Addr != ia {
				continue
			}
			n++
			src := st.Val
			switch x := src.(type) {
			case *ssa.ChangeInterface:
				src = x.X
			case *ssa.MakeInterface:
				src = x.X
			}
			if !types.Implements(src.Type(), types.Universe.Lookup("error").Type().Underlying().(*types.Interface)) {
				return false
			}
		}
	}
	return n > 0
}

// writeSinks lists every Write-like call whose destination is not os.Stderr.
func (p *progFacts) writeSinks() []sink {
	var out []sink
	for _, f := range p.funcs {
		for _, b := range f.Blocks {
			for _, ins := range b.Instrs {
				call, ok := ins.(ssa.CallInstruction)
				if !ok {
					continue
				}
				com := call.Common()
				var dest ssa.Value
				what := ""
				if com.IsInvoke() {
					if com.Method.Name() == "Write" || com.Method.Name() == "WriteString" {
						if named, ok := com.Value.Type().(*types.Named); ok && named.Obj().Pkg() != nil && named.Obj().Pkg().Path() == "io" {
							dest, what = com.Value, "(io."+named.Obj().Name()+")."+com.Method.Name()
						}
					}
				} else if cal := com.StaticCallee(); cal != nil {
					full := cal.String()
					switch full {
					case "(*os.File).Write", "(*os.File).WriteString":
						dest, what = com.Args[0], full
					case "fmt.Fprint", "fmt.Fprintf", "fmt.Fprintln", "io.WriteString":
						dest, what = com.Args[0], full
					case "fmt.Print", "fmt.Printf", "fmt.Println":
						dest, what = stdoutDest{}, full // standard output, exactly as fmt.Fprint*(os.Stdout, ...)
					case "(*bufio.Writer).Write", "(*bufio.Writer).WriteString", "(*bufio.Writer).Flush", "(*encoding/csv.Writer).Write":
						dest, what = com.Args[0], full
					}
				}
				if dest == nil {
					continue
				}
				if _, std := dest.(stdoutDest); !std && isGlobalNamed(dest, "os", "Stderr") {
					continue
				}
				if reportsAnError(com) {
					continue // the payload is an error value: the write reports a failure, it is not output (what happens after it is decided by B2/cmd.Execute)
				}
				if _, std := dest.(stdoutDest); (std || isGlobalNamed(dest, "os", "Stdout")) && strings.HasSuffix(p.c.Fset.Position(f.Pos()).Filename, "pkg/sam/indels.go") {
					continue // the deprecated command's results go to its two named files; standard output only carries its deprecation notice
				}
				out = append(out, sink{call: call, fn: f, dest: dest, what: what})
			}
		}
	}
	return out
}

// topFunc returns the outermost enclosing function of a (possibly anonymous) function.
func topFunc(f *ssa.Function) *ssa.Function {
	for f.Parent() != nil {
		f = f.Parent()
	}
	return f
}

// ---------------------------------------------------------------- channel binding

// chanSources resolves a channel value to the make(chan) sites it can denote, following
// parameters to their call sites and free variables to their closure bindings.
func (p *progFacts) chanSources(v ssa.Value) []*ssa.MakeChan {
	seen := map[ssa.Value]bool{}
	var out []*ssa.MakeChan
	var rec func(v ssa.Value)
	rec = func(v ssa.Value) {
		if v == nil || seen[v] {
			return
		}
		seen[v] = true
		for _, o := range origins(v) {
			switch x := o.(type) {
			case *ssa.MakeChan:
				out = append(out, x)
			case *ssa.Parameter:
				fn := x.Parent()
				idx := -1
				for i, prm := range fn.Params {
					if prm == x {
						idx = i
					}
				}
				for _, site := range p.callers[fn] {
					args := site.Common().Args
					if idx >= 0 && idx < len(args) {
						rec(args[idx])
					}
				}
			case *ssa.FreeVar:
				fn := x.Parent()
				idx := -1
				for i, fv := range fn.FreeVars {
					if fv == x {
						idx = i
					}
				}
				for _, mc := range p.closure[fn] {
					if idx >= 0 && idx < len(mc.Bindings) {
						b := mc.Bindings[idx]
						// bindings are addresses of the captured variables
						if a, ok := b.(*ssa.Alloc); ok {
							for _, r := range *a.Referrers() {
								if st, ok := r.(*ssa.Store); ok && st.Addr == a {
									rec(st.Val)
								}
							}
						} else {
							rec(b)
						}
					}
				}
			case *ssa.UnOp:
				if x.Op == token.MUL {
					// load of a captured variable: *freevar
					if fv, ok := x.X.(*ssa.FreeVar); ok {
						rec(fv)
					}
				}
			}
		}
	}
	rec(v)
	return out
}

// errChanDrained: the function that makes the error channel receives from it (select or
// plain receive) and the received error reaches a return or is forwarded on another channel.
func (p *progFacts) errChanDrained(mc *ssa.MakeChan) (bool, []ssa.Value) {
	f := mc.Parent()
	ok := false
	var forwarded []ssa.Value
	allInstrs(f, func(fn *ssa.Function, ins ssa.Instruction) {
		switch x := ins.(type) {
		case *ssa.Select:
			for i, st := range x.States {
				if st.Dir != types.RecvOnly {
					continue
				}
				hit := false
				for _, src := range p.chanSources(st.Chan) {
					if src == mc {
						hit = true
					}
				}
				if !hit {
					continue
				}
				// received value = Extract(select, 2+k) for the k-th receive state
				k := 0
				for j := 0; j < i; j++ {
					if x.States[j].Dir == types.RecvOnly {
						k++
					}
				}
				for _, r := range *x.Referrers() {
					if ex, isEx := r.(*ssa.Extract); isEx && ex.Index == 2+k {
						ft := p.fateOf(ex)
						if ft.returned || ft.sent {
							ok = true
							forwarded = append(forwarded, ft.sendChans...)
						}
					}
				}
			}
		case *ssa.UnOp:
			if x.Op == token.ARROW {
				for _, src := range p.chanSources(x.X) {
					if src == mc {
						ft := p.fateOf(x)
						if ft.returned || ft.sent {
							ok = true
							forwarded = append(forwarded, ft.sendChans...)
						}
					}
				}
			}
		}
	})
	if ok {
		return ok, forwarded
	}
	// the wait may live in a helper called (synchronously) by the creator: `if done, err := awaitDone(cDone, cErr); !done
	// { return err }`. The helper receives from the channel and returns the value; the creator returns that result.
	for _, g := range p.funcs {
		if topFunc(g) == topFunc(f) {
			continue
		}
		var recvd []ssa.Value
		for _, b := range g.Blocks {
			for _, ins := range b.Instrs {
				switch x := ins.(type) {
				case *ssa.Select:
					k := 0
					for _, st := range x.States {
						if st.Dir != types.RecvOnly {
							continue
						}
						for _, src := range p.chanSources(st.Chan) {
							if src == mc {
								for _, r := range *x.Referrers() {
									if ex, isEx := r.(*ssa.Extract); isEx && ex.Index == 2+k {
										recvd = append(recvd, ex)
									}
								}
							}
						}
						k++
					}
				case *ssa.UnOp:
					if x.Op == token.ARROW {
						for _, src := range p.chanSources(x.X) {
							if src == mc {
								recvd = append(recvd, x)
							}
						}
					}
				}
			}
		}
		returnedByHelper := false
		for _, v := range recvd {
			if p.fateOf(v).returned {
				returnedByHelper = true
			}
		}
		if !returnedByHelper {
			continue
		}
		for _, site := range p.callers[g] {
			if _, isCall := site.(*ssa.Call); !isCall || topFunc(site.Parent()) != topFunc(f) {
				continue
			}
			if ev := errValueOf(site); ev != nil {
				ft := p.fateOf(ev)
				if ft.returned || ft.sent {
					ok = true
					forwarded = append(forwarded, ft.sendChans...)
				}
			}
		}
	}
	return ok, forwarded
}

// sentErrorReachesCaller: an error sent on channel ch (as seen at the send site) is
// received and returned by the function that created the channel, transitively through forwarding.
func (p *progFacts) sentErrorReachesCaller(ch ssa.Value, depth int) (bool, string) {
	if depth > 4 {
		return false, "forwarding chain too long"
	}
	srcs := p.chanSources(ch)
	if len(srcs) == 0 {
		return false, "the error channel cannot be traced to a make(chan error)"
	}
	for _, mc := range srcs {
		ok, fwd := p.errChanDrained(mc)
		if !ok {
			return false, "the function creating the error channel (" + mc.Parent().Name() + ") never receives from it into a return"
		}
		for _, f := range fwd {
			if ok2, why := p.sentErrorReachesCaller(f, depth+1); !ok2 {
				return false, why
			}
		}
	}
	return true, ""
}

// branchReportsError: the blocks dominated by b contain a return of a non-nil error or a send on an error channel.
func branchReportsError(b *ssa.BasicBlock) bool {
	for _, d := range b.Parent().Blocks {
		if !b.Dominates(d) {
			continue
		}
		for _, ins := range d.Instrs {
			switch x := ins.(type) {
			case *ssa.Return:
				for _, res := range x.Results {
					if isErrorType(res.Type()) && surelyNonNilError(res) {
						return true
					}
				}
			case *ssa.Send:
				if ch, ok := x.Chan.Type().Underlying().(*types.Chan); ok && isErrorType(ch.Elem()) && surelyNonNilError(x.X) {
					return true
				}
			}
		}
	}
	return false
}

// surelyNonNilError: an error built on the spot (errors.New / fmt.Errorf) or a package-level sentinel - not some other variable, which may well be nil on this path
// (`if werr != nil { cErr <- err }`).
func surelyNonNilError(v ssa.Value) bool {
	for d := 0; d < 6 && v != nil; d++ {
		switch x := v.(type) {
		case *ssa.MakeInterface:
			v = x.X
		case *ssa.ChangeInterface:
			v = x.X
		case *ssa.Call:
			if cal := x.Common().StaticCallee(); cal != nil {
				switch cal.String() {
				case "errors.New", "fmt.Errorf", "errors.Join":
					return true
				}
			}
			return false // the error result of some other call may be nil (e.g. an earlier, successful write)
		case *ssa.Alloc:
			return true // &someErrorStruct{...}
		case *ssa.UnOp:
			if x.Op == token.MUL {
				_, isGlobal := x.X.(*ssa.Global)
				return isGlobal
			}
			return false
		default:
			return false
		}
	}
	return false
}

// fieldKeyOf names a struct field by the struct's type and the field's index.
func fieldKeyOf(fa *ssa.FieldAddr) string {
	t := fa.X.Type()
	if pt, ok := t.Underlying().(*types.Pointer); ok {
		t = pt.Elem()
	}
	return fmt.Sprintf("%s#%d", t.String(), fa.Field)
}

// stickyErrorField: every path to the block of a write whose error is kept in the field goes through a test of that
// same field, on the side where it is nil - so that a write that failed is never followed by another write whose result
// would overwrite the error kept.
func stickyErrorField(fn *ssa.Function, field *ssa.FieldAddr, write *ssa.BasicBlock) bool {
	if la, isLocal := field.X.(*ssa.Alloc); isLocal && !la.Heap {
		return false // the copy of a value receiver: nothing is kept beyond this call
	}
	key := fieldKeyOf(field)
	for _, b := range fn.Blocks {
		if len(b.Instrs) == 0 || len(b.Succs) != 2 {
			continue
		}
		iff, ok := b.Instrs[len(b.Instrs)-1].(*ssa.If)
		if !ok {
			continue
		}
		bo, ok := iff.Cond.(*ssa.BinOp)
		if !ok || (bo.Op != token.EQL && bo.Op != token.NEQ) {
			continue
		}
		isFieldLoad := func(v ssa.Value) bool {
			u, ok := v.(*ssa.UnOp)
			if !ok || u.Op != token.MUL {
				return false
			}
			fa, ok := u.X.(*ssa.FieldAddr)
			return ok && fieldKeyOf(fa) == key
		}
		isNil := func(v ssa.Value) bool { k, ok := v.(*ssa.Const); return ok && k.IsNil() }
		if !((isFieldLoad(bo.X) && isNil(bo.Y)) || (isFieldLoad(bo.Y) && isNil(bo.X))) {
			continue
		}
		nilSide, other := b.Succs[0], b.Succs[1]
		if bo.Op == token.NEQ {
			nilSide, other = b.Succs[1], b.Succs[0]
		}
		if (nilSide == write || nilSide.Dominates(write)) && other != write && !other.Dominates(write) {
			return true
		}
	}
	return false
}
