package rules

import (
	"fmt"
	"go/token"
	"go/types"
	"golang.org/x/tools/go/ssa"
	"sort"
	"strings"

	"gofasta-verif/core"
	"gofasta-verif/eval"
	"gofasta-verif/oracle"
)

func init() { register("C10", C10) }

// captureWrites models an io.Writer: every Write records the written string.
func captureWrites(ev *eval.Evaluator) *[]eval.Str {
	var out []eval.Str
	ev.Extern["(io.Writer).Write"] = func(ev *eval.Evaluator, pos token.Pos, recv eval.Value, args []eval.Value) eval.Value {
		switch b := args[0].(type) {
		case eval.BytesOf:
			out = append(out, b.S)
		case eval.Slice:
			var sb strings.Builder
			for _, e := range b.Elems() {
				n, _ := linConst(e)
				sb.WriteByte(byte(n))
			}
			out = append(out, eval.S(sb.String()))
		default:
			out = append(out, eval.SSym(eval.Show(b)))
		}
		return eval.Tuple{eval.K(0), eval.Nil{}}
	}
	ev.Extern["io.WriteString"] = func(ev *eval.Evaluator, pos token.Pos, recv eval.Value, args []eval.Value) eval.Value {
		if st, ok := args[1].(eval.Str); ok {
			out = append(out, st)
		} else {
			out = append(out, eval.SSym(eval.Show(args[1])))
		}
		return eval.Tuple{eval.K(0), eval.Nil{}}
	}
	ev.Extern["fmt.Fprintf"] = func(ev *eval.Evaluator, pos token.Pos, recv eval.Value, args []eval.Value) eval.Value {
		if o, ok := unref(args[0]).(eval.Opaque); ok && strings.Contains(o.Why, "Stderr") {
			return eval.Tuple{eval.K(0), eval.Nil{}}
		}
		out = append(out, formatVerbs(args[1], args[2:]))
		return eval.Tuple{eval.K(0), eval.Nil{}}
	}
	for _, name := range []string{"fmt.Fprintln", "fmt.Fprint"} {
		nl := name == "fmt.Fprintln"
		ev.Extern[name] = func(ev *eval.Evaluator, pos token.Pos, recv eval.Value, args []eval.Value) eval.Value {
			if o, ok := unref(args[0]).(eval.Opaque); ok && strings.Contains(o.Why, "Stderr") {
				return eval.Tuple{eval.K(0), eval.Nil{}}
			}
			line := eval.S("")
			for i, a := range args[1:] {
				if i > 0 && nl {
					line = line.Concat(eval.S(" "))
				}
				switch x := a.(type) {
				case eval.Str:
					line = line.Concat(x)
				default:
					line = line.Concat(eval.SSym(eval.Show(x)))
				}
			}
			if nl {
				line = line.Concat(eval.S("\n"))
			}
			out = append(out, line)
			return eval.Tuple{eval.K(0), eval.Nil{}}
		}
	}
	return &out
}

func itoa(l eval.Lin) eval.Str { return eval.Str{Parts: []eval.StrPart{{Itoa: &l}}} }

func C10(c *core.Ctx) {
	c.Explanation("C10: getLines is interpreted abstractly; its column loop is reduced to a transfer function over (reference symbol, query symbol, open-tract state) for all 17x17x2 points and compared with the specified two-state transducer: a column is a SNP iff the query symbol is A/C/G/T and not in the reference symbol's base set (string ref+(i+1)+query, position i+1, SNP counter +1); every non-A/C/G/T column increments the ambiguity counter and opens or extends the tract; a resolved column closes an open tract emitting (start+1, stop+1); an open tract is flushed after the loop. The emitted record carries exactly the lists built by the loop. The writer is interpreted on a symbolic record: header, column order, '|' separators, 'a' vs 'a-b' range forms.")
	checkStdoutWriters(c, facts(c), "R9", "pkg/updown", "pkg/fastaio", "pkg/gfio", "pkg/encoding") // the rows are the only thing on the output stream
	checkArrivalOrderIndependence(c, "R7/reorder", "updown.writeOutput")
	checkSoftGapReaders(c, "R6", "pkg/updown")
	ev0 := newEval(c)
	tabs := extractTables(c, ev0, "R0")
	if !tabs.OK {
		return
	}
	checkEncDec(c, "R0", tabs) // only the 32 IUPAC symbols (and no other byte, e.g. U) are sequence symbols
	checkWorkersStateless(c, "R8", tabs, "pkg/updown")
	c16Structural(c, "pkg/fastaio") // every sequence of the file gets its row: a read fault is reported, and the readers share one line limit
	// one row per sequence also when a row could not be written: the failure of any row's write is reported (the path rule
	// of C19, on the list writer only)
	{
		p := facts(c)
		var mine []sink
		reach := map[*ssa.Function]bool{}
		if wf := c.SSAFunc("pkg/updown", "writeOutput"); wf != nil {
			transitiveCallees(wf, reach) // the writer and the helpers it writes through
		}
		for _, sk := range p.writeSinks() {
			if tf := topFunc(sk.fn); tf != nil && (reach[tf] || reach[sk.fn]) {
				mine = append(mine, sk)
			}
		}
		c.Floor("R12/list-writer-writes", checkErrorExaminedBeforeNextWrite(c, p, mine), 1)
	}
	checkWorkerWidthOf(c, tabs, "R11", "pkg/updown", "getLines")                            // a row is a lossless summary only of a sequence as wide as the reference: any other is refused
	checkReaders(c, tabs, "R10/", true, "ReadEncodeAlignment", "ReadEncodeAlignmentToList") // the sequences summarised are the records of the files, however their lines are wrapped
	fn := c.LookupFunc("pkg/updown", "getLines")
	if fn == nil {
		c.Und("R1/getLines", token.NoPos, "UNRESOLVED anchor updown.getLines")
		return
	}
	concreteOK := c10Concrete(c, fn, tabs)
	// the per-column transducer argument (all 17x17x2 points, any sequence length) applies when the column loop keeps its
	// tract state in a boolean; where the code represents that state otherwise the argument does not apply, and the
	// bounded family above (every sequence of the bound over a six-symbol alphabet, five references) is what is decided
	mark := len(c.Obs)
	c10Transducer(c, fn, tabs)
	if concreteOK {
		kept := c.Obs[:mark:mark]
		for _, o := range c.Obs[mark:] {
			if o.Status == core.Undecided.String() && strings.HasPrefix(o.Key, c.Prop+"/R1/getLines") {
				c.Note("the transducer argument does not apply to the current shape of getLines (%s); decided on the bounded family only", o.Detail)
				continue
			}
			kept = append(kept, o)
		}
		c.Obs = kept
	}
	c10Writer(c)
	checkPoolOrder(c, "R3", "pkg/updown", "List")
}

// symMinus: if l == sym + k returns sym.
func symMinus(l eval.Lin, k int64) string {
	if len(l.T) != 1 || l.C != k {
		return ""
	}
	for s, co := range l.T {
		if co == 1 {
			return s
		}
	}
	return ""
}

func varOfIn(sum *eval.LoopSummary, inSym string) string {
	for name, s := range sum.In {
		if s == inSym {
			return name
		}
	}
	return ""
}

// c10Writer interprets updown.writeOutput on one symbolic record.
func c10Writer(c *core.Ctx) {
	fn := c.LookupFunc("pkg/updown", "writeOutput")
	if fn == nil {
		c.Und("R3/writeOutput", token.NoPos, "UNRESOLVED anchor updown.writeOutput")
		return
	}
	lineT := namedType(c, "pkg/updown", "updownLine")
	if lineT == nil {
		c.Und("R3/writeOutput", fn.Pos(), "UNRESOLVED type updownLine")
		return
	}
	ev := newEval(c)
	writes := captureWrites(ev)
	a, b := eval.Sym("a"), eval.Sym("b")
	rec := absValue(lineT, "r", eval.Sym("L")).(*eval.StructVal)
	rec.F["idx"] = eval.K(0)
	rec.F["snps"] = eval.NewSlice(eval.SSym("snp1"), eval.SSym("snp2"))
	rec.F["ambs"] = eval.NewSlice(a, a, b, b.Add(eval.K(2)))
	sig := fn.Type().(*types.Signature)
	var args []eval.Value
	for i := 0; i < sig.Params().Len(); i++ {
		p := sig.Params().At(i)
		switch t := p.Type().Underlying().(type) {
		case *types.Chan:
			if types.Identical(t.Elem(), lineT) {
				args = append(args, &eval.ChanVal{Name: "in", Feed: []eval.Value{rec}})
			} else {
				args = append(args, &eval.ChanVal{Name: p.Name()})
			}
		default:
			args = append(args, eval.Opaque{Why: "writer"})
		}
	}
	if _, err := ev.CallFuncBound(fn, args...); err != nil {
		c.Und("R3/writeOutput", fn.Pos(), "cannot evaluate the writer on a symbolic record: %v", err)
		return
	}
	var got []string
	for _, w := range *writes {
		got = append(got, w.String())
	}
	all := strings.Join(got, "")
	wantHeader := "query,SNPs,ambiguities,SNPcount,ambcount\n"
	wantRow := "<r.id>,<snp1>|<snp2>,{a}|{b}-{b+2},{r.snpCount},{r.ambCount}\n"
	c.Ob("R3/writeOutput/header", strings.HasPrefix(all, wantHeader), fn.Pos(), "first bytes written: %q", firstN(all, 60))
	c.Ob("R3/writeOutput/row-layout", all == wantHeader+wantRow, fn.Pos(), "row written for a symbolic record with SNPs [snp1 snp2] and tracts (a,a),(b,b+2): %q, want %q", strings.TrimPrefix(all, wantHeader), wantRow)
	c.Sample(map[string]string{"rule": "R3", "symbolic_row": wantRow})
	// several records arriving out of input order, so that more than one row is flushed in one pass:
	// every row must carry only its own ranges, in input order
	ev2 := newEval(c)
	writes2 := captureWrites(ev2)
	mk := func(idx int64, id string, lo, hi int64, snps ...string) eval.Value {
		r := absValue(lineT, "r", eval.Sym("L")).(*eval.StructVal)
		r.F["id"] = eval.S(id)
		r.F["idx"] = eval.K(idx)
		var ss []eval.Value
		for _, x := range snps {
			ss = append(ss, eval.S(x))
		}
		r.F["snps"] = eval.NewSlice(ss...)
		r.F["snpCount"] = eval.K(int64(len(snps)))
		if lo > 0 {
			r.F["ambs"] = eval.NewSlice(eval.K(lo), eval.K(hi))
			r.F["ambCount"] = eval.K(hi - lo + 1)
		} else {
			r.F["ambs"] = eval.NewSlice()
			r.F["ambCount"] = eval.K(0)
		}
		return r
	}
	feed := []eval.Value{mk(2, "s2", 6, 7), mk(1, "s1", 0, 0, "A3C"), mk(0, "s0", 1, 2, "A9T", "C10G"), mk(3, "s3", 4, 4)}
	var args2 []eval.Value
	for i := 0; i < sig.Params().Len(); i++ {
		p := sig.Params().At(i)
		switch t := p.Type().Underlying().(type) {
		case *types.Chan:
			if types.Identical(t.Elem(), lineT) {
				args2 = append(args2, &eval.ChanVal{Name: "in", Feed: feed})
			} else {
				args2 = append(args2, &eval.ChanVal{Name: p.Name()})
			}
		default:
			args2 = append(args2, eval.Opaque{Why: "writer"})
		}
	}
	if _, err := ev2.CallFuncBound(fn, args2...); err != nil {
		c.Und("R3/writeOutput/out-of-order-batch", fn.Pos(), "cannot evaluate the writer: %v", err)
		return
	}
	var sb strings.Builder
	for _, w := range *writes2 {
		sb.WriteString(w.String())
	}
	want2 := wantHeader + "s0,A9T|C10G,1-2,2,2\ns1,A3C,,1,0\ns2,,6-7,0,2\ns3,,4,0,1\n"
	c.Ob("R3/writeOutput/out-of-order-batch", sb.String() == want2, fn.Pos(), "records arriving as idx 2,1,0,3 are written as %q, want %q", sb.String(), want2)
}

func firstN(s string, n int) string {
	if len(s) > n {
		return s[:n]
	}
	return s
}

// c10Transducer: the abstract, length-independent argument for getLines.
func c10Transducer(c *core.Ctx, fn *types.Func, tabs *Tables) {
	dom := tabs.domain(false)
	ev := newEval(c)
	ev.Domain = func(s eval.AbsSeq) []eval.Value { return codeValues(dom) }
	var w *workerArgs
	tops := ev.Enumerate(func() eval.Value {
		w = bindWorker(c, fn, eval.Sym("L"), nil)
		if _, err := ev.CallFuncBound(fn, w.args...); err != nil {
			panic(err)
		}
		if len(w.out.Sent) != 1 {
			return nil
		}
		return w.out.Sent[0]
	})
	sum := loopOver(ev, "rec.Seq")
	if sum == nil {
		c.Und("R1/getLines", fn.Pos(), "no column loop over the record's sequence found (%d top-level runs)", len(tops))
		return
	}
	for _, t := range tops {
		if t.Err != nil {
			c.Und("R1/getLines", fn.Pos(), "cannot evaluate: %v", t.Err)
			return
		}
	}
	// roles of the loop-carried variables from the emitted record (any top run)
	var rec *eval.StructVal
	for _, t := range tops {
		if r, ok := t.Result.(*eval.StructVal); ok {
			rec = r
		}
	}
	if rec == nil {
		c.Ob("R1/getLines/emits-one-record", false, fn.Pos(), "no record emitted for an input record")
		return
	}
	postVar := map[string]string{}
	for name, sym := range sum.Post {
		postVar[sym] = name
	}
	role := map[string]string{} // field -> variable
	for field, v := range rec.F {
		switch x := v.(type) {
		case eval.ListVal:
			if n, ok := postVar[x.Base]; ok {
				role[field] = n
			}
		case eval.Lin:
			for s := range x.T {
				if n, ok := postVar[s]; ok && x.Eq(eval.Sym(s)) {
					role[field] = n
				}
			}
		}
	}
	need := []string{"snps", "snpsPos", "snpCount", "ambs", "ambCount"}
	var missing []string
	for _, f := range need {
		if role[f] == "" {
			missing = append(missing, f)
		}
	}
	idOK := false
	if s, ok := rec.F["id"].(eval.Str); ok && s.Eq(w.rec.F["ID"].(eval.Str)) {
		idOK = true
	}
	idxOK := false
	if l, ok := rec.F["idx"].(eval.Lin); ok && l.Eq(w.rec.F["Idx"].(eval.Lin)) {
		idxOK = true
	}
	c.Ob("R2/getLines/record-fields", len(missing) == 0 && idOK && idxOK, fn.Pos(), "emitted record: id from record=%v, idx from record=%v, fields not fed by the column loop's variables: %s", idOK, idxOK, strings.Join(missing, ","))
	if len(missing) > 0 {
		return
	}
	vSnps, vPos, vCnt, vAmbs, vAmbCnt := role["snps"], role["snpsPos"], role["snpCount"], role["ambs"], role["ambCount"]
	// entry values must be empty / zero
	entryOK := true
	for _, v := range []string{vSnps, vPos, vAmbs} {
		if s, ok := sum.Entry[v].(eval.Slice); !ok || s.Len() != 0 {
			entryOK = false
		}
	}
	for _, v := range []string{vCnt, vAmbCnt} {
		if n, ok := linConst(sum.Entry[v]); !ok || n != 0 {
			entryOK = false
		}
	}
	c.Ob("R2/getLines/reset-per-record", entryOK, sum.Pos, "lists and counters must be empty/zero when the column loop starts")
	// the boolean tract state and start/stop variables
	stateVar := ""
	for _, name := range sum.Carried {
		if _, ok := sum.Entry[name].(bool); ok {
			stateVar = name
		}
	}
	if stateVar == "" {
		c.Und("R1/getLines/tract-state", sum.Pos, "no boolean tract-state variable in the column loop")
		return
	}
	idx := eval.Sym(sum.Index)
	i1 := idx.Add(eval.K(1))
	var bad []string
	startVar, stopVar := "", ""
	n := 0
	for _, r := range dom {
		for _, q := range dom {
			for _, open := range []bool{false, true} {
				n++
				runs := runsMatching(sum, map[string]int64{"ref": r.Code, "rec.Seq": q.Code}, map[string]bool{stateVar: open})
				if len(runs) != 1 {
					bad = append(bad, fmt.Sprintf("%c/%c open=%v: %d abstract runs", r.Sym, q.Sym, open, len(runs)))
					continue
				}
				run := runs[0]
				pt := fmt.Sprintf("%c/%c open=%v", r.Sym, q.Sym, open)
				if run.Err != nil {
					bad = append(bad, pt+": "+run.Err.Error())
					continue
				}
				if run.Ctrl == "break" || run.Ctrl == "return" {
					bad = append(bad, pt+": loop exits early")
				}
				snps, ok1 := appended(sum, run, vSnps)
				poss, ok2 := appended(sum, run, vPos)
				ambs, ok3 := appended(sum, run, vAmbs)
				dCnt, ok4 := delta(sum, run, vCnt)
				dAmb, ok5 := delta(sum, run, vAmbCnt)
				if !(ok1 && ok2 && ok3 && ok4 && ok5) {
					bad = append(bad, pt+": a list/counter is not updated by append/increment")
					continue
				}
				resolved := oracle.Resolved(q.Sym)
				isSNP := resolved && disjoint(r.Sym, q.Sym, false)
				// SNP part
				if isSNP {
					want := eval.S(string(r.Sym)).Concat(itoa(i1)).Concat(eval.S(string(q.Sym)))
					if len(snps) != 1 || len(poss) != 1 || dCnt != 1 {
						bad = append(bad, fmt.Sprintf("%s: SNP expected; appended %d strings, %d positions, counter %+d", pt, len(snps), len(poss), dCnt))
					} else {
						if s, ok := snps[0].(eval.Str); !ok || !s.Eq(want) {
							bad = append(bad, fmt.Sprintf("%s: SNP string %s, want %s", pt, eval.Show(snps[0]), want))
						}
						if p, ok := poss[0].(eval.Lin); !ok || !p.Eq(i1) {
							bad = append(bad, fmt.Sprintf("%s: SNP position %s, want %s", pt, eval.Show(poss[0]), i1))
						}
					}
				} else if len(snps) != 0 || len(poss) != 0 || dCnt != 0 {
					bad = append(bad, fmt.Sprintf("%s: no SNP expected; appended %d strings, %d positions, counter %+d", pt, len(snps), len(poss), dCnt))
				}
				// ambiguity part
				finalOpen, _ := run.Final[stateVar].(bool)
				if resolved {
					if dAmb != 0 {
						bad = append(bad, fmt.Sprintf("%s: ambiguity counter moves on a resolved column", pt))
					}
					if finalOpen {
						bad = append(bad, pt+": tract stays open after a resolved column")
					}
					if open {
						if len(ambs) != 2 {
							bad = append(bad, fmt.Sprintf("%s: closing a tract must emit (start,stop); emitted %d values", pt, len(ambs)))
						} else {
							a, okA := ambs[0].(eval.Lin)
							b, okB := ambs[1].(eval.Lin)
							sv, ev2 := symMinus(a, 1), symMinus(b, 1)
							if !okA || !okB || sv == "" || ev2 == "" {
								bad = append(bad, fmt.Sprintf("%s: emitted bounds %s,%s are not start+1, stop+1", pt, eval.Show(ambs[0]), eval.Show(ambs[1])))
							} else {
								if startVar == "" {
									startVar, stopVar = sv, ev2
								} else if startVar != sv || stopVar != ev2 {
									bad = append(bad, pt+": inconsistent start/stop variables")
								}
							}
						}
					} else if len(ambs) != 0 {
						bad = append(bad, fmt.Sprintf("%s: emits a tract although none is open", pt))
					}
				} else {
					if dAmb != 1 {
						bad = append(bad, fmt.Sprintf("%s: ambiguity counter %+d on an ambiguous column, want +1", pt, dAmb))
					}
					if !finalOpen {
						bad = append(bad, pt+": tract not open after an ambiguous column")
					}
					if len(ambs) != 0 {
						bad = append(bad, pt+": emits a tract while inside it")
					}
				}
			}
		}
	}
	// start/stop updates on ambiguous columns (needs startVar/stopVar found above)
	if startVar != "" {
		sName, eName := varOfIn(sum, startVar), varOfIn(sum, stopVar)
		for _, q := range dom {
			if oracle.Resolved(q.Sym) {
				continue
			}
			for _, open := range []bool{false, true} {
				for _, run := range runsMatching(sum, map[string]int64{"rec.Seq": q.Code}, map[string]bool{stateVar: open}) {
					if run.Err != nil {
						continue
					}
					fs, _ := run.Final[sName].(eval.Lin)
					fe, _ := run.Final[eName].(eval.Lin)
					wantS := idx
					if open {
						wantS = eval.Sym(startVar)
					}
					if !fs.Eq(wantS) || !fe.Eq(idx) {
						bad = append(bad, fmt.Sprintf("%c open=%v: start=%s stop=%s, want start=%s stop=%s", q.Sym, open, fs, fe, wantS, idx))
					}
				}
			}
		}
	} else {
		bad = append(bad, "no run closes a tract, start/stop variables not identified")
	}
	c.Count("domain_points_evaluated", n)
	c.Ob("R1/getLines/transducer-17x17x2", len(bad) == 0, sum.Pos, "%s", first(bad, 6))
	c.Sample(map[string]string{"rule": "R1", "point": "ref=A query=N open=false", "effect": "ambCount+1, start=stop=i, open=true", "oracle": "N is not A/C/G/T"})
	// post-loop flush
	flushOK := len(tops) == 2
	detail := fmt.Sprintf("%d continuations after the loop (expected 2: tract open / closed)", len(tops))
	if flushOK {
		for _, t := range tops {
			r, _ := t.Result.(*eval.StructVal)
			if r == nil {
				flushOK = false
				continue
			}
			open := false
			for tag, v := range t.Picked {
				if tag == sum.Post[stateVar] {
					open, _ = v.(bool)
				}
			}
			lv, _ := r.F["ambs"].(eval.ListVal)
			if open {
				okF := len(lv.App) == 2
				if okF {
					a, _ := lv.App[0].(eval.Lin)
					b, _ := lv.App[1].(eval.Lin)
					okF = a.Eq(eval.Sym(sum.Post[varOfIn(sum, startVar)]).Add(eval.K(1))) && b.Eq(eval.Sym(sum.Post[varOfIn(sum, stopVar)]).Add(eval.K(1)))
				}
				if !okF {
					flushOK = false
					detail = "an open tract at the end of the sequence is not flushed as (start+1, stop+1): " + eval.Show(lv)
				}
			} else if len(lv.App) != 0 {
				flushOK = false
				detail = "a tract is emitted after the loop although none is open"
			}
		}
	}
	c.Ob("R1/getLines/flush-open-tract", flushOK, fn.Pos(), "%s", detail)
}

// c10Concrete: getLines on every sequence of a bounded length over {A, C, T, N, R, -} against five references, compared
// field by field with the row the property specifies (written from the property's text, not from the code): SNPs are the
// A/C/G/T columns whose base is not in the reference symbol's base set, ambiguity ranges the maximal runs of other
// columns (1-based, inclusive), the counts count those, the sorted copy is the SNP list in string order.
func c10Concrete(c *core.Ctx, fn *types.Func, tabs *Tables) bool {
	key := "R1/getLines/bounded-family"
	recT := namedType(c, "pkg/fastaio", "EncodedFastaRecord")
	if recT == nil {
		c.Und(key, fn.Pos(), "UNRESOLVED type fastaio.EncodedFastaRecord")
		return false
	}
	L := 4
	if c.Tier == "thorough" {
		L = 6
	}
	alpha := []byte("ACTNR-")
	var seqs []string
	var gen func(cur string)
	gen = func(cur string) {
		if len(cur) == L {
			seqs = append(seqs, cur)
			return
		}
		for _, a := range alpha {
			gen(cur + string(a))
		}
	}
	gen("")
	refs := []string{"ACGTAC", "AAAAAA", "ARNCTG", "TC-GAT", "NNYCAG"}
	enc := func(s string) eval.Value {
		vs := make([]eval.Value, len(s))
		for i := 0; i < len(s); i++ {
			vs[i] = eval.K(tabs.Soft[s[i]])
		}
		return eval.NewSlice(vs...)
	}
	strs := func(v eval.Value) ([]string, bool) {
		sl, ok := v.(eval.Slice)
		if !ok {
			_, isNil := v.(eval.Nil)
			return nil, isNil || v == nil
		}
		var out []string
		for _, e := range sl.Elems() {
			st, ok := e.(eval.Str)
			if !ok || !st.IsConst() {
				return nil, false
			}
			out = append(out, st.Const())
		}
		return out, true
	}
	ints := func(v eval.Value) ([]int64, bool) {
		sl, ok := v.(eval.Slice)
		if !ok {
			_, isNil := v.(eval.Nil)
			return nil, isNil || v == nil
		}
		var out []int64
		for _, e := range sl.Elems() {
			n, ok := linConst(e)
			if !ok {
				return nil, false
			}
			out = append(out, n)
		}
		return out, true
	}
	var bad []string
	n := 0
	for _, ref0 := range refs {
		ref := ref0[:L]
		// one activation per reference, all sequences through it (also exercises state carried between records)
		var feed []eval.Value
		for i, s := range seqs {
			rec := absValue(recT, "r", eval.K(int64(L))).(*eval.StructVal)
			rec.F["ID"] = eval.S(fmt.Sprintf("s%d", i))
			rec.F["Description"] = eval.S(fmt.Sprintf("s%d", i))
			rec.F["Idx"] = eval.K(int64(i))
			rec.F["Seq"] = enc(s)
			feed = append(feed, rec)
		}
		ev := newEval(c)
		out, errs := &eval.ChanVal{Name: "out"}, &eval.ChanVal{Name: "err"}
		if _, err := ev.CallFunc(fn, enc(ref), &eval.ChanVal{Name: "in", Feed: feed}, out, errs); err != nil {
			c.Und(key, fn.Pos(), "cannot evaluate getLines on the family (reference %s): %v", ref, err)
			return false
		}
		if len(out.Sent) != len(seqs) || len(errs.Sent) != 0 {
			c.Ob(key, false, fn.Pos(), "reference %s: %d rows and %d errors for %d sequences of the reference's width: the list has exactly one row per sequence", ref, len(out.Sent), len(errs.Sent), len(seqs))
			return false
		}
		for i, s := range seqs {
			n++
			row, ok := out.Sent[i].(*eval.StructVal)
			if !ok {
				bad = append(bad, fmt.Sprintf("ref %s seq %s: no row", ref, s))
				continue
			}
			var wSnps []string
			var wPos, wAmbs []int64
			ambCount := int64(0)
			for k := 0; k < L; {
				q := s[k]
				if q == 'A' || q == 'C' || q == 'G' || q == 'T' {
					rs, _ := oracle.BaseSet(ref[k], false)
					qs, _ := oracle.BaseSet(q, false)
					if rs&qs == 0 {
						wSnps = append(wSnps, fmt.Sprintf("%c%d%c", ref[k], k+1, q))
						wPos = append(wPos, int64(k+1))
					}
					k++
					continue
				}
				e := k
				for e < L && !(s[e] == 'A' || s[e] == 'C' || s[e] == 'G' || s[e] == 'T') {
					e++
				}
				wAmbs = append(wAmbs, int64(k+1), int64(e))
				ambCount += int64(e - k)
				k = e
			}
			wSorted := append([]string{}, wSnps...)
			sort.Strings(wSorted)
			gSnps, ok1 := strs(row.F["snps"])
			gSorted, ok2 := strs(row.F["snpsSorted"])
			gPos, ok3 := ints(row.F["snpsPos"])
			gAmbs, ok4 := ints(row.F["ambs"])
			gSC, ok5 := linConst(row.F["snpCount"])
			gAC, ok6 := linConst(row.F["ambCount"])
			gIdx, ok7 := linConst(row.F["idx"])
			id, _ := row.F["id"].(eval.Str)
			if !(ok1 && ok2 && ok3 && ok4 && ok5 && ok6 && ok7) {
				bad = append(bad, fmt.Sprintf("ref %s seq %s: row not constant: %s", ref, s, firstN(eval.Show(row), 200)))
				continue
			}
			got := fmt.Sprintf("id=%s idx=%d snps=%v sorted=%v pos=%v snpCount=%d ambs=%v ambCount=%d", id.Const(), gIdx, gSnps, gSorted, gPos, gSC, gAmbs, gAC)
			want := fmt.Sprintf("id=s%d idx=%d snps=%v sorted=%v pos=%v snpCount=%d ambs=%v ambCount=%d", i, i, wSnps, wSorted, wPos, len(wSnps), wAmbs, ambCount)
			if got != want {
				bad = append(bad, fmt.Sprintf("reference %s, sequence %s: row {%s}, specified {%s}", ref, s, got, want))
			}
		}
	}
	// long rows: two ambiguous (or two differing) columns separated by every number of reference-identical columns from
	// 0 to 17 - a row is summarised column by column whatever lies between two events
	{
		ref := "ACGTACGTACGTACGTACGTACGT"
		var rows []string
		for g := 0; g <= 17; g++ {
			for _, ev := range []string{"NN", "NT", "TN", "TT"} {
				r := []byte(ref)
				for k, p := range []int{2, 3 + g} {
					if ev[k] == 'N' {
						r[p] = 'N'
					} else if r[p] == 'T' {
						r[p] = 'A'
					} else {
						r[p] = 'T'
					}
				}
				rows = append(rows, string(r))
			}
		}
		var feed []eval.Value
		for i, srow := range rows {
			rec := absValue(recT, "r", eval.K(int64(len(ref)))).(*eval.StructVal)
			rec.F["ID"] = eval.S(fmt.Sprintf("w%d", i))
			rec.F["Description"] = eval.S(fmt.Sprintf("w%d", i))
			rec.F["Idx"] = eval.K(int64(i))
			rec.F["Seq"] = enc(srow)
			feed = append(feed, rec)
		}
		ev := newEval(c)
		out, errs := &eval.ChanVal{Name: "out"}, &eval.ChanVal{Name: "err"}
		if _, err := ev.CallFunc(fn, enc(ref), &eval.ChanVal{Name: "in", Feed: feed}, out, errs); err != nil || len(out.Sent) != len(rows) {
			c.Und(key, fn.Pos(), "cannot evaluate getLines on the long rows: %v (%d rows)", err, len(out.Sent))
			return false
		}
		for i, srow := range rows {
			n++
			row, _ := out.Sent[i].(*eval.StructVal)
			var wSnps []string
			var wAmbs []int64
			for k := 0; k < len(ref); {
				if srow[k] != 'N' {
					if srow[k] != ref[k] {
						wSnps = append(wSnps, fmt.Sprintf("%c%d%c", ref[k], k+1, srow[k]))
					}
					k++
					continue
				}
				e := k
				for e < len(ref) && srow[e] == 'N' {
					e++
				}
				wAmbs = append(wAmbs, int64(k+1), int64(e))
				k = e
			}
			gSnps, ok1 := strs(row.F["snps"])
			gAmbs, ok2 := ints(row.F["ambs"])
			if row == nil || !ok1 || !ok2 || fmt.Sprint(gSnps) != fmt.Sprint(wSnps) || fmt.Sprint(gAmbs) != fmt.Sprint(wAmbs) {
				bad = append(bad, fmt.Sprintf("reference %s, sequence %s: SNPs %v ambiguity ranges %v, specified %v %v", ref, srow, gSnps, gAmbs, wSnps, wAmbs))
			}
		}
	}
	c.Count("getlines_rows_evaluated", n)
	c.Ob(key, len(bad) == 0, fn.Pos(), "%s", first(bad, 3))
	return len(bad) == 0
}

// formatVerbs models fmt's formatting for the verbs the repository's writers could use (%s %d %v %%): with a constant
// format and constant operands the text is fmt's own; symbolic operands are spliced in symbolically; a format that is
// not a constant (data used as the format string) stays an opaque symbol, which no expected text equals.
func formatVerbs(format eval.Value, ops []eval.Value) eval.Str {
	f, ok := format.(eval.Str)
	if !ok || !f.IsConst() {
		return eval.SSym("format(" + eval.Show(format) + ")")
	}
	allConst := true
	var goArgs []interface{}
	for _, o := range ops {
		switch x := o.(type) {
		case eval.Str:
			if !x.IsConst() {
				allConst = false
			}
			goArgs = append(goArgs, x.Const())
		case eval.Lin:
			if !x.IsConst() {
				allConst = false
			}
			goArgs = append(goArgs, int(x.C))
		case bool:
			goArgs = append(goArgs, x)
		default:
			allConst = false
		}
	}
	if allConst {
		return eval.S(fmt.Sprintf(f.Const(), goArgs...))
	}
	out := eval.S("")
	text := f.Const()
	k := 0
	for i := 0; i < len(text); i++ {
		if text[i] != '%' || i+1 >= len(text) {
			out = out.Concat(eval.S(string(text[i])))
			continue
		}
		i++
		switch text[i] {
		case '%':
			out = out.Concat(eval.S("%"))
		case 's', 'd', 'v':
			if k >= len(ops) {
				return eval.SSym("format: missing operand")
			}
			switch x := ops[k].(type) {
			case eval.Str:
				out = out.Concat(x)
			case eval.Lin:
				out = out.Concat(itoa(x))
			default:
				out = out.Concat(eval.SSym(eval.Show(x)))
			}
			k++
		default:
			return eval.SSym("format: verb %" + string(text[i]))
		}
	}
	return out
}
