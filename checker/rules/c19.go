package rules

import (
	"fmt"
	"go/constant"
	"go/token"
	"go/types"
	"gofasta-verif/eval"
	"sort"
	"syscall"

	"golang.org/x/tools/go/ssa"

	"gofasta-verif/core"
)

func init() { register("C19", C19) }

func fnKey(f *ssa.Function) string {
	name := f.Name()
	if f.Parent() != nil {
		name = topFunc(f).Name() + "." + name
	}
	pkg := ""
	if f.Pkg != nil {
		pkg = f.Pkg.Pkg.Name()
	} else if topFunc(f).Pkg != nil {
		pkg = topFunc(f).Pkg.Pkg.Name()
	}
	return pkg + "." + name
}

func C19(c *core.Ctx) {
	c.Explanation("C19: every Write-like call (io.Writer.Write, *os.File.Write/WriteString, fmt.Fprint*, fmt.Print*, io.WriteString) in the repository whose destination is not os.Stderr and whose payload is not an error value being reported is an obligation: its error result must be bound and must flow (through phis, local variables, wrapping) to a return statement or to a send on an error channel; an error sent on a channel must be received, by the function that created the channel, in a select/receive whose value is returned (transitively through forwarding functions); every call to a function on the write path that returns an error must itself have that error returned or sent, up to the cobra RunE closures; cmd.Execute must exit non-zero on a non-nil error.")
	checkNoDeferInLoops(c, "B5")
	p := facts(c)
	sinks := p.writeSinks()
	perFn := map[*ssa.Function]int{}
	writers := map[*ssa.Function]bool{}
	for _, s := range sinks {
		tf := topFunc(s.fn)
		perFn[tf]++
		writers[tf] = true
		key := fmt.Sprintf("B1/%s/write#%d", fnKey(tf), perFn[tf])
		ev := errValueOf(s.call)
		if ev == nil {
			c.Ob(key, false, s.call.Pos(), "%s: the error result is discarded, so a failed write goes unnoticed", s.what)
			continue
		}
		ft := p.fateOf(ev)
		if !(ft.returned || ft.sent) {
			c.Ob(key, false, s.call.Pos(), "%s: the error is bound but never returned nor sent on an error channel (checked=%v)", s.what, ft.checked)
			continue
		}
		ok, why := true, ""
		for _, ch := range ft.sendChans {
			if ok2, w := p.sentErrorReachesCaller(ch, 0); !ok2 {
				ok, why = false, w
			}
		}
		c.Ob(key, ok, s.call.Pos(), "%s: the error is sent on a channel but %s", s.what, why)
		// the error kept in a field of the writer object: every function that writes through the object reports what the
		// field holds (the flow rule above is satisfied by ANY reader of the field; this is the per-caller obligation)
		if fa := keptInField(ev); fa != nil {
			fk := fieldKeyOf(fa)
			recvT := fieldOwner(fa)
			seenG := map[*ssa.Function]bool{}
			var users []*ssa.Function
			var collect func(h *ssa.Function, d int)
			collect = func(h *ssa.Function, d int) {
				if d > 4 {
					return
				}
				for _, site := range p.callers[h] {
					g := topFunc(site.Parent())
					if g == nil || seenG[g] || !inRepo(g) {
						continue
					}
					seenG[g] = true
					if g.Signature.Recv() != nil && fieldOwnerOfType(g.Signature.Recv().Type()) == recvT {
						collect(g, d+1) // another method of the writer object: its callers are the users
						continue
					}
					users = append(users, g)
				}
			}
			collect(tf, 0)
			sort.Slice(users, func(i, j int) bool { return users[i].Pos() < users[j].Pos() })
			for _, g := range users {
				reported := false
				allInstrs(g, func(_ *ssa.Function, ins ssa.Instruction) {
					if u, isLoad := ins.(*ssa.UnOp); isLoad && u.Op == token.MUL {
						if lfa, isField := u.X.(*ssa.FieldAddr); isField && fieldKeyOf(lfa) == fk {
							if ft := p.fateOf(u); ft.returned || ft.sent {
								reported = true
							}
						}
					}
				})
				c.Ob(fmt.Sprintf("B1/%s/reports-the-error-kept-by-%s", fnKey(g), fnKey(tf)), reported, g.Pos(),
					"%s writes through %s, which keeps a failed write's error in a field; %s never returns or sends what that field holds", fnKey(g), fnKey(tf), fnKey(g))
			}
		}
	}
	nsinks := 0
	for _, n := range perFn {
		nsinks += n
	}
	c.Count("write_call_sites", nsinks)
	c.Count("writer_functions", len(writers))
	c.Floor("B1/write-sinks", nsinks, 28)
	c.Floor("B1/writer-functions", len(writers), 9)
	c.Count("writes_with_path_check", checkErrorExaminedBeforeNextWrite(c, p, sinks))
	// ---- B2: propagation along the static call graph
	wset := map[*ssa.Function]bool{}
	for f := range writers {
		wset[f] = true
	}
	// a helper that receives from an error channel and returns what it received stands in for the receive itself: the
	// write errors of the stages travel through it, so every call of it is on the write path
	for _, f := range p.funcs {
		if f.Parent() != nil || errResultIndex(f.Signature) < 0 {
			continue
		}
		forwards := false
		allInstrs(f, func(_ *ssa.Function, ins ssa.Instruction) {
			switch x := ins.(type) {
			case *ssa.UnOp:
				if ch, ok := x.X.Type().Underlying().(*types.Chan); ok && x.Op == token.ARROW && isErrorType(ch.Elem()) {
					forwards = true
				}
			case *ssa.Select:
				for _, st := range x.States {
					if ch, ok := st.Chan.Type().Underlying().(*types.Chan); ok && st.Dir == types.RecvOnly && isErrorType(ch.Elem()) {
						forwards = true
					}
				}
			}
		})
		if forwards {
			wset[f] = true
		}
	}
	for changed := true; changed; {
		changed = false
		for callee, sites := range p.callers {
			if !wset[topFunc(callee)] && !wset[callee] {
				continue
			}
			for _, s := range sites {
				caller := topFunc(s.Parent())
				if inRepo(caller) && !wset[caller] {
					wset[caller] = true
					changed = true
				}
			}
		}
	}
	var wl []*ssa.Function
	for f := range wset {
		wl = append(wl, f)
	}
	sort.Slice(wl, func(i, j int) bool { return fnKey(wl[i]) < fnKey(wl[j]) })
	nprop := 0
	for _, f := range wl {
		if errResultIndex(f.Signature) < 0 {
			continue
		}
		sites := p.callers[f]
		for k, s := range sites {
			nprop++
			key := fmt.Sprintf("B2/%s/called-from/%s#%d", fnKey(f), fnKey(s.Parent()), k+1)
			if _, isCall := s.(*ssa.Call); !isCall {
				c.Ob(key, false, s.Pos(), "%s returns an error but is started with go/defer, so the error is lost", f.Name())
				continue
			}
			ev := errValueOf(s)
			if ev == nil {
				c.Ob(key, false, s.Pos(), "the error returned by %s is discarded", f.Name())
				continue
			}
			ft := p.fateOf(ev)
			ok := ft.returned || ft.sent
			why := "is neither returned nor sent"
			if ok {
				for _, ch := range ft.sendChans {
					if ok2, w := p.sentErrorReachesCaller(ch, 0); !ok2 {
						ok, why = false, w
					}
				}
			}
			c.Ob(key, ok, s.Pos(), "the error returned by %s %s", f.Name(), why)
		}
	}
	c.Count("propagation_call_sites", nprop)
	c.Floor("B2/propagation-sites", nprop, 10)
	checkExecuteExits(c, "B2/cmd.Execute")
	c.Sample(map[string]interface{}{"rule": "B1", "sinks": nsinks, "writer_functions": len(writers)})
}

// indelsOutOfScope: only C12 states that the deprecated `sam indels` is out of scope; every other property
// quantifies over every command.
var indelsOutOfScope bool

func isDeprecatedIndels(f *ssa.Function) bool {
	if f == nil {
		return false
	}
	if !indelsOutOfScope {
		return false
	}
	pos := f.Prog.Fset.Position(f.Pos())
	return len(pos.Filename) > 0 && (hasSuffix(pos.Filename, "pkg/sam/indels.go") || hasSuffix(pos.Filename, "cmd/indels.go"))
}

func hasSuffix(s, suf string) bool { return len(s) >= len(suf) && s[len(s)-len(suf):] == suf }

// checkExecuteExits: cmd.Execute tests the root command's error and calls os.Exit with a non-zero constant.
func checkExecuteExits(c *core.Ctx, key string) {
	fn := c.LookupFunc("cmd", "Execute")
	if fn == nil {
		c.Und(key, token.NoPos, "UNRESOLVED anchor cmd.Execute")
		return
	}
	// cmd.Execute is interpreted twice: the root command's Execute returns an error / returns nil. os.Exit is
	// modelled (it records the status and ends the run); what Execute prints is accepted and ignored.
	run := func(failure eval.Value) (exited bool, status int64, err error) {
		fail := failure != nil
		ev := newEval(c)
		ev.Extern["(*github.com/spf13/cobra.Command).Execute"] = func(ev *eval.Evaluator, pos token.Pos, recv eval.Value, a []eval.Value) eval.Value {
			if fail {
				return failure
			}
			return eval.Nil{}
		}
		ev.Extern["(*github.com/spf13/cobra.Command).ExecuteC"] = func(ev *eval.Evaluator, pos token.Pos, recv eval.Value, a []eval.Value) eval.Value {
			if fail {
				return eval.Tuple{eval.Nil{}, failure}
			}
			return eval.Tuple{eval.Nil{}, eval.Nil{}}
		}
		noop := func(ev *eval.Evaluator, pos token.Pos, recv eval.Value, a []eval.Value) eval.Value { return nil }
		for _, name := range []string{"os/signal.Ignore", "os/signal.Notify", "os/signal.Reset"} {
			ev.Extern[name] = noop
		}
		// errors.Is: the error is the target itself (the models do not wrap)
		ev.Extern["errors.Is"] = func(ev *eval.Evaluator, pos token.Pos, recv eval.Value, a []eval.Value) eval.Value {
			x, ok1 := a[0].(eval.ErrVal)
			if !ok1 {
				return false
			}
			if y, ok := a[1].(eval.ErrVal); ok {
				return eval.Show(x.Msg) == eval.Show(y.Msg)
			}
			// a syscall.Errno constant as target
			if y, ok := a[1].(eval.Lin); ok && y.IsConst() {
				if xc, ok := x.Concrete.(eval.Lin); ok && xc.IsConst() {
					return xc.C == y.C
				}
			}
			return false
		}
		type exitNow struct{}
		ev.Extern["os.Exit"] = func(ev *eval.Evaluator, pos token.Pos, recv eval.Value, a []eval.Value) eval.Value {
			exited = true
			status, _ = linConst(a[0])
			panic(exitNow{})
		}
		okWrite := func(ev *eval.Evaluator, pos token.Pos, recv eval.Value, a []eval.Value) eval.Value {
			return eval.Tuple{eval.K(0), eval.Nil{}}
		}
		for _, name := range []string{"fmt.Println", "fmt.Printf", "fmt.Print", "fmt.Fprintln", "fmt.Fprintf", "fmt.Fprint", "(*os.File).WriteString", "io.WriteString"} {
			ev.Extern[name] = okWrite
		}
		ev.Extern["(error).Error"] = func(ev *eval.Evaluator, pos token.Pos, recv eval.Value, a []eval.Value) eval.Value {
			return eval.S("error")
		}
		for _, name := range []string{"Stdin", "Stdout", "Stderr"} {
			if v := lookupPkgVar(c, "os", name); v != nil {
				ev.SetGlobal(v, eval.Opaque{Why: "os." + name})
			}
		}
		func() {
			defer func() {
				if r := recover(); r != nil {
					if _, ok := r.(exitNow); !ok {
						panic(r)
					}
				}
			}()
			_, err = ev.CallFunc(fn)
		}()
		return
	}
	exN, stN, errN := run(nil)
	if errN != nil {
		c.Und(key, fn.Pos(), "cannot evaluate cmd.Execute: %v", errN)
		return
	}
	var bad []string
	if exN && stN != 0 {
		bad = append(bad, fmt.Sprintf("the command returns nil, yet os.Exit(%d) is called", stN))
	}
	// every kind of failure exits non-zero: an ordinary error, and the errors a failed write surfaces as
	// (closed pipe, full device, generic I/O error)
	for _, f := range []struct {
		what string
		e    eval.Value
	}{{"an ordinary error", eval.ErrVal{Msg: eval.S("the command failed")}},
		{"a write to a closed pipe (syscall.EPIPE)", eval.ErrVal{Msg: eval.S("broken pipe"), Concrete: eval.K(int64(syscall.EPIPE))}},
		{"a full device (syscall.ENOSPC)", eval.ErrVal{Msg: eval.S("no space left on device"), Concrete: eval.K(int64(syscall.ENOSPC))}},
		{"an I/O error (syscall.EIO)", eval.ErrVal{Msg: eval.S("input/output error"), Concrete: eval.K(int64(syscall.EIO))}},
		{"io.ErrShortWrite", eval.ErrVal{Msg: eval.SSym("io.ErrShortWrite")}},
		{"io.ErrClosedPipe", eval.ErrVal{Msg: eval.SSym("io.ErrClosedPipe")}}} {
		ex, st, err := run(f.e)
		if err != nil {
			c.Und(key, fn.Pos(), "cannot evaluate cmd.Execute when the command returns %s: %v", f.what, err)
			return
		}
		if !ex || st == 0 {
			bad = append(bad, fmt.Sprintf("the command returns %s: os.Exit called=%v status=%d (want a non-zero status)", f.what, ex, st))
		}
	}
	c.Ob(key, len(bad) == 0, fn.Pos(), "%s", first(bad, 3))
}

// errAliases: the values a write's error result can be read through (phis, local variables).
func errAliases(ev ssa.Value) map[ssa.Value]bool {
	set := map[ssa.Value]bool{ev: true}
	work := []ssa.Value{ev}
	for len(work) > 0 {
		v := work[len(work)-1]
		work = work[:len(work)-1]
		refs := v.Referrers()
		if refs == nil {
			continue
		}
		for _, r := range *refs {
			switch x := r.(type) {
			case *ssa.Phi:
				if !set[x] {
					set[x] = true
					work = append(work, x)
				}
			case *ssa.ChangeInterface:
				if !set[x] {
					set[x] = true
					work = append(work, x)
				}
			case *ssa.MakeInterface:
				if !set[x] {
					set[x] = true
					work = append(work, x)
				}
			case *ssa.Store:
				if x.Val != v {
					continue
				}
				var loadsOf func(addr ssa.Value)
				loadsOf = func(addr ssa.Value) {
					ar := addr.Referrers()
					if ar == nil {
						return
					}
					for _, lr := range *ar {
						if u, ok := lr.(*ssa.UnOp); ok && u.Op == token.MUL && !set[u] {
							set[u] = true
							work = append(work, u)
						}
					}
				}
				switch a := x.Addr.(type) {
				case *ssa.Alloc:
					loadsOf(a)
				case *ssa.FreeVar:
					loadsOf(a)
				}
			}
		}
	}
	return set
}

// checkErrorExaminedBeforeNextWrite (B4): on every path from a write to the next write (possibly the same call,
// one loop iteration later) or to the function's return, the write's error is examined (compared with nil),
// returned or sent. An error that is only looked at after further writes have overwritten it is lost.
func checkErrorExaminedBeforeNextWrite(c *core.Ctx, p *progFacts, sinks []sink) int {
	isSink := map[ssa.Instruction]bool{}
	for _, s := range sinks {
		isSink[s.call.(ssa.Instruction)] = true
	}
	n := 0
	perFn := map[*ssa.Function]int{}
	for _, s := range sinks {
		tf := topFunc(s.fn)
		ev := errValueOf(s.call)
		if ev == nil {
			continue // B1 reports it
		}
		perFn[tf]++
		n++
		key := fmt.Sprintf("B4/%s/write#%d/error-examined-before-the-next-write", fnKey(tf), perFn[tf])
		A := errAliases(ev)
		uses := func(v ssa.Value) bool { return v != nil && A[v] }
		type pt struct {
			b      *ssa.BasicBlock
			i      int
			failed bool // on the branch where the error is known to be non-nil
		}
		start := s.call.(ssa.Instruction)
		sb := start.Block()
		si := 0
		for i, ins := range sb.Instrs {
			if ins == start {
				si = i + 1
			}
		}
		type visit struct {
			b      *ssa.BasicBlock
			failed bool
		}
		seen := map[visit]bool{}
		work := []pt{{sb, si, false}}
		var bad string
		var badPos token.Pos
		for len(work) > 0 && bad == "" {
			cur := work[len(work)-1]
			work = work[:len(work)-1]
			stopped := false
			var only []*ssa.BasicBlock // successors to follow when the block ends in a test of the error
			nextFailed := cur.failed
			for i := cur.i; i < len(cur.b.Instrs) && !stopped; i++ {
				ins := cur.b.Instrs[i]
				switch x := ins.(type) {
				case *ssa.If:
					bo, ok := x.Cond.(*ssa.BinOp)
					if !ok || !(uses(bo.X) || uses(bo.Y)) {
						break
					}
					// the error is tested: nothing more is asked of the branch where it is nil; on the branch where it is
					// not, it must be returned, sent or handed on before anything else is written and before the function
					// returns (a test that only leaves a loop lets the next write bury the failure)
					isNilCmp := false
					for _, side := range []ssa.Value{bo.X, bo.Y} {
						if k, isC := side.(*ssa.Const); isC && k.IsNil() {
							isNilCmp = true
						}
					}
					if !isNilCmp || len(cur.b.Succs) != 2 {
						stopped = true
						break
					}
					switch bo.Op {
					case token.NEQ:
						only, nextFailed = []*ssa.BasicBlock{cur.b.Succs[0]}, true
					case token.EQL:
						only, nextFailed = []*ssa.BasicBlock{cur.b.Succs[1]}, true
					default:
						stopped = true
					}
				case *ssa.Return:
					for _, r := range x.Results {
						if uses(r) {
							stopped = true
						}
					}
					if !stopped {
						if cur.failed {
							bad, badPos = "after finding it non-nil the function returns at "+c.PosStr(x.Pos())+" without returning or sending it", x.Pos()
						} else {
							bad, badPos = "the function returns at "+c.PosStr(x.Pos())+" without having looked at it", x.Pos()
						}
					}
					stopped = true
				case *ssa.Send:
					if uses(x.X) {
						stopped = true
					}
				case *ssa.Store:
					// the error kept in a field of the writer object, which refuses to write again once the field is set (the
					// "sticky error" writer): the caller reads the field after its last row (B1 follows the field)
					if fa, isField := x.Addr.(*ssa.FieldAddr); isField && uses(x.Val) && stickyErrorField(sb.Parent(), fa, sb) {
						stopped = true
						break
					}
					// on the failure branch: the error kept in another variable, or the failure remembered in a flag (a command
					// may finish its rows and report at the end; that the variable is consulted is B1's flow rule)
					if cur.failed {
						if uses(x.Val) {
							stopped = true
						} else if k, isC := x.Val.(*ssa.Const); isC && k.Value != nil && k.Value.Kind() == constant.Bool && constant.BoolVal(k.Value) {
							stopped = true
						}
					}
				case *ssa.Panic:
					stopped = true
				case ssa.CallInstruction:
					if isSink[ins] {
						if cur.failed {
							bad, badPos = "it is found non-nil, but the next write at "+c.PosStr(ins.Pos())+" happens before it is returned or sent (if that write succeeds the failure is forgotten)", ins.Pos()
						} else {
							bad, badPos = "the next write at "+c.PosStr(ins.Pos())+" happens before it is looked at (a failure of this write is forgotten if a later write succeeds)", ins.Pos()
						}
						stopped = true
						break
					}
					if cal := x.Common().StaticCallee(); cal != nil && cal.String() == "os.Exit" {
						stopped = true
						break
					}
					// passing the error to a function (wrapping, reporting) counts as examined
					for _, a := range x.Common().Args {
						if uses(a) {
							stopped = true
						}
					}
				}
			}
			if stopped {
				continue
			}
			succs := cur.b.Succs
			if only != nil {
				succs = only
			}
			for _, succ := range succs {
				v := visit{succ, nextFailed}
				if !seen[v] {
					seen[v] = true
					work = append(work, pt{succ, 0, nextFailed})
				}
			}
		}
		_ = badPos
		c.Ob(key, bad == "", s.call.Pos(), "%s: the error of this write is not examined on every path: %s", s.what, bad)
	}
	return n
}

// keptInField: the field in which the write's error is stored, if it is.
func keptInField(ev ssa.Value) *ssa.FieldAddr {
	for a := range errAliases(ev) {
		refs := a.Referrers()
		if refs == nil {
			continue
		}
		for _, r := range *refs {
			if st, ok := r.(*ssa.Store); ok && st.Val == a {
				if fa, ok := st.Addr.(*ssa.FieldAddr); ok {
					if la, isLocal := fa.X.(*ssa.Alloc); isLocal && !la.Heap {
						continue // a field of a local copy: not kept
					}
					return fa
				}
			}
		}
	}
	return nil
}

func fieldOwner(fa *ssa.FieldAddr) string { return fieldOwnerOfType(fa.X.Type()) }

func fieldOwnerOfType(t types.Type) string {
	if pt, ok := t.Underlying().(*types.Pointer); ok {
		t = pt.Elem()
	}
	return t.String()
}
