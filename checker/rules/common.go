// Package rules holds one file per property: the rule instances, their floors
// and their wording.
package rules

import (
	"fmt"
	"go/ast"
	"go/token"
	"go/types"
	"golang.org/x/tools/go/ssa"
	"sort"
	"strings"

	"gofasta-verif/core"
	"gofasta-verif/eval"
	"gofasta-verif/oracle"
)

// Rule is the entry point of one property.
type Rule func(c *core.Ctx)

var Registry = map[string]Rule{}

var wiringFuncs = map[string]func(*core.Ctx, string){
	"snps.SNPs": wiringSNPs, "updown.List": wiringList, "closest.Closest+ClosestN": wiringClosest, "sam.ToMultiAlign": wiringToMultiAlign,
	"sam.ToPairAlign": wiringToPairAlign, "updown.TopRanking": wiringTopRanking, "sam.Variants": wiringSamVariants, "variants.Variants": wiringVariants, "sam.Indels": wiringIndels,
}

// wiringProps: the entry points whose wiring carries each property's behaviour (Engine E).
var wiringProps = map[string][]string{
	"C01": {"sam.ToMultiAlign"}, "C02": {"sam.ToPairAlign"}, "C03": {"snps.SNPs"}, "C04": {"variants.Variants", "sam.Variants"},
	"C05": {"sam.Variants", "variants.Variants"}, "C06": {"closest.Closest+ClosestN"}, "C07": {"closest.Closest+ClosestN"},
	"C08": {"updown.TopRanking"}, "C09": {"updown.TopRanking"}, "C10": {"updown.List"},
	"C11": {"sam.Variants", "variants.Variants", "sam.ToPairAlign", "sam.ToMultiAlign"}, "C12": {"snps.SNPs", "updown.List"},
	"C13": {"snps.SNPs", "variants.Variants", "sam.Variants"}, "C14": {"variants.Variants", "sam.Variants"},
	"C15": {"sam.ToMultiAlign", "sam.ToPairAlign", "variants.Variants", "sam.Variants"},
	"C18": {"snps.SNPs", "updown.List", "closest.Closest+ClosestN", "sam.ToMultiAlign", "sam.ToPairAlign", "updown.TopRanking", "sam.Variants", "variants.Variants", "sam.Indels"},
	"C19": {"snps.SNPs", "updown.List", "closest.Closest+ClosestN", "sam.ToMultiAlign", "sam.ToPairAlign", "updown.TopRanking", "sam.Variants", "variants.Variants", "sam.Indels"},
}

// argRolePkgs: the packages whose internal calls carry each property's options (argument-role rule; nil = all).
var argRolePkgs = map[string][]string{
	"C01": {"pkg/sam", "pkg/fastaio"}, "C02": {"pkg/sam"}, "C03": {"pkg/snps"}, "C04": {"pkg/variants", "pkg/sam"},
	"C05": {"pkg/variants", "pkg/sam"}, "C06": {"pkg/closest"}, "C07": {"pkg/closest"}, "C08": {"pkg/updown"},
	"C09": {"pkg/updown"}, "C10": {"pkg/updown"}, "C11": {"pkg/variants", "pkg/sam"}, "C13": {"pkg/variants", "pkg/sam", "pkg/snps"},
	"C14": {"pkg/variants", "pkg/genbank", "pkg/gff"}, "C15": {"pkg/variants", "pkg/sam", "pkg/fastaio"}, "C18": nil, "C19": nil,
}

// register adds the property's rule; the command-layer contract (Engine D) of the commands that expose
// the property's behaviour is checked with it (C18, C19: every command).
func register(id string, r Rule) {
	Registry[id] = func(c *core.Ctx) {
		indelsOutOfScope = id == "C12"
		r(c)
		var paths []string
		for _, s := range cmdSpecs {
			for _, p := range s.props {
				if p == id || id == "C18" || id == "C19" {
					paths = append(paths, s.path)
					break
				}
			}
		}
		if ws := wiringProps[id]; len(ws) > 0 {
			c.Explanation("Engine E (pipeline wiring): the entry points " + strings.Join(ws, ", ") + " are interpreted in the sequential pipeline model (go = run to completion, made channels are queues, select takes the first case with a value pending) with every stage function (any repository function with a channel parameter) and the synchronous readers/region builders replaced by recorders. Per scenario of the entry point's parameters: the multiset of stages started with their scalar, data and stream arguments equals the specified wiring; the entry point returns nil when all stages complete; it returns an error when any single stage reports one on the error channel; invalid windows / reference counts fail before any worker starts.")
			for _, w := range ws {
				wiringFuncs[w](c, "E")
			}
		}
		if pk, ok := argRolePkgs[id]; ok {
			c.Count("positional_calls_checked", checkArgumentRoles(c, "A", pk...))
		}
		if len(paths) > 0 {
			c.Explanation("Engine D (command layer): the RunE literal of " + strings.Join(paths, ", ") + " is interpreted under scenarios of flag values (every flag distinct and non-default; all defaults; each boolean on/off; each input unopenable; command-specific option values; each repeated with the library call failing), with cobra/pflag/os modelled, gfio.OpenIn/OpenOut interpreted from source and every exported library function replaced by a recorder. Obligations: the recorded call equals the call specified over the user-visible flag names (entry point, each argument position, each file opened for reading / created-and-truncated / standard stream); invalid option values and unopenable files make RunE fail before any library call; an error from the library call is what RunE returns (deferred calls included).")
			checkCmdContract(c, "D", paths...)
		}
	}
}

// evalTrace, when non-nil, collects the evaluators created while a harness runs (the map-order rule reads their
// sort calls afterwards).
var evalTrace *[]*eval.Evaluator

// evalStepBudget, when positive, bounds the evaluators created while a small-input harness runs: a changed routine that
// no longer terminates on a four-item batch is then reported after a fraction of a second instead of after 20M steps.
var evalStepBudget int

// evalNumCPU, when positive, is the processor count the evaluators created meanwhile report (a consumer's output must
// not depend on it; the harnesses run with a single processor, the value that makes processor-sized bounds tightest).
var evalNumCPU int

func newEval(c *core.Ctx) *eval.Evaluator {
	ev := eval.New(c.Fset, c.FuncDecl)
	if evalTrace != nil {
		*evalTrace = append(*evalTrace, ev)
	}
	// harnesses write and read struct fields flat (`pair.F["ref"]`); where the repository declares such a field in an
	// embedded struct, the values are pushed down before the call and lifted up afterwards
	ev.PreCall = func(args []eval.Value) {
		seen := map[*eval.StructVal]bool{}
		for _, a := range args {
			pushDownEmbedded(a, seen)
		}
	}
	ev.PostCall = func(args []eval.Value, res eval.Value) {
		seen := map[*eval.StructVal]bool{}
		for _, a := range args {
			liftEmbedded(a, seen)
		}
		liftEmbedded(res, seen)
	}
	if evalStepBudget > 0 {
		ev.MaxSteps = evalStepBudget
	}
	if evalNumCPU > 0 {
		ev.NumCPU = evalNumCPU
	}
	ev.VarInit = c.VarInit
	ev.PkgInits = c.PkgInits
	ev.Adapt = func(fn *types.Func, args []eval.Value) ([]eval.Value, error) { return adaptArgs(c, fn, args) }
	installBytesBuffer(ev)
	return ev
}

// evalFunc interprets pkg.name(args...) and reports an undecided obligation on failure.
func evalFunc(c *core.Ctx, ev *eval.Evaluator, key, pkg, name string, args ...eval.Value) (eval.Value, bool) {
	fn := c.LookupFunc(pkg, name)
	if fn == nil {
		c.Und(key, token.NoPos, "UNRESOLVED anchor: function %s.%s not found", pkg, name)
		return nil, false
	}
	v, err := ev.CallFunc(fn, args...)
	if err != nil {
		c.Und(key, fn.Pos(), "cannot evaluate %s.%s: %v", pkg, name, err)
		return nil, false
	}
	return v, true
}

// byteTable extracts a [256]T table of integer constants.
func byteTable(c *core.Ctx, ev *eval.Evaluator, key, pkg, name string) ([256]int64, bool) {
	var out [256]int64
	v, ok := evalFunc(c, ev, key, pkg, name)
	if !ok {
		return out, false
	}
	arr, ok := v.(eval.ArrayVal)
	if !ok || len(arr.A.E) != 256 {
		c.Und(key, token.NoPos, "%s.%s did not evaluate to a 256-entry table (%s)", pkg, name, eval.Show(v))
		return out, false
	}
	for i, e := range arr.A.E {
		l, ok := e.(eval.Lin)
		if !ok || !l.IsConst() {
			c.Und(key, token.NoPos, "%s.%s entry %d is not a constant (%s)", pkg, name, i, eval.Show(e))
			return out, false
		}
		out[i] = l.C
	}
	c.Count("tables_extracted", 1)
	return out, true
}

// strTable extracts a [256]string table.
func strTable(c *core.Ctx, ev *eval.Evaluator, key, pkg, name string) ([256]string, bool) {
	var out [256]string
	v, ok := evalFunc(c, ev, key, pkg, name)
	if !ok {
		return out, false
	}
	arr, ok := v.(eval.ArrayVal)
	if !ok || len(arr.A.E) != 256 {
		c.Und(key, token.NoPos, "%s.%s did not evaluate to a 256-entry table", pkg, name)
		return out, false
	}
	for i, e := range arr.A.E {
		s, ok := e.(eval.Str)
		if !ok || !s.IsConst() {
			c.Und(key, token.NoPos, "%s.%s entry %d is not a constant string", pkg, name, i)
			return out, false
		}
		out[i] = s.Const()
	}
	c.Count("tables_extracted", 1)
	return out, true
}

// Accepted32 are the characters a FASTA reader must accept: 15 codes in both cases, '-' and '?'.
func accepted32() []byte {
	var out []byte
	for _, ch := range oracle.Codes15 {
		out = append(out, ch, ch+32)
	}
	out = append(out, '-', '?')
	return out
}

func isAccepted(b byte) bool {
	for _, a := range accepted32() {
		if a == b {
			return true
		}
	}
	return false
}

func upper(b byte) byte {
	if b >= 'a' && b <= 'z' {
		return b - 32
	}
	return b
}

// Tables bundles the repository's nucleotide tables as extracted from source.
type Tables struct {
	Soft, Hard [256]int64
	Dec        [256]string
	OK         bool
}

func extractTables(c *core.Ctx, ev *eval.Evaluator, rule string) *Tables {
	t := &Tables{}
	var ok1, ok2, ok3 bool
	t.Soft, ok1 = byteTable(c, ev, rule+"/extract/MakeEncodingArray", "pkg/encoding", "MakeEncodingArray")
	t.Hard, ok2 = byteTable(c, ev, rule+"/extract/MakeEncodingArrayHardGaps", "pkg/encoding", "MakeEncodingArrayHardGaps")
	t.Dec, ok3 = strTable(c, ev, rule+"/extract/MakeDecodingArray", "pkg/encoding", "MakeDecodingArray")
	t.OK = ok1 && ok2 && ok3
	return t
}

// codeDomain lists, for one gap mode, the encoded values of the 17 symbols with the symbol they stand for.
type codePoint struct {
	Sym  byte
	Code int64
}

func (t *Tables) domain(hard bool) []codePoint {
	var out []codePoint
	tab := t.Soft
	if hard {
		tab = t.Hard
	}
	for _, s := range oracle.Symbols17 {
		out = append(out, codePoint{Sym: s, Code: tab[s]})
	}
	return out
}

// symOfCode maps an encoded byte back to its symbol (for either gap mode).
func (t *Tables) symOfCode(code int64, hard bool) (byte, bool) {
	for _, p := range t.domain(hard) {
		if p.Code == code {
			return p.Sym, true
		}
	}
	return 0, false
}

func disjoint(a, b byte, hard bool) bool {
	sa, _ := oracle.BaseSet(a, hard)
	sb, _ := oracle.BaseSet(b, hard)
	return sa&sb == 0
}

func codeValues(pts []codePoint) []eval.Value {
	out := make([]eval.Value, len(pts))
	for i, p := range pts {
		out[i] = eval.K(p.Code)
	}
	return out
}

func linConst(v eval.Value) (int64, bool) {
	l, ok := v.(eval.Lin)
	if !ok || !l.IsConst() {
		return 0, false
	}
	return l.C, true
}

func first(ss []string, n int) string {
	sort.Strings(ss)
	if len(ss) > n {
		return strings.Join(ss[:n], " ") + fmt.Sprintf(" … (%d in all)", len(ss))
	}
	return strings.Join(ss, " ")
}

// funcPos returns the position of a repository function or NoPos.
func funcPos(c *core.Ctx, pkg, name string) token.Pos {
	if f := c.LookupFunc(pkg, name); f != nil {
		return f.Pos()
	}
	return token.NoPos
}

// findFuncDecl returns the syntax of pkg.name.
func findFuncDecl(c *core.Ctx, pkg, name string) (*ast.FuncDecl, *types.Info) {
	f := c.LookupFunc(pkg, name)
	if f == nil {
		return nil, nil
	}
	d, p := c.FuncDecl(f)
	if d == nil {
		return nil, nil
	}
	return d, p.TypesInfo
}

// currentName returns the name a reference anchor carries on the analysed tree (it may have been renamed).
func currentName(c *core.Ctx, pkg, name string) string {
	if f := c.LookupFunc(pkg, name); f != nil {
		return f.Name()
	}
	return name
}

// adaptArgs: the rules call repository functions with arguments laid out for the signature the function had on
// the reference tree. When the function still exists under its name but its interface was refactored
// (parameters reordered, renamed, bundled into a struct, an unused one dropped), the arguments are re-bound by
// type and name: exact name, then one name containing the other, then the only candidate of that type. An
// argument that cannot be bound unambiguously makes the call undecided - never a guess.
func adaptArgs(c *core.Ctx, fn *types.Func, args []eval.Value) ([]eval.Value, error) {
	if fn == nil || fn.Pkg() == nil {
		return args, nil
	}
	sig := fn.Type().(*types.Signature)
	rel := c.RelOf(fn.Pkg())
	if rel == "" || sig.Recv() != nil || !c.SigChanged(rel, fn.Name()) {
		return args, nil
	}
	names, typs, ok := c.RefParams(rel, fn.Name())
	if !ok || len(names) != len(args) {
		return args, nil
	}
	type cand struct {
		name, typ string
		v         eval.Value
		used      bool
	}
	pool := make([]*cand, len(args))
	for i := range args {
		pool[i] = &cand{names[i], typs[i], args[i], false}
	}
	lower := strings.ToLower
	pick := func(pname string, t types.Type) (eval.Value, bool) {
		ts := core.TypeStr(t)
		var same []*cand
		for _, k := range pool {
			if !k.used && k.typ == ts {
				same = append(same, k)
			}
		}
		choose := func(pred func(k *cand) bool) *cand {
			var hit *cand
			for _, k := range same {
				if pred(k) {
					if hit != nil {
						return nil
					}
					hit = k
				}
			}
			return hit
		}
		k := choose(func(k *cand) bool { return lower(k.name) == lower(pname) })
		if k == nil {
			k = choose(func(k *cand) bool {
				a, b := lower(k.name), lower(pname)
				return a != "" && b != "" && (strings.Contains(a, b) || strings.Contains(b, a))
			})
		}
		if k == nil && len(same) == 1 {
			k = same[0]
		}
		if k == nil {
			return nil, false
		}
		k.used = true
		return k.v, true
	}
	// role inference: the names under which a parameter (or a field of a struct parameter) is handed on to
	// functions whose interface is unchanged
	ssaFn := c.SSAFunc(rel, fn.Name())
	aliases := func(param int, field string) []string {
		if ssaFn == nil || param >= len(ssaFn.Params) {
			return nil
		}
		var roots []ssa.Value
		pv := ssa.Value(ssaFn.Params[param])
		if field == "" {
			roots = append(roots, pv)
		}
		var out []string
		seen := map[ssa.Value]bool{}
		var follow func(v ssa.Value, d int)
		follow = func(v ssa.Value, d int) {
			if v == nil || seen[v] || d > 6 || v.Referrers() == nil {
				return
			}
			seen[v] = true
			for _, r := range *v.Referrers() {
				switch x := r.(type) {
				case ssa.CallInstruction:
					cal := x.Common().StaticCallee()
					if cal == nil || cal.Pkg == nil || c.RelOf(cal.Pkg.Pkg) == "" || c.SigChanged(c.RelOf(cal.Pkg.Pkg), cal.Name()) {
						continue
					}
					for i, a := range x.Common().Args {
						if a == v && i < cal.Signature.Params().Len() {
							out = append(out, cal.Signature.Params().At(i).Name())
						}
					}
				case *ssa.Phi:
					follow(x, d+1)
				case *ssa.Store:
					if al, ok := x.Addr.(*ssa.Alloc); ok && x.Val == v {
						for _, ar := range *al.Referrers() {
							if u, ok := ar.(*ssa.UnOp); ok && u.Op == token.MUL {
								follow(u, d+1)
							}
							if fa, ok := ar.(*ssa.FieldAddr); ok && field != "" {
								if st, ok := derefType(fa.X.Type()).Underlying().(*types.Struct); ok && st.Field(fa.Field).Name() == field {
									for _, fr := range *fa.Referrers() {
										if u, ok := fr.(*ssa.UnOp); ok && u.Op == token.MUL {
											follow(u, d+1)
										}
									}
								}
							}
						}
					}
				case *ssa.Field:
					if field != "" && x.X == v {
						if st, ok := x.X.Type().Underlying().(*types.Struct); ok && st.Field(x.Field).Name() == field {
							follow(x, d+1)
						}
					}
				case *ssa.MakeClosure:
					// captured: follow the free variable inside the literal
					if lit, ok := x.Fn.(*ssa.Function); ok {
						for i, b := range x.Bindings {
							if b == v && i < len(lit.FreeVars) {
								follow(lit.FreeVars[i], d+1)
							}
						}
					}
				}
			}
		}
		if field == "" {
			follow(pv, 0)
		} else {
			// the struct parameter itself: look for its field reads
			seenRoot := map[ssa.Value]bool{}
			var openStruct func(v ssa.Value, d int)
			openStruct = func(v ssa.Value, d int) {
				if v == nil || seenRoot[v] || d > 4 || v.Referrers() == nil {
					return
				}
				seenRoot[v] = true
				for _, r := range *v.Referrers() {
					switch x := r.(type) {
					case *ssa.Field:
						if st, ok := x.X.Type().Underlying().(*types.Struct); ok && st.Field(x.Field).Name() == field {
							follow(x, 0)
						}
					case *ssa.Store:
						if al, ok := x.Addr.(*ssa.Alloc); ok && x.Val == v {
							for _, ar := range *al.Referrers() {
								if fa, ok := ar.(*ssa.FieldAddr); ok {
									if st, ok := derefType(fa.X.Type()).Underlying().(*types.Struct); ok && st.Field(fa.Field).Name() == field {
										for _, fr := range *fa.Referrers() {
											if u, ok := fr.(*ssa.UnOp); ok && u.Op == token.MUL {
												follow(u, 0)
											}
										}
									}
								}
								if u, ok := ar.(*ssa.UnOp); ok && u.Op == token.MUL {
									openStruct(u, d+1)
								}
							}
						}
					}
				}
			}
			openStruct(pv, 0)
		}
		_ = roots
		return out
	}
	curParam := 0
	// holes: scalar parameters or fields that no name-based rule could bind; after everything else is bound, a hole is
	// filled by elimination when exactly one unused reference argument of its type is left
	type hole struct {
		t    types.Type
		fill func(eval.Value)
		what string
	}
	var holes []*hole
	var pending *hole
	var bind func(pname string, t types.Type, depth int) (eval.Value, bool)
	bind = func(pname string, t types.Type, depth int) (eval.Value, bool) {
		pending = nil
		if v, ok := pick(pname, t); ok {
			return v, true
		}
		// by the role the value plays further down (the parameter names of unchanged callees)
		field := ""
		if depth > 0 {
			field = pname
		}
		for _, al := range aliases(curParam, field) {
			ts := core.TypeStr(t)
			for _, k := range pool {
				if !k.used && k.typ == ts && lower(k.name) == lower(al) {
					k.used = true
					return k.v, true
				}
			}
		}
		// a channel whose direction was narrowed (chan T -> <-chan T / chan<- T)
		if ct, ok := t.Underlying().(*types.Chan); ok && ct.Dir() != types.SendRecv {
			if v, ok := pick(pname, types.NewChan(types.SendRecv, ct.Elem())); ok {
				return v, true
			}
		}
		if st, ok := t.Underlying().(*types.Struct); ok && depth < 2 {
			sv := &eval.StructVal{T: t, F: map[string]eval.Value{}}
			for i := 0; i < st.NumFields(); i++ {
				fname := st.Field(i).Name()
				fv, ok := bind(fname, st.Field(i).Type(), depth+1)
				if !ok {
					return nil, false
				}
				sv.F[fname] = fv
				if pending != nil {
					pending.fill = func(v eval.Value) { sv.F[fname] = v }
					holes = append(holes, pending)
					pending = nil
				}
			}
			return sv, true
		}
		if pt, ok := t.Underlying().(*types.Pointer); ok && depth < 2 {
			if v, ok := bind(pname, pt.Elem(), depth+1); ok {
				cell := v
				return &eval.Ref{Get: func() eval.Value { return cell }, Set: func(x eval.Value) { cell = x }}, true
			}
		}
		if _, basic := t.Underlying().(*types.Basic); basic {
			pending = &hole{t: t, what: pname}
			return eval.Opaque{Why: "unbound " + pname}, true
		}
		return nil, false
	}
	out := make([]eval.Value, sig.Params().Len())
	for i := 0; i < sig.Params().Len(); i++ {
		p := sig.Params().At(i)
		curParam = i
		v, ok := bind(p.Name(), p.Type(), 0)
		if !ok {
			return nil, fmt.Errorf("the interface of %s.%s was refactored and its parameter %s (%s) cannot be bound unambiguously from the reference arguments (%s)", rel, fn.Name(), p.Name(), core.TypeStr(p.Type()), strings.Join(names, ", "))
		}
		out[i] = v
		if pending != nil {
			i := i
			pending.fill = func(v eval.Value) { out[i] = v }
			holes = append(holes, pending)
			pending = nil
		}
	}
	for _, h := range holes {
		ts := core.TypeStr(h.t)
		var left []*cand
		for _, k := range pool {
			if !k.used && k.typ == ts {
				left = append(left, k)
			}
		}
		if len(left) != 1 {
			return nil, fmt.Errorf("the interface of %s.%s was refactored and %s (%s) cannot be bound unambiguously from the reference arguments (%s)", rel, fn.Name(), h.what, ts, strings.Join(names, ", "))
		}
		left[0].used = true
		h.fill(left[0].v)
	}
	return out, nil
}

// embeddedFields lists the embedded struct fields of a struct type (by field name).
func embeddedFields(t types.Type) []*types.Var {
	if t == nil {
		return nil
	}
	if p, ok := t.Underlying().(*types.Pointer); ok {
		t = p.Elem()
	}
	st, ok := t.Underlying().(*types.Struct)
	if !ok {
		return nil
	}
	var out []*types.Var
	for i := 0; i < st.NumFields(); i++ {
		if f := st.Field(i); f.Embedded() {
			if _, isStruct := derefType(f.Type()).Underlying().(*types.Struct); isStruct {
				out = append(out, f)
			}
		}
	}
	return out
}

func declaresField(t types.Type, name string) bool {
	st, ok := derefType(t).Underlying().(*types.Struct)
	if !ok {
		return false
	}
	for i := 0; i < st.NumFields(); i++ {
		if st.Field(i).Name() == name {
			return true
		}
	}
	return false
}

func walkValues(v eval.Value, visit func(sv *eval.StructVal)) {
	switch x := v.(type) {
	case *eval.StructVal:
		visit(x)
	case *eval.Ref:
		walkValues(x.Get(), visit)
	case *eval.ChanVal:
		for _, e := range x.Feed {
			walkValues(e, visit)
		}
		for _, e := range x.Sent {
			walkValues(e, visit)
		}
	case eval.Slice:
		for _, e := range x.Elems() {
			walkValues(e, visit)
		}
	case eval.Tuple:
		for _, e := range x {
			walkValues(e, visit)
		}
	}
}

// pushDownEmbedded moves a flat key that the struct's type declares in an embedded struct into that struct's value.
func pushDownEmbedded(v eval.Value, seen map[*eval.StructVal]bool) {
	walkValues(v, func(sv *eval.StructVal) {
		if seen[sv] {
			return
		}
		seen[sv] = true
		for _, ef := range embeddedFields(sv.T) {
			inner, ok := sv.F[ef.Name()].(*eval.StructVal)
			for k, val := range sv.F {
				if k != ef.Name() && !declaresField(sv.T, k) && declaresField(ef.Type(), k) {
					if !ok {
						inner = &eval.StructVal{T: derefType(ef.Type()), F: map[string]eval.Value{}}
						sv.F[ef.Name()] = inner
						ok = true
					}
					inner.F[k] = val
					delete(sv.F, k)
				}
			}
		}
		for _, val := range sv.F {
			pushDownEmbedded(val, seen)
		}
	})
}

// liftEmbedded copies the fields of embedded structs up into the struct that embeds them (promoted fields), so that a
// harness reads `res.F["qidx"]` whether or not the field has moved into an embedded struct.
func liftEmbedded(v eval.Value, seen map[*eval.StructVal]bool) {
	walkValues(v, func(sv *eval.StructVal) {
		if seen[sv] {
			return
		}
		seen[sv] = true
		for _, val := range sv.F {
			liftEmbedded(val, seen)
		}
		for _, ef := range embeddedFields(sv.T) {
			if inner, ok := sv.F[ef.Name()].(*eval.StructVal); ok {
				for k, val := range inner.F {
					if _, clash := sv.F[k]; !clash {
						sv.F[k] = val
					}
				}
			}
		}
	})
}
