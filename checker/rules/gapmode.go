package rules

import (
	"go/token"
	"go/types"
	"sort"
	"strings"

	"golang.org/x/tools/go/ssa"

	"gofasta-verif/core"
)

// checkSoftGapReaders: only `snps --hard-gaps` may read '-' as "no base". In the given packages every call of
// a function with a boolean parameter named hardGaps (the encoded FASTA readers) passes the constant false,
// and the hard-gap encoding table is not requested directly. This is a structural necessary condition of the
// base-set semantics ('-' denotes any base) of every command other than snps.
func checkSoftGapReaders(c *core.Ctx, rule string, pkgs ...string) {
	in := map[string]bool{}
	for _, p := range pkgs {
		in[p] = true
	}
	hardTable := currentName(c, "pkg/encoding", "MakeEncodingArrayHardGaps")
	n := 0
	var bad []string
	var pos token.Pos
	for _, f := range c.RepoFuncs() {
		if f.Pkg == nil || !in[c.RelOf(f.Pkg.Pkg)] {
			continue
		}
		for _, b := range f.Blocks {
			for _, ins := range b.Instrs {
				call, ok := ins.(ssa.CallInstruction)
				if !ok {
					continue
				}
				cal := call.Common().StaticCallee()
				if cal == nil {
					continue
				}
				if cal.Name() == hardTable && cal.Pkg != nil && c.RelOf(cal.Pkg.Pkg) == "pkg/encoding" {
					n++
					bad = append(bad, c.PosStr(ins.Pos())+": "+f.Name()+" requests the hard-gap encoding table")
					pos = ins.Pos()
					continue
				}
				sig := cal.Signature
				args := call.Common().Args
				off := 0
				if sig.Recv() != nil {
					off = 1
				}
				for i := 0; i < sig.Params().Len(); i++ {
					p := sig.Params().At(i)
					if b, ok := p.Type().Underlying().(*types.Basic); !ok || b.Kind() != types.Bool {
						continue
					}
					// the gap-mode parameter: by name, or the only boolean parameter of an encoding FASTA reader
					if !strings.EqualFold(p.Name(), "hardGaps") {
						nb := 0
						for j := 0; j < sig.Params().Len(); j++ {
							if bb, ok := sig.Params().At(j).Type().Underlying().(*types.Basic); ok && bb.Kind() == types.Bool {
								nb++
							}
						}
						if nb != 1 || cal.Pkg == nil || c.RelOf(cal.Pkg.Pkg) != "pkg/fastaio" || !strings.Contains(cal.Name(), "Encode") {
							continue
						}
					}
					n++
					k, isConst := args[i+off].(*ssa.Const)
					if !isConst || k.Value == nil || k.Value.String() != "false" {
						bad = append(bad, c.PosStr(ins.Pos())+": "+f.Name()+" passes "+args[i+off].String()+" as "+cal.Name()+"'s hardGaps; only snps may select hard gaps")
						pos = ins.Pos()
					}
				}
			}
		}
	}
	sort.Strings(bad)
	key := rule + "/soft-gap-readers/" + strings.ReplaceAll(strings.Join(pkgs, "+"), "pkg/", "")
	c.Ob(key, len(bad) == 0, pos, "%s", first(bad, 4))
	c.Floor(key, n, 1)
}
