package rules

import "gofasta-verif/core"

// c18Evaluated: rows decided by abstract evaluation (filled in as the shared evaluations are built).
func c18Evaluated(c *core.Ctx) {}
