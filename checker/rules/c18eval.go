package rules

import (
	"go/types"

	"gofasta-verif/core"
	"gofasta-verif/eval"
)

// c18Evaluated: rows of the obligation table decided by abstract evaluation.
func c18Evaluated(c *core.Ctx) {
	ev0 := newEval(c)
	tabs := extractTables(c, ev0, "T/tables")
	if tabs.OK {
		// unequal rows / non-IUPAC symbol / empty / no header in every FASTA reader; blank lines do not crash
		checkReaders(c, tabs, "T/fasta/", false)
	}
	// CSV that is empty or not `updown list` output
	checkCSVValidation(c, "T")
	// window coordinates
	checkSamCheckArgs(c, "T")
	// no size/dist option
	c08CheckArgs(c)
	// reference vs alignment width in the per-record workers
	checkWorkerWidth(c, tabs)
	// SAM reader: a reader that cannot be created must be reported and nothing else done
	checkSamReaderFailure(c)
}

// checkWorkerWidth: a record whose width differs from the reference's is reported on the error channel.
func checkWorkerWidth(c *core.Ctx, tabs *Tables) {
	if tabs == nil || !tabs.OK {
		return
	}
	for _, w := range []struct{ pkg, name string }{{"pkg/snps", "getSNPs"}, {"pkg/updown", "getLines"}, {"pkg/variants", "getVariants"}} {
		for _, delta := range []int64{1, -1} {
			fn := c.LookupFunc(w.pkg, w.name)
			key := "T/reference-alignment-width/" + w.name
			what := "wider"
			if delta < 0 {
				key += "/narrower"
				what = "narrower"
			}
			if fn == nil {
				c.Und(key, 0, "UNRESOLVED anchor %s", w.name)
				continue
			}
			ev := newEval(c)
			dom := tabs.domain(false)
			ev.Domain = func(s eval.AbsSeq) []eval.Value { return codeValues(dom) }
			args := bindWorker(c, fn, eval.Sym("L").Add(eval.K(delta)), func(i int, p *types.Var) eval.Value {
				// offset tables of getVariants: their length is the alignment width
				isIntSlice := func(t types.Type) bool {
					sl, ok := t.Underlying().(*types.Slice)
					if !ok {
						return false
					}
					b, ok := sl.Elem().Underlying().(*types.Basic)
					return ok && b.Kind() == types.Int
				}
				if isIntSlice(p.Type()) {
					return eval.AbsSeq{Name: p.Name(), Len: eval.Sym("L")}
				}
				// ... also when they travel inside a struct of shared inputs
				if st, ok := p.Type().Underlying().(*types.Struct); ok {
					sv, ok := absValue(p.Type(), p.Name(), eval.Sym("L")).(*eval.StructVal)
					if !ok {
						return nil
					}
					found := false
					for k := 0; k < st.NumFields(); k++ {
						if isIntSlice(st.Field(k).Type()) {
							sv.F[st.Field(k).Name()] = eval.AbsSeq{Name: p.Name() + "." + st.Field(k).Name(), Len: eval.Sym("L")}
							found = true
						}
					}
					if found {
						return sv
					}
				}
				return nil
			})
			if args.errs == nil {
				c.Und(key, fn.Pos(), "worker has no error channel")
				continue
			}
			_, err := ev.CallFuncBound(fn, args.args...)
			if err != nil && len(args.errs.Sent) == 0 {
				c.Und(key, fn.Pos(), "cannot evaluate: %v", err)
				continue
			}
			c.Ob(key, len(args.errs.Sent) >= 1, fn.Pos(), "a record one column %s than the reference is not reported as an error", what)
		}
	}
}
