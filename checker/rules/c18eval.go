package rules

import (
	"go/types"

	"gofasta-verif/core"
	"gofasta-verif/eval"
)

// c18Evaluated: rows of the obligation table decided by abstract evaluation.
func c18Evaluated(c *core.Ctx) {
	ev0 := newEval(c)
	tabs := extractTables(c, ev0, "T/tables")
	if tabs.OK {
		// unequal rows / non-IUPAC symbol / empty / no header in every FASTA reader; blank lines do not crash
		checkReaders(c, tabs, "T/fasta/", false)
	}
	// CSV that is empty or not `updown list` output
	checkCSVValidation(c, "T")
	// window coordinates
	checkSamCheckArgs(c, "T")
	// no size/dist option
	c08CheckArgs(c)
	// reference vs alignment width in the per-record workers
	checkWorkerWidth(c, tabs)
	// SAM reader: a reader that cannot be created must be reported and nothing else done
	checkSamReaderFailure(c)
}

// checkWorkerWidth: a record whose width differs from the reference's is reported on the error channel.
func checkWorkerWidth(c *core.Ctx, tabs *Tables) {
	for _, w := range []struct{ pkg, name string }{{"pkg/snps", "getSNPs"}, {"pkg/updown", "getLines"}, {"pkg/variants", "getVariants"}} {
		checkWorkerWidthOf(c, tabs, "T", w.pkg, w.name)
	}
}

func checkWorkerWidthOf(c *core.Ctx, tabs *Tables, prefix, wpkg, wname string) {
	if tabs == nil || !tabs.OK {
		return
	}
	for _, w := range []struct{ pkg, name string }{{wpkg, wname}} {
		for _, delta := range []int64{1, -1} {
			fn := c.LookupFunc(w.pkg, w.name)
			key := prefix + "/reference-alignment-width/" + w.name
			what := "wider"
			if delta < 0 {
				key += "/narrower"
				what = "narrower"
			}
			if fn == nil {
				c.Und(key, 0, "UNRESOLVED anchor %s", w.name)
				continue
			}
			ev := newEval(c)
			dom := tabs.domain(false)
			ev.Domain = func(s eval.AbsSeq) []eval.Value { return codeValues(dom) }
			args := bindWorker(c, fn, eval.Sym("L").Add(eval.K(delta)), func(i int, p *types.Var) eval.Value {
				// offset tables of getVariants: their length is the alignment width
				isIntSlice := func(t types.Type) bool {
					sl, ok := t.Underlying().(*types.Slice)
					if !ok {
						return false
					}
					b, ok := sl.Elem().Underlying().(*types.Basic)
					return ok && b.Kind() == types.Int
				}
				if isIntSlice(p.Type()) {
					return eval.AbsSeq{Name: p.Name(), Len: eval.Sym("L")}
				}
				// ... also when they travel inside a struct of shared inputs
				if st, ok := p.Type().Underlying().(*types.Struct); ok {
					sv, ok := absValue(p.Type(), p.Name(), eval.Sym("L")).(*eval.StructVal)
					if !ok {
						return nil
					}
					found := false
					for k := 0; k < st.NumFields(); k++ {
						if isIntSlice(st.Field(k).Type()) {
							sv.F[st.Field(k).Name()] = eval.AbsSeq{Name: p.Name() + "." + st.Field(k).Name(), Len: eval.Sym("L")}
							found = true
						}
					}
					if found {
						return sv
					}
				}
				return nil
			})
			if args.errs == nil {
				c.Und(key, fn.Pos(), "worker has no error channel")
				continue
			}
			_, err := ev.CallFuncBound(fn, args.args...)
			if err != nil && len(args.errs.Sent) == 0 {
				// the abstract evaluation ran into the column loop (no guard stopped it); decide on a concrete record
				if sent, rows, cerr, ok := concreteWidthRun(c, tabs, w.pkg, w.name, delta); ok {
					c.Ob(key, sent >= 1 && rows == 0, fn.Pos(), "a record one column %s than a four-column reference: %d error(s) reported, %d row(s) produced (%v); the record must be refused and give no row", what, sent, rows, cerr)
					continue
				}
				c.Und(key, fn.Pos(), "cannot evaluate: %v", err)
				continue
			}
			c.Ob(key, len(args.errs.Sent) >= 1, fn.Pos(), "a record one column %s than the reference is not reported as an error", what)
		}
	}
}

// concreteWidthRun: getSNPs / getLines on the reference ACGT and one record of 4+delta columns.
func concreteWidthRun(c *core.Ctx, tabs *Tables, pkg, name string, delta int64) (errsSent, rows int, evalErr error, ok bool) {
	if name != "getSNPs" && name != "getLines" {
		return 0, 0, nil, false
	}
	fn := c.LookupFunc(pkg, name)
	recT := namedType(c, "pkg/fastaio", "EncodedFastaRecord")
	if fn == nil || recT == nil {
		return 0, 0, nil, false
	}
	enc := func(s string) eval.Value {
		vs := make([]eval.Value, len(s))
		for i := 0; i < len(s); i++ {
			vs[i] = eval.K(tabs.Soft[s[i]])
		}
		return eval.NewSlice(vs...)
	}
	seq := "ACGTA"[:4+delta]
	rec := absValue(recT, "r", eval.K(int64(len(seq)))).(*eval.StructVal)
	rec.F["ID"] = eval.S("q")
	rec.F["Description"] = eval.S("q")
	rec.F["Idx"] = eval.K(0)
	rec.F["Seq"] = enc(seq)
	ev := newEval(c)
	out, errs := &eval.ChanVal{Name: "out"}, &eval.ChanVal{Name: "err"}
	_, err := ev.CallFunc(fn, enc("ACGT"), &eval.ChanVal{Name: "in", Feed: []eval.Value{rec}}, out, errs)
	return len(errs.Sent), len(out.Sent), err, true
}
