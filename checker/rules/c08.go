package rules

import (
	"fmt"
	"go/token"
	"go/types"
	"math"
	"sort"
	"strings"

	"gofasta-verif/core"
	"gofasta-verif/eval"
)

func init() { register("C08", C08) }

type udTgt struct {
	name string
	dir  int
	dist int
	amb  int
	pos  int
}

func (t udTgt) String() string {
	return fmt.Sprintf("%s(dir=%d,d=%d,a=%d)", t.name, t.dir, t.dist, t.amb)
}

var binNames = []string{"same", "up", "down", "side"}

func udSorted(ts []udTgt) []udTgt {
	out := append([]udTgt{}, ts...)
	sort.SliceStable(out, func(i, j int) bool {
		if out[i].dist != out[j].dist {
			return out[i].dist < out[j].dist
		}
		return out[i].amb < out[j].amb
	})
	return out
}

// catchmentNames extracts the target names of one bin of an evaluated updownCatchmentStruct.
func catchmentNames(res *eval.StructVal, bin string) []string {
	sub, ok := res.F[bin].(*eval.StructVal)
	if !ok {
		return []string{"<no bin " + bin + ">"}
	}
	cat, ok := sub.F["catchment"].(eval.Slice)
	if !ok {
		return []string{"<abstract>"}
	}
	var out []string
	for _, e := range cat.Elems() {
		if r, ok := e.(*eval.StructVal); ok {
			if s, ok := r.F["tname"].(eval.Str); ok {
				out = append(out, s.Const())
			}
		}
	}
	return out
}

func intArray4(a [4]int) eval.Value {
	return eval.ArrayVal{A: &eval.Arr{E: []eval.Value{eval.K(int64(a[0])), eval.K(int64(a[1])), eval.K(int64(a[2])), eval.K(int64(a[3]))}}}
}

func C08(c *core.Ctx) {
	c.Explanation("C08: (R2) findUpDownCatchment (with rearrangeCatchment and balance) and findUpDownCatchmentPushDistance (with refactorPushCatchment) are interpreted on every bounded target stream with the pair classifier replaced by a table look-up, for each bin separately (which also cross-checks the four hand-copied bin blocks) and for mixed streams; every bin must be the prefix of its candidates ordered by distance, then fewer ambiguities, then file order, within the bin's distance limit, cut to the size balance() allots; (R3) balance() is interpreted exhaustively over requested/available sizes in 0..2 (quick) or 0..3 (thorough) against the specified allocation (min(requested, available) with --no-fill; otherwise even make-up until total or supply is exhausted); (R1) whichWay is interpreted on every pair of short sequences over {A,C,G,N} (converted by the interpreted getLines) against the specified bin and distance, for the all-A reference and for references whose SNP strings sort neither in positional nor in reverse positional order; the converters keep no state between records; (R4) checkArgs option normalisation over a grid of option values; the two writers on a symbolic result for column order and bin naming.")
	checkSoftGapReaders(c, "R9", "pkg/updown")
	c09Inputs(c)                                                             // the records the binning sees are the same for FASTA and CSV input
	checkArrivalOrderIndependence(c, "R10/reorder", "updown.reorderRecords") // "file order" is the order of the target file, whatever the order the converted records arrive in
	checkMapRanges(c, "R10/map-order", "pkg/updown")
	lineT := namedType(c, "pkg/updown", "updownLine")
	if lineT == nil {
		c.Und("R0/types", token.NoPos, "UNRESOLVED type updown.updownLine")
		return
	}
	c08Bins(c, lineT)
	c08Push(c, lineT)
	c08Balance(c)
	c08WhichWay(c, lineT)
	c08CheckArgs(c)
	c08Writers(c)
	c08SplitInput(c, lineT)
	if tabs := extractTables(c, newEval(c), "R0w"); tabs.OK {
		checkWorkersStateless(c, "R11", tabs, "pkg/updown") // a target's ambiguity count and lists are its own, whichever records its converter handled before
	}
}

func mkLine(lineT types.Type, id string, idx, amb int64) *eval.StructVal {
	r := absValue(lineT, id, eval.K(0)).(*eval.StructVal)
	r.F["id"] = eval.S(id)
	r.F["idx"] = eval.K(idx)
	r.F["ambCount"] = eval.K(amb)
	// a record's SNP count says nothing about its distance to another record (ambiguity tracts mask any number of the
	// other's SNPs): the harness gives unrelated counts, and what is ranked must be the classifier's distance alone
	k := (idx*5 + amb*3 + int64(id[0])) % 17
	r.F["snpCount"] = eval.K(k)
	var snps, pos []eval.Value
	for i := int64(0); i < k; i++ {
		snps = append(snps, eval.S(fmt.Sprintf("A%dC", 100+i)))
		pos = append(pos, eval.K(100+i))
	}
	r.F["snps"] = eval.NewSlice(snps...)
	r.F["snpsSorted"] = eval.NewSlice(snps...)
	r.F["snpsPos"] = eval.NewSlice(pos...)
	r.F["ambs"] = eval.NewSlice()
	return r
}

func stubWhichWay(c *core.Ctx, ev *eval.Evaluator, table map[string]udTgt) bool {
	fn := c.LookupFunc("pkg/updown", "whichWay")
	if fn == nil {
		return false
	}
	ev.Extern[fn.FullName()] = func(ev *eval.Evaluator, pos token.Pos, recv eval.Value, args []eval.Value) eval.Value {
		t := args[1].(*eval.StructVal)
		e := table[t.F["id"].(eval.Str).Const()]
		return eval.Tuple{eval.K(int64(e.dir)), eval.K(int64(e.dist))}
	}
	return true
}

func enumUD(maxN int, dirs []int, dists []int, ambs []int) [][]udTgt {
	var out [][]udTgt
	var rec func(cur []udTgt)
	rec = func(cur []udTgt) {
		if len(cur) > 0 {
			out = append(out, append([]udTgt{}, cur...))
		}
		if len(cur) == maxN {
			return
		}
		for _, dir := range dirs {
			for _, d := range dists {
				for _, a := range ambs {
					k := len(cur)
					rec(append(cur, udTgt{name: fmt.Sprintf("t%d", k), dir: dir, dist: d, amb: a, pos: k}))
				}
			}
		}
	}
	rec(nil)
	return out
}

// specBalance is the allocation the property describes.
func specBalanceOK(total int, ideal, obs, got [4]int, nofill bool) (bool, string) {
	allGE := true
	for i := range ideal {
		if obs[i] < ideal[i] {
			allGE = false
		}
	}
	if allGE {
		if got != ideal {
			return false, "every bin has enough candidates, so each gets its requested size"
		}
		return true, ""
	}
	var base, spare [4]int
	sumBase, sumSpare := 0, 0
	for i := range ideal {
		base[i] = ideal[i]
		if obs[i] < ideal[i] {
			base[i] = obs[i]
		}
		if obs[i] > ideal[i] {
			spare[i] = obs[i] - ideal[i]
		}
		sumBase += base[i]
		sumSpare += spare[i]
	}
	if nofill {
		if got != base {
			return false, "with --no-fill each bin gets min(requested, available)"
		}
		return true, ""
	}
	wantTotal := total
	if sumBase+sumSpare < total {
		wantTotal = sumBase + sumSpare
	}
	sum := 0
	maxExtra, minExtraOpen := 0, 1<<30
	for i := range got {
		sum += got[i]
		extra := got[i] - base[i]
		if extra < 0 || extra > spare[i] {
			return false, fmt.Sprintf("bin %s gets %d, outside [min(requested,available)=%d, available=%d]", binNames[i], got[i], base[i], base[i]+spare[i])
		}
		if extra > maxExtra {
			maxExtra = extra
		}
		if spare[i] > extra && extra < minExtraOpen { // bin still has spare candidates
			minExtraOpen = extra
		}
	}
	if sum != wantTotal {
		return false, fmt.Sprintf("total %d, want min(total requested, supply)=%d", sum, wantTotal)
	}
	if minExtraOpen != 1<<30 && maxExtra-minExtraOpen > 1 {
		return false, "shortfall is not made up evenly across the bins with spare candidates"
	}
	return true, ""
}

func c08Bins(c *core.Ctx, lineT types.Type) {
	fn := c.LookupFunc("pkg/updown", "findUpDownCatchment")
	if fn == nil {
		c.Und("R2/findUpDownCatchment", token.NoPos, "UNRESOLVED anchor updown.findUpDownCatchment")
		return
	}
	maxN := 3
	if c.Tier == "thorough" {
		maxN = 5
	}
	run := func(ts []udTgt, size [4]int, nofill bool, dist [4]int, ignore []string) (*eval.StructVal, *eval.Evaluator, error) {
		ev := newEval(c)
		table := map[string]udTgt{}
		var feed []eval.Value
		for _, t := range ts {
			table[t.name] = t
			feed = append(feed, mkLine(lineT, t.name, int64(t.pos), int64(t.amb)))
		}
		if !stubWhichWay(c, ev, table) {
			return nil, ev, fmt.Errorf("UNRESOLVED whichWay")
		}
		ig := []eval.Value{}
		for _, s := range ignore {
			ig = append(ig, eval.S(s))
		}
		out := &eval.ChanVal{Name: "out"}
		_, err := ev.CallFunc(fn, mkLine(lineT, "q", 7, 0), eval.NewSlice(ig...), intArray4(size), nofill, intArray4(dist),
			eval.FConst(0.1), &eval.ChanVal{Name: "in", Feed: feed}, out)
		if err != nil {
			return nil, ev, err
		}
		if len(out.Sent) != 1 {
			return nil, ev, fmt.Errorf("%d results sent", len(out.Sent))
		}
		res, _ := out.Sent[0].(*eval.StructVal)
		return res, ev, nil
	}
	M := math.MaxInt32
	nEval := 0
	stable := true
	var sortPos token.Pos
	for bin := 0; bin < 4; bin++ {
		var bad []string
		streams := enumUD(maxN, []int{bin}, []int{1, 2}, []int{0, 1})
		for _, ts := range streams {
			for K := 1; K <= maxN; K++ {
				for _, lims := range [][2]int{{1, M}, {M, M}, {1, 1}, {2, 1}} { // this bin's limit, the other bins' (--dist-up 1; none; --dist-all 1; mixed)
					lim := lims[0]
					var size, dist [4]int
					size[bin] = K
					dist = [4]int{lims[1], lims[1], lims[1], lims[1]}
					dist[bin] = lim
					nEval++
					res, ev, err := run(ts, size, true, dist, nil)
					if err != nil {
						bad = append(bad, fmt.Sprintf("%v K=%d: undecided: %v", ts, K, err))
						continue
					}
					for _, sc := range ev.SortCalls {
						sortPos = sc.Pos
						if unstableRecordSort(sc) {
							stable = false
						}
					}
					var want []string
					for _, t := range udSorted(ts) {
						if t.dist <= lim && len(want) < K {
							want = append(want, t.name)
						}
					}
					got := catchmentNames(res, binNames[bin])
					if strings.Join(got, ",") != strings.Join(want, ",") {
						bad = append(bad, fmt.Sprintf("%v K=%d limit=%d -> %v, want %v", ts, K, lim, got, want))
					}
					for ob := 0; ob < 4; ob++ {
						if ob != bin && len(catchmentNames(res, binNames[ob])) != 0 {
							bad = append(bad, fmt.Sprintf("%v: bin %s is filled by targets classified %s", ts, binNames[ob], binNames[bin]))
						}
					}
					qn, _ := res.F["qname"].(eval.Str)
					qi, _ := linConst(res.F["qidx"])
					if qn.Const() != "q" || qi != 7 {
						bad = append(bad, "result does not carry the query's name and index")
					}
				}
			}
			if len(bad) > 30 {
				break
			}
		}
		c.Ob("R2/findUpDownCatchment/bin-"+binNames[bin]+"/prefix-of-ranked-candidates", len(bad) == 0, fn.Pos(), "%s", first(bad, 4))
	}
	c.Ob("R1/rearrangeCatchment/stable-sort", stable && sortPos.IsValid(), sortPos, "per-bin ranking must use sort.SliceStable (ties keep file order)")
	// mixed directions + fill + ignore list
	var bad []string
	mixed := enumUD(3, []int{0, 1, 2, 3}, []int{1}, []int{0})
	for _, ts := range mixed {
		for _, nofill := range []bool{true, false} {
			size := [4]int{1, 1, 1, 1}
			dist := [4]int{M, M, M, M}
			nEval++
			res, _, err := run(ts, size, nofill, dist, []string{"t1"})
			if err != nil {
				bad = append(bad, fmt.Sprintf("%v: undecided: %v", ts, err))
				continue
			}
			var obs, got [4]int
			cands := [4][]string{}
			for _, t := range ts {
				if t.name == "t1" {
					continue // ignored
				}
				obs[t.dir]++
				cands[t.dir] = append(cands[t.dir], t.name)
			}
			for b := 0; b < 4; b++ {
				names := catchmentNames(res, binNames[b])
				got[b] = len(names)
				if got[b] <= len(cands[b]) && strings.Join(names, ",") != strings.Join(cands[b][:got[b]], ",") {
					bad = append(bad, fmt.Sprintf("%v nofill=%v: bin %s = %v, candidates %v", ts, nofill, binNames[b], names, cands[b]))
				}
			}
			if ok, why := specBalanceOK(4, size, obs, got, nofill); !ok {
				bad = append(bad, fmt.Sprintf("%v nofill=%v ignore=[t1]: sizes %v for supply %v: %s", ts, nofill, got, obs, why))
			}
		}
		if len(bad) > 30 {
			break
		}
	}
	c.Ob("R2/findUpDownCatchment/mixed-bins-fill-ignore", len(bad) == 0, fn.Pos(), "%s", first(bad, 4))
	c08IgnoreMembership(c)
	c.Count("streams_evaluated", nEval)
	c.Sample(map[string]interface{}{"rule": "R2", "bin": "up", "stream": "t0(d=2,a=0) t1(d=1,a=1) t2(d=1,a=0)", "K": 2, "want": []string{"t2", "t1"}})
}

func c08Push(c *core.Ctx, lineT types.Type) {
	fn := c.LookupFunc("pkg/updown", "findUpDownCatchmentPushDistance")
	if fn == nil {
		c.Und("R2/push", token.NoPos, "UNRESOLVED anchor updown.findUpDownCatchmentPushDistance")
		return
	}
	maxN := 3
	if c.Tier == "thorough" {
		maxN = 5
	}
	nEval := 0
	stable := true
	for bin := 0; bin < 4; bin++ {
		var bad []string
		dists := []int{1, 2, 3}
		if bin == 0 {
			dists = []int{0}
		}
		for _, ts := range enumUD(maxN, []int{bin}, dists, []int{0, 1}) {
			for k := 1; k <= 2; k++ {
				nEval++
				ev := newEval(c)
				table := map[string]udTgt{}
				var feed []eval.Value
				for _, t := range ts {
					table[t.name] = t
					feed = append(feed, mkLine(lineT, t.name, int64(t.pos), int64(t.amb)))
				}
				stubWhichWay(c, ev, table)
				out := &eval.ChanVal{Name: "out"}
				_, err := ev.CallFunc(fn, mkLine(lineT, "q", 7, 0), eval.NewSlice(), intArray4([4]int{}), eval.K(int64(k)), eval.FConst(0.1),
					&eval.ChanVal{Name: "in", Feed: feed}, out)
				if err != nil || len(out.Sent) != 1 {
					bad = append(bad, fmt.Sprintf("%v k=%d: undecided: %v", ts, k, err))
					continue
				}
				for _, sc := range ev.SortCalls {
					if unstableRecordSort(sc) {
						stable = false
					}
				}
				res := out.Sent[0].(*eval.StructVal)
				var want []string
				if bin == 0 {
					for _, t := range ts {
						want = append(want, t.name)
					}
				} else {
					ds := map[int]bool{}
					for _, t := range ts {
						ds[t.dist] = true
					}
					var keys []int
					for d := range ds {
						keys = append(keys, d)
					}
					sort.Ints(keys)
					if len(keys) > k {
						keys = keys[:k]
					}
					keep := map[int]bool{}
					for _, d := range keys {
						keep[d] = true
					}
					for _, t := range udSorted(ts) {
						if keep[t.dist] {
							want = append(want, t.name)
						}
					}
				}
				got := catchmentNames(res, binNames[bin])
				if strings.Join(got, ",") != strings.Join(want, ",") {
					bad = append(bad, fmt.Sprintf("%v k=%d -> %v, want %v", ts, k, got, want))
				}
			}
			if len(bad) > 30 {
				break
			}
		}
		c.Ob("R2/push-distance/bin-"+binNames[bin], len(bad) == 0, fn.Pos(), "%s", first(bad, 4))
	}
	c.Ob("R1/push-distance/stable-sort", stable, fn.Pos(), "push-mode bins must be ranked with sort.SliceStable")
	c.Count("streams_evaluated", nEval)
}

func c08Balance(c *core.Ctx) {
	fn := c.LookupFunc("pkg/updown", "balance")
	if fn == nil {
		c.Und("R3/balance", token.NoPos, "UNRESOLVED anchor updown.balance")
		return
	}
	maxV := 2
	if c.Tier == "thorough" {
		maxV = 4
	}
	ev := newEval(c)
	var bad []string
	n := 0
	var ideal, obs [4]int
	var rec func(k int)
	rec = func(k int) {
		if len(bad) > 20 {
			return
		}
		if k == 8 {
			total := ideal[0] + ideal[1] + ideal[2] + ideal[3]
			for _, nofill := range []bool{false, true} {
				n++
				v, err := ev.CallFunc(fn, eval.K(int64(total)), intArray4(ideal), intArray4(obs), nofill)
				if err != nil {
					bad = append(bad, fmt.Sprintf("ideal=%v obs=%v: undecided: %v", ideal, obs, err))
					return
				}
				arr, ok := v.(eval.ArrayVal)
				if !ok {
					bad = append(bad, "balance did not return an array")
					return
				}
				var got [4]int
				for i := range got {
					x, _ := linConst(arr.A.E[i])
					got[i] = int(x)
				}
				if ok, why := specBalanceOK(total, ideal, obs, got, nofill); !ok {
					bad = append(bad, fmt.Sprintf("requested=%v available=%v nofill=%v -> %v: %s", ideal, obs, nofill, got, why))
				}
			}
			return
		}
		for v := 0; v <= maxV; v++ {
			if k < 4 {
				ideal[k] = v
			} else {
				obs[k-4] = v
			}
			rec(k + 1)
		}
	}
	rec(0)
	c.Count("balance_points_evaluated", n)
	c.Ob("R3/balance/allocation", len(bad) == 0, fn.Pos(), "%s", first(bad, 4))
}

// ---- whichWay on real short sequences

func c08WhichWay(c *core.Ctx, lineT types.Type) {
	ww := c.LookupFunc("pkg/updown", "whichWay")
	gl := c.LookupFunc("pkg/updown", "getLines")
	recT := namedType(c, "pkg/fastaio", "EncodedFastaRecord")
	if ww == nil || gl == nil || recT == nil {
		c.Und("R1/whichWay", token.NoPos, "UNRESOLVED anchor whichWay/getLines")
		return
	}
	ev0 := newEval(c)
	tabs := extractTables(c, ev0, "R1")
	if !tabs.OK {
		return
	}
	// families: the all-A reference (every SNP string sorts as its position does), and references whose SNP strings sort
	// neither in positional nor in reverse positional order (whichWay looks SNPs up in the lexically sorted copy)
	type family struct {
		ref   string
		alpha string
	}
	fams := []family{{"AA", "ACGN"}, {"GTA", "ACN"}}
	if c.Tier == "thorough" {
		fams = []family{{"AAAA", "ACGN"}, {"GTA", "ACGN"}, {"GTAC", "ACN"}}
	}
	var bad []string
	n := 0
	for _, fam := range fams {
		c08WhichWayFamily(c, tabs, ww, gl, recT, fam.ref, fam.alpha, &bad, &n)
	}
	c.Count("sequence_pairs_evaluated", n)
	c.Ob("R1/whichWay/bin-and-distance", len(bad) == 0, ww.Pos(), "%s", first(bad, 5))
}

func c08WhichWayFamily(c *core.Ctx, tabs *Tables, ww, gl *types.Func, recT types.Type, ref, alphabet string, badp *[]string, np *int) {
	L := len(ref)
	alpha := []byte(alphabet)
	var seqs []string
	var gen func(cur string)
	gen = func(cur string) {
		if len(cur) == L {
			seqs = append(seqs, cur)
			return
		}
		for _, a := range alpha {
			gen(cur + string(a))
		}
	}
	gen("")
	enc := func(s string) eval.Value {
		vs := make([]eval.Value, len(s))
		for i := 0; i < len(s); i++ {
			vs[i] = eval.K(tabs.Soft[s[i]])
		}
		return eval.NewSlice(vs...)
	}
	lines := map[string]*eval.StructVal{}
	ev := newEval(c)
	for i, s := range seqs {
		rec := absValue(recT, "r", eval.K(int64(L))).(*eval.StructVal)
		rec.F["ID"] = eval.S(s)
		rec.F["Idx"] = eval.K(int64(i))
		rec.F["Seq"] = enc(s)
		out := &eval.ChanVal{Name: "out"}
		_, err := ev.CallFunc(gl, enc(ref), &eval.ChanVal{Name: "in", Feed: []eval.Value{rec}}, out, &eval.ChanVal{Name: "err"})
		if err != nil || len(out.Sent) != 1 {
			c.Und("R1/whichWay", gl.Pos(), "cannot convert %s with getLines: %v", s, err)
			return
		}
		lines[s] = out.Sent[0].(*eval.StructVal)
	}
	bad, n := *badp, *np
	defer func() { *badp, *np = bad, n }()
	for _, thresh := range []float64{1.0, 0.4} {
		for _, q := range seqs {
			for _, t := range seqs {
				n++
				v, err := ev.CallFunc(ww, lines[q], lines[t], eval.FConst(thresh))
				if err != nil {
					bad = append(bad, fmt.Sprintf("%s/%s: undecided: %v", q, t, err))
					continue
				}
				tup := v.(eval.Tuple)
				gdir, _ := linConst(tup[0])
				gdist, _ := linConst(tup[1])
				// specification from the sequences themselves
				qOnly, tOnly, amb, shared, dist := 0, 0, 0, 0, 0
				for i := 0; i < L; i++ {
					qs, ts := q[i], t[i]
					qSNP := qs != 'N' && qs != ref[i]
					tSNP := ts != 'N' && ts != ref[i]
					if qs != 'N' && ts != 'N' && qs != ts {
						dist++
					}
					if qSNP {
						switch {
						case ts == 'N':
							amb++
						case ts == qs:
							shared++
						default:
							qOnly++
						}
					}
					if tSNP {
						switch {
						case qs == 'N':
							amb++
						case ts == qs:
						default:
							tOnly++
						}
					}
				}
				sum := qOnly + tOnly + amb + shared
				wdir := 0
				switch {
				case qOnly > 0 && tOnly == 0:
					wdir = 1
				case qOnly == 0 && tOnly > 0:
					wdir = 2
				case qOnly > 0 && tOnly > 0:
					wdir = 3
				}
				excluded := sum > 0 && float32(amb)/float32(sum) > float32(thresh)
				if excluded {
					if gdist != -1 {
						bad = append(bad, fmt.Sprintf("q=%s t=%s thresh=%v: %d of %d consequential sites ambiguous, pair must be rejected (distance -1), got %d", q, t, thresh, amb, sum, gdist))
					}
					continue
				}
				if int(gdir) != wdir || int(gdist) != dist {
					bad = append(bad, fmt.Sprintf("q=%s t=%s (ref %s): bin %s distance %d, want bin %s distance %d", q, t, ref, binNames[gdir&3], gdist, binNames[wdir], dist))
				}
			}
		}
	}
}

// ---- checkArgs

func c08CheckArgs(c *core.Ctx) {
	fn := c.LookupFunc("pkg/updown", "checkArgs")
	if fn == nil {
		c.Und("R4/checkArgs", token.NoPos, "UNRESOLVED anchor updown.checkArgs")
		return
	}
	ev := newEval(c)
	M := math.MaxInt32
	var bad []string
	n := 0
	szVals := []int{0, 2, -1}
	for _, total := range []int{0, 5, 8} {
		for _, up := range szVals {
			for _, down := range szVals {
				for _, side := range szVals {
					for _, same := range szVals {
						for _, dall := range []int{0, 3} {
							for _, dup := range []int{0, 4} {
								for _, ddown := range []int{0, 5} {
									for _, dside := range []int{0, 6} {
										for _, push := range []int{0, 1} {
											anySize := up != 0 || down != 0 || side != 0 || same != 0
											anyDist := dall != 0 || dup != 0 || ddown != 0 || dside != 0
											if push > 0 && (total != 0 || anySize) && anyDist {
												continue // combination the help text forbids; behaviour not specified
											}
											n++
											v, err := ev.CallFunc(fn, eval.K(int64(total)), eval.K(int64(up)), eval.K(int64(down)), eval.K(int64(side)), eval.K(int64(same)),
												eval.K(int64(dall)), eval.K(int64(dup)), eval.K(int64(ddown)), eval.K(int64(dside)), eval.K(int64(push)))
											if err != nil {
												bad = append(bad, fmt.Sprintf("undecided: %v", err))
												continue
											}
											tup := v.(eval.Tuple)
											_, isErr := tup[2].(eval.ErrVal)
											wantErr := total == 0 && !anySize && !anyDist && push == 0
											if isErr != wantErr {
												bad = append(bad, fmt.Sprintf("total=%d sizes=(%d,%d,%d,%d) dists=(%d,%d,%d,%d) push=%d: error=%v, want %v", total, up, down, side, same, dall, dup, ddown, dside, push, isErr, wantErr))
												continue
											}
											if isErr {
												continue
											}
											var wantS, wantD [4]int
											switch {
											case total > 0:
												q := total / 4
												wantS = [4]int{total - 3*q, q, q, q}
											case anySize:
												wantS = [4]int{same, up, down, side}
												for i := range wantS {
													if wantS[i] == -1 {
														wantS[i] = M
													}
												}
											default:
												wantS = [4]int{M, M, M, M}
											}
											switch {
											case dall > 0:
												wantD = [4]int{0, dall, dall, dall}
											case dup != 0 || ddown != 0 || dside != 0:
												wantD = [4]int{0, dup, ddown, dside}
											default:
												wantD = [4]int{M, M, M, M}
											}
											var gotS, gotD [4]int
											for i := 0; i < 4; i++ {
												x, _ := linConst(tup[0].(eval.ArrayVal).A.E[i])
												y, _ := linConst(tup[1].(eval.ArrayVal).A.E[i])
												gotS[i], gotD[i] = int(x), int(y)
											}
											if gotS != wantS || gotD != wantD {
												bad = append(bad, fmt.Sprintf("total=%d sizes(up,down,side,same)=(%d,%d,%d,%d) dists(all,up,down,side)=(%d,%d,%d,%d): size[same,up,down,side]=%v dist=%v, want %v %v", total, up, down, side, same, dall, dup, ddown, dside, gotS, gotD, wantS, wantD))
											}
										}
									}
								}
							}
						}
					}
				}
			}
		}
	}
	c.Count("option_points_evaluated", n)
	c.Ob("R4/checkArgs/normalisation", len(bad) == 0, fn.Pos(), "%s", first(bad, 4))
}

// ---- writers on a symbolic result: column order and bin names

func c08Writers(c *core.Ctx) {
	resT := namedType(c, "pkg/updown", "updownCatchmentStruct")
	rsT := namedType(c, "pkg/updown", "resultsStruct")
	if resT == nil || rsT == nil {
		c.Und("R4/writers", token.NoPos, "UNRESOLVED result types")
		return
	}
	// three queries: the first with two named targets in every bin, the second with none in any bin, the third with one
	// in two bins - a row is built from its own query's bins only
	mk := func() eval.Value {
		var all []eval.Value
		for qi, per := range []map[string]int{{"same": 2, "up": 2, "down": 2, "side": 2}, {}, {"up": 1, "side": 1}} {
			res := absValue(resT, "r", eval.K(0)).(*eval.StructVal)
			res.F["qname"] = eval.S([]string{"Q", "Q2", "Q3"}[qi])
			for _, b := range binNames {
				sub := res.F[b].(*eval.StructVal)
				var es []eval.Value
				for k := 0; k < per[b]; k++ {
					r := absValue(rsT, "x", eval.K(0)).(*eval.StructVal)
					r.F["tname"] = eval.S(fmt.Sprintf("%s%d%s", b, k, []string{"", "", "q3"}[qi]))
					r.F["distance"] = eval.Sym(fmt.Sprintf("d_%s%d%s", b, k, []string{"", "", "q3"}[qi]))
					es = append(es, r)
				}
				sub.F["catchment"] = eval.NewSlice(es...)
			}
			all = append(all, res)
		}
		return eval.NewSlice(all...)
	}
	for _, w := range []struct{ name, want string }{
		{"writeUpDownCatchment", "query,closestsame,closestup,closestdown,closestside\nQ,same0;same1,up0;up1,down0;down1,side0;side1\nQ2,,,,\nQ3,,up0q3,,side0q3\n"},
		{"writeUpdownTable", "query,direction,distance,target\nQ,same,{d_same0},same0\nQ,same,{d_same1},same1\nQ,up,{d_up0},up0\nQ,up,{d_up1},up1\nQ,down,{d_down0},down0\nQ,down,{d_down1},down1\nQ,side,{d_side0},side0\nQ,side,{d_side1},side1\nQ3,up,{d_up0q3},up0q3\nQ3,side,{d_side0q3},side0q3\n"},
	} {
		fn := c.LookupFunc("pkg/updown", w.name)
		if fn == nil {
			c.Und("R4/writer/"+w.name, token.NoPos, "UNRESOLVED anchor")
			continue
		}
		ev := newEval(c)
		writes := captureWrites(ev)
		sig := fn.Type().(*types.Signature)
		var args []eval.Value
		for i := 0; i < sig.Params().Len(); i++ {
			if _, ok := sig.Params().At(i).Type().Underlying().(*types.Slice); ok {
				args = append(args, mk())
			} else {
				args = append(args, eval.Opaque{Why: "writer"})
			}
		}
		if _, err := ev.CallFuncBound(fn, args...); err != nil {
			c.Und("R4/writer/"+w.name, fn.Pos(), "cannot evaluate on a symbolic result: %v", err)
			continue
		}
		var sb strings.Builder
		for _, s := range *writes {
			sb.WriteString(s.String())
		}
		c.Ob("R4/writer/"+w.name, sb.String() == w.want, fn.Pos(), "bytes written for a symbolic result with two named targets per bin: %q, want %q", sb.String(), w.want)
	}
}

// c08IgnoreMembership: the --ignore test is plain membership for every list in file order (unsorted, with
// duplicates): all lists of up to 4 names over a 4-name alphabet, every probe.
func c08IgnoreMembership(c *core.Ctx) {
	fn := c.LookupFunc("pkg/updown", "stringInArray")
	if fn == nil {
		// the membership helper is not where it was (inlined, or moved to a shared package): that ignored names are
		// excluded, and only they, is decided on the binning routine itself (R2/findUpDownCatchment/mixed-bins-fill-ignore)
		c.Note("updown.stringInArray not found: --ignore membership is decided through the binning routine only")
		return
	}
	names := []string{"T_up", "T_down", "T_far", "a"}
	var lists [][]string
	var gen func(cur []string, n int)
	gen = func(cur []string, n int) {
		lists = append(lists, append([]string{}, cur...))
		if n == 0 {
			return
		}
		for _, s := range names {
			gen(append(cur, s), n-1)
		}
	}
	gen(nil, 4)
	var bad []string
	for _, l := range lists {
		var vs []eval.Value
		in := map[string]bool{}
		for _, s := range l {
			vs = append(vs, eval.S(s))
			in[s] = true
		}
		for _, probe := range append(names, "zz", "") {
			ev := newEval(c)
			got, err := ev.CallFunc(fn, eval.S(probe), eval.NewSlice(vs...))
			if err != nil {
				c.Und("R2/ignore-list-membership", fn.Pos(), "undecided: %v", err)
				return
			}
			if b, ok := got.(bool); !ok || b != in[probe] {
				bad = append(bad, fmt.Sprintf("%q in %v -> %v, want %v", probe, l, got, in[probe]))
			}
		}
		if len(bad) > 20 {
			break
		}
	}
	c.Count("ignore_lists_evaluated", len(lists))
	c.Ob("R2/ignore-list-membership", len(bad) == 0, fn.Pos(), "%s", first(bad, 3))
}

// ---- splitInput: the --threshold-target filter and the fan-out to one worker per query

// c08SplitInput interprets updown.splitInput in the sequential pipeline model with the two per-query workers replaced
// by recorders: every query gets exactly one worker of the kind the options select (with the options in their
// places), and every worker is sent exactly the targets whose ambiguity count does not exceed --threshold-target,
// in file order, after which its channel is closed and completion is signalled once.
func c08SplitInput(c *core.Ctx, lineT types.Type) {
	key := "R5/splitInput"
	fn := c.LookupFunc("pkg/updown", "splitInput")
	wDef := c.LookupFunc("pkg/updown", "findUpDownCatchment")
	wPush := c.LookupFunc("pkg/updown", "findUpDownCatchmentPushDistance")
	if fn == nil || wDef == nil || wPush == nil {
		c.Und(key, token.NoPos, "UNRESOLVED anchors updown.splitInput / findUpDownCatchment / findUpDownCatchmentPushDistance")
		return
	}
	type started struct {
		kind string
		args []string
		in   *eval.ChanVal
	}
	var bad []string
	n := 0
	ambs := []int64{0, 3, 4, 5, 0, 9, 4}
	for _, nq := range []int{1, 3} {
		for _, push := range []int64{0, 2} {
			for _, thr := range []int64{4, 0, 100} {
				n++
				ev := newEval(c)
				ev.Pipeline = true
				var ws []started
				rec := func(kind string) eval.ExternFn {
					return func(ev *eval.Evaluator, pos token.Pos, recv eval.Value, args []eval.Value) eval.Value {
						st := started{kind: kind}
						for _, a := range args {
							if ch, ok := unref(a).(*eval.ChanVal); ok {
								if st.in == nil {
									st.in = ch // the first channel parameter is the worker's input
								}
								st.args = append(st.args, "chan")
								continue
							}
							if sv, ok := unref(a).(*eval.StructVal); ok {
								if id, ok := sv.F["id"].(eval.Str); ok {
									st.args = append(st.args, "query("+id.Const()+")")
									continue
								}
							}
							st.args = append(st.args, renderWire(a))
						}
						ws = append(ws, st)
						return nil
					}
				}
				ev.Extern[wDef.FullName()] = rec("findUpDownCatchment")
				ev.Extern[wPush.FullName()] = rec("findUpDownCatchmentPushDistance")
				var qs, feed []eval.Value
				for i := 0; i < nq; i++ {
					qs = append(qs, mkLine(lineT, fmt.Sprintf("q%d", i), int64(i), 0))
				}
				var wantT []string
				for i, a := range ambs {
					feed = append(feed, mkLine(lineT, fmt.Sprintf("t%d", i), int64(i), a))
					if a <= thr {
						wantT = append(wantT, fmt.Sprintf("t%d", i))
					}
				}
				out, errs, done := &eval.ChanVal{Name: "out"}, &eval.ChanVal{Name: "err"}, &eval.ChanVal{Name: "done"}
				label := fmt.Sprintf("%d queries, --dist-push %d, --threshold-target %d", nq, push, thr)
				_, err := ev.CallFunc(fn, eval.NewSlice(qs...), eval.NewSlice(eval.S("ign")), intArray4([4]int{1, 2, 3, 4}), true, intArray4([4]int{5, 6, 7, 8}), eval.FConst(0.25), eval.K(thr), eval.K(push),
					&eval.ChanVal{Name: "in", Feed: feed}, out, errs, done)
				if err != nil {
					c.Und(key, fn.Pos(), "cannot evaluate (%s): %v", label, err)
					return
				}
				if len(ws) != nq {
					bad = append(bad, fmt.Sprintf("[%s] %d workers started for %d queries", label, len(ws), nq))
					continue
				}
				for i, w := range ws {
					want := fmt.Sprintf("findUpDownCatchment(query(q%d), [\"ign\"], [1 2 3 4], true, [5 6 7 8], 0.25, chan, chan)", i)
					if push > 0 {
						want = fmt.Sprintf("findUpDownCatchmentPushDistance(query(q%d), [\"ign\"], [1 2 3 4], %d, 0.25, chan, chan)", i, push)
					}
					got := w.kind + "(" + strings.Join(w.args, ", ") + ")"
					if got != want && !c.SigChanged("pkg/updown", w.kind) {
						bad = append(bad, fmt.Sprintf("[%s] worker %d is %s, want %s", label, i, got, want))
					}
					var gotT []string
					if w.in != nil {
						for _, v := range w.in.Sent {
							if sv, ok := v.(*eval.StructVal); ok {
								if id, ok := sv.F["id"].(eval.Str); ok {
									gotT = append(gotT, id.Const())
								}
							}
						}
					}
					if w.in == nil || strings.Join(gotT, ",") != strings.Join(wantT, ",") {
						bad = append(bad, fmt.Sprintf("[%s] the worker of query %d is sent %v, want the targets with at most %d ambiguities in file order: %v", label, i, gotT, thr, wantT))
					} else if !w.in.Closed {
						bad = append(bad, fmt.Sprintf("[%s] the input channel of query %d's worker is never closed", label, i))
					}
				}
				if len(done.Sent) != 1 || len(errs.Sent) != 0 {
					bad = append(bad, fmt.Sprintf("[%s] %d completion signals, %d errors", label, len(done.Sent), len(errs.Sent)))
				}
			}
		}
	}
	c.Count("split_input_scenarios", n)
	c.Ob(key+"/target-threshold-and-fan-out", len(bad) == 0, fn.Pos(), "%s", first(bad, 3))
}
