package rules

import (
	"fmt"
	"go/token"
	"go/types"
	"math"
	"regexp"
	"sort"
	"strconv"
	"strings"

	"gofasta-verif/core"
	"gofasta-verif/eval"
)

func init() { register("C06", C06) }

type tgt struct {
	name  string
	dist  float64 // NaN = undefined
	score int64
	pos   int
	base  byte
}

// specOrder: defined distances first, ascending distance, descending completeness, file position.
func specOrder(ts []tgt) []tgt {
	out := append([]tgt{}, ts...)
	sort.SliceStable(out, func(i, j int) bool {
		a, b := out[i], out[j]
		an, bn := math.IsNaN(a.dist), math.IsNaN(b.dist)
		if an != bn {
			return !an
		}
		if !an && a.dist != b.dist {
			return a.dist < b.dist
		}
		if a.score != b.score {
			return a.score > b.score
		}
		return false
	})
	return out
}

func enumTargets(maxN int, dists []float64, scores []int64) [][]tgt {
	var out [][]tgt
	var rec func(cur []tgt)
	rec = func(cur []tgt) {
		if len(cur) > 0 {
			out = append(out, append([]tgt{}, cur...))
		}
		if len(cur) == maxN {
			return
		}
		for _, d := range dists {
			for _, s := range scores {
				k := len(cur)
				rec(append(cur, tgt{name: fmt.Sprintf("t%d", k), dist: d, score: s, pos: k, base: "CGT"[k%3]}))
			}
		}
	}
	rec(nil)
	return out
}

func hasNaN(ts []tgt) bool {
	for _, t := range ts {
		if math.IsNaN(t.dist) {
			return true
		}
	}
	return false
}

func showTargets(ts []tgt) string {
	var parts []string
	for _, t := range ts {
		parts = append(parts, fmt.Sprintf("%s(d=%v,c=%d)", t.name, t.dist, t.score))
	}
	return strings.Join(parts, " ")
}

func C06(c *core.Ctx) {
	c.Explanation("C06: findClosest and findClosestN (with rearrangeCatchment) are interpreted on every target stream up to a bounded length whose distances and completeness scores range over small sets including an undefined (NaN) distance; the three distance functions are replaced by a table look-up so that only the selection logic is evaluated. Because that logic touches distances and scores only through comparisons, these streams realise every ordering pattern of that many targets. The result must be the first K targets within D of the order: defined before undefined distance, ascending distance, descending completeness, file position. Also decided: the sort is a stable sort, the measure string dispatches to the right distance function, results are stored by query index, each target is fanned out to every query from one goroutine, and the completeness table equals 12/|base set|.")
	checkUndefinedDistance(c, "R9")
	ev0 := newEval(c)
	tabs := extractTables(c, ev0, "R0")
	if !tabs.OK {
		return
	}
	// the completeness score and base counts attached to each target are those of its whole sequence, however the file is wrapped
	checkReaders(c, tabs, "R8/", true, "ReadEncodeScoreAlignment")
	c07Identities(c, tabs) // what is ranked is the exact value of the measure
	recT := namedType(c, "pkg/fastaio", "EncodedFastaRecord")
	if recT == nil {
		c.Und("R0/types", token.NoPos, "UNRESOLVED type fastaio.EncodedFastaRecord")
		return
	}
	maxN := 3
	if c.Tier == "thorough" {
		maxN = 5
	}
	nan := math.NaN()
	// distances 0 (a target identical to the query on every compared site: the smallest value there is, and no reason to
	// stop looking - a later target at 0 may be more complete), 1, 2 and undefined
	streams := enumTargets(3, []float64{0, 1, 2, nan}, []int64{1, 2})
	if maxN > 3 {
		streams = enumTargets(maxN, []float64{0, 1, nan}, []int64{1, 2})
		for _, ts := range enumTargets(4, []float64{0, 1, 2, nan}, []int64{1, 2}) {
			for _, t := range ts {
				if t.dist == 2 {
					streams = append(streams, ts)
					break
				}
			}
		}
	}
	mkRec := func(id string, idx int64, base byte, score int64) *eval.StructVal {
		r := absValue(recT, id, eval.K(1)).(*eval.StructVal)
		r.F["ID"] = eval.S(id)
		r.F["Description"] = eval.S(id)
		r.F["Idx"] = eval.K(idx)
		r.F["Score"] = eval.K(score)
		r.F["Seq"] = eval.NewSlice(eval.K(tabs.Soft[base]))
		for _, f := range []string{"Count_A", "Count_C", "Count_G", "Count_T"} {
			r.F[f] = eval.K(0)
		}
		return r
	}
	stubDistances := func(ev *eval.Evaluator, table map[string]float64, offset map[string]float64) {
		for _, fname := range []string{"rawDistance", "snpDistance", "tn93Distance"} {
			fn := c.LookupFunc("pkg/closest", fname)
			if fn == nil {
				continue
			}
			off := offset[fname]
			ev.Extern[fn.FullName()] = func(ev *eval.Evaluator, pos token.Pos, recv eval.Value, args []eval.Value) eval.Value {
				t := args[1].(*eval.StructVal)
				id := t.F["ID"].(eval.Str).Const()
				return eval.FConst(table[id] + off)
			}
		}
	}
	// ------------------------------------------------------------ single neighbour
	if fn := c.LookupFunc("pkg/closest", "findClosest"); fn == nil {
		c.Und("R2/findClosest", token.NoPos, "UNRESOLVED anchor closest.findClosest")
	} else {
		var badDef, badNaN, badSnp []string
		n := 0
		for _, ts := range streams {
			n++
			ev := newEval(c)
			table := map[string]float64{}
			feed := []eval.Value{}
			for _, t := range ts {
				table[t.name] = t.dist
				feed = append(feed, mkRec(t.name, int64(t.pos), t.base, t.score))
			}
			stubDistances(ev, table, nil)
			out := &eval.ChanVal{Name: "out"}
			_, err := ev.CallFunc(fn, mkRec("t1", 5, 'A', 0), eval.S("raw"), &eval.ChanVal{Name: "in", Feed: feed}, out)
			if err != nil {
				badDef = append(badDef, fmt.Sprintf("%s: undecided: %v", showTargets(ts), err))
				break
			}
			want := specOrder(ts)[0]
			got := "<none>"
			var res *eval.StructVal
			if len(out.Sent) == 1 {
				res, _ = out.Sent[0].(*eval.StructVal)
				if res != nil {
					if s, ok := res.F["tname"].(eval.Str); ok {
						got = s.Const()
					}
				}
			}
			if got != want.name {
				msg := fmt.Sprintf("[%s] -> %s, want %s", showTargets(ts), got, want.name)
				if hasNaN(ts) {
					badNaN = append(badNaN, msg)
				} else {
					badDef = append(badDef, msg)
				}
				continue
			}
			if res != nil {
				// query identity, index and the SNP list of the returned pair
				qn, _ := res.F["qname"].(eval.Str)
				qi, _ := linConst(res.F["qidx"])
				snps, _ := res.F["snps"].(eval.Slice)
				wantSnp := "1A" + string(want.base)
				gotSnp := ""
				if snps.Len() == 1 {
					if s, ok := snps.Elems()[0].(eval.Str); ok {
						gotSnp = s.String()
					}
				}
				if qn.Const() != "t1" || qi != 5 || gotSnp != wantSnp {
					badSnp = append(badSnp, fmt.Sprintf("[%s] -> qname=%s qidx=%d snps=%q, want q,5,%q", showTargets(ts), qn.Const(), qi, gotSnp, wantSnp))
				}
			}
		}
		c.Count("streams_evaluated", n)
		c.Ob("R2/findClosest/defined-distances", len(badDef) == 0, fn.Pos(), "%s", first(badDef, 4))
		c.Ob("R3/findClosest/undefined-distance-never-displaces", len(badNaN) == 0, fn.Pos(), "%s", first(badNaN, 4))
		c.Ob("R2/findClosest/result-belongs-to-returned-pair", len(badSnp) == 0, fn.Pos(), "%s", first(badSnp, 4))
		c06Dispatch(c, fn, "findClosest", mkRec, stubDistances)
	}
	// ------------------------------------------------------------ catchment
	if fn := c.LookupFunc("pkg/closest", "findClosestN"); fn == nil {
		c.Und("R2/findClosestN", token.NoPos, "UNRESOLVED anchor closest.findClosestN")
	} else {
		var badDef, badNaN []string
		n := 0
		stableOK := true
		var sortPos token.Pos
		for _, run := range catchmentRuns(streams, maxN) {
			ts, measure := run.ts, run.measure
			for K := 1; K <= maxN; K++ {
				for _, D := range []float64{-1, 0, 1} {
					n++
					ev := newEval(c)
					table := map[string]float64{}
					feed := []eval.Value{}
					for _, t := range ts {
						table[t.name] = t.dist
						feed = append(feed, mkRec(t.name, int64(t.pos), t.base, t.score))
					}
					stubDistances(ev, table, nil)
					out := &eval.ChanVal{Name: "out"}
					_, err := ev.CallFunc(fn, mkRec("t1", 5, 'A', 0), eval.K(int64(K)), eval.FConst(D), eval.S(measure), &eval.ChanVal{Name: "in", Feed: feed}, out)
					if err != nil {
						badDef = append(badDef, fmt.Sprintf("%s K=%d D=%v: undecided: %v", showTargets(ts), K, D, err))
						continue
					}
					for _, sc := range ev.SortCalls {
						sortPos = sc.Pos
						if unstableRecordSort(sc) {
							stableOK = false
						}
					}
					var want []string
					for _, t := range specOrder(ts) {
						if D != -1 && !(t.dist <= D) {
							continue
						}
						if len(want) < K {
							want = append(want, t.name)
						}
					}
					var got []string
					qok := false
					if len(out.Sent) == 1 {
						if res, ok := out.Sent[0].(*eval.StructVal); ok {
							if cat, ok := res.F["catchment"].(eval.Slice); ok {
								for _, e := range cat.Elems() {
									if r, ok := e.(*eval.StructVal); ok {
										if s, ok := r.F["tname"].(eval.Str); ok {
											got = append(got, s.Const())
										}
									}
								}
							}
							qn, _ := res.F["qname"].(eval.Str)
							qi, _ := linConst(res.F["qidx"])
							qok = qn.Const() == "t1" && qi == 5 // the query is named like the second target: being in the target file does not exclude a record from its own neighbourhood
						}
					}
					if strings.Join(got, ",") != strings.Join(want, ",") || !qok {
						msg := fmt.Sprintf("[%s] measure=%s K=%d D=%v -> %v, want %v", showTargets(ts), measure, K, D, got, want)
						if hasNaN(ts) {
							badNaN = append(badNaN, msg)
						} else {
							badDef = append(badDef, msg)
						}
					}
				}
			}
			if len(badDef) > 50 {
				break
			}
		}
		c.Count("streams_evaluated", n)
		c.Ob("R2/findClosestN/defined-distances", len(badDef) == 0, fn.Pos(), "%s", first(badDef, 4))
		c.Ob("R3/findClosestN/undefined-distance-never-displaces", len(badNaN) == 0, fn.Pos(), "%s", first(badNaN, 4))
		c.Ob("R1/rearrangeCatchment/stable-sort", stableOK && sortPos.IsValid(), sortPos, "the catchment must be ordered with sort.SliceStable (ties keep file order); found stable=%v", stableOK)
		c.Sample(map[string]interface{}{"rule": "R2", "stream": "t0(d=2,c=1) t1(d=1,c=1) t2(d=1,c=2)", "K": 2, "D": -1, "want": []string{"t2", "t1"}})
		c06Dispatch(c, fn, "findClosestN", mkRec, stubDistances)
	}
	c06Score(c, ev0, tabs)
	c06Fanout(c)
	c06Writers(c)
}

// c06Dispatch: the measure string selects the intended distance function.
func c06Dispatch(c *core.Ctx, fn *types.Func, name string, mkRec func(string, int64, byte, int64) *eval.StructVal,
	stub func(*eval.Evaluator, map[string]float64, map[string]float64)) {
	off := map[string]float64{"rawDistance": 0, "snpDistance": 10, "tn93Distance": 20}
	// three targets that are alike in every field the selection may look at (score, base counts) but lie at different
	// distances: what is ranked and reported for a target is the distance function's value for THAT target
	// (the query carries the name of one of the targets: a record's name is no part of any distance)
	table := map[string]float64{"t0": 3, "t1": 1, "t2": 2}
	var bad []string
	for measure, fname := range map[string]string{"raw": "rawDistance", "snp": "snpDistance", "tn93": "tn93Distance"} {
		ev := newEval(c)
		stub(ev, table, off)
		out := &eval.ChanVal{Name: "out"}
		feed := &eval.ChanVal{Name: "in", Feed: []eval.Value{mkRec("t0", 0, 'C', 1), mkRec("t1", 1, 'C', 1), mkRec("t2", 2, 'C', 1)}}
		var err error
		if name == "findClosest" {
			_, err = ev.CallFunc(fn, mkRec("t1", 5, 'A', 0), eval.S(measure), feed, out)
		} else {
			_, err = ev.CallFunc(fn, mkRec("t1", 5, 'A', 0), eval.K(3), eval.FConst(-1), eval.S(measure), feed, out)
		}
		if err != nil || len(out.Sent) != 1 {
			bad = append(bad, fmt.Sprintf("%s: undecided: %v", measure, err))
			continue
		}
		res := out.Sent[0].(*eval.StructVal)
		got := map[string]float64{}
		if name == "findClosest" {
			d, _ := res.F["distance"].(*eval.FExpr)
			tn, _ := res.F["tname"].(eval.Str)
			if d != nil && d.IsConst() && tn.IsConst() {
				got[tn.Const()] = d.C
			}
			if len(got) != 1 || got["t1"] != table["t1"]+off[fname] {
				bad = append(bad, fmt.Sprintf("measure %q: reported %v, want t1 at %s(q, t1) = %v", measure, got, fname, table["t1"]+off[fname]))
			}
			continue
		}
		if cat, ok := res.F["catchment"].(eval.Slice); ok {
			for _, e := range cat.Elems() {
				r, _ := e.(*eval.StructVal)
				if r == nil {
					continue
				}
				d, _ := r.F["distance"].(*eval.FExpr)
				tn, _ := r.F["tname"].(eval.Str)
				if d != nil && d.IsConst() && tn.IsConst() {
					got[tn.Const()] = d.C
				}
			}
		}
		for t, v := range table {
			if g, ok := got[t]; !ok || g != v+off[fname] {
				bad = append(bad, fmt.Sprintf("measure %q: target %s reported at %v (present=%v), want %s(q, %s) = %v", measure, t, g, ok, fname, t, v+off[fname]))
			}
		}
	}
	// a full catchment whose furthest member is replaced by a later, more complete target at the same distance: every
	// member is still reported at its own distance
	if name != "findClosest" {
		tab2 := map[string]float64{"t0": 3, "t1": 1, "t2": 3, "t3": 3}
		for measure, fname := range map[string]string{"raw": "rawDistance", "snp": "snpDistance", "tn93": "tn93Distance"} {
			for K := int64(1); K <= 3; K++ {
				ev := newEval(c)
				stub(ev, tab2, off)
				out := &eval.ChanVal{Name: "out"}
				feed := &eval.ChanVal{Name: "in", Feed: []eval.Value{mkRec("t0", 0, 'C', 1), mkRec("t1", 1, 'C', 1), mkRec("t2", 2, 'C', 2), mkRec("t3", 3, 'C', 3)}}
				if _, err := ev.CallFunc(fn, mkRec("t1", 5, 'A', 0), eval.K(K), eval.FConst(-1), eval.S(measure), feed, out); err != nil || len(out.Sent) != 1 {
					bad = append(bad, fmt.Sprintf("%s K=%d: undecided: %v", measure, K, err))
					continue
				}
				if cat, ok := out.Sent[0].(*eval.StructVal).F["catchment"].(eval.Slice); ok {
					for _, e := range cat.Elems() {
						r, _ := e.(*eval.StructVal)
						if r == nil {
							continue
						}
						d, _ := r.F["distance"].(*eval.FExpr)
						tn, _ := r.F["tname"].(eval.Str)
						if d == nil || !d.IsConst() || !tn.IsConst() || d.C != tab2[tn.Const()]+off[fname] {
							bad = append(bad, fmt.Sprintf("measure %q K=%d (the furthest member replaced by a more complete one at the same distance): %s reported at %s, want %s(q, %s) = %v", measure, K, tn, eval.Show(r.F["distance"]), fname, tn, tab2[tn.Const()]+off[fname]))
						}
					}
				}
			}
		}
	}
	sort.Strings(bad)
	c.Ob("R2/"+name+"/measure-dispatch", len(bad) == 0, fn.Pos(), "%s", first(bad, 3))
}

// c06Score: completeness score table = 12/|base set| for every code; zero elsewhere.
func c06Score(c *core.Ctx, ev *eval.Evaluator, tabs *Tables) {
	tab, ok := byteTable(c, ev, "R5/extract/MakeEncodedScoreArray", "pkg/encoding", "MakeEncodedScoreArray")
	if !ok {
		return
	}
	pos := funcPos(c, "pkg/encoding", "MakeEncodedScoreArray")
	var bad []string
	codes := map[int64]bool{}
	for _, p := range tabs.domain(false) {
		codes[p.Code] = true
		set, _ := baseSetOf(p.Sym)
		want := int64(12 / popcount(set))
		if tab[p.Code] != want {
			bad = append(bad, fmt.Sprintf("%c (code %d): %d, want %d", p.Sym, p.Code, tab[p.Code], want))
		}
	}
	for i := 0; i < 256; i++ {
		if !codes[int64(i)] && tab[i] != 0 {
			bad = append(bad, fmt.Sprintf("index %d is not a soft-gap code but scores %d", i, tab[i]))
		}
	}
	c.Count("domain_points_evaluated", 256)
	c.Ob("R5/score-table", len(bad) == 0, pos, "%s", first(bad, 6))
}

func baseSetOf(sym byte) (int, bool) { return oracleBaseSet(sym) }

// checkMeasureDispatch (shared by C06 and C07): the distance a neighbour is ranked and reported with is the value
// of the distance function the --measure names - unchanged (no clamping, rounding or other post-processing).
func checkMeasureDispatch(c *core.Ctx, rule string) {
	tabs := extractTables(c, newEval(c), rule+"/tables")
	recT := namedType(c, "pkg/fastaio", "EncodedFastaRecord")
	if !tabs.OK || recT == nil {
		return
	}
	mkRec := func(id string, idx int64, base byte, score int64) *eval.StructVal {
		r := absValue(recT, id, eval.K(1)).(*eval.StructVal)
		r.F["ID"] = eval.S(id)
		r.F["Description"] = eval.S(id)
		r.F["Idx"] = eval.K(idx)
		r.F["Score"] = eval.K(score)
		r.F["Seq"] = eval.NewSlice(eval.K(tabs.Soft[base]))
		for _, f := range []string{"Count_A", "Count_C", "Count_G", "Count_T"} {
			r.F[f] = eval.K(0)
		}
		return r
	}
	stub := func(ev *eval.Evaluator, table map[string]float64, offset map[string]float64) {
		for _, fname := range []string{"rawDistance", "snpDistance", "tn93Distance"} {
			fn := c.LookupFunc("pkg/closest", fname)
			if fn == nil {
				continue
			}
			off := offset[fname]
			ev.Extern[fn.FullName()] = func(ev *eval.Evaluator, pos token.Pos, recv eval.Value, args []eval.Value) eval.Value {
				t := args[1].(*eval.StructVal)
				return eval.FConst(table[t.F["ID"].(eval.Str).Const()] + off)
			}
		}
	}
	for _, name := range []string{"findClosest", "findClosestN"} {
		if fn := c.LookupFunc("pkg/closest", name); fn != nil {
			c06Dispatch(c, fn, name, mkRec, stub)
		} else {
			c.Und(rule+"/"+name+"/measure-dispatch", token.NoPos, "UNRESOLVED anchor closest.%s", name)
		}
	}
}

// checkUndefinedDistance (C06, C07): when query and target share no jointly resolved site, raw and tn93 have no
// value; the functions must return NaN (which the selection code ranks after every defined distance), not 0 or
// any other number. Concrete evaluation on short records: all-N target, all-gap target, and a target resolved only
// where the query is not.
func checkUndefinedDistance(c *core.Ctx, rule string) {
	tabs := extractTables(c, newEval(c), rule+"/tables")
	recT := namedType(c, "pkg/fastaio", "EncodedFastaRecord")
	if !tabs.OK || recT == nil {
		return
	}
	mk := func(id, seq string) *eval.StructVal {
		r := absValue(recT, id, eval.K(int64(len(seq)))).(*eval.StructVal)
		r.F["ID"] = eval.S(id)
		r.F["Description"] = eval.S(id)
		r.F["Idx"] = eval.K(0)
		r.F["Score"] = eval.K(0)
		vs := make([]eval.Value, len(seq))
		cnt := map[byte]int64{}
		for i := 0; i < len(seq); i++ {
			vs[i] = eval.K(tabs.Soft[seq[i]])
			cnt[seq[i]]++
		}
		r.F["Seq"] = eval.NewSlice(vs...)
		r.F["Count_A"], r.F["Count_C"], r.F["Count_G"], r.F["Count_T"] = eval.K(cnt['A']), eval.K(cnt['C']), eval.K(cnt['G']), eval.K(cnt['T'])
		return r
	}
	for _, fname := range []string{"rawDistance", "tn93Distance"} {
		fn := c.LookupFunc("pkg/closest", fname)
		key := rule + "/" + fname + "/undefined-without-a-jointly-resolved-site"
		if fn == nil {
			c.Und(key, token.NoPos, "UNRESOLVED anchor closest.%s", fname)
			continue
		}
		var bad []string
		for _, pr := range [][2]string{{"ACGTAC", "NNNNNN"}, {"ACGTAC", "------"}, {"ACGNNN", "NNNTAC"}, {"NNNNNN", "ACGTAC"}, {"ACRYAC", "NNACNN"}} {
			v, err := newEval(c).CallFunc(fn, mk("q", pr[0]), mk("t", pr[1]))
			if err != nil {
				c.Und(key, fn.Pos(), "cannot evaluate on %s / %s: %v", pr[0], pr[1], err)
				bad = nil
				break
			}
			f, ok := v.(*eval.FExpr)
			if !ok || !f.IsConst() || !math.IsNaN(f.C) {
				bad = append(bad, fmt.Sprintf("query %s target %s (no site where both are A/C/G/T): returns %s, want NaN (undefined)", pr[0], pr[1], eval.Show(v)))
			}
		}
		c.Ob(key, len(bad) == 0, fn.Pos(), "%s", first(bad, 3))
	}
}

type catchmentRun struct {
	ts      []tgt
	measure string
}

// catchmentRuns: every stream under the raw measure, and the streams of up to maxN-1 targets under the two others
// (the selection must treat the distance as a function of the pair whatever the measure is: no value carried over
// from the previous target).
func catchmentRuns(streams [][]tgt, maxN int) []catchmentRun {
	var out []catchmentRun
	for _, ts := range streams {
		out = append(out, catchmentRun{ts, "raw"})
	}
	for _, m := range []string{"snp", "tn93"} {
		for _, ts := range streams {
			if len(ts) < maxN {
				out = append(out, catchmentRun{ts, m})
			}
		}
	}
	return out
}

var fmtFloatRe = regexp.MustCompile(`<fmtfloat\(([^,()]+),102,9,64\)>`)

// c06Writers: the three result writers on concrete results - header, one row per query in the order given (query file
// order), the documented columns, distances printed with nine decimals (raw, tn93) or as an integer (snp), names and
// SNPs joined with ';', one table row per neighbour in rank order.
func c06Writers(c *core.Ctx) {
	resT := namedType(c, "pkg/closest", "resultsStruct")
	catT := namedType(c, "pkg/closest", "catchmentStruct")
	w1 := c.LookupFunc("pkg/closest", "writeClosest")
	wN := c.LookupFunc("pkg/closest", "writeClosestN")
	wT := c.LookupFunc("pkg/closest", "writeClosestNTable")
	if resT == nil || catT == nil || w1 == nil || wN == nil || wT == nil {
		c.Und("R6/writers", token.NoPos, "UNRESOLVED anchors closest.writeClosest / writeClosestN / writeClosestNTable")
		return
	}
	type hit struct {
		t    string
		d    float64
		snps []string
	}
	// the members of a catchment have whatever element type the catchment field declares
	memberT := resT
	if st, ok := catT.Underlying().(*types.Struct); ok {
		for i := 0; i < st.NumFields(); i++ {
			if sl, isSl := st.Field(i).Type().Underlying().(*types.Slice); isSl && st.Field(i).Name() == "catchment" {
				memberT = sl.Elem()
			}
		}
	}
	mkResOf := func(t types.Type, q string, qi int64, h hit) *eval.StructVal {
		r := absValue(t, "r", eval.K(0)).(*eval.StructVal)
		r.F["qname"] = eval.S(q)
		r.F["qidx"] = eval.K(qi)
		r.F["tname"] = eval.S(h.t)
		r.F["completeness"] = eval.K(7)
		r.F["distance"] = eval.FConst(h.d)
		var ss []eval.Value
		for _, x := range h.snps {
			ss = append(ss, eval.S(x))
		}
		r.F["snps"] = eval.NewSlice(ss...)
		return r
	}
	mkRes := func(q string, qi int64, h hit) *eval.StructVal { return mkResOf(resT, q, qi, h) }
	mkMember := func(q string, qi int64, h hit) *eval.StructVal { return mkResOf(memberT, q, qi, h) }
	fmtD := func(measure string, d float64) string {
		if measure == "snp" {
			return strconv.Itoa(int(d))
		}
		return strconv.FormatFloat(d, 'f', 9, 64)
	}
	queries := []struct {
		q    string
		hits []hit
	}{
		{"q/1 first", []hit{{"t2", 0, nil}, {"t0", 3, []string{"1AC", "7GT", "9TA"}}}},
		{"q2", []hit{{"t1", 2, []string{"4CT", "5AG"}}}},
		{"q3", []hit{{"t0", 0.000244140625, []string{"2GA"}}, {"t5", 0.5, nil}, {"t1", 12, nil}}},
	}
	run := func(fn *types.Func, args ...eval.Value) (string, bool, error) {
		ev := newEval(c)
		writes := captureWrites(ev)
		v, err := ev.CallFuncBound(fn, args...)
		if err != nil {
			return "", false, err
		}
		var sb strings.Builder
		for _, s := range *writes {
			sb.WriteString(s.String())
		}
		_, isNil := v.(eval.Nil)
		// the evaluator keeps strconv.FormatFloat symbolic; a constant printed with ('f', 9, 64) is rendered here, any
		// other format, precision or bit size stays symbolic and so differs from the expected text
		text := fmtFloatRe.ReplaceAllStringFunc(sb.String(), func(m string) string {
			f, err := strconv.ParseFloat(fmtFloatRe.FindStringSubmatch(m)[1], 64)
			if err != nil {
				return m
			}
			return strconv.FormatFloat(f, 'f', 9, 64)
		})
		return text, isNil, nil
	}
	var bad []string
	for _, measure := range []string{"raw", "snp", "tn93"} {
		// single closest
		var rs []eval.Value
		want := "query,closest,distance,SNPs\n"
		for i, q := range queries {
			h := q.hits[0]
			if measure == "snp" {
				h.d = float64(int(h.d*4) % 5)
			}
			rs = append(rs, mkRes(q.q, int64(i), h))
			want += q.q + "," + h.t + "," + fmtD(measure, h.d) + "," + strings.Join(h.snps, ";") + "\n"
		}
		got, isNil, err := run(w1, eval.NewSlice(rs...), eval.S(measure), eval.Opaque{Why: "writer:out"})
		if err != nil {
			c.Und("R6/writeClosest", w1.Pos(), "cannot evaluate: %v", err)
			return
		}
		if got != want || !isNil {
			bad = append(bad, fmt.Sprintf("writeClosest measure=%s writes %q (nil result=%v), want %q", measure, got, isNil, want))
		}
		// catchments
		var cs []eval.Value
		wantN, wantT := "query,closest\n", "query,target,distance\n"
		for i, q := range queries {
			var hs []eval.Value
			var names []string
			for _, h := range q.hits {
				if measure == "snp" {
					h.d = float64(int(h.d*4) % 5)
				}
				hs = append(hs, mkMember(q.q, int64(i), h))
				names = append(names, h.t)
				wantT += q.q + "," + h.t + "," + fmtD(measure, h.d) + "\n"
			}
			cv := absValue(catT, "c", eval.K(0)).(*eval.StructVal)
			cv.F["qname"] = eval.S(q.q)
			cv.F["qidx"] = eval.K(int64(i))
			cv.F["catchment"] = eval.NewSlice(hs...)
			cs = append(cs, cv)
			wantN += q.q + "," + strings.Join(names, ";") + "\n"
		}
		got, isNil, err = run(wN, eval.NewSlice(cs...), eval.Opaque{Why: "writer:out"})
		if err != nil {
			c.Und("R6/writeClosestN", wN.Pos(), "cannot evaluate: %v", err)
			return
		}
		if got != wantN || !isNil {
			bad = append(bad, fmt.Sprintf("writeClosestN writes %q (nil result=%v), want %q", got, isNil, wantN))
		}
		got, isNil, err = run(wT, eval.NewSlice(cs...), eval.Opaque{Why: "writer:out"}, eval.S(measure))
		if err != nil {
			c.Und("R6/writeClosestNTable", wT.Pos(), "cannot evaluate: %v", err)
			return
		}
		if got != wantT || !isNil {
			bad = append(bad, fmt.Sprintf("writeClosestNTable measure=%s writes %q (nil result=%v), want %q", measure, got, isNil, wantT))
		}
	}
	// a query without any neighbour within the limit still has its row
	{
		cv := absValue(catT, "c", eval.K(0)).(*eval.StructVal)
		cv.F["qname"] = eval.S("lonely")
		cv.F["qidx"] = eval.K(0)
		cv.F["catchment"] = eval.NewSlice()
		got, _, err := run(wN, eval.NewSlice(cv), eval.Opaque{Why: "writer:out"})
		if err != nil || got != "query,closest\nlonely,\n" {
			bad = append(bad, fmt.Sprintf("writeClosestN for a query with an empty catchment writes %q (%v), want %q", got, err, "query,closest\nlonely,\n"))
		}
	}
	c.Ob("R6/writers/documented-layout", len(bad) == 0, w1.Pos(), "%s", first(bad, 3))
}

// unstableRecordSort: a sort whose ties are not kept in input order. sort.Strings / Ints / Float64s order plain values
// (two elements that compare equal ARE equal, so their order cannot be observed) and do not count.
func unstableRecordSort(sc eval.SortCall) bool {
	switch sc.Func {
	case "sort.SliceStable", "sort.Stable", "sort.Strings", "sort.Ints", "sort.Float64s", "slices.SortStableFunc":
		return false
	}
	return true
}
