package rules

import (
	"fmt"
	"go/token"
	"regexp"
	"sort"
	"strconv"
	"strings"

	"gofasta-verif/core"
	"gofasta-verif/eval"
)

func init() { register("C13", C13) }

func evalWriteVariants(c *core.Ctx, feed []eval.Value, start, end int64, firstmissing, appendSNP bool, refID string) (string, error) {
	fn := c.LookupFunc("pkg/variants", "WriteVariants")
	if fn == nil {
		return "", fmt.Errorf("UNRESOLVED variants.WriteVariants")
	}
	ev := newEval(c)
	out, errs, err := callWriter(c, ev, fn, namedType(c, "pkg/variants", "AnnoStructs"), feed, map[string]eval.Value{
		"start": eval.K(start), "end": eval.K(end), "firstmissing": firstmissing, "appendSNP": appendSNP, "refID": eval.S(refID)})
	if err != nil {
		return "", err
	}
	if len(errs.Sent) > 0 {
		return "", fmt.Errorf("writer reported an error on valid input")
	}
	return out, nil
}

func evalWriteSNPs(c *core.Ctx, lines [][]string, names ...string) (string, error) {
	fn := c.LookupFunc("pkg/snps", "writeOutput")
	if fn == nil {
		return "", fmt.Errorf("UNRESOLVED snps.writeOutput")
	}
	lt := namedType(c, "pkg/snps", "snpLine")
	var feed []eval.Value
	for i, l := range lines {
		r := absValue(lt, "l", eval.K(0)).(*eval.StructVal)
		name := fmt.Sprintf("q%d", i)
		if i < len(names) {
			name = names[i]
		}
		r.F["queryname"] = eval.S(name)
		r.F["idx"] = eval.K(int64(i))
		es := make([]eval.Value, len(l))
		for k, s := range l {
			es[k] = eval.S(s)
		}
		r.F["snps"] = eval.NewSlice(es...)
		feed = append(feed, r)
	}
	ev := newEval(c)
	out, errs, err := callWriter(c, ev, fn, lt, feed, nil)
	if err != nil {
		return "", err
	}
	if len(errs.Sent) > 0 {
		return "", fmt.Errorf("writer reported an error on valid input")
	}
	return out, nil
}

var freqRe = regexp.MustCompile(`^(.*),<fmtfloat\(([^,]+),102,9,64\)>$`)

// parseAggregate splits the aggregate output into (mutation, frequency) lines.
func parseAggregate(out, header string) ([][2]string, error) {
	if !strings.HasPrefix(out, header) {
		return nil, fmt.Errorf("header %q missing", header)
	}
	var res [][2]string
	for _, l := range strings.Split(strings.TrimSuffix(strings.TrimPrefix(out, header), "\n"), "\n") {
		if l == "" {
			continue
		}
		m := freqRe.FindStringSubmatch(l)
		if m == nil {
			return nil, fmt.Errorf("line %q is not <mutation>,<frequency printed with 'f', 9 decimals, 64 bits>", l)
		}
		res = append(res, [2]string{m[1], m[2]})
	}
	return res, nil
}

// expectedFromRows counts the per-sequence rows.
func expectedFromRows(perSeq, header string, thr float64) (map[string]string, error) {
	if !strings.HasPrefix(perSeq, header) {
		return nil, fmt.Errorf("per-sequence header %q missing", header)
	}
	rows := strings.Split(strings.TrimSuffix(strings.TrimPrefix(perSeq, header), "\n"), "\n")
	n := 0
	counts := map[string]int{}
	for _, r := range rows {
		if r == "" {
			continue
		}
		n++
		i := strings.Index(r, ",")
		if i < 0 {
			return nil, fmt.Errorf("row %q has no comma", r)
		}
		seen := map[string]bool{}
		for _, m := range strings.Split(r[i+1:], "|") {
			if m != "" && !seen[m] {
				seen[m] = true
				counts[m]++
			}
		}
	}
	out := map[string]string{}
	for m, k := range counts {
		f := float64(k) / float64(n)
		if f >= thr {
			out[m] = fmt.Sprint(f)
		}
	}
	return out, nil
}

func compareAggregate(agg [][2]string, want map[string]string, posOf func(string) (int, bool)) string {
	got := map[string]string{}
	last := -1 << 30
	for _, l := range agg {
		if _, dup := got[l[0]]; dup {
			return fmt.Sprintf("mutation %s listed twice", l[0])
		}
		got[l[0]] = l[1]
		if p, ok := posOf(l[0]); ok {
			if p < last {
				return fmt.Sprintf("not ordered by genomic position: %s (position %d) after position %d", l[0], p, last)
			}
			last = p
		}
	}
	var keys []string
	for k := range want {
		keys = append(keys, k)
	}
	sort.Strings(keys)
	for _, k := range keys {
		if g, ok := got[k]; !ok {
			return fmt.Sprintf("%s (frequency %s) missing", k, want[k])
		} else if g != want[k] {
			return fmt.Sprintf("%s has frequency %s, counting the per-sequence rows gives %s", k, g, want[k])
		}
	}
	for k, g := range got {
		if _, ok := want[k]; !ok {
			return fmt.Sprintf("%s (frequency %s) listed but not expected at this threshold", k, g)
		}
	}
	return ""
}

func C13(c *core.Ctx) {
	c.Explanation("C13: the aggregate writers and the per-sequence writers are interpreted on the same bounded families of per-sequence results (all sequences of up to three records drawn from fixed mutation lists, with and without a reference record, thresholds 0, 0.5 (an occurring frequency) and 1, two windows, --append-snps on/off); the aggregate output must list exactly the mutations whose count over the per-sequence writer's rows divided by the number of rows is >= threshold, each once, with that frequency printed by FormatFloat('f', 9, 64), in non-decreasing genomic position. This decides the counting map, the denominator (reference excluded), the threshold comparison, the shared window predicate and the number format for those families; it does not decide that a mutation occurs at most once per sequence's list (assumed).")
	c15WindowFilter(c) // under every window the aggregate table is over the same mutations the per-sequence rows list
	checkReferenceRecordName(c, "R6")
	c.Assumption("a mutation occurs at most once in one sequence's list (property C04/C05 territory; checked on the single-site family under four annotations, R7)")
	if tabs := extractTables(c, newEval(c), "R0t"); tabs.OK {
		checkNoDuplicateRecords(c, tabs, "R7/per-sequence-lists-carry-no-record-twice")
	}
	// ---------------- snps
	univ := []string{"C5T", "A10T", "A10G"}
	var subsets [][]string
	for m := 0; m < 8; m++ {
		var s []string
		for i, u := range univ {
			if m&(1<<i) != 0 {
				s = append(s, u)
			}
		}
		subsets = append(subsets, s)
	}
	posSNP := func(m string) (int, bool) {
		if len(m) < 3 {
			return 0, false
		}
		p, err := strconv.Atoi(m[1 : len(m)-1])
		return p, err == nil
	}
	var feeds [][][]string
	var rec func(cur [][]string)
	rec = func(cur [][]string) {
		if len(cur) > 0 {
			feeds = append(feeds, append([][]string{}, cur...))
		}
		if len(cur) == 3 {
			return
		}
		for _, s := range subsets {
			rec(append(cur, s))
		}
	}
	rec(nil)
	if c.Tier != "thorough" {
		// quick: every 3rd feed of length 3, all shorter ones
		var f2 [][][]string
		for i, f := range feeds {
			if len(f) < 3 || i%3 == 0 {
				f2 = append(f2, f)
			}
		}
		feeds = f2
	}
	var bad []string
	n := 0
	for _, feed := range feeds {
		per, err := evalWriteSNPs(c, feed)
		if err != nil {
			bad = append(bad, "per-sequence writer undecided: "+err.Error())
			break
		}
		for _, thr := range []float64{0, 0.5, 1} {
			n++
			agg, err := evalAggregateSNPs(c, false, feed, thr)
			if err != nil {
				bad = append(bad, "aggregate writer undecided: "+err.Error())
				break
			}
			lines, err := parseAggregate(agg, "SNP,frequency\n")
			if err != nil {
				bad = append(bad, err.Error())
				continue
			}
			want, err := expectedFromRows(per, "query,SNPs\n", thr)
			if err != nil {
				bad = append(bad, err.Error())
				continue
			}
			if d := compareAggregate(lines, want, posSNP); d != "" {
				bad = append(bad, fmt.Sprintf("sequences %v threshold %v: %s", feed, thr, d))
			}
		}
		if len(bad) > 20 {
			break
		}
	}
	c.Count("feeds_evaluated", n)
	c.Ob("R1-R5/snps/aggregate-equals-counted-rows", len(bad) == 0, funcPos(c, "pkg/snps", "aggregateWriteOutput"), "%s", first(bad, 4))
	// records that share a name are still separate sequences: counts and denominator are per record
	{
		names := []string{"s1", "s2", "s1", "s3", "s2", "s4"}
		feed := [][]string{{"A10T"}, {"A10T", "C5T"}, {"A10T"}, {}, {"A10T"}, {}}
		var badD []string
		per, err1 := evalWriteSNPs(c, feed, names...)
		for _, thr := range []float64{0, 0.5, 0.6, 0.7} {
			agg, err2 := evalAggregateSNPs(c, false, feed, thr, names...)
			if err1 != nil || err2 != nil {
				badD = append(badD, fmt.Sprintf("undecided: %v %v", err1, err2))
				break
			}
			lines, err := parseAggregate(agg, "SNP,frequency\n")
			if err != nil {
				badD = append(badD, err.Error())
				continue
			}
			want, err := expectedFromRows(per, "query,SNPs\n", thr)
			if err != nil {
				badD = append(badD, err.Error())
				continue
			}
			n++
			if d := compareAggregate(lines, want, posSNP); d != "" {
				badD = append(badD, fmt.Sprintf("six records, two names used twice, threshold %v: %s", thr, d))
			}
		}
		c.Ob("R2/snps/records-sharing-a-name-are-counted-separately", len(badD) == 0, funcPos(c, "pkg/snps", "aggregateWriteOutput"), "%s", first(badD, 3))
	}
	// numeric (not lexicographic) position order
	if agg, err := evalAggregateSNPs(c, false, [][]string{{"A9C", "A10T", "A100G"}}, 0); err == nil {
		lines, _ := parseAggregate(agg, "SNP,frequency\n")
		order := []string{}
		for _, l := range lines {
			order = append(order, l[0])
		}
		c.Ob("R5/snps/numeric-position-order", strings.Join(order, ",") == "A9C,A10T,A100G", funcPos(c, "pkg/snps", "aggregateWriteOutput"), "positions 9, 10, 100 are written in the order %v", order)
	}
	// ... also for the SNPs --hard-gaps reports, whose reference or query symbol is '-' or '?' (the position is what stands
	// between the first and the last character, whatever those are)
	if agg, err := evalAggregateSNPs(c, false, [][]string{{"C2T", "-3A", "?6-", "G7-", "T12-", "C14G"}, {"T12-", "C2T"}}, 0); err == nil {
		lines, _ := parseAggregate(agg, "SNP,frequency\n")
		order := []string{}
		for _, l := range lines {
			order = append(order, l[0])
		}
		c.Ob("R5/snps/numeric-position-order-with-gap-symbols", strings.Join(order, ",") == "C2T,-3A,?6-,G7-,T12-,C14G", funcPos(c, "pkg/snps", "aggregateWriteOutput"), "positions 2, 3, 6, 7, 12, 14 are written in the order %v", order)
	} else {
		c.Und("R5/snps/numeric-position-order-with-gap-symbols", funcPos(c, "pkg/snps", "aggregateWriteOutput"), "cannot evaluate: %v", err)
	}
	c13Variants(c)
}

// c13Variants: the aggregate writer of variants / sam variants against the per-sequence writer (shared with C04:
// in aggregate mode with --append-snps every reported position must still be mentioned).
func c13Variants(c *core.Ctx) {
	var bad []string
	n := 0
	// ---------------- variants
	U := map[string]*eval.StructVal{}
	mk := func(kind string, pos, length int64, ref, alt string, residue int64, feature, snps string) *eval.StructVal {
		v := mkVariant(c, kind, pos, length, ref, alt)
		v.F["Residue"] = eval.K(residue)
		v.F["Feature"] = eval.S(feature)
		v.F["SNPs"] = eval.S(snps)
		return v
	}
	U["aa"] = mk("aa", 1, 0, "M", "I", 1, "g", "nuc:G3T")
	U["nucT"] = mk("nuc", 3, 0, "A", "T", 0, "", "")
	U["nucG"] = mk("nuc", 3, 0, "A", "G", 0, "", "")
	U["ins1"] = mk("ins", 3, 1, "", "", 0, "", "")
	U["ins2"] = mk("ins", 3, 2, "", "", 0, "", "")
	U["del"] = mk("del", 5, 2, "", "", 0, "", "")
	// the same amino-acid replacement reached through two different codons
	U["aaK1"] = mk("aa", 4, 0, "A", "K", 2, "g", "nuc:G4A;nuc:C5A;nuc:T6A")
	U["aaK2"] = mk("aa", 4, 0, "A", "K", 2, "g", "nuc:G4A;nuc:C5A;nuc:T6G")
	lists := [][]string{{}, {"aa"}, {"nucT", "ins1"}, {"nucG", "ins2", "del"}, {"aa", "ins1", "del"}, {"ins2"}, {"aaK1"}, {"aaK2", "del"}}
	posVar := func(m string) (int, bool) {
		switch {
		case strings.HasPrefix(m, "aa:g:A2K"):
			return 4, true
		case strings.HasPrefix(m, "aa:"):
			return 1, true
		case strings.HasPrefix(m, "nuc:"):
			return 3, true
		case strings.HasPrefix(m, "ins:"):
			return 3, true
		case strings.HasPrefix(m, "del:"):
			return 5, true
		}
		return 0, false
	}
	var vfeeds [][]int
	var rec2 func(cur []int)
	rec2 = func(cur []int) {
		if len(cur) > 0 {
			vfeeds = append(vfeeds, append([]int{}, cur...))
		}
		if len(cur) == 3 {
			return
		}
		for i := range lists {
			rec2(append(cur, i))
		}
	}
	rec2(nil)
	bad = nil
	n = 0
	for fi, vf := range vfeeds {
		if c.Tier != "thorough" && len(vf) == 3 && fi%4 != 0 {
			continue
		}
		// no record named like the reference; one, first in the file; two (the reference and, at the end, a second record
		// of that name carrying mutations): the per-sequence writer leaves out every such record, so the table counts none
		for _, refCopies := range []int{0, 1, 2} {
			var feed []eval.Value
			idx := int64(0)
			if refCopies >= 1 {
				feed = append(feed, mkAnno(c, "ref", idx))
				idx++
			}
			for _, li := range vf {
				var vs []*eval.StructVal
				for _, k := range lists[li] {
					vs = append(vs, U[k])
				}
				feed = append(feed, mkAnno(c, fmt.Sprintf("q%d", idx), idx, vs...))
				idx++
			}
			if refCopies == 2 {
				feed = append(feed, mkAnno(c, "ref", idx, U["nucT"], U["del"]))
				idx++
			}
			for _, win := range [][2]int64{{-1, -1}, {3, 3}} {
				for _, app := range []bool{false, true} {
					per, err := evalWriteVariants(c, feed, win[0], win[1], false, app, "ref")
					if err != nil {
						bad = append(bad, "per-sequence writer undecided: "+err.Error())
						continue
					}
					for _, thr := range []float64{0, 0.5, 1} {
						n++
						agg, err := evalAggregateVariants(c, false, feed, win[0], win[1], app, thr, "ref")
						if err != nil {
							bad = append(bad, "aggregate writer undecided: "+err.Error())
							continue
						}
						lines, err := parseAggregate(agg, "mutation,frequency\n")
						if err != nil {
							bad = append(bad, err.Error())
							continue
						}
						want, err := expectedFromRows(per, "query,mutations\n", thr)
						if err != nil {
							bad = append(bad, err.Error())
							continue
						}
						if d := compareAggregate(lines, want, posVar); d != "" {
							bad = append(bad, fmt.Sprintf("lists %v records-named-like-the-reference=%d window=%v append-snps=%v threshold=%v: %s", vf, refCopies, win, app, thr, d))
						}
					}
				}
			}
		}
		if len(bad) > 20 {
			break
		}
	}
	// reverse-strand feature: residue numbers run against genomic coordinates; the order is by position
	{
		aaHi := mk("aa", 10, 0, "K", "Q", 5, "r", "nuc:A11C")
		nucMid := mk("nuc", 15, 0, "A", "C", 0, "", "")
		aaLo := mk("aa", 16, 0, "L", "V", 3, "r", "nuc:A17C")
		aaLast := mk("aa", 22, 0, "S", "T", 1, "r", "nuc:A23C")
		posRev := func(m string) (int, bool) {
			switch {
			case strings.HasPrefix(m, "aa:r:K5Q"):
				return 10, true
			case strings.HasPrefix(m, "nuc:A15C"):
				return 15, true
			case strings.HasPrefix(m, "aa:r:L3V"):
				return 16, true
			case strings.HasPrefix(m, "aa:r:S1T"):
				return 22, true
			}
			return 0, false
		}
		var badR []string
		for _, app := range []bool{false, true} {
			feed := []eval.Value{mkAnno(c, "q0", 0, aaHi, nucMid, aaLo, aaLast), mkAnno(c, "q1", 1, aaLo), mkAnno(c, "q2", 2, aaHi, aaLast)}
			n++
			agg, err := evalAggregateVariants(c, false, feed, -1, -1, app, 0, "ref")
			if err != nil {
				badR = append(badR, "undecided: "+err.Error())
				continue
			}
			lines, err := parseAggregate(agg, "mutation,frequency\n")
			if err != nil {
				badR = append(badR, err.Error())
				continue
			}
			last, seen := -1, 0
			for _, l := range lines {
				if p, ok := posRev(l[0]); ok {
					seen++
					if p < last {
						badR = append(badR, fmt.Sprintf("append-snps=%v: %s (position %d) is listed after position %d", app, l[0], p, last))
					}
					last = p
				}
			}
			if seen != 4 {
				badR = append(badR, fmt.Sprintf("append-snps=%v: %d of the 4 mutations listed: %q", app, seen, agg))
			}
		}
		c.Ob("R5/variants/reverse-strand-feature-ordered-by-position", len(badR) == 0, funcPos(c, "pkg/variants", "AggregateWriteVariants"), "%s", first(badR, 3))
	}
	// a threshold exactly equal to an occurring frequency k/n keeps the mutation, for every 1 <= k <= n <= 30
	// (floating point: k/n compared with the threshold, not k with threshold*n)
	{
		var badT []string
		maxN := 30
		step := 1
		if c.Tier != "thorough" {
			step = 2
		}
		for nseq := 1; nseq <= maxN; nseq += step {
			for k := 1; k <= nseq; k++ {
				thr := float64(k) / float64(nseq)
				var sl [][]string
				var vfeed []eval.Value
				for i := 0; i < nseq; i++ {
					if i < k {
						sl = append(sl, []string{"A10T"})
						vfeed = append(vfeed, mkAnno(c, fmt.Sprintf("q%d", i), int64(i), U["del"]))
					} else {
						sl = append(sl, []string{})
						vfeed = append(vfeed, mkAnno(c, fmt.Sprintf("q%d", i), int64(i)))
					}
				}
				n++
				if agg, err := evalAggregateSNPs(c, false, sl, thr); err != nil {
					badT = append(badT, "snps: "+err.Error())
				} else if !strings.Contains(agg, "A10T,") {
					badT = append(badT, fmt.Sprintf("snps: %d of %d sequences carry the SNP, --threshold %v (= that frequency): dropped", k, nseq, thr))
				}
				if agg, err := evalAggregateVariants(c, false, vfeed, -1, -1, false, thr, "ref"); err != nil {
					badT = append(badT, "variants: "+err.Error())
				} else if !strings.Contains(agg, "del:5:2,") {
					badT = append(badT, fmt.Sprintf("variants: %d of %d sequences carry the mutation, --threshold %v (= that frequency): dropped", k, nseq, thr))
				}
			}
			if len(badT) > 10 {
				break
			}
		}
		c.Ob("R3/threshold-equal-to-an-occurring-frequency-keeps", len(badT) == 0, funcPos(c, "pkg/snps", "aggregateWriteOutput"), "%s", first(badT, 4))
	}
	c.Count("feeds_evaluated", n)
	c.Ob("R1-R5/variants/aggregate-equals-counted-rows", len(bad) == 0, funcPos(c, "pkg/variants", "AggregateWriteVariants"), "%s", first(bad, 4))
	c.Sample(map[string]interface{}{"rule": "R1-R5", "lists": []string{"nuc:A3T|ins:3:1", "nuc:A3G|ins:3:2|del:5:2"}, "threshold": 0.5, "expected": "every mutation with frequency 0.5, ordered by position"})
	if funcPos(c, "pkg/variants", "AggregateWriteVariants") == token.NoPos {
		c.Und("R0/anchors", token.NoPos, "UNRESOLVED aggregate writers")
	}
}
