package rules

import (
	"fmt"
	"go/token"
	"go/types"
	"sort"

	"golang.org/x/tools/go/ssa"

	"gofasta-verif/core"
)

// checkNoSharedArgumentWrites: a `go` statement that is executed repeatedly (it sits in a loop) and hands every
// goroutine THE SAME slice, map or pointer (a value that does not change from one iteration to the next) shares that
// storage between the goroutines. None of them may write through it: sorting it in place, appending to it, copying into
// it, deleting from it, storing to one of its elements. (Two goroutines that only read it are fine; a goroutine that
// writes it races with every other one, and what the others see - hence what is written to the output - depends on the
// schedule.) Stores to an element whose index is the goroutine's own (it derives from another argument of the same go
// statement that does change from one iteration to the next) are the "results by index" idiom and are not reported.
func checkNoSharedArgumentWrites(c *core.Ctx, key string, p *progFacts) int {
	n := 0
	var bad []string
	var pos token.Pos
	for _, f := range p.funcs {
		if isDeprecatedIndels(topFunc(f)) || f.Pkg == nil || c.RelOf(f.Pkg.Pkg) == "" {
			continue
		}
		inCycle := blocksInCycles(f)
		for _, b := range f.Blocks {
			if !inCycle[b] {
				continue
			}
			for _, ins := range b.Instrs {
				g, ok := ins.(*ssa.Go)
				if !ok {
					continue
				}
				callee, args := goTarget(g)
				if callee == nil || !inRepo(callee) {
					continue
				}
				if mc, ok := g.Common().Value.(*ssa.MakeClosure); ok {
					// a literal: the variables it captures by reference that hold a slice, a map or a pointer and are not
					// re-made in each iteration
					for i, bnd := range mc.Bindings {
						pt, isPtr := bnd.Type().Underlying().(*types.Pointer)
						if !isPtr || !isSharedStorage(pt.Elem()) || !loopInvariant(bnd, b, inCycle, 0) || i >= len(callee.FreeVars) {
							continue
						}
						n++
						if w := writesThrough(callee.FreeVars[i], callee, map[*ssa.Parameter]bool{}, 0, map[*ssa.Function]bool{}); w != nil {
							bad = append(bad, fmt.Sprintf("%s: every goroutine started here captures the same %s (%s); the literal writes through it at %s (%s)", c.PosStr(g.Pos()), pt.Elem().String(), describeVal(bnd), c.PosStr(w.Pos()), w.String()))
							pos = w.Pos()
						}
					}
					continue
				}
				// which parameters change from one iteration to the next
				varies := map[int]bool{}
				for i, a := range args {
					varies[i] = !loopInvariant(a, b, inCycle, 0)
				}
				for i, a := range args {
					if varies[i] || !isSharedStorage(a.Type()) || i >= len(callee.Params) {
						continue
					}
					n++
					own := map[*ssa.Parameter]bool{}
					for j := range args {
						if varies[j] && j < len(callee.Params) {
							own[callee.Params[j]] = true
						}
					}
					if w := writesThrough(callee.Params[i], callee, own, 0, map[*ssa.Function]bool{}); w != nil {
						bad = append(bad, fmt.Sprintf("%s: every goroutine started here is given the same %s (%s); %s writes through it at %s (%s)", c.PosStr(g.Pos()), a.Type().String(), describeVal(a), fnKey(callee), c.PosStr(w.Pos()), w.String()))
						pos = w.Pos()
					}
				}
			}
		}
	}
	sort.Strings(bad)
	c.Ob(key, len(bad) == 0, pos, "%s", first(bad, 3))
	return n
}

func goTarget(g *ssa.Go) (*ssa.Function, []ssa.Value) {
	if mc, ok := g.Common().Value.(*ssa.MakeClosure); ok {
		if fn, ok := mc.Fn.(*ssa.Function); ok {
			return fn, nil // a function literal: its shared storage is what it captures (goShared)
		}
	}
	if cal := g.Common().StaticCallee(); cal != nil {
		return cal, g.Common().Args
	}
	return nil, nil
}

func isSharedStorage(t types.Type) bool {
	switch u := t.Underlying().(type) {
	case *types.Slice, *types.Map:
		return true
	case *types.Pointer:
		_, isStruct := u.Elem().Underlying().(*types.Struct)
		_, isArr := u.Elem().Underlying().(*types.Array)
		if isStruct {
			// a pointer to a synchronisation object is meant to be shared
			if nt, ok := u.Elem().(*types.Named); ok && nt.Obj().Pkg() != nil && nt.Obj().Pkg().Path() == "sync" {
				return false
			}
		}
		return isStruct || isArr
	}
	return false
}

// blocksInCycles: the blocks of f that lie on a cycle of its control-flow graph.
func blocksInCycles(f *ssa.Function) map[*ssa.BasicBlock]bool {
	out := map[*ssa.BasicBlock]bool{}
	for _, b := range f.Blocks {
		seen := map[*ssa.BasicBlock]bool{}
		work := append([]*ssa.BasicBlock{}, b.Succs...)
		for len(work) > 0 {
			x := work[len(work)-1]
			work = work[:len(work)-1]
			if x == b {
				out[b] = true
				break
			}
			if seen[x] {
				continue
			}
			seen[x] = true
			work = append(work, x.Succs...)
		}
	}
	return out
}

// loopInvariant: v has the same value in every iteration of the loop around block b (conservatively: it is defined
// outside every cycle, or computed only from such values by selection and slicing).
func loopInvariant(v ssa.Value, b *ssa.BasicBlock, inCycle map[*ssa.BasicBlock]bool, d int) bool {
	if d > 6 {
		return false
	}
	switch x := v.(type) {
	case *ssa.Parameter, *ssa.Global, *ssa.FreeVar, *ssa.Const:
		return true
	case *ssa.UnOp:
		if x.Op == token.MUL {
			// a load: invariant when the address is, and the loop does not store to it
			if !loopInvariant(x.X, b, inCycle, d+1) {
				return false
			}
			if a, ok := x.X.(*ssa.Alloc); ok {
				for _, r := range *a.Referrers() {
					if st, ok := r.(*ssa.Store); ok && st.Addr == a && st.Block() != nil && inCycle[st.Block()] {
						return false
					}
				}
			}
			return true
		}
	case *ssa.FieldAddr:
		return loopInvariant(x.X, b, inCycle, d+1)
	case *ssa.Field:
		return loopInvariant(x.X, b, inCycle, d+1)
	case *ssa.Slice:
		return loopInvariant(x.X, b, inCycle, d+1) && (x.Low == nil || loopInvariant(x.Low, b, inCycle, d+1)) && (x.High == nil || loopInvariant(x.High, b, inCycle, d+1))
	case *ssa.ChangeType:
		return loopInvariant(x.X, b, inCycle, d+1)
	}
	if ins, ok := v.(ssa.Instruction); ok && ins.Block() != nil {
		return !inCycle[ins.Block()]
	}
	return false
}

var inPlaceMutators = map[string]bool{
	"sort.Strings": true, "sort.Ints": true, "sort.Float64s": true, "sort.Slice": true, "sort.SliceStable": true, "sort.Sort": true, "sort.Stable": true,
	"slices.Sort": true, "slices.SortFunc": true, "slices.SortStableFunc": true, "slices.Reverse": true,
}

// writesThrough: the first instruction of f (or of a repository function f passes the value on to) that writes the
// storage reached from param.
func writesThrough(param ssa.Value, f *ssa.Function, own map[*ssa.Parameter]bool, d int, seen map[*ssa.Function]bool) ssa.Instruction {
	if d > 4 || f == nil || len(f.Blocks) == 0 {
		return nil
	}
	// values that alias the parameter's storage
	alias := map[ssa.Value]bool{param: true}
	localHolds := map[*ssa.Alloc]bool{} // local variables that hold an alias
	for changed := true; changed; {
		changed = false
		for _, b := range f.Blocks {
			for _, ins := range b.Instrs {
				if st, isStore := ins.(*ssa.Store); isStore && alias[st.Val] {
					if a, isAlloc := st.Addr.(*ssa.Alloc); isAlloc && !localHolds[a] {
						localHolds[a], changed = true, true
					}
				}
				v, ok := ins.(ssa.Value)
				if !ok || alias[v] {
					continue
				}
				switch x := ins.(type) {
				case *ssa.Slice:
					if alias[x.X] {
						alias[v], changed = true, true
					}
				case *ssa.ChangeType:
					if alias[x.X] {
						alias[v], changed = true, true
					}
				case *ssa.MakeInterface:
					if alias[x.X] {
						alias[v], changed = true, true
					}
				case *ssa.Phi:
					for _, e := range x.Edges {
						if alias[e] {
							alias[v], changed = true, true
						}
					}
				case *ssa.IndexAddr:
					if alias[x.X] {
						alias[v], changed = true, true
					}
				case *ssa.FieldAddr:
					if alias[x.X] {
						alias[v], changed = true, true
					}
				case *ssa.UnOp:
					// a slice, map or pointer loaded from shared storage reaches shared storage
					if x.Op == token.MUL && alias[x.X] && isSharedStorage(x.Type()) {
						alias[v], changed = true, true
					}
					// ... or loaded from a local variable an alias was stored in
					if a, isAlloc := x.X.(*ssa.Alloc); isAlloc && x.Op == token.MUL && localHolds[a] {
						alias[v], changed = true, true
					}
				case *ssa.Extract:
					if alias[x.Tuple] && isSharedStorage(x.Type()) {
						alias[v], changed = true, true
					}
				}
			}
		}
	}
	ownIndex := func(v ssa.Value) bool {
		return anyOrigin(v, func(o ssa.Value) bool {
			p, ok := o.(*ssa.Parameter)
			return ok && own[p]
		})
	}
	for _, b := range f.Blocks {
		for _, ins := range b.Instrs {
			switch x := ins.(type) {
			case *ssa.Store:
				if x.Addr == param {
					continue // an assignment to the captured variable itself: the captured-variable rule's business
				}
				if alias[x.Addr] {
					if ia, ok := x.Addr.(*ssa.IndexAddr); ok && ownIndex(ia.Index) {
						continue // the goroutine's own element
					}
					return ins
				}
			case *ssa.MapUpdate:
				if alias[x.Map] {
					return ins
				}
			case ssa.CallInstruction:
				com := x.Common()
				if bi, ok := com.Value.(*ssa.Builtin); ok {
					if (bi.Name() == "append" || bi.Name() == "copy" || bi.Name() == "delete" || bi.Name() == "clear") && len(com.Args) > 0 && alias[com.Args[0]] {
						return ins
					}
					continue
				}
				cal := com.StaticCallee()
				if cal == nil {
					continue
				}
				for i, a := range com.Args {
					if !alias[a] {
						continue
					}
					if inPlaceMutators[cal.String()] && i == 0 {
						return ins
					}
					if inRepo(cal) && !seen[cal] && i < len(cal.Params) {
						seen[cal] = true
						if w := writesThrough(cal.Params[i], cal, map[*ssa.Parameter]bool{}, d+1, seen); w != nil {
							return w
						}
					}
				}
			}
		}
	}
	return nil
}

// anyOrigin: some value v is computed from satisfies pred (through arithmetic, conversions, loads of locals and fields).
func anyOrigin(v ssa.Value, pred func(ssa.Value) bool) bool {
	seen := map[ssa.Value]bool{}
	var walk func(v ssa.Value, d int) bool
	walk = func(v ssa.Value, d int) bool {
		if v == nil || seen[v] || d > 10 {
			return false
		}
		seen[v] = true
		if pred(v) {
			return true
		}
		switch x := v.(type) {
		case *ssa.BinOp:
			return walk(x.X, d+1) || walk(x.Y, d+1)
		case *ssa.UnOp:
			return walk(x.X, d+1)
		case *ssa.Convert:
			return walk(x.X, d+1)
		case *ssa.ChangeType:
			return walk(x.X, d+1)
		case *ssa.Field:
			return walk(x.X, d+1)
		case *ssa.FieldAddr:
			return walk(x.X, d+1)
		case *ssa.Phi:
			for _, e := range x.Edges {
				if walk(e, d+1) {
					return true
				}
			}
		case *ssa.Alloc:
			for _, r := range *x.Referrers() {
				if st, ok := r.(*ssa.Store); ok && st.Addr == x && walk(st.Val, d+1) {
					return true
				}
			}
		}
		return false
	}
	return walk(v, 0)
}

var _ = core.Undecided

// checkNoWritesThroughSharedResults: a function that returns a reference (map, slice, pointer) to package-level
// storage - a table built once and handed to every caller - hands out shared mutable state. No caller may write
// through what it is given (map update, element store, append/copy/delete, in-place sort): the write is seen by every
// later caller (and by other goroutines). Caching a table is fine; writing into the cached table is not.
func checkNoWritesThroughSharedResults(c *core.Ctx, key string, p *progFacts) int {
	shared := map[*ssa.Function]*ssa.Global{}
	for _, f := range p.funcs {
		if f.Parent() != nil || f.Pkg == nil || c.RelOf(f.Pkg.Pkg) == "" {
			continue
		}
		for _, b := range f.Blocks {
			for _, ins := range b.Instrs {
				ret, ok := ins.(*ssa.Return)
				if !ok {
					continue
				}
				for _, r := range ret.Results {
					if !isSharedStorage(r.Type()) {
						continue
					}
					for _, o := range origins(r) {
						if u, ok := o.(*ssa.UnOp); ok && u.Op == token.MUL {
							if g, ok := u.X.(*ssa.Global); ok && g.Pkg != nil && c.RelOf(g.Pkg.Pkg) != "" {
								shared[f] = g
							}
						}
						if g, ok := o.(*ssa.Global); ok && g.Pkg != nil && c.RelOf(g.Pkg.Pkg) != "" {
							shared[f] = g
						}
					}
				}
			}
		}
	}
	n := 0
	var bad []string
	var pos token.Pos
	var fs []*ssa.Function
	for f := range shared {
		fs = append(fs, f)
	}
	sort.Slice(fs, func(i, j int) bool { return fs[i].Pos() < fs[j].Pos() })
	for _, f := range fs {
		for _, site := range p.callers[f] {
			v := site.Value()
			if v == nil {
				continue
			}
			n++
			g := site.Parent()
			roots := []ssa.Value{v}
			if refs := v.Referrers(); refs != nil {
				for _, r := range *refs {
					if ex, ok := r.(*ssa.Extract); ok {
						roots = append(roots, ex)
					}
				}
			}
			for _, root := range roots {
				if w := writesThrough(root, g, map[*ssa.Parameter]bool{}, 0, map[*ssa.Function]bool{}); w != nil {
					bad = append(bad, fmt.Sprintf("%s: %s returns package-level storage (%s); %s writes through it at %s (%s)", c.PosStr(site.Pos()), fnKey(f), shared[f].Name(), fnKey(g), c.PosStr(w.Pos()), w.String()))
					pos = w.Pos()
				}
			}
		}
	}
	sort.Strings(bad)
	c.Ob(key, len(bad) == 0, pos, "%s", first(uniqStrings(bad), 3))
	return n
}
