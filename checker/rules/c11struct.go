package rules

import (
	"go/ast"
	"go/constant"
	"go/token"
	"go/types"
	"sort"
	"strings"

	"golang.org/x/tools/go/ssa"

	"gofasta-verif/core"
)

// inspectBinary reports integer literals compared for (in)equality with an indexed value.
// inspectBinary visits every ==/!= comparison of a byte-typed operand (variable or element) with an
// integer constant expression (a literal, a named constant, a conversion of either), by value.
func inspectBinary(file *ast.File, all []*ast.File, info *types.Info, visit func(pos token.Pos, val int64)) {
	ast.Inspect(file, func(n ast.Node) bool {
		be, ok := n.(*ast.BinaryExpr)
		if !ok || (be.Op != token.EQL && be.Op != token.NEQ) {
			return true
		}
		for _, pair := range [][2]ast.Expr{{be.X, be.Y}, {be.Y, be.X}} {
			tv, ok := info.Types[pair[1]]
			if !ok || tv.Value == nil || tv.Value.Kind() != constant.Int {
				continue
			}
			if otv, ok := info.Types[pair[0]]; !ok || otv.Value != nil {
				continue
			} else if b, isBasic := otv.Type.Underlying().(*types.Basic); !isBasic || b.Kind() != types.Uint8 {
				continue
			}
			if isCharConst(all, info, pair[1]) {
				continue // a text character, not a nucleotide code
			}
			switch unparenExpr(pair[0]).(type) {
			case *ast.IndexExpr, *ast.Ident:
				if v, exact := constant.Int64Val(tv.Value); exact {
					visit(pair[1].Pos(), v)
				}
			}
		}
		return true
	})
}

// isCharConst: a character literal, or a constant declared as one (conversions looked through).
func isCharConst(files []*ast.File, info *types.Info, e ast.Expr) bool {
	e = unparenExpr(e)
	switch e := e.(type) {
	case *ast.BasicLit:
		return e.Kind == token.CHAR
	case *ast.CallExpr: // byte('x')
		if len(e.Args) == 1 {
			if tv, ok := info.Types[e.Fun]; ok && tv.IsType() {
				return isCharConst(files, info, e.Args[0])
			}
		}
	case *ast.Ident:
		k, ok := info.Uses[e].(*types.Const)
		if !ok {
			return false
		}
		found := false
		for _, file := range files {
			ast.Inspect(file, func(n ast.Node) bool {
				vs, ok := n.(*ast.ValueSpec)
				if !ok {
					return true
				}
				for i, name := range vs.Names {
					if info.Defs[name] == k && i < len(vs.Values) {
						found = isCharConst(files, info, vs.Values[i])
					}
				}
				return true
			})
		}
		return found
	}
	return false
}

func unparenExpr(e ast.Expr) ast.Expr {
	for {
		p, ok := e.(*ast.ParenExpr)
		if !ok {
			return e
		}
		e = p.X
	}
}

// callsToDeep: calls of a function of that name made by f or by the repository functions it calls (three levels):
// the fact "this path uses X" does not depend on which helper the call sits in.
func callsToDeep(f *ssa.Function, name string) []ssa.CallInstruction {
	reach := map[*ssa.Function]bool{}
	calleesOf(f, 3, reach)
	reach[f] = true
	var fs []*ssa.Function
	for g := range reach {
		if g.Pkg != nil && strings.HasPrefix(g.Pkg.Pkg.Path(), core.ModPath) {
			fs = append(fs, g)
		}
	}
	sort.Slice(fs, func(i, j int) bool { return fs[i].String() < fs[j].String() })
	var out []ssa.CallInstruction
	seen := map[ssa.Instruction]bool{}
	for _, g := range fs {
		for _, call := range callsTo(g, name) {
			if !seen[call] {
				seen[call] = true
				out = append(out, call)
			}
		}
	}
	return out
}

func callsTo(f *ssa.Function, name string) []ssa.CallInstruction {
	var out []ssa.CallInstruction
	allInstrs(f, func(fn *ssa.Function, ins ssa.Instruction) {
		if call, ok := ins.(ssa.CallInstruction); ok {
			if cal := call.Common().StaticCallee(); cal != nil && cal.Name() == name {
				out = append(out, call)
			}
		}
	})
	return out
}

// c11Structure: the two paths funnel into the same functions.
func c11Structure(c *core.Ctx) {
	for _, w := range []struct{ pkg, name string }{{"pkg/sam", "getVariantsSam"}, {"pkg/variants", "getVariants"}} {
		f := c.SSAFunc(w.pkg, w.name)
		if f == nil {
			c.Und("R2/shared-caller/"+w.name, token.NoPos, "UNRESOLVED anchor")
			continue
		}
		calls := callsToDeep(f, "GetVariantsPair")
		ok := len(calls) >= 1 && calls[0].Common().StaticCallee().Pkg.Pkg.Name() == "variants"
		c.Ob("R2/shared-caller/"+w.name, ok, f.Pos(), "%s must obtain its mutations from variants.GetVariantsPair (found %d calls)", w.name, len(calls))
	}
	if f := c.SSAFunc("pkg/sam", "getVariantsSam"); f != nil {
		c.Ob("R2/offsets-from-GetMSAOffsets/getVariantsSam", len(callsToDeep(f, "GetMSAOffsets")) >= 1, f.Pos(), "the SAM path must derive its offset tables with variants.GetMSAOffsets from the reference row")
		c.Ob("R2/soft-gap-encoding/getVariantsSam", len(callsToDeep(f, "MakeEncodingArray")) >= 1 && len(callsToDeep(f, "MakeEncodingArrayHardGaps")) == 0, f.Pos(), "the SAM path must encode its rows with the soft-gap table the FASTA reader uses")
	}
	if f := c.SSAFunc("pkg/variants", "Variants"); f != nil {
		c.Ob("R2/offsets-from-GetMSAOffsets/Variants", len(callsToDeep(f, "GetMSAOffsets")) >= 1, f.Pos(), "the FASTA path must derive its offset tables with GetMSAOffsets")
		// the reader is started with hardGaps = false
		okFlag := false
		for _, call := range callsToDeep(f, "ReadEncodeAlignment") {
			for _, a := range call.Common().Args {
				if k, ok := a.(*ssa.Const); ok && k.Value != nil && k.Value.Kind() == constant.Bool && !constant.BoolVal(k.Value) {
					okFlag = true
				}
			}
		}
		c.Ob("R2/soft-gap-encoding/Variants", okFlag, f.Pos(), "variants must read the alignment with soft gaps (hardGaps=false)")
	}
	if f := c.SSAFunc("pkg/sam", "Variants"); f != nil {
		ok := false
		for _, call := range callsToDeep(f, currentName(c, "pkg/sam", "blockToPairwiseAlignment")) {
			args := call.Common().Args
			if k, isC := args[len(args)-1].(*ssa.Const); isC && k.Value != nil && !constant.BoolVal(k.Value) {
				ok = true
			}
		}
		c.Ob("R3/rows-from-toPairAlign-routine", ok, f.Pos(), "sam variants must build its rows with blockToPairwiseAlignment keeping insertions (omitIns=false), the routine toPairAlign writes from")
	}
	for _, e := range []struct{ pkg, name string }{{"pkg/sam", "Variants"}, {"pkg/variants", "Variants"}} {
		f := c.SSAFunc(e.pkg, e.name)
		if f == nil {
			c.Und("R1/shared-writers/"+e.pkg, token.NoPos, "UNRESOLVED anchor")
			continue
		}
		w1, w2 := callsTo(f, "WriteVariants"), callsTo(f, "AggregateWriteVariants")
		c.Ob("R1/shared-writers/"+e.pkg, len(w1) == 1 && len(w2) == 1, f.Pos(), "both entry points must hand results to variants.WriteVariants / AggregateWriteVariants (found %d / %d)", len(w1), len(w2))
		// the position window, the append-snps switch and the threshold reach the writers exactly as the user gave them
		for _, call := range append(w1, w2...) {
			cal := call.Common().StaticCallee()
			for i, prm := range cal.Params {
				switch prm.Name() {
				case "start", "end", "appendSNP", "threshold":
					arg := call.Common().Args[i]
					isParam := allOrigins(arg, func(o ssa.Value) bool {
						p, ok := o.(*ssa.Parameter)
						return ok && p.Name() == prm.Name()
					})
					c.Ob("R1/options-reach-writers-unchanged/"+e.pkg+"/"+cal.Name()+"/"+prm.Name(), isParam, call.Pos(),
						"%s passes %s to %s as %s, not as the caller's own %s parameter: the two commands would treat the same option differently", e.name, prm.Name(), cal.Name(), arg.Name(), prm.Name())
				}
			}
		}
	}
}
