package rules

import (
	"fmt"
	"go/constant"
	"go/token"
	"go/types"
	"sort"

	"golang.org/x/tools/go/ssa"

	"gofasta-verif/core"
)

// checkCloseDiscipline: in a pipeline entry point, a data channel C is closed when a completion token arrives
// on a channel D. The token must stand for the goroutines that send on C: either D is signalled by a goroutine
// that waits on a WaitGroup W and every goroutine started here that can send on C calls W.Done(), or the token
// is sent by the very goroutine that sends on C. Otherwise C can be closed while a sender still holds an item
// (send on closed channel, or rows missing) depending on scheduling.
func checkCloseDiscipline(c *core.Ctx, p *progFacts, rule string, f *ssa.Function) int {
	type goStmt struct {
		ins    *ssa.Go
		target *ssa.Function
		reach  map[*ssa.Function]bool
		done   map[*ssa.Alloc]bool
		wait   map[*ssa.Alloc]bool
	}
	var goArgs []ssa.Value // arguments of the go statement being examined (for helpers taking the WaitGroup as a parameter)
	wgOf := func(fn *ssa.Function, v ssa.Value) *ssa.Alloc {
		// the WaitGroup a Done/Wait call acts on: a captured local of f (binding of the closure), f's own local,
		// or a parameter of a helper started with `go helper(&wg, ...)`
		switch x := v.(type) {
		case *ssa.Alloc:
			return x
		case *ssa.Parameter:
			for i, prm := range fn.Params {
				if prm == x && i < len(goArgs) {
					if a, ok := goArgs[i].(*ssa.Alloc); ok {
						return a
					}
				}
			}
		case *ssa.FreeVar:
			for i, fv := range fn.FreeVars {
				if fv != x {
					continue
				}
				for _, mc := range p.closure[fn] {
					if i < len(mc.Bindings) {
						if a, ok := mc.Bindings[i].(*ssa.Alloc); ok {
							return a
						}
					}
				}
			}
		}
		return nil
	}
	var gos []*goStmt
	for _, b := range f.Blocks {
		for _, ins := range b.Instrs {
			g, ok := ins.(*ssa.Go)
			if !ok {
				continue
			}
			gs := &goStmt{ins: g, reach: map[*ssa.Function]bool{}, done: map[*ssa.Alloc]bool{}, wait: map[*ssa.Alloc]bool{}}
			if cal := g.Common().StaticCallee(); cal != nil {
				gs.target = cal
			} else if mc, ok := g.Common().Value.(*ssa.MakeClosure); ok {
				gs.target, _ = mc.Fn.(*ssa.Function)
			}
			if gs.target == nil {
				continue
			}
			goArgs = g.Common().Args
			calleesOf(gs.target, 4, gs.reach)
			for _, tb := range gs.target.Blocks {
				for _, ti := range tb.Instrs {
					call, ok := ti.(ssa.CallInstruction)
					if !ok {
						continue
					}
					cal := call.Common().StaticCallee()
					if cal == nil || len(call.Common().Args) == 0 {
						continue
					}
					switch cal.String() {
					case "(*sync.WaitGroup).Done":
						if w := wgOf(gs.target, call.Common().Args[0]); w != nil {
							gs.done[w] = true
						}
					case "(*sync.WaitGroup).Wait":
						if w := wgOf(gs.target, call.Common().Args[0]); w != nil {
							gs.wait[w] = true
						}
					}
				}
			}
			gos = append(gos, gs)
		}
	}
	// D -> W for goroutines of the form { W.Wait(); D <- token }
	signal := map[*ssa.MakeChan]*ssa.Alloc{}
	for _, gs := range gos {
		if len(gs.wait) != 1 {
			continue
		}
		var w *ssa.Alloc
		for a := range gs.wait {
			w = a
		}
		for _, tb := range gs.target.Blocks {
			for _, ti := range tb.Instrs {
				// the completion signal: a token sent on D, or D closed (also by a deferred close)
				var ch ssa.Value
				if s, ok := ti.(*ssa.Send); ok {
					ch = s.Chan
				} else if ci, ok := ti.(ssa.CallInstruction); ok {
					if bi, ok := ci.Common().Value.(*ssa.Builtin); ok && bi.Name() == "close" && len(ci.Common().Args) == 1 {
						ch = ci.Common().Args[0]
					}
				}
				if ch != nil {
					// a helper started as `go helper(&wg, done)`: the channel is this go statement's argument
					if prm, ok := ch.(*ssa.Parameter); ok {
						for i, fp := range gs.target.Params {
							if fp == prm && i < len(gs.ins.Common().Args) {
								ch = gs.ins.Common().Args[i]
							}
						}
					}
					for _, mc := range p.chanSources(ch) {
						signal[mc] = w
					}
				}
			}
		}
	}
	allocName := func(a *ssa.Alloc) string {
		if a == nil {
			return "?"
		}
		if a.Comment != "" {
			return a.Comment
		}
		return a.Name()
	}
	chanName := func(mc *ssa.MakeChan) string {
		// the variable the channel is stored into / named after
		for _, r := range *mc.Referrers() {
			if st, ok := r.(*ssa.Store); ok {
				if a, ok := st.Addr.(*ssa.Alloc); ok && a.Comment != "" {
					return a.Comment
				}
			}
			if dr, ok := r.(*ssa.DebugRef); ok {
				return fmt.Sprint(dr.Expr)
			}
		}
		return c.PosStr(mc.Pos())
	}
	n := 0
	var bad []string
	var badPos token.Pos
	for _, b := range f.Blocks {
		for _, ins := range b.Instrs {
			call, ok := ins.(*ssa.Call)
			if !ok {
				continue
			}
			bi, ok := call.Common().Value.(*ssa.Builtin)
			if !ok || bi.Name() != "close" {
				continue
			}
			cs := p.chanSources(call.Common().Args[0])
			if len(cs) != 1 {
				continue
			}
			C := cs[0]
			// the receive that controls this close: the nearest one on the way back from the close along the dominator
			// chain - a select case whose taken branch leads here, a bare receive earlier in the same block, or a call of a
			// helper that waits on a completion channel handed to it (`if err := waitFor(done, cErr); err != nil { return err }`)
			var D *ssa.MakeChan
			helperWait := func(ci *ssa.Call) *ssa.MakeChan {
				cal := ci.Common().StaticCallee()
				if cal == nil || !inRepo(cal) {
					return nil
				}
				for k, prm := range cal.Params {
					ch, ok := prm.Type().Underlying().(*types.Chan)
					if !ok || isErrorType(ch.Elem()) || k >= len(ci.Common().Args) {
						continue
					}
					receives := false
					allInstrs(cal, func(_ *ssa.Function, in ssa.Instruction) {
						switch x := in.(type) {
						case *ssa.UnOp:
							if x.Op == token.ARROW && x.X == ssa.Value(prm) {
								receives = true
							}
						case *ssa.Select:
							for _, st := range x.States {
								if st.Dir == types.RecvOnly && st.Chan == ssa.Value(prm) {
									receives = true
								}
							}
						}
					})
					if receives {
						if ds := p.chanSources(ci.Common().Args[k]); len(ds) == 1 {
							return ds[0]
						}
					}
				}
				return nil
			}
			for blk, first := b, true; blk != nil && D == nil; blk, first = blk.Idom(), false {
				end := len(blk.Instrs)
				if first {
					for k, pi := range blk.Instrs {
						if pi == ins {
							end = k
						}
					}
				} else if end > 0 {
					// a select case whose branch dominates the close
					if iff, ok := blk.Instrs[end-1].(*ssa.If); ok {
						if cond, ok := iff.Cond.(*ssa.BinOp); ok && cond.Op == token.EQL {
							ex, ok1 := cond.X.(*ssa.Extract)
							k, ok2 := cond.Y.(*ssa.Const)
							if ok1 && ok2 && ex.Index == 0 && k.Value != nil && k.Value.Kind() == constant.Int {
								if sel, ok := ex.Tuple.(*ssa.Select); ok && (blk.Succs[0] == b || blk.Succs[0].Dominates(b)) {
									idx, _ := constant.Int64Val(k.Value)
									if int(idx) < len(sel.States) && sel.States[idx].Dir == types.RecvOnly {
										if ds := p.chanSources(sel.States[idx].Chan); len(ds) == 1 {
											D = ds[0]
											break
										}
									}
								}
							}
						}
					}
				}
				for k := end - 1; k >= 0 && D == nil; k-- {
					switch x := blk.Instrs[k].(type) {
					case *ssa.UnOp:
						if first && x.Op == token.ARROW {
							if ds := p.chanSources(x.X); len(ds) == 1 {
								D = ds[0]
							}
						}
					case *ssa.Call:
						D = helperWait(x)
					}
				}
			}
			if D == nil {
				continue
			}
			n++
			w, viaWG := signal[D]
			dSenders := map[*ssa.Function]bool{}
			for _, s := range p.sendsOn(D) {
				dSenders[s.Parent()] = true
			}
			for _, g := range p.funcs { // closing D signals completion just as a token does
				for _, gb := range g.Blocks {
					for _, gi := range gb.Instrs {
						ci, ok := gi.(ssa.CallInstruction)
						if !ok {
							continue
						}
						if bi, ok := ci.Common().Value.(*ssa.Builtin); ok && bi.Name() == "close" && len(ci.Common().Args) == 1 {
							for _, src := range p.chanSources(ci.Common().Args[0]) {
								if src == D {
									dSenders[g] = true
								}
							}
						}
					}
				}
			}
			for _, s := range p.sendsOn(C) {
				for _, gs := range gos {
					if !gs.reach[s.Parent()] {
						continue
					}
					if viaWG {
						if !gs.done[w] {
							bad = append(bad, fmt.Sprintf("%s: %s is closed when %s arrives, which reports WaitGroup %s; the goroutine started at %s sends on %s but does not belong to that group", c.PosStr(call.Pos()), chanName(C), chanName(D), allocName(w), c.PosStr(gs.ins.Pos()), chanName(C)))
							badPos = call.Pos()
						}
						continue
					}
					same := false
					for fn := range dSenders {
						if gs.reach[fn] {
							same = true
						}
					}
					if !same {
						bad = append(bad, fmt.Sprintf("%s: %s is closed when %s arrives, but the goroutine started at %s that sends on %s never sends that token", c.PosStr(call.Pos()), chanName(C), chanName(D), c.PosStr(gs.ins.Pos()), chanName(C)))
						badPos = call.Pos()
					}
				}
			}
		}
	}
	sort.Strings(bad)
	bad = uniqStrings(bad)
	if n > 0 {
		c.Ob(rule+"/close-after-senders-done/"+fnKey(f), len(bad) == 0, badPos, "%s", first(bad, 3))
	}
	return n
}

func uniqStrings(ss []string) []string {
	var out []string
	for i, s := range ss {
		if i == 0 || s != ss[i-1] {
			out = append(out, s)
		}
	}
	return out
}
