package rules

import (
	"fmt"
	"go/token"
	"go/types"
	"strings"

	"gofasta-verif/core"
	"gofasta-verif/eval"
)

// checkWorkersStateless (C12): which worker of a pool receives which records is decided by the scheduler, so
// what a worker emits for a record must not depend on the records it handled before, and an item it has
// already emitted must not change afterwards (shared backing arrays). Each pool worker is interpreted on a
// batch of records fed through ONE activation; the items, read after the whole batch, must equal the items
// of one-record runs. The interpreter implements Go's slice aliasing and append-in-place.
// only restricts the rule to the workers of the named packages ("pkg/updown", ...); none means every pool worker.
func checkWorkersStateless(c *core.Ctx, rule string, tabs *Tables, only ...string) int {
	in := func(pkg string) bool { return len(only) == 0 || containsStr(only, pkg) }
	n := 0
	recT := namedType(c, "pkg/fastaio", "EncodedFastaRecord")
	enc := func(s string) eval.Value {
		vs := make([]eval.Value, len(s))
		for i := 0; i < len(s); i++ {
			vs[i] = eval.K(tabs.Soft[s[i]])
		}
		return eval.NewSlice(vs...)
	}
	ref := "TGCATG"
	seqs := []string{"AGCATG", "TGCATG", "CANNTA", "TTTTTT", "NGCA-G", "ACGTAC", "TGCAAA"}
	mkRec := func(i int) eval.Value {
		r := absValue(recT, "r", eval.K(int64(len(ref)))).(*eval.StructVal)
		r.F["ID"] = eval.S(fmt.Sprintf("s%d", i))
		r.F["Description"] = eval.S(fmt.Sprintf("s%d", i))
		r.F["Idx"] = eval.K(int64(i))
		r.F["Seq"] = enc(seqs[i])
		return r
	}
	for _, w := range []struct{ pkg, name string }{{"pkg/snps", "getSNPs"}, {"pkg/updown", "getLines"}} {
		if !in(w.pkg) {
			continue
		}
		fn := c.LookupFunc(w.pkg, w.name)
		key := rule + "/" + strings.TrimPrefix(w.pkg, "pkg/") + "." + w.name + "/no-state-between-records"
		if fn == nil || recT == nil {
			c.Und(key, token.NoPos, "UNRESOLVED anchor %s.%s", w.pkg, w.name)
			continue
		}
		run := func(idx []int) ([]string, error) {
			ev := newEval(c)
			var feed []eval.Value
			for _, i := range idx {
				feed = append(feed, mkRec(i))
			}
			sig := fn.Type().(*types.Signature)
			var args []eval.Value
			var out, errs *eval.ChanVal
			for k := 0; k < sig.Params().Len(); k++ {
				switch t := sig.Params().At(k).Type().Underlying().(type) {
				case *types.Slice:
					args = append(args, enc(ref))
				case *types.Chan:
					switch {
					case types.Identical(t.Elem(), recT):
						args = append(args, &eval.ChanVal{Name: "in", Feed: feed})
					case types.Identical(t.Elem(), types.Universe.Lookup("error").Type()):
						errs = &eval.ChanVal{Name: "err"}
						args = append(args, errs)
					default:
						out = &eval.ChanVal{Name: "out"}
						args = append(args, out)
					}
				default:
					return nil, fmt.Errorf("unexpected parameter %s", sig.Params().At(k).Name())
				}
			}
			if _, err := ev.CallFuncBound(fn, args...); err != nil {
				return nil, err
			}
			if out == nil || (errs != nil && len(errs.Sent) > 0) || len(out.Sent) != len(idx) {
				return nil, fmt.Errorf("%d items for %d records", len(out.Sent), len(idx))
			}
			var items []string
			for _, v := range out.Sent { // read after the whole batch
				items = append(items, eval.Show(v))
			}
			return items, nil
		}
		n++
		var bad []string
		for _, batch := range [][]int{{0, 1, 2, 3, 4, 5, 6}, {3, 2, 1, 0}, {5, 5, 1, 4}, {2, 6, 0}} {
			got, err := run(batch)
			if err != nil {
				c.Und(key, fn.Pos(), "cannot evaluate a batch: %v", err)
				bad = nil
				break
			}
			for k, i := range batch {
				alone, err := run([]int{i})
				if err != nil {
					c.Und(key, fn.Pos(), "cannot evaluate a record: %v", err)
					continue
				}
				if got[k] != alone[0] {
					bad = append(bad, fmt.Sprintf("record %s (%s vs reference %s) as item %d of batch %v gives %s; handled alone it gives %s", fmt.Sprintf("s%d", i), seqs[i], ref, k, batch, firstN(got[k], 160), firstN(alone[0], 160)))
				}
			}
		}
		c.Ob(key, len(bad) == 0, fn.Pos(), "%s", first(bad, 2))
	}
	if in("pkg/variants") {
		n++
		checkFastaWorkerStateless(c, tabs, rule)
	}
	// the sam workers
	if in("pkg/sam") {
		n += 3
		checkSamWorkerStateless(c, tabs, rule)
		c02WorkerBatches(c, rule+"/sam.blockToPairwiseAlignment")
		c01WorkerBatches(c, rule+"/sam.blockToFastaRecord")
	}
	return n
}
