package rules

import (
	"fmt"
	"go/token"
	"sort"
	"strings"

	"gofasta-verif/core"
	"gofasta-verif/eval"
	"gofasta-verif/oracle"
)

// regionSpec is the checker's own description of a coding feature.
type regionSpec struct {
	Name      string
	Positions []int // 1-based ungapped reference positions in coding order
	Strand    int
}

func compBase(b byte) byte {
	s, ok := oracle.BaseSet(b, false)
	if !ok || b == '-' || b == '?' {
		return b
	}
	return oracle.CodeOfSet(oracle.CompSet(s))
}

func translateCodon(cod string) (byte, bool) {
	for i := 0; i < 3; i++ {
		if _, ok := oracle.IUPAC[cod[i]]; !ok {
			return 0, false
		}
	}
	return oracle.TranslateIUPAC(cod)
}

// pairSpec computes the specified mutation set of a gapped (reference row, query row) pair.
type pairSpec struct {
	indels   []string
	snps     map[string]bool // "nuc:RpQ" for every certainly-different reference position
	aa       map[string][]string
	aaList   []string // "aa:feature:RkQ"
	refBases string
}

func specPair(refRow, qryRow string, regions []regionSpec) pairSpec {
	var ps pairSpec
	ps.snps = map[string]bool{}
	ps.aa = map[string][]string{}
	// drop columns that are gaps in both rows: they carry no information about this pair
	var r, q []byte
	for i := 0; i < len(refRow); i++ {
		if refRow[i] == '-' && qryRow[i] == '-' {
			continue
		}
		r = append(r, refRow[i])
		q = append(q, qryRow[i])
	}
	nref := 0
	for _, b := range r {
		if b != '-' {
			nref++
		}
	}
	colOf := make([]int, nref+1)
	p := 0
	for i, b := range r {
		if b != '-' {
			p++
			colOf[p] = i
		}
	}
	// indels, as the property states them. Insertions: maximal runs of columns the reference row has no base in,
	// reported with the number of reference bases to their left. Deletions: maximal runs of CONSECUTIVE REFERENCE
	// POSITIONS absent from the query ("reference bases P..P+L-1 are absent ... in ungapped reference coordinates"):
	// bases the query inserts between two deleted reference bases do not make them two deletions.
	left := 0 // reference bases to the left of column i
	for i := 0; i < len(r); {
		if r[i] != '-' {
			left++
			i++
			continue
		}
		j := i
		for j < len(r) && r[j] == '-' {
			j++
		}
		ps.indels = append(ps.indels, fmt.Sprintf("ins:%d:%d", left, j-i))
		i = j
	}
	for p := 1; p <= nref; {
		if q[colOf[p]] != '-' {
			p++
			continue
		}
		e := p
		for e+1 <= nref && q[colOf[e+1]] == '-' {
			e++
		}
		if p != 1 && e != nref {
			ps.indels = append(ps.indels, fmt.Sprintf("del:%d:%d", p, e-p+1))
		}
		p = e + 1
	}
	// SNPs
	for p := 1; p <= nref; p++ {
		rb, qb := r[colOf[p]], q[colOf[p]]
		if disjoint(rb, qb, false) {
			ps.snps[fmt.Sprintf("nuc:%c%d%c", upper(rb), p, upper(qb))] = true
		}
	}
	// amino acids
	for _, reg := range regions {
		if reg.Name == "" {
			continue
		}
		for k := 0; k+2 < len(reg.Positions); k += 3 {
			var rc, qc [3]byte
			var snps []string
			for t := 0; t < 3; t++ {
				p := reg.Positions[k+t]
				rb, qb := upper(r[colOf[p]]), upper(q[colOf[p]])
				if disjoint(rb, qb, false) {
					snps = append(snps, fmt.Sprintf("nuc:%c%d%c", rb, p, qb))
				}
				if reg.Strand == -1 {
					rb, qb = compBase(rb), compBase(qb)
				}
				rc[t], qc[t] = rb, qb
			}
			R, okR := translateCodon(string(rc[:]))
			Q, okQ := translateCodon(string(qc[:]))
			if okR && okQ && Q != R {
				key := fmt.Sprintf("aa:%s:%c%d%c", reg.Name, R, k/3+1, Q)
				ps.aaList = append(ps.aaList, key)
				ps.aa[key] = snps
			}
		}
	}
	sort.Strings(ps.aaList)
	return ps
}

// ---------------------------------------------------------------- building evaluator inputs

func mkRegion(c *core.Ctx, r regionSpec, refUngapped string) *eval.StructVal {
	rt := namedType(c, "pkg/variants", "Region")
	v := absValue(rt, "reg", eval.K(0)).(*eval.StructVal)
	v.F["Whichtype"] = eval.S("protein-coding")
	v.F["Name"] = eval.S(r.Name)
	lo, hi := 1<<30, 0
	ps := make([]eval.Value, len(r.Positions))
	var tr strings.Builder
	for i, p := range r.Positions {
		ps[i] = eval.K(int64(p))
		if p < lo {
			lo = p
		}
		if p > hi {
			hi = p
		}
	}
	for k := 0; k+2 < len(r.Positions); k += 3 {
		var cod [3]byte
		for t := 0; t < 3; t++ {
			b := refUngapped[r.Positions[k+t]-1]
			if r.Strand == -1 {
				b = compBase(b)
			}
			cod[t] = b
		}
		aa, ok := translateCodon(string(cod[:]))
		if !ok {
			aa = 'X'
		}
		tr.WriteByte(aa)
	}
	v.F["Start"] = eval.K(int64(lo))
	v.F["Stop"] = eval.K(int64(hi))
	v.F["Strand"] = eval.K(int64(r.Strand))
	v.F["Positions"] = eval.NewSlice(ps...)
	v.F["Translation"] = eval.S(tr.String())
	return v
}

func intergenic(regions []regionSpec, n int) []int {
	coding := map[int]bool{}
	for _, r := range regions {
		for _, p := range r.Positions {
			coding[p] = true
		}
	}
	var out []int
	for p := 1; p <= n; p++ {
		if !coding[p] {
			out = append(out, p)
		}
	}
	return out
}

func encodeRow(tabs *Tables, s string) eval.Value {
	vs := make([]eval.Value, len(s))
	for i := 0; i < len(s); i++ {
		vs[i] = eval.K(tabs.Soft[s[i]])
	}
	return eval.NewSlice(vs...)
}

// variantsOut is the checker's view of an AnnoStructs value.
type variantsOut struct {
	indels []string
	nucs   []string // standalone nuc records
	aas    []string // aa:feature:RkQ
	aaSNPs map[string]string
	all    []string
	raw    string
	name   string
	idx    int64
}

func readAnno(v eval.Value) (variantsOut, error) {
	var o variantsOut
	o.aaSNPs = map[string]string{}
	sv, ok := v.(*eval.StructVal)
	if !ok {
		return o, fmt.Errorf("not an AnnoStructs value: %s", eval.Show(v))
	}
	o.raw = eval.Show(sv.F["Vs"])
	if s, ok := sv.F["Queryname"].(eval.Str); ok {
		o.name = s.Const()
	}
	o.idx, _ = linConst(sv.F["Idx"])
	vs, ok := sv.F["Vs"].(eval.Slice)
	if !ok {
		return o, fmt.Errorf("variant list is not concrete")
	}
	for _, e := range vs.Elems() {
		x := e.(*eval.StructVal)
		kind := x.F["Changetype"].(eval.Str).Const()
		pos, _ := linConst(x.F["Position"])
		ln, _ := linConst(x.F["Length"])
		res, _ := linConst(x.F["Residue"])
		ra := x.F["RefAl"].(eval.Str).Const()
		qa := x.F["QueAl"].(eval.Str).Const()
		var rep string
		switch kind {
		case "ins", "del":
			rep = fmt.Sprintf("%s:%d:%d", kind, pos, ln)
			o.indels = append(o.indels, rep)
		case "nuc":
			rep = fmt.Sprintf("nuc:%s%d%s", ra, pos, qa)
			o.nucs = append(o.nucs, rep)
		case "aa":
			rep = fmt.Sprintf("aa:%s:%s%d%s", x.F["Feature"].(eval.Str).Const(), ra, res, qa)
			o.aas = append(o.aas, rep)
			o.aaSNPs[rep] = x.F["SNPs"].(eval.Str).Const()
		default:
			rep = "?" + kind
		}
		o.all = append(o.all, rep)
	}
	return o, nil
}

// evalVariantsPair interprets variants.GetVariantsPair on text rows.
func evalVariantsPair(c *core.Ctx, tabs *Tables, refRow, qryRow string, regions []regionSpec) (variantsOut, error) {
	return evalVariantsPairWith(c, tabs, refRow, qryRow, regions, nil)
}

var variantPairEvals int

// evalVariantsPairWith: preRegions, if given, are the (regions, intergenic) values returned by an interpreted constructor.
func evalVariantsPairWith(c *core.Ctx, tabs *Tables, refRow, qryRow string, regions []regionSpec, preRegions []eval.Value) (variantsOut, error) {
	fn := c.LookupFunc("pkg/variants", "GetVariantsPair")
	off := c.LookupFunc("pkg/variants", "GetMSAOffsets")
	if fn == nil || off == nil {
		return variantsOut{}, fmt.Errorf("UNRESOLVED variants.GetVariantsPair / GetMSAOffsets")
	}
	ungapped := strings.ReplaceAll(refRow, "-", "")
	ev := newEval(c)
	ov, err := ev.CallFunc(off, encodeRow(tabs, refRow))
	if err != nil {
		return variantsOut{}, err
	}
	ot := ov.(eval.Tuple)
	var regs []eval.Value
	for _, r := range regions {
		regs = append(regs, mkRegion(c, r, ungapped))
	}
	var inter []eval.Value
	for _, p := range intergenic(regions, len(ungapped)) {
		inter = append(inter, eval.K(int64(p)))
	}
	var regsV, interV eval.Value = eval.NewSlice(regs...), eval.NewSlice(inter...)
	if preRegions != nil {
		regsV, interV = preRegions[0], preRegions[1]
	}
	// the record's input index is irrelevant to its mutation list: the family alternates between the first record of a
	// file (index 0) and later ones
	variantPairEvals++
	idx := []int64{0, 3, 1}[variantPairEvals%3]
	v, err := ev.CallFunc(fn, encodeRow(tabs, refRow), encodeRow(tabs, qryRow), eval.S("ref"), eval.S("qry"), eval.K(idx),
		regsV, interV, ot[0], ot[1])
	if err != nil {
		return variantsOut{}, err
	}
	t, ok := v.(eval.Tuple)
	if !ok || len(t) != 2 {
		return variantsOut{}, fmt.Errorf("unexpected result")
	}
	if _, isErr := t[1].(eval.ErrVal); isErr {
		return variantsOut{}, fmt.Errorf("GetVariantsPair returned an error on a valid pair")
	}
	return readAnno(t[0])
}

// ---------------------------------------------------------------- the family of pairs

type pairCase struct {
	ref, qry string
	note     string
}

const variantRef = "ATGCCCAAATTA"

func variantRegionSets() [][]regionSpec {
	seqPos := func(a, b int) []int {
		var out []int
		if a <= b {
			for p := a; p <= b; p++ {
				out = append(out, p)
			}
		} else {
			for p := a; p >= b; p-- {
				out = append(out, p)
			}
		}
		return out
	}
	return [][]regionSpec{
		{{Name: "geneA", Positions: seqPos(1, 9), Strand: 1}},
		{{Name: "geneA", Positions: seqPos(1, 9), Strand: 1}, {Name: "geneR", Positions: seqPos(12, 7), Strand: -1}},
		{{Name: "geneJ", Positions: append(seqPos(1, 3), seqPos(7, 12)...), Strand: 1}},
		// overlapping products (a polyprotein, a frame-shifted ORF, a shorter product in the polyprotein's frame): one
		// position can be a bare nuc record for two of them and, between them in scanning order, an aa record for the third
		{{Name: "f0", Positions: seqPos(1, 12), Strand: 1}, {Name: "f1", Positions: seqPos(3, 11), Strand: 1}, {Name: "f0b", Positions: seqPos(1, 9), Strand: 1}},
	}
}

func variantPairs(tier string) []pairCase {
	ref := variantRef
	var out []pairCase
	out = append(out, pairCase{ref, ref, "identical"})
	// single-site changes
	for p := 0; p < len(ref); p++ {
		for _, alt := range []byte("ACGTNR-") {
			if alt == ref[p] {
				continue
			}
			q := []byte(ref)
			q[p] = alt
			out = append(out, pairCase{ref, string(q), fmt.Sprintf("site %d -> %c", p+1, alt)})
		}
	}
	// thorough: two changes at every pair of sites (same codon, neighbouring codons, far apart; bases, N and gaps)
	if tier == "thorough" {
		for i := 0; i < len(ref); i++ {
			for j := i + 1; j < len(ref); j++ {
				for _, a := range []byte("ACGTN-") {
					for _, b := range []byte("ACGTN-") {
						if a == ref[i] || b == ref[j] {
							continue
						}
						q := []byte(ref)
						q[i], q[j] = a, b
						out = append(out, pairCase{ref, string(q), fmt.Sprintf("sites %d -> %c and %d -> %c", i+1, a, j+1, b)})
					}
				}
			}
		}
	}
	// one change in a codon and another in the next codon (a premature stop followed by a further change among them)
	for p := 0; p+3 < len(ref); p++ {
		for _, d := range []int{3, 4, 5} {
			if p+d >= len(ref) {
				continue
			}
			for _, a := range []byte("TA") {
				if a == ref[p] {
					continue
				}
				b := byte('C')
				if ref[p+d] == 'C' {
					b = 'G'
				}
				q := []byte(ref)
				q[p], q[p+d] = a, b
				out = append(out, pairCase{ref, string(q), fmt.Sprintf("sites %d -> %c and %d -> %c", p+1, a, p+d+1, b)})
			}
		}
	}
	// two changes in one codon
	for _, pr := range [][2]int{{3, 4}, {6, 8}, {9, 10}} {
		q := []byte(ref)
		q[pr[0]] = 'T'
		q[pr[1]] = 'G'
		out = append(out, pairCase{ref, string(q), "two changes"})
	}
	// a real change plus, elsewhere in the same codon, an ambiguity code that is compatible with the reference:
	// the codon's translation is then ambiguous unless every expansion agrees
	for cs := 0; cs+2 < len(ref); cs += 3 {
		for _, lay := range [][2]int{{0, 2}, {0, 1}, {1, 2}, {2, 0}} {
			for _, amb := range []byte("NRYKMSW") {
				for _, alt := range []byte("ACGT") {
					if alt == ref[cs+lay[0]] {
						continue
					}
					if bs, _ := oracle.BaseSet(amb, false); bs&mustBaseSet(ref[cs+lay[1]]) == 0 {
						continue // not compatible with the reference base there
					}
					q := []byte(ref)
					q[cs+lay[0]] = alt
					q[cs+lay[1]] = amb
					out = append(out, pairCase{ref, string(q), fmt.Sprintf("codon at %d: %c at offset %d and compatible %c at offset %d", cs+1, alt, lay[0], amb, lay[1])})
				}
			}
		}
	}
	// deletions
	for s := 0; s < len(ref); s++ {
		for l := 1; l <= 3 && s+l <= len(ref); l++ {
			q := []byte(ref)
			for k := s; k < s+l; k++ {
				q[k] = '-'
			}
			out = append(out, pairCase{ref, string(q), fmt.Sprintf("deletion %d+%d", s+1, l)})
		}
	}
	// insertions: one and two runs, lengths 1..2, plus both-gap columns
	ins := func(after []int, lens []int, bothGap int) pairCase {
		var r, q []byte
		k := 0
		for p := 0; p <= len(ref); p++ {
			if bothGap == p {
				r = append(r, '-')
				q = append(q, '-')
			}
			for k < len(after) && after[k] == p {
				for t := 0; t < lens[k]; t++ {
					r = append(r, '-')
					q = append(q, "GT"[t%2])
				}
				k++
			}
			if p < len(ref) {
				r = append(r, ref[p])
				q = append(q, ref[p])
			}
		}
		return pairCase{string(r), string(q), fmt.Sprintf("insertions after %v lengths %v both-gap column at %d", after, lens, bothGap)}
	}
	for a := 0; a <= len(ref); a++ {
		for l := 1; l <= 2; l++ {
			out = append(out, ins([]int{a}, []int{l}, -1))
		}
	}
	step := 3
	if tier == "thorough" {
		step = 1
	}
	for a := 1; a < len(ref); a += step {
		for b := a + 1; b <= len(ref); b += step {
			out = append(out, ins([]int{a, b}, []int{1, 2}, -1))
			out = append(out, ins([]int{a, b}, []int{2, 1}, a))
		}
	}
	out = append(out, ins([]int{3}, []int{2}, 3), ins([]int{3}, []int{2}, 0), ins([]int{5}, []int{1}, 9))
	// an insertion (or a both-gap column) and, downstream of it, a single-site change: the alignment columns of
	// everything after the insertion are shifted against the reference coordinates
	{
		afters, lens, alts := []int{0, 3, 7}, []int{1, 2}, []byte("C")
		if tier == "thorough" {
			afters, lens, alts = []int{0, 1, 2, 3, 4, 5, 6, 7, 8, 9, 10, 11}, []int{1, 2, 3}, []byte("ACGTN")
		}
		for _, a := range afters {
			for _, l := range lens {
				for p := a; p < len(ref); p++ {
					for _, alt := range alts {
						if alt == ref[p] {
							alt = 'T'
							if ref[p] == 'T' {
								alt = 'A'
							}
						}
						var r, q []byte
						for k := 0; k <= len(ref); k++ {
							if k == a {
								for t := 0; t < l; t++ {
									r = append(r, '-')
									q = append(q, "GT"[t%2])
								}
							}
							if k < len(ref) {
								r = append(r, ref[k])
								if k == p {
									q = append(q, alt)
								} else {
									q = append(q, ref[k])
								}
							}
						}
						out = append(out, pairCase{string(r), string(q), fmt.Sprintf("insertion of %d after %d, site %d -> %c", l, a, p+1, alt)})
					}
				}
			}
		}
	}
	// insertion next to a deletion and a SNP
	out = append(out, pairCase{"ATG-CCCAAATTA", "ATGG--CAAATTA", "insertion then deletion"},
		pairCase{"ATGCCC-AAATTA", "ATGCCTGAAATTA", "SNP then insertion"},
		pairCase{"ATGCCCAAATTA--", "ATGCCCAAATTAGG", "insertion at the very end"},
		pairCase{"--ATGCCCAAATTA", "GGATGCCCAAATTA", "insertion before the first base"})
	// insertion, deleted reference base(s), insertion - no aligned base in between
	out = append(out,
		pairCase{"ATG-C-CCAAATTA", "ATGG-TCCAAATTA", "insertion, deletion of one base, insertion"},
		pairCase{"ATG--CC-CAAATTA", "ATGGT--ACAAATTA", "insertion of two, deletion of two, insertion"},
		pairCase{"ATGCCCAAA-T-TA", "ATGCCCAAAG-CTA", "insertion, deletion, insertion near the end"},
		pairCase{"-A-TGCCCAAATTA", "G-CTGCCCAAATTA", "insertion before base 1, deletion of base 1, insertion"})
	// inserted bases that are N or ?: they are query bases like any other (L counts them), only '-' is absent
	out = append(out,
		pairCase{"ATG----CCCAAATTA", "ATGACNTCCCAAATTA", "insertion of four with an N inside"},
		pairCase{"ATG----CCCAAATTA", "ATGNNCTCCCAAATTA", "insertion of four beginning with NN"},
		pairCase{"ATG--CCCAAATTA", "ATGNNCCCAAATTA", "insertion of NN"},
		pairCase{"ATG---CCCAAATTA", "ATGA?TCCCAAATTA", "insertion with a ? inside"},
		pairCase{"ATGCCCAAATTA--", "ATGCCCAAATTANN", "insertion of NN after the last base"})
	// deleted base(s), the query's own insertion, deleted base(s) - no aligned base in between: the reference bases
	// P..P+L-1 absent from the query are one run whatever the query inserts among them
	out = append(out,
		pairCase{"ATGC--CCAAATTA", "ATG-GT-CAAATTA", "deletion of base 4, insertion of two, deletion of base 5"},
		pairCase{"ATGCC-CAAATTA", "ATG--G-AAATTA", "deletion of two, insertion, deletion of one"},
		pairCase{"ATGCCCAAAT-TA", "ATGCCCAAA-G-A", "deletion, insertion, deletion near the end"},
		pairCase{"ATGCCCAAATTA--", "ATGCCCAAA---GG", "deletion reaching the last base, then an insertion after it"},
		pairCase{"ATGC-C-CAAATTA", "ATG-G-T-AAATTA", "deletion, insertion, deletion, insertion, deletion"})
	// a deletion that includes the first reference base is not reported - also when alignment columns precede it
	// (another sequence's or the query's own insertion before base 1)
	out = append(out,
		pairCase{"--ATGCCCAAATTA", "----GCCCAAATTA", "both-gap columns, then a deletion of the first two bases"},
		pairCase{"--ATGCCCAAATTA", "GG--GCCCAAATTA", "insertion before base 1, then a deletion of the first two bases"},
		pairCase{"-ATGCCCAAATTA", "--TGCCCAA-TTA", "both-gap column, deletion of the first base, deletion of base 9"},
		pairCase{"ATGCCCAAATT--A", "ATGCCCAAATTGG-", "insertion, then a deletion of the last base"},
		pairCase{"ATGCCCAAATTA--", "ATGCCCAAAT----", "deletion of the last two bases before trailing both-gap columns"})
	// a deletion between gap columns: its start is converted with the alignment-to-reference table
	for _, lay := range [][3]int{{2, 5, 7}, {1, 3, 4}, {4, 8, 10}, {3, 6, 11}} {
		for _, bothGap := range []bool{false, true} {
			var r, q []byte
			for p := 0; p <= len(ref); p++ {
				if p == lay[0] || p == lay[2] {
					r = append(r, '-', '-')
					if bothGap && p == lay[0] {
						q = append(q, '-', '-')
					} else {
						q = append(q, 'G', 'T')
					}
				}
				if p < len(ref) {
					r = append(r, ref[p])
					if p == lay[1] {
						q = append(q, '-')
					} else {
						q = append(q, ref[p])
					}
				}
			}
			out = append(out, pairCase{string(r), string(q), fmt.Sprintf("gap columns after %d and %d around a deletion of base %d (first run both-gap=%v)", lay[0], lay[2], lay[1]+1, bothGap)})
		}
	}
	return out
}

func sameSet(a, b []string) bool {
	x := append([]string{}, a...)
	y := append([]string{}, b...)
	sort.Strings(x)
	sort.Strings(y)
	return strings.Join(x, "|") == strings.Join(y, "|")
}

// checkVariantsPairs runs the family and reports into the given rule keys (C04 / C05 use different parts).
type variantsVerdict struct {
	badIndel, badSNP, badAA, und []string
	n                            int
}

func runVariantsFamily(c *core.Ctx, tabs *Tables) variantsVerdict {
	var v variantsVerdict
	sets := variantRegionSets()
	for si, regions := range sets {
		for _, pc := range variantPairs(c.Tier) {
			v.n++
			got, err := evalVariantsPair(c, tabs, pc.ref, pc.qry, regions)
			if err != nil {
				v.und = append(v.und, fmt.Sprintf("%s/%s: %v", pc.ref, pc.qry, err))
				if len(v.und) > 5 {
					return v
				}
				continue
			}
			want := specPair(pc.ref, pc.qry, regions)
			where := fmt.Sprintf("ref %s query %s (%s; annotation %d)", pc.ref, pc.qry, pc.note, si+1)
			if si == 0 && !sameSet(got.indels, want.indels) {
				v.badIndel = append(v.badIndel, fmt.Sprintf("%s: reported %v, want %v", where, got.indels, want.indels))
			}
			// SNP mentions
			mention := map[string]bool{}
			for _, n := range got.nucs {
				mention[n] = true
			}
			for _, s := range got.aaSNPs {
				for _, m := range strings.Split(s, ";") {
					if m != "" {
						mention[m] = true
					}
				}
			}
			var missing, invented []string
			for s := range want.snps {
				if !mention[s] {
					missing = append(missing, s)
				}
			}
			for m := range mention {
				if !want.snps[m] {
					invented = append(invented, m)
				}
			}
			sort.Strings(missing)
			sort.Strings(invented)
			// no record twice: the aggregate counts one occurrence per list element
			seenRec := map[string]bool{}
			for _, r := range got.all {
				if seenRec[r] {
					invented = append(invented, r+" (listed twice)")
				}
				seenRec[r] = true
			}
			if len(missing)+len(invented) > 0 {
				v.badSNP = append(v.badSNP, fmt.Sprintf("%s: dropped %v invented %v (reported %v)", where, missing, invented, got.all))
			}
			if !sameSet(got.aas, want.aaList) {
				v.badAA = append(v.badAA, fmt.Sprintf("%s: amino-acid records %v, want %v", where, got.aas, want.aaList))
			} else {
				for _, a := range got.aas {
					if !sameSet(strings.Split(got.aaSNPs[a], ";"), want.aa[a]) && !(got.aaSNPs[a] == "" && len(want.aa[a]) == 0) {
						v.badAA = append(v.badAA, fmt.Sprintf("%s: %s lists SNPs %q, want %v", where, a, got.aaSNPs[a], want.aa[a]))
					}
				}
			}
		}
	}
	return v
}

func posOrNo(c *core.Ctx, pkg, name string) token.Pos { return funcPos(c, pkg, name) }

func mustBaseSet(b byte) int {
	s, _ := oracle.BaseSet(b, false)
	return s
}

// checkNoDuplicateRecords (C13): the aggregate writers count list elements, so a per-sequence list must not carry
// a record twice - also where overlapping products report the same nucleotide change from several sides.
func checkNoDuplicateRecords(c *core.Ctx, tabs *Tables, rule string) {
	sets := variantRegionSets()
	var bad []string
	n := 0
	for si, regions := range sets {
		for _, pc := range variantPairs("quick") {
			if !strings.HasPrefix(pc.note, "site ") && !strings.HasPrefix(pc.note, "two changes") {
				continue
			}
			n++
			got, err := evalVariantsPair(c, tabs, pc.ref, pc.qry, regions)
			if err != nil {
				c.Und(rule, funcPos(c, "pkg/variants", "GetVariantsPair"), "cannot evaluate GetVariantsPair: %v", err)
				return
			}
			seen := map[string]bool{}
			for _, r := range got.all {
				if seen[r] {
					bad = append(bad, fmt.Sprintf("ref %s query %s (annotation %d): %s is listed twice in %v - the aggregate would count this sequence twice", pc.ref, pc.qry, si+1, r, got.all))
				}
				seen[r] = true
			}
		}
	}
	c.Count("pairs_checked_for_duplicates", n)
	c.Ob(rule, len(bad) == 0, funcPos(c, "pkg/variants", "GetVariantsPair"), "%s", first(bad, 3))
}
