package rules

import (
	"fmt"
	"go/ast"
	"go/token"
	"go/types"
	"strings"

	"gofasta-verif/core"
	"gofasta-verif/eval"
)

func init() { register("C03", C03) }

// bindWorker builds abstract arguments for a per-record worker function by parameter role:
// []byte -> the abstract reference row; chan of record -> a feed with one abstract record;
// chan error -> error sink; any other chan -> output sink.
type workerArgs struct {
	args   []eval.Value
	rec    *eval.StructVal
	out    *eval.ChanVal
	errs   *eval.ChanVal
	refSeq string
	qrySeq string
}

func bindWorker(c *core.Ctx, fn *types.Func, qryLen eval.Lin, custom func(i int, p *types.Var) eval.Value) *workerArgs {
	sig := fn.Type().(*types.Signature)
	w := &workerArgs{refSeq: "ref", qrySeq: "rec.Seq"}
	L := eval.Sym("L")
	for i := 0; i < sig.Params().Len(); i++ {
		p := sig.Params().At(i)
		if custom != nil {
			if v := custom(i, p); v != nil {
				w.args = append(w.args, v)
				continue
			}
		}
		switch t := p.Type().Underlying().(type) {
		case *types.Slice:
			if b, ok := t.Elem().Underlying().(*types.Basic); ok && b.Kind() == types.Uint8 {
				w.args = append(w.args, eval.AbsSeq{Name: "ref", Len: L})
				continue
			}
			w.args = append(w.args, eval.ListVal{Base: p.Name()})
		case *types.Chan:
			if types.Identical(t.Elem(), types.Universe.Lookup("error").Type()) {
				w.errs = &eval.ChanVal{Name: "err"}
				w.args = append(w.args, w.errs)
				continue
			}
			if st, ok := t.Elem().Underlying().(*types.Struct); ok && w.rec == nil && hasField(st, "Seq") {
				rec := absValue(t.Elem(), "rec", qryLen).(*eval.StructVal)
				w.rec = rec
				w.args = append(w.args, &eval.ChanVal{Name: "in", Feed: []eval.Value{rec}})
				continue
			}
			w.out = &eval.ChanVal{Name: "out"}
			w.args = append(w.args, w.out)
		default:
			w.args = append(w.args, absValue(p.Type(), p.Name(), L))
		}
	}
	return w
}

func hasField(st *types.Struct, name string) bool {
	for i := 0; i < st.NumFields(); i++ {
		if st.Field(i).Name() == name {
			return true
		}
	}
	return false
}

func C03(c *core.Ctx) {
	c.Explanation("C03: (R1) the soft- and hard-gap encoding tables and the decoding table are extracted from source and checked against IUPAC base sets for all 256 bytes and all 17x17 symbol pairs; (R2/R3) the per-record worker getSNPs is interpreted abstractly: its inner column loop is reduced to a transfer function evaluated for every (reference symbol, query symbol) pair in both gap modes, which must append exactly decode(ref)+decimal(i+1)+decode(query) iff the base sets are disjoint, with i the ascending loop index, and the emitted row must carry the record's ID, index and the list built by that loop; the width check must divert unequal rows to the error channel; (R4) both FASTA readers receive the command's --hard-gaps flag and select the hard-gap table exactly when it is set; (R5) worker-pool output is consumed by an index re-orderer.")
	checkStdoutWriters(c, facts(c), "R6", "pkg/snps", "pkg/fastaio", "pkg/gfio", "pkg/encoding")
	c16Structural(c, "pkg/fastaio")
	checkArrivalOrderIndependence(c, "R5/reorder", "snps.writeOutput")
	ev := newEval(c)
	tabs := extractTables(c, ev, "R1")
	if !tabs.OK {
		return
	}
	checkEncDec(c, "R1", tabs)
	checkReaders(c, tabs, "R7/", true, "ReadEncodeAlignment", "ReadEncodeAlignmentToList") // the rows compared are the records of the files, however their lines are wrapped
	fn := c.LookupFunc("pkg/snps", "getSNPs")
	if fn == nil {
		c.Und("R2/getSNPs", token.NoPos, "UNRESOLVED anchor snps.getSNPs")
		return
	}
	concreteOK := c03Concrete(c, fn, tabs)
	mark := len(c.Obs)
	defer func() {
		// where the column loop is not visible as one loop of getSNPs (it may sit in a shared helper), the transfer-function
		// argument does not apply; the bounded family above is then what is decided
		if !concreteOK {
			return
		}
		kept := c.Obs[:mark:mark]
		for _, o := range c.Obs[mark:] {
			und := o.Status == core.Undecided.String() && strings.HasPrefix(o.Key, c.Prop+"/R2/getSNPs")
			floor := o.Status != core.OK.String() && strings.HasPrefix(o.Key, c.Prop+"/R2/column-loops")
			if und || floor {
				c.Note("the per-column argument does not apply to the current shape of getSNPs (%s); decided on the bounded family only", o.Detail)
				continue
			}
			kept = append(kept, o)
		}
		c.Obs = kept
	}()
	nLoops := 0
	for _, hard := range []bool{false, true} {
		mode := "soft"
		if hard {
			mode = "hard"
		}
		dom := tabs.domain(hard)
		ev := newEval(c)
		ev.Domain = func(s eval.AbsSeq) []eval.Value { return codeValues(dom) }
		w := bindWorker(c, fn, eval.Sym("L"), nil)
		if w.rec == nil || w.out == nil || w.errs == nil {
			c.Und("R2/getSNPs/"+mode, fn.Pos(), "cannot bind worker parameters by role")
			continue
		}
		if _, err := ev.CallFuncBound(fn, w.args...); err != nil {
			c.Und("R2/getSNPs/"+mode, fn.Pos(), "cannot evaluate worker: %v", err)
			continue
		}
		sum := loopOver(ev, w.qrySeq)
		if sum == nil {
			sum = loopOver(ev, w.refSeq)
		}
		if sum == nil {
			c.Und("R2/getSNPs/"+mode, fn.Pos(), "no column loop over the record's sequence found")
			continue
		}
		nLoops++
		// which carried list receives the SNP strings: the one sent in the output record
		listVar := ""
		for name := range sum.In {
			if _, ok := sum.Entry[name].(eval.Slice); ok {
				listVar = name
			}
		}
		var bad, fmtBad []string
		npts := 0
		for _, r := range dom {
			for _, q := range dom {
				npts++
				runs := runsMatching(sum, map[string]int64{w.refSeq: r.Code, w.qrySeq: q.Code}, nil)
				if len(runs) != 1 {
					bad = append(bad, fmt.Sprintf("%c/%c: %d matching abstract runs", r.Sym, q.Sym, len(runs)))
					continue
				}
				run := runs[0]
				if run.Err != nil {
					bad = append(bad, fmt.Sprintf("%c/%c: undecided: %v", r.Sym, q.Sym, run.Err))
					continue
				}
				app, ok := appended(sum, run, listVar)
				if !ok {
					bad = append(bad, fmt.Sprintf("%c/%c: SNP list is not extended by appending (%s)", r.Sym, q.Sym, eval.Show(run.Final[listVar])))
					continue
				}
				want := disjoint(r.Sym, q.Sym, hard)
				if want != (len(app) == 1) || len(app) > 1 {
					bad = append(bad, fmt.Sprintf("%c/%c: appended %d, want disjoint=%v", r.Sym, q.Sym, len(app), want))
					continue
				}
				if len(app) == 1 {
					i1 := eval.Sym(sum.Index).Add(eval.K(1))
					wantStr := eval.S(string(upper(r.Sym))).Concat(eval.Str{Parts: []eval.StrPart{{Itoa: &i1}}}).Concat(eval.S(string(upper(q.Sym))))
					got, ok := app[0].(eval.Str)
					if !ok || !got.Eq(wantStr) {
						fmtBad = append(fmtBad, fmt.Sprintf("%c/%c: %s, want %s", r.Sym, q.Sym, eval.Show(app[0]), wantStr))
					}
				}
				if run.Ctrl == "break" || run.Ctrl == "return" {
					bad = append(bad, fmt.Sprintf("%c/%c: column loop exits early (%s)", r.Sym, q.Sym, run.Ctrl))
				}
			}
		}
		c.Count("domain_points_evaluated", npts)
		c.Ob("R2/getSNPs/"+mode+"/append-iff-disjoint", len(bad) == 0, sum.Pos, "%s", first(bad, 6))
		c.Ob("R3/getSNPs/"+mode+"/format-ref+pos+alt", len(fmtBad) == 0, sum.Pos, "%s", first(fmtBad, 6))
		if !hard {
			c.Sample(map[string]string{"rule": "R2", "pair": "R/Y (soft)", "effect": "append \"R{i+1}Y\"", "oracle": "disjoint"})
		}
		// the emitted row
		okRow := false
		detail := "no row sent on the output channel"
		if len(w.out.Sent) == 1 {
			if row, ok := w.out.Sent[0].(*eval.StructVal); ok {
				idOK, idxOK, listOK := false, false, false
				for _, v := range row.F {
					switch x := v.(type) {
					case eval.Str:
						if x.Eq(w.rec.F["ID"].(eval.Str)) {
							idOK = true
						}
					case eval.Lin:
						if x.Eq(w.rec.F["Idx"].(eval.Lin)) {
							idxOK = true
						}
					case eval.ListVal:
						if x.Base == sum.Post[listVar] && len(x.App) == 0 {
							listOK = true
						}
					}
				}
				entryEmpty := false
				if s, ok := sum.Entry[listVar].(eval.Slice); ok && s.Len() == 0 {
					entryEmpty = true
				}
				okRow = idOK && idxOK && listOK && entryEmpty
				detail = fmt.Sprintf("row carries record ID=%v, record index=%v, the loop's list=%v, list empty before the loop=%v", idOK, idxOK, listOK, entryEmpty)
			}
		} else if len(w.out.Sent) > 1 {
			detail = fmt.Sprintf("%d rows sent for one record", len(w.out.Sent))
		}
		c.Ob("R3/getSNPs/"+mode+"/row", okRow, fn.Pos(), "%s", detail)
		c.Ob("R3/getSNPs/"+mode+"/no-error-on-equal-width", len(w.errs.Sent) == 0, fn.Pos(), "error sent for an equally wide record")
	}
	c.Floor("R2/column-loops", nLoops, 2)
	// width check (C18 row shared): a record of different width goes to the error channel and produces no row
	{
		ev := newEval(c)
		dom := tabs.domain(false)
		ev.Domain = func(s eval.AbsSeq) []eval.Value { return codeValues(dom) }
		w := bindWorker(c, fn, eval.Sym("L").Add(eval.K(1)), nil)
		_, err := ev.CallFuncBound(fn, w.args...)
		if err != nil {
			c.Und("R2/getSNPs/width-check", fn.Pos(), "cannot evaluate: %v", err)
		} else {
			c.Ob("R2/getSNPs/width-check", len(w.errs.Sent) == 1 && len(w.out.Sent) == 0, fn.Pos(), "record one column wider than the reference: %d error(s) sent, %d row(s) emitted", len(w.errs.Sent), len(w.out.Sent))
		}
	}
	c03Flag(c, tabs)
	checkPoolOrder(c, "R5", "pkg/snps", "SNPs")
}

// readerTable interprets the prefix of a FASTA reader (up to the scanner construction)
// with hardGaps bound to each value and returns the [256]byte table it selected.
func readerTable(c *core.Ctx, pkg, name string, hard bool) ([256]int64, bool, string) {
	var out [256]int64
	fn := c.LookupFunc(pkg, name)
	if fn == nil {
		return out, false, "UNRESOLVED"
	}
	decl, p := c.FuncDecl(fn)
	if decl == nil {
		return out, false, "no source"
	}
	sig := fn.Type().(*types.Signature)
	args := []eval.Value{}
	hasBool := false
	for i := 0; i < sig.Params().Len(); i++ {
		pt := sig.Params().At(i).Type()
		if b, ok := pt.Underlying().(*types.Basic); ok && b.Kind() == types.Bool {
			args = append(args, hard)
			hasBool = true
		} else {
			args = append(args, eval.Opaque{Why: sig.Params().At(i).Name()})
		}
	}
	if !hasBool {
		return out, false, "no boolean gap-mode parameter"
	}
	ev := newEval(c)
	stop := func(s ast.Stmt) bool {
		found := false
		ast.Inspect(s, func(n ast.Node) bool {
			if call, ok := n.(*ast.CallExpr); ok {
				if sel, ok := call.Fun.(*ast.SelectorExpr); ok && sel.Sel.Name == "NewScanner" {
					found = true
				}
			}
			return !found
		})
		return found
	}
	vars, err := ev.RunUntil(fn, args, stop)
	if err != nil {
		return out, false, err.Error()
	}
	_ = p
	for _, nv := range vars {
		at, isArr := nv.Type.Underlying().(*types.Array)
		if !isArr {
			continue
		}
		if b, ok := at.Elem().Underlying().(*types.Basic); !ok || b.Kind() != types.Uint8 {
			continue
		}
		if arr, ok := nv.V.(eval.ArrayVal); ok && len(arr.A.E) == 256 {
			okAll := true
			for i, e := range arr.A.E {
				n, ok := linConst(e)
				if !ok {
					okAll = false
					break
				}
				out[i] = n
			}
			if okAll {
				return out, true, ""
			}
		}
	}
	return out, false, "no 256-entry table selected before the scanner is built"
}

func c03Flag(c *core.Ctx, tabs *Tables) {
	// readers select the table by their boolean parameter
	for _, r := range []string{"ReadEncodeAlignment", "ReadEncodeAlignmentToList", "ReadEncodeScoreAlignment"} {
		pos := funcPos(c, "pkg/fastaio", r)
		for _, hard := range []bool{false, true} {
			tab, ok, why := readerTable(c, "pkg/fastaio", r, hard)
			key := fmt.Sprintf("R4/reader-table/%s/hard=%v", r, hard)
			if !ok {
				// the table is not a local array chosen before the scanner is built (the readers may share a core, or
				// encode through a helper): which table each gap mode uses is decided by the layout families, where a
				// record read in one mode and decoded with that mode's table must give back the file's symbols (R7)
				c.Note("%s hard=%v: table selection not visible as a local array (%s); decided by the reader layout families", r, hard, why)
				continue
			}
			want := tabs.Soft
			if hard {
				want = tabs.Hard
			}
			c.Ob(key, tab == want, pos, "reader selects a table different from the %v-gap encoding table", hard)
		}
	}
	// the command passes its flag to both readers
	f := c.SSAFunc("pkg/snps", "SNPs")
	if f == nil {
		c.Und("R4/flag-plumbing", token.NoPos, "UNRESOLVED anchor snps.SNPs")
		return
	}
	n := checkBoolArgIsParam(c, "R4/flag-plumbing", f, []string{"ReadEncodeAlignmentToList", "ReadEncodeAlignment"})
	c.Floor("R4/flag-plumbing", n, 2)
}

// c03Concrete: getSNPs on every sequence of a bounded length over {A, C, T, N, R, -} against five references, in both gap
// modes, through ONE worker activation per (reference, mode): each row must carry the record's name and index and list
// exactly the columns whose base sets are disjoint, as <ref symbol><1-based position><query symbol>, in ascending order.
func c03Concrete(c *core.Ctx, fn *types.Func, tabs *Tables) bool {
	key := "R2/getSNPs/bounded-family"
	recT := namedType(c, "pkg/fastaio", "EncodedFastaRecord")
	if recT == nil {
		c.Und(key, fn.Pos(), "UNRESOLVED type fastaio.EncodedFastaRecord")
		return false
	}
	L := 4
	if c.Tier == "thorough" {
		L = 5
	}
	var seqs []string
	var gen func(cur string)
	gen = func(cur string) {
		if len(cur) == L {
			seqs = append(seqs, cur)
			return
		}
		for _, a := range []byte("ACTNR-") {
			gen(cur + string(a))
		}
	}
	gen("")
	var bad []string
	n := 0
	for _, hard := range []bool{false, true} {
		tab := tabs.Soft
		if hard {
			tab = tabs.Hard
		}
		enc := func(s string) eval.Value {
			vs := make([]eval.Value, len(s))
			for i := 0; i < len(s); i++ {
				vs[i] = eval.K(tab[s[i]])
			}
			return eval.NewSlice(vs...)
		}
		for _, ref0 := range []string{"ACGTA", "AAAAA", "ARNCT", "TC-GA", "N-YCA"} {
			ref := ref0[:L]
			var feed []eval.Value
			for i, s := range seqs {
				rec := absValue(recT, "r", eval.K(int64(L))).(*eval.StructVal)
				rec.F["ID"] = eval.S(fmt.Sprintf("s%d", i))
				rec.F["Description"] = eval.S(fmt.Sprintf("s%d", i))
				rec.F["Idx"] = eval.K(int64(i))
				rec.F["Seq"] = enc(s)
				feed = append(feed, rec)
			}
			ev := newEval(c)
			w := bindWorker(c, fn, eval.K(int64(L)), nil)
			if w.rec == nil || w.out == nil || w.errs == nil {
				c.Und(key, fn.Pos(), "cannot bind worker parameters by role")
				return false
			}
			// the bound arguments, with the reference and the record stream replaced by the family's
			args := append([]eval.Value{}, w.args...)
			for i, a := range args {
				if ch, ok := a.(*eval.ChanVal); ok && ch != w.out && ch != w.errs {
					args[i] = &eval.ChanVal{Name: "in", Feed: feed}
				} else if _, isSeq := a.(eval.AbsSeq); isSeq {
					args[i] = enc(ref)
				} else if sl, isSlice := a.(eval.Slice); isSlice && sl.Len() == L {
					args[i] = enc(ref)
				}
			}
			if _, err := ev.CallFuncBound(fn, args...); err != nil {
				c.Und(key, fn.Pos(), "cannot evaluate getSNPs on the family (reference %s, hard gaps %v): %v", ref, hard, err)
				return false
			}
			if len(w.out.Sent) != len(seqs) || len(w.errs.Sent) != 0 {
				c.Ob(key, false, fn.Pos(), "reference %s: %d rows and %d errors for %d sequences of the reference's width", ref, len(w.out.Sent), len(w.errs.Sent), len(seqs))
				return false
			}
			for i, s := range seqs {
				n++
				row, _ := w.out.Sent[i].(*eval.StructVal)
				var want []string
				for k := 0; k < L; k++ {
					if disjoint(ref[k], s[k], hard) {
						want = append(want, fmt.Sprintf("%c%d%c", upper(ref[k]), k+1, upper(s[k])))
					}
				}
				got, okRow := []string{}, row != nil
				name, idx := "", int64(-1)
				if okRow {
					for _, v := range row.F {
						switch x := v.(type) {
						case eval.Str:
							if x.IsConst() {
								name = x.Const()
							}
						case eval.Lin:
							if x.IsConst() {
								idx = x.C
							}
						case eval.Slice:
							for _, e := range x.Elems() {
								st, isStr := e.(eval.Str)
								if !isStr || !st.IsConst() {
									okRow = false
									break
								}
								got = append(got, st.Const())
							}
						}
					}
				}
				if !okRow || name != fmt.Sprintf("s%d", i) || idx != int64(i) || strings.Join(got, "|") != strings.Join(want, "|") {
					bad = append(bad, fmt.Sprintf("reference %s, sequence %s, hard gaps %v: row %s, specified {s%d %d %v}", ref, s, hard, firstN(eval.Show(w.out.Sent[i]), 160), i, i, want))
				}
			}
		}
	}
	c.Count("getsnps_rows_evaluated", n)
	c.Ob(key, len(bad) == 0, fn.Pos(), "%s", first(bad, 3))
	return len(bad) == 0
}
