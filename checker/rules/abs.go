package rules

import (
	"fmt"
	"go/types"
	"strings"

	"gofasta-verif/core"
	"gofasta-verif/eval"
)

// absValue builds an abstract value of type t whose leaves are symbols named after path.
func absValue(t types.Type, path string, seqLen eval.Lin) eval.Value {
	switch u := t.Underlying().(type) {
	case *types.Basic:
		switch {
		case u.Info()&types.IsInteger != 0:
			return eval.Sym(path)
		case u.Info()&types.IsFloat != 0:
			return eval.FSym(path)
		case u.Info()&types.IsString != 0:
			return eval.SSym(path)
		case u.Info()&types.IsBoolean != 0:
			return &eval.Lazy{Tag: path, Opts: []eval.Value{false, true}}
		}
	case *types.Slice:
		if b, ok := u.Elem().Underlying().(*types.Basic); ok && b.Kind() == types.Uint8 {
			return eval.AbsSeq{Name: path, Len: seqLen}
		}
		return eval.ListVal{Base: path}
	case *types.Struct:
		sv := &eval.StructVal{T: t, F: map[string]eval.Value{}}
		for i := 0; i < u.NumFields(); i++ {
			f := u.Field(i)
			sv.F[f.Name()] = absValue(f.Type(), path+"."+f.Name(), seqLen)
		}
		return sv
	case *types.Chan:
		return &eval.ChanVal{Name: path}
	}
	return eval.Opaque{Why: path}
}

func namedType(c *core.Ctx, pkg, name string) types.Type {
	p := c.Pkgs[pkg]
	if p == nil {
		return nil
	}
	o := p.Types.Scope().Lookup(name)
	if o == nil {
		return nil
	}
	return o.Type()
}

// pickedFor returns the value chosen in run for the element of sequence seq at the loop index.
func pickedFor(run *eval.LoopRun, seq string) (int64, bool) {
	for tag, v := range run.Picked {
		if strings.HasPrefix(tag, seq+"[") {
			if l, ok := v.(eval.Lin); ok && l.IsConst() {
				return l.C, true
			}
		}
	}
	return 0, false
}

// pickedBool returns the chosen entry value of a loop-carried boolean.
func pickedBool(run *eval.LoopRun, sum *eval.LoopSummary, name string) (bool, bool) {
	tag := sum.In[name]
	if tag == "" {
		return false, false
	}
	if v, ok := run.Picked[tag]; ok {
		b, ok := v.(bool)
		return b, ok
	}
	return false, false
}

// runsMatching returns the runs consistent with an assignment seq->code and bool state.
func runsMatching(sum *eval.LoopSummary, assign map[string]int64, state map[string]bool) []*eval.LoopRun {
	var out []*eval.LoopRun
	for _, r := range sum.Runs {
		ok := true
		for seq, code := range assign {
			if v, picked := pickedFor(r, seq); picked && v != code {
				ok = false
				break
			}
		}
		for name, b := range state {
			if v, picked := pickedBool(r, sum, name); picked && v != b {
				ok = false
				break
			}
		}
		if ok {
			out = append(out, r)
		}
	}
	return out
}

// delta returns final - entry symbol for an integer loop-carried variable, if constant.
func delta(sum *eval.LoopSummary, run *eval.LoopRun, name string) (int64, bool) {
	in, ok := sum.In[name]
	if !ok {
		return 0, false
	}
	fin, ok := run.Final[name].(eval.Lin)
	if !ok {
		return 0, false
	}
	d := fin.Sub(eval.Sym(in))
	if !d.IsConst() {
		return 0, false
	}
	return d.C, true
}

// appended returns the values a run appended to a loop-carried list.
func appended(sum *eval.LoopSummary, run *eval.LoopRun, name string) ([]eval.Value, bool) {
	lv, ok := run.Final[name].(eval.ListVal)
	if !ok {
		return nil, false
	}
	if lv.Base != sum.In[name] {
		return nil, false
	}
	return lv.App, true
}

// loopOver finds the last summary of an abstract loop over the named sequence.
func loopOver(ev *eval.Evaluator, seq string) *eval.LoopSummary {
	for i := len(ev.Loops) - 1; i >= 0; i-- {
		if ev.Loops[i].Seq == seq {
			return ev.Loops[i]
		}
	}
	return nil
}

func describeRun(r *eval.LoopRun) string {
	var parts []string
	for tag, v := range r.Picked {
		parts = append(parts, tag+"="+eval.Show(v))
	}
	return strings.Join(parts, ",")
}

func fmtPair(t *Tables, hard bool, a, b int64) string {
	sa, _ := t.symOfCode(a, hard)
	sb, _ := t.symOfCode(b, hard)
	return fmt.Sprintf("%c/%c", sa, sb)
}
