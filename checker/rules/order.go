package rules

import "gofasta-verif/core"

// checkPoolOrder is implemented in the C12 engine (order2.go); placeholder until then.
func checkPoolOrder(c *core.Ctx, rule, pkg, entry string) {}
