package rules

import (
	"fmt"
	"go/ast"
	"go/token"
	"go/types"
	"sort"
	"strings"

	"golang.org/x/tools/go/ssa"

	"gofasta-verif/core"
)

// ---------------------------------------------------------------- C-fanin: pool output must be re-ordered

type poolInfo struct {
	entry   *ssa.Function
	workers map[*ssa.Function]bool // functions running inside pool goroutines
}

// calleesOf lists static callees (and closures created) inside f, transitively up to depth.
func calleesOf(f *ssa.Function, depth int, out map[*ssa.Function]bool) {
	if f == nil || out[f] || depth < 0 {
		return
	}
	out[f] = true
	for _, b := range f.Blocks {
		for _, ins := range b.Instrs {
			switch x := ins.(type) {
			case ssa.CallInstruction:
				if cal := x.Common().StaticCallee(); cal != nil && inRepo(cal) {
					calleesOf(cal, depth-1, out)
				}
			case *ssa.MakeClosure:
				if fn, ok := x.Fn.(*ssa.Function); ok {
					calleesOf(fn, depth-1, out)
				}
			}
		}
	}
}

func blockInLoop(b *ssa.BasicBlock) bool { return reaches(b, b) }

// pools finds goroutines started inside loops of f (worker pools).
func pools(f *ssa.Function) *poolInfo {
	pi := &poolInfo{entry: f, workers: map[*ssa.Function]bool{}}
	for _, b := range f.Blocks {
		for _, ins := range b.Instrs {
			g, ok := ins.(*ssa.Go)
			if !ok || !blockInLoop(b) {
				continue
			}
			var fn *ssa.Function
			if cal := g.Common().StaticCallee(); cal != nil {
				fn = cal
			} else if mc, ok := g.Common().Value.(*ssa.MakeClosure); ok {
				fn, _ = mc.Fn.(*ssa.Function)
			}
			if fn != nil {
				calleesOf(fn, 3, pi.workers)
			}
		}
	}
	return pi
}

func isDataChan(t types.Type) bool {
	ch, ok := t.Underlying().(*types.Chan)
	if !ok {
		return false
	}
	if isErrorType(ch.Elem()) {
		return false
	}
	if b, ok := ch.Elem().Underlying().(*types.Basic); ok && b.Kind() == types.Bool {
		return false
	}
	return true
}

// consumerTaint analyses a function that receives from a pool-written channel: values derived
// from a received item must not reach an output write, a forwarding send or escaping storage
// except through an index-keyed map (re-orderer), a slot store keyed by the item's own field,
// an aggregation map, or a file created per item.
func consumerTaint(c *core.Ctx, p *progFacts, rf *ssa.Function, recvs []ssa.Value) (ok bool, why string, pos token.Pos) {
	taint := map[ssa.Value]bool{}
	var work []ssa.Value
	add := func(v ssa.Value) {
		if v != nil && !taint[v] {
			taint[v] = true
			work = append(work, v)
		}
	}
	for _, r := range recvs {
		add(r)
	}
	ok = true
	fail := func(w string, ps token.Pos) {
		if ok {
			ok, why, pos = false, w, ps
		}
	}
	perItemFile := func(dest ssa.Value) bool {
		for _, o := range origins(dest) {
			if ex, isEx := o.(*ssa.Extract); isEx {
				if call, isCall := ex.Tuple.(*ssa.Call); isCall {
					if cal := call.Common().StaticCallee(); cal != nil && cal.String() == "os.Create" {
						return true
					}
				}
			}
			if call, isCall := o.(*ssa.Call); isCall {
				if cal := call.Common().StaticCallee(); cal != nil && cal.String() == "os.Create" {
					return true
				}
			}
		}
		return false
	}
	for len(work) > 0 {
		v := work[len(work)-1]
		work = work[:len(work)-1]
		refs := v.Referrers()
		if refs == nil {
			continue
		}
		for _, r := range *refs {
			switch x := r.(type) {
			case *ssa.MapUpdate:
				// stored into a map: re-order buffer or aggregation; iteration order is C-map's business
			case *ssa.Store:
				if x.Val != v {
					continue
				}
				switch a := x.Addr.(type) {
				case *ssa.Alloc:
					for _, ar := range *a.Referrers() {
						if u, isU := ar.(*ssa.UnOp); isU && u.Op == token.MUL {
							add(u)
						}
						if fa, isFA := ar.(*ssa.FieldAddr); isFA {
							add(fa)
						}
					}
				case *ssa.IndexAddr:
					// element of a local array (variadic argument list): taint the array
					if al, isAl := a.X.(*ssa.Alloc); isAl {
						for _, ar := range *al.Referrers() {
							if sl, isSl := ar.(*ssa.Slice); isSl {
								add(sl)
							}
						}
						continue
					}
					// slot store: index must come from the item itself
					idxTainted := false
					for _, o := range origins(a.Index) {
						if taint[o] {
							idxTainted = true
						}
					}
					if f, isF := a.Index.(*ssa.Field); isF && taint[f.X] {
						idxTainted = true
					}
					if taint[a.Index] {
						idxTainted = true
					}
					if !idxTainted {
						fail("a received item is stored at a position that does not come from the item's own index (arrival order)", x.Pos())
					}
				case *ssa.FieldAddr:
					// field of a local struct: taint the struct's loads
					add(a.X)
				default:
					fail("a received item is stored in shared state in arrival order", x.Pos())
				}
			case *ssa.Send:
				if x.X == v {
					if ch, isCh := x.Chan.Type().Underlying().(*types.Chan); isCh && isErrorType(ch.Elem()) {
						continue
					}
					fail("a received item is forwarded in arrival order (no index re-ordering)", x.Pos())
				}
			case *ssa.Lookup:
				if x.Index == v {
					add(x) // looked up by the received key: still arrival order
				}
				// x.X == v (tainted map) cannot happen: maps are not tainted
			case ssa.CallInstruction:
				com := x.Common()
				if b, isB := com.Value.(*ssa.Builtin); isB {
					switch b.Name() {
					case "append":
						if cv := x.Value(); cv != nil {
							add(cv)
						}
					case "len", "cap", "delete", "copy":
					}
					continue
				}
				// write sink?
				isSink := false
				var dest ssa.Value
				if com.IsInvoke() && (com.Method.Name() == "Write" || com.Method.Name() == "WriteString") {
					isSink, dest = true, com.Value
				} else if cal := com.StaticCallee(); cal != nil {
					switch cal.String() {
					case "(*os.File).Write", "(*os.File).WriteString", "fmt.Fprint", "fmt.Fprintf", "fmt.Fprintln", "io.WriteString":
						isSink, dest = true, com.Args[0]
					}
				}
				if isSink {
					if isGlobalNamed(dest, "os", "Stderr") || perItemFile(dest) {
						continue
					}
					fail("data derived from a received item is written in arrival order (the consumer of a worker pool must re-order by input index)", x.Pos())
					continue
				}
				if cv := x.Value(); cv != nil {
					add(cv)
				}
			case *ssa.Field, *ssa.FieldAddr, *ssa.Extract, *ssa.Phi, *ssa.BinOp, *ssa.Convert, *ssa.ChangeType,
				*ssa.MakeInterface, *ssa.Slice, *ssa.Index, *ssa.IndexAddr, *ssa.Range, *ssa.Next, *ssa.UnOp, *ssa.ChangeInterface, *ssa.TypeAssert:
				if vv, isV := r.(ssa.Value); isV {
					// the comparison results and lengths are not data
					if bo, isBO := r.(*ssa.BinOp); isBO {
						switch bo.Op {
						case token.EQL, token.NEQ, token.LSS, token.LEQ, token.GTR, token.GEQ:
							continue
						}
					}
					add(vv)
				}
			case *ssa.MakeClosure:
				fail("a received item is captured by a closure", x.Pos())
			}
		}
	}
	return
}

// checkPoolOrderSSA applies C-fanin to one entry function.
func checkPoolOrderSSA(c *core.Ctx, p *progFacts, rule string, f *ssa.Function) (nPools, nConsumers int) {
	pi := pools(f)
	if len(pi.workers) == 0 {
		return 0, 0
	}
	nPools = 1
	boundsCallers = p.callers
	checkPoolSizes(c, rule, f)
	c.Count("closes_under_completion_token", checkCloseDiscipline(c, p, rule, f))
	var chans []*ssa.MakeChan
	allInstrs(f, func(fn *ssa.Function, ins ssa.Instruction) {
		if mc, ok := ins.(*ssa.MakeChan); ok && isDataChan(mc.Type()) && fn == f {
			chans = append(chans, mc)
		}
	})
	for _, mc := range chans {
		poolWritten := false
		for _, s := range p.sendsOn(mc) {
			if pi.workers[s.Parent()] {
				poolWritten = true
			}
		}
		if !poolWritten {
			continue
		}
		// receivers
		recvBy := map[*ssa.Function][]ssa.Value{}
		for _, g := range p.funcs {
			for _, b := range g.Blocks {
				for _, ins := range b.Instrs {
					u, ok := ins.(*ssa.UnOp)
					if !ok || u.Op != token.ARROW {
						continue
					}
					for _, src := range p.chanSources(u.X) {
						if src == mc {
							recvBy[g] = append(recvBy[g], u)
						}
					}
				}
			}
		}
		var rfs []*ssa.Function
		for g := range recvBy {
			rfs = append(rfs, g)
		}
		sort.Slice(rfs, func(i, j int) bool { return fnKey(rfs[i]) < fnKey(rfs[j]) })
		for _, g := range rfs {
			if pi.workers[g] {
				continue // pool -> pool
			}
			nConsumers++
			ok, why, pos := consumerTaint(c, p, g, recvBy[g])
			if !pos.IsValid() {
				pos = g.Pos()
			}
			if !ok {
				// the structural patterns (index-keyed map, slot store) are sufficient, not necessary: a consumer that
				// re-orders another way (sliding window, in-turn fast path) is decided by interpreting it on every arrival
				// order of a batch
				if decided, independent := arrivalOrderDecides(c, fnKey(topFunc(g))); decided && independent {
					c.Note("%s: re-order pattern not recognised structurally (%s); decided by interpretation over all 24 arrival orders", fnKey(g), why)
					ok, why = true, ""
				}
			}
			c.Ob(fmt.Sprintf("%s/%s/consumer/%s", rule, fnKey(f), fnKey(g)), ok, pos, "%s", why)
		}
	}
	return
}

// checkPoolOrder is the per-entry variant used by the individual properties.
func checkPoolOrder(c *core.Ctx, rule, pkg, entry string) {
	f := c.SSAFunc(pkg, entry)
	if f == nil {
		c.Und(rule+"/order/"+entry, token.NoPos, "UNRESOLVED anchor %s.%s", pkg, entry)
		return
	}
	p := facts(c)
	np, nc := checkPoolOrderSSA(c, p, rule+"/order", f)
	c.Ob(fmt.Sprintf("%s/order/%s/has-ordered-consumer", rule, entry), np == 0 || nc >= 1, f.Pos(), "the entry point starts a worker pool but no consumer of its output channel was found")
}

// ---------------------------------------------------------------- C-map: classification of map iterations

type mapRange struct {
	pkg   string
	fn    *ast.FuncDecl
	stmt  *ast.RangeStmt
	info  *types.Info
	class string // single | commutative | order-sensitive
}

func listMapRanges(c *core.Ctx) []mapRange {
	var out []mapRange
	var keys []string
	for k := range c.Pkgs {
		keys = append(keys, k)
	}
	sort.Strings(keys)
	for _, k := range keys {
		p := c.Pkgs[k]
		for _, file := range p.Syntax {
			if strings.HasSuffix(c.Fset.Position(file.Pos()).Filename, "indels.go") {
				continue
			}
			for _, d := range file.Decls {
				fd, ok := d.(*ast.FuncDecl)
				if !ok || fd.Body == nil {
					continue
				}
				var stack []ast.Node
				ast.Inspect(fd.Body, func(n ast.Node) bool {
					if n == nil {
						stack = stack[:len(stack)-1]
						return true
					}
					stack = append(stack, n)
					rs, ok := n.(*ast.RangeStmt)
					if !ok {
						return true
					}
					if _, isMap := p.TypesInfo.TypeOf(rs.X).Underlying().(*types.Map); !isMap {
						return true
					}
					mr := mapRange{pkg: k, fn: fd, stmt: rs, info: p.TypesInfo}
					mr.class = classifyMapRange(p.TypesInfo, rs, stack)
					out = append(out, mr)
					return true
				})
			}
		}
	}
	return out
}

func exprString(e ast.Expr) string { return types.ExprString(e) }

func classifyMapRange(info *types.Info, rs *ast.RangeStmt, stack []ast.Node) string {
	x := exprString(rs.X)
	// single: guarded by len(X) == 1 (if) or `switch len(X) { case 1:`
	for i := len(stack) - 2; i >= 0; i-- {
		switch n := stack[i].(type) {
		case *ast.CaseClause:
			// find the switch
			for j := i - 1; j >= 0; j-- {
				if sw, ok := stack[j].(*ast.SwitchStmt); ok && sw.Tag != nil {
					if call, ok := sw.Tag.(*ast.CallExpr); ok && exprString(call.Fun) == "len" && len(call.Args) == 1 && exprString(call.Args[0]) == x {
						for _, e := range n.List {
							if tv, ok := info.Types[e]; ok && tv.Value != nil && tv.Value.ExactString() == "1" && len(n.List) == 1 {
								return "single"
							}
						}
					}
					break
				}
			}
		case *ast.IfStmt:
			if be, ok := n.Cond.(*ast.BinaryExpr); ok && be.Op == token.EQL {
				if call, ok := be.X.(*ast.CallExpr); ok && exprString(call.Fun) == "len" && len(call.Args) == 1 && exprString(call.Args[0]) == x {
					if tv, ok := info.Types[be.Y]; ok && tv.Value != nil && tv.Value.ExactString() == "1" {
						// only the then-branch is guarded
						if i+1 < len(stack) && stack[i+1] == ast.Node(n.Body) {
							return "single"
						}
					}
				}
			}
		}
	}
	// single, by an early exit: an earlier statement of the same block leaves it unless len(X) == 1
	// (`if len(m) != 1 { return ... }` before the loop)
	for i := len(stack) - 2; i >= 0; i-- {
		blk, ok := stack[i].(*ast.BlockStmt)
		if !ok {
			continue
		}
		for _, st := range blk.List {
			if st == ast.Stmt(rs) || (i+1 < len(stack) && st == stack[i+1]) {
				break
			}
			iff, ok := st.(*ast.IfStmt)
			if !ok || iff.Init != nil || iff.Else != nil || len(iff.Body.List) == 0 {
				continue
			}
			be, ok := iff.Cond.(*ast.BinaryExpr)
			if !ok || be.Op != token.NEQ {
				continue
			}
			call, ok := be.X.(*ast.CallExpr)
			if !ok || exprString(call.Fun) != "len" || len(call.Args) != 1 || exprString(call.Args[0]) != x {
				continue
			}
			if tv, ok := info.Types[be.Y]; !ok || tv.Value == nil || tv.Value.ExactString() != "1" {
				continue
			}
			switch last := iff.Body.List[len(iff.Body.List)-1].(type) {
			case *ast.ReturnStmt:
				return "single"
			case *ast.BranchStmt:
				if last.Tok == token.CONTINUE || last.Tok == token.BREAK || last.Tok == token.GOTO {
					return "single"
				}
			case *ast.ExprStmt:
				if c2, ok := last.X.(*ast.CallExpr); ok && (exprString(c2.Fun) == "panic" || exprString(c2.Fun) == "os.Exit") {
					return "single"
				}
			}
		}
		break // only the innermost enclosing block and its predecessors... and the blocks around it
	}
	// commutative: body is only guarded extrema updates, counters, map/set updates
	if commutativeBody(info, rs) {
		return "commutative"
	}
	// the body leaves the loop unconditionally at its end: the loop takes ONE entry, whichever the runtime yields first
	if n := len(rs.Body.List); n > 0 {
		switch last := rs.Body.List[n-1].(type) {
		case *ast.BranchStmt:
			if last.Tok == token.BREAK {
				return "arbitrary-pick"
			}
		case *ast.ReturnStmt:
			return "arbitrary-pick"
		}
	}
	return "order-sensitive"
}

func commutativeBody(info *types.Info, rs *ast.RangeStmt) bool {
	ok := true
	var checkStmt func(s ast.Stmt)
	checkStmt = func(s ast.Stmt) {
		switch st := s.(type) {
		case *ast.IncDecStmt:
		case *ast.AssignStmt:
			switch st.Tok {
			case token.ADD_ASSIGN, token.OR_ASSIGN, token.AND_ASSIGN, token.MUL_ASSIGN, token.XOR_ASSIGN:
				if b, isB := info.TypeOf(st.Lhs[0]).Underlying().(*types.Basic); !isB || b.Info()&types.IsString != 0 {
					ok = false // string concatenation is order-sensitive
				}
			case token.ASSIGN:
				// m[k] = v (set/map update) is fine; x = loopvar is fine only under a comparison guard (handled by IfStmt)
				for _, l := range st.Lhs {
					if _, isIdx := l.(*ast.IndexExpr); !isIdx {
						ok = false
					} else if _, isMap := info.TypeOf(l.(*ast.IndexExpr).X).Underlying().(*types.Map); !isMap {
						ok = false
					}
				}
			default:
				ok = false
			}
		case *ast.IfStmt:
			// guarded extremum: if k > acc { acc = k }
			be, isBE := st.Cond.(*ast.BinaryExpr)
			if isBE && (be.Op == token.GTR || be.Op == token.LSS || be.Op == token.GEQ || be.Op == token.LEQ) && st.Else == nil && len(st.Body.List) == 1 {
				if as, isAs := st.Body.List[0].(*ast.AssignStmt); isAs && as.Tok == token.ASSIGN && len(as.Lhs) == 1 {
					l, r := exprString(as.Lhs[0]), exprString(as.Rhs[0])
					cx, cy := exprString(be.X), exprString(be.Y)
					if (l == cy && r == cx) || (l == cx && r == cy) {
						return
					}
				}
			}
			if st.Else != nil {
				ok = false
				return
			}
			for _, b := range st.Body.List {
				checkStmt(b)
			}
		case *ast.BlockStmt:
			for _, b := range st.List {
				checkStmt(b)
			}
		case *ast.ExprStmt:
			if call, isCall := st.X.(*ast.CallExpr); isCall && exprString(call.Fun) == "delete" {
				return
			}
			ok = false
		default:
			ok = false
		}
	}
	for _, s := range rs.Body.List {
		checkStmt(s)
	}
	return ok
}

// ---------------------------------------------------------------- C-src: no ambient nondeterminism in pkg/

var bannedImports = map[string][]string{
	"math/rand":    nil,
	"math/rand/v2": nil,
	"crypto/rand":  nil,
	"time":         {"Now", "Since", "Until"},
	"os":           {"Getpid", "Getppid", "Hostname"},
}

// nondetUses lists uses of banned identifiers in a file (by import name, no type information needed).
func nondetUses(file *ast.File) []token.Pos {
	local := map[string]string{}
	for _, im := range file.Imports {
		path := strings.Trim(im.Path.Value, `"`)
		if _, banned := bannedImports[path]; !banned {
			continue
		}
		name := path[strings.LastIndex(path, "/")+1:]
		if path == "math/rand/v2" {
			name = "rand"
		}
		if im.Name != nil {
			name = im.Name.Name
		}
		local[name] = path
	}
	var out []token.Pos
	ast.Inspect(file, func(n ast.Node) bool {
		sel, ok := n.(*ast.SelectorExpr)
		if !ok {
			return true
		}
		id, ok := sel.X.(*ast.Ident)
		if !ok || id.Obj != nil {
			return true
		}
		path, ok := local[id.Name]
		if !ok {
			return true
		}
		names := bannedImports[path]
		if names == nil {
			out = append(out, sel.Pos())
			return true
		}
		for _, nm := range names {
			if sel.Sel.Name == nm {
				out = append(out, sel.Pos())
			}
		}
		return true
	})
	return out
}
