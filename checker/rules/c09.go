package rules

import (
	"fmt"
	"go/token"
	"go/types"
	"sort"
	"strings"

	"golang.org/x/tools/go/ssa"

	"gofasta-verif/core"
	"gofasta-verif/eval"
)

func init() { register("C09", C09) }

// csvModel models encoding/csv.Reader over already-split records.
type csvModel struct {
	recs     [][]string
	pos      int
	settings map[string]eval.Value
}

// SetField / GetField: the reader's options (FieldsPerRecord, ReuseRecord, LazyQuotes, ...) are remembered; a positive
// FieldsPerRecord is enforced by Read, the others do not change what the model yields.
func (m *csvModel) SetField(name string, v eval.Value) {
	if m.settings == nil {
		m.settings = map[string]eval.Value{}
	}
	m.settings[name] = v
}

func (m *csvModel) GetField(name string) eval.Value {
	if v, ok := m.settings[name]; ok {
		return v
	}
	switch name {
	case "FieldsPerRecord":
		return eval.K(0)
	case "Comma":
		return eval.K(',')
	case "Comment":
		return eval.K(0)
	}
	return false
}

func installCSV(ev *eval.Evaluator, recs [][]string) {
	ev.Extern["encoding/csv.NewReader"] = func(ev *eval.Evaluator, pos token.Pos, recv eval.Value, args []eval.Value) eval.Value {
		m := &csvModel{recs: recs}
		return &eval.Ref{Get: func() eval.Value { return m }, Set: func(eval.Value) {}}
	}
	ev.Extern["(*encoding/csv.Reader).Read"] = func(ev *eval.Evaluator, pos token.Pos, recv eval.Value, args []eval.Value) eval.Value {
		m := unref(recv).(*csvModel)
		if m.pos >= len(m.recs) {
			return eval.Tuple{eval.Slice{}, eval.ErrVal{Msg: eval.SSym("io.EOF")}}
		}
		r := m.recs[m.pos]
		m.pos++
		// a line that begins with the Comment character (when one is set) is no record
		if cc, ok := linConst(m.GetField("Comment")); ok && cc != 0 && len(r) > 0 && strings.HasPrefix(r[0], string(rune(cc))) {
			for m.pos < len(m.recs) && len(m.recs[m.pos]) > 0 && strings.HasPrefix(m.recs[m.pos][0], string(rune(cc))) {
				m.pos++
			}
			if m.pos >= len(m.recs) {
				return eval.Tuple{eval.Slice{}, eval.ErrVal{Msg: eval.SSym("io.EOF")}}
			}
			r = m.recs[m.pos]
			m.pos++
		}
		if n, ok := linConst(m.GetField("FieldsPerRecord")); ok && n > 0 && int(n) != len(r) {
			return eval.Tuple{eval.Slice{}, eval.ErrVal{Msg: eval.S("record on line " + fmt.Sprint(m.pos) + ": wrong number of fields")}}
		}
		vs := make([]eval.Value, len(r))
		for i, f := range r {
			vs[i] = eval.S(f)
		}
		return eval.Tuple{eval.NewSlice(vs...), eval.Nil{}}
	}
}

// runCSVReader interprets readCSVToUDLList / readCSVToUDLChan on CSV records.
func runCSVReader(c *core.Ctx, name string, recs [][]string) (lines []*eval.StructVal, isErr, done bool, crash string, undecided string) {
	fn := c.LookupFunc("pkg/updown", name)
	if fn == nil {
		return nil, false, false, "", "UNRESOLVED updown." + name
	}
	ev := newEval(c)
	installCSV(ev, recs)
	sig := fn.Type().(*types.Signature)
	var args []eval.Value
	var out, errs, dn *eval.ChanVal
	for i := 0; i < sig.Params().Len(); i++ {
		switch t := sig.Params().At(i).Type().Underlying().(type) {
		case *types.Chan:
			switch {
			case isErrorType(t.Elem()):
				errs = &eval.ChanVal{Name: "err"}
				args = append(args, errs)
			case isBoolType(t.Elem()):
				dn = &eval.ChanVal{Name: "done"}
				args = append(args, dn)
			default:
				out = &eval.ChanVal{Name: "out"}
				args = append(args, out)
			}
		default:
			args = append(args, eval.Opaque{Why: "csv input"})
		}
	}
	v, err := ev.CallFuncBound(fn, args...)
	if err != nil {
		if strings.Contains(err.Error(), "out of range") {
			return nil, false, false, err.Error(), ""
		}
		return nil, false, false, "", err.Error()
	}
	if out != nil {
		for _, e := range out.Sent {
			if sv, ok := e.(*eval.StructVal); ok {
				lines = append(lines, sv)
			}
		}
		return lines, len(errs.Sent) > 0, dn != nil && len(dn.Sent) > 0, "", ""
	}
	t, ok := v.(eval.Tuple)
	if !ok || len(t) != 2 {
		return nil, false, false, "", "unexpected result shape"
	}
	_, isErr = t[1].(eval.ErrVal)
	if sl, ok := t[0].(eval.Slice); ok {
		for _, e := range sl.Elems() {
			if sv, ok := e.(*eval.StructVal); ok {
				lines = append(lines, sv)
			}
		}
	}
	return lines, isErr, !isErr, "", ""
}

// consumerFields: fields of updownLine read anywhere in pkg/updown outside the producers and the list writer.
func consumerFields(c *core.Ctx) map[string]bool {
	producers := map[string]bool{"getLines": true, "readCSVToUDLList": true, "readCSVToUDLChan": true, "fastaToUDLList": true,
		"readFastaToUDLChan": true, "writeOutput": true, "List": true}
	out := map[string]bool{}
	lineT := namedType(c, "pkg/updown", "updownLine")
	if lineT == nil {
		return out
	}
	st := lineT.Underlying().(*types.Struct)
	// the consumers are what topranking runs, less what the input readers run (and their helpers); the list writer and
	// its helpers are neither. Where the entry point cannot be resolved, every non-producer function counts.
	var consumers map[*ssa.Function]bool
	if entry := c.SSAFunc("pkg/updown", "TopRanking"); entry != nil {
		consumers = map[*ssa.Function]bool{}
		transitiveCallees(entry, consumers)
		prod := map[*ssa.Function]bool{}
		for g := range consumers {
			if producers[g.Name()] && g.Parent() == nil {
				transitiveCallees(g, prod)
			}
		}
		for g := range prod {
			delete(consumers, g)
		}
	}
	for _, f := range facts(c).funcs {
		if f.Pkg == nil || !strings.HasSuffix(f.Pkg.Pkg.Path(), "pkg/updown") || producers[topFunc(f).Name()] {
			continue
		}
		if consumers != nil && !consumers[f] && !consumers[topFunc(f)] {
			continue
		}
		for _, b := range f.Blocks {
			for _, ins := range b.Instrs {
				switch x := ins.(type) {
				case *ssa.Field:
					if types.Identical(x.X.Type(), lineT) {
						out[st.Field(x.Field).Name()] = true
					}
				case *ssa.FieldAddr:
					if p, ok := x.X.Type().Underlying().(*types.Pointer); ok && types.Identical(p.Elem(), lineT) {
						// only reads count: the address is loaded somewhere
						for _, r := range *x.Referrers() {
							if u, ok := r.(*ssa.UnOp); ok && u.Op == token.MUL {
								out[st.Field(x.Field).Name()] = true
							}
						}
					}
				}
			}
		}
	}
	return out
}

func C09(c *core.Ctx) {
	c.Explanation("C09: for every sequence of a bounded family (all length-4 sequences over {A,C,G,T,N} against the references TGCA, GTAC and GTRC, in batches of several records) the interpreted pipeline getLines -> updown.writeOutput (the CSV text it writes, split on commas) -> readCSVToUDLList / readCSVToUDLChan must reproduce the record getLines produced, on every field that the ranking code reads (the set of fields read is computed from the SSA of pkg/updown's consumers), including the query's input index; this decides the writer/reader schema agreement (header, column positions, '|' and '-' separators, a / a-b ranges, SNP position parsing) and the producer/consumer field agreement. The CSV header check and the empty-file check of both readers; FASTA paths: target conversion re-ordered by input index, query conversion not a pool, results stored by query index.")
	checkSoftGapReaders(c, "R6", "pkg/updown")
	if tabs := extractTables(c, newEval(c), "R0w"); tabs.OK {
		checkWorkersStateless(c, "R7", tabs, "pkg/updown")
	}
	checkArrivalOrderIndependence(c, "R5/reorder", "updown.reorderRecords")
	checkMapRanges(c, "R8/map-order", "pkg/updown") // output that varies from run to run cannot be byte-identical across the four input combinations
	c09Inputs(c)
	c09Order(c)
	// the four input combinations give the same output: none of them waits for a stage that is itself blocked on an error
	// or a full channel nobody drains (the wait rule of C18, on the conversion stages of pkg/updown)
	nsel, nbare := checkWaits(c, facts(c), "R9/B3", "pkg/updown")
	c.Floor("R9/B3/waits", nsel+nbare, 4)
}

// c09Inputs: the FASTA and CSV input paths produce the same records (also part of C08: what the binning sees).
func c09Inputs(c *core.Ctx) {
	ev0 := newEval(c)
	tabs := extractTables(c, ev0, "R0")
	if !tabs.OK {
		return
	}
	gl := c.LookupFunc("pkg/updown", "getLines")
	wo := c.LookupFunc("pkg/updown", "writeOutput")
	recT := namedType(c, "pkg/fastaio", "EncodedFastaRecord")
	lineT := namedType(c, "pkg/updown", "updownLine")
	if gl == nil || wo == nil || recT == nil || lineT == nil {
		c.Und("R0/anchors", token.NoPos, "UNRESOLVED anchors getLines/writeOutput")
		return
	}
	read := consumerFields(c)
	var readList []string
	for f := range read {
		readList = append(readList, f)
	}
	sort.Strings(readList)
	c.Note("fields of updownLine read by the ranking code: %s", strings.Join(readList, ","))
	c.Ob("R1/consumer-fields-found", len(read) >= 5, token.NoPos, "only %d fields of updownLine are read by the consumers (%v); the field-agreement rule would be vacuous", len(read), readList)
	enc := func(s string) eval.Value {
		vs := make([]eval.Value, len(s))
		for i := 0; i < len(s); i++ {
			vs[i] = eval.K(tabs.Soft[s[i]])
		}
		return eval.NewSlice(vs...)
	}
	seqs := allStringsExact("ACGTN", 4)
	if c.Tier != "thorough" {
		var s2 []string
		for i, s := range seqs {
			if i%3 == 0 || strings.Contains(s, "N") {
				s2 = append(s2, s)
			}
		}
		seqs = s2
	}
	// the first reference has a different base at every position in descending order (the positional order of a record's
	// SNP strings is the exact reverse of their lexical order); the second one in an order that is neither
	const batch = 6
	var badList, badChan, badSchema []string
	n := 0
	for _, ref := range []string{"TGCA", "GTAC", "GTRC"} { // the third has an ambiguity code: its SNP strings begin with a letter that is no base
		for start := 0; start < len(seqs); start += batch {
			end := start + batch
			if end > len(seqs) {
				end = len(seqs)
			}
			// 1. FASTA -> records
			ev := newEval(c)
			var feed []eval.Value
			for i, s := range seqs[start:end] {
				rec := absValue(recT, "r", eval.K(4)).(*eval.StructVal)
				rec.F["ID"] = eval.S(fmt.Sprintf("s%d_%s", i, s))
				if i == 1 {
					rec.F["ID"] = eval.S("query") // a record may be called like a column of the header
				} else if i == 2 {
					rec.F["ID"] = eval.S("ref 1|2-3;x") // a name is data: separators of the other columns may occur in it
				} else if i == 3 {
					rec.F["ID"] = eval.S("#4 of run") // ... or a character some formats use for comments
				}
				rec.F["Idx"] = eval.K(int64(i))
				rec.F["Seq"] = enc(s)
				feed = append(feed, rec)
			}
			out := &eval.ChanVal{Name: "out"}
			if _, err := ev.CallFunc(gl, enc(ref), &eval.ChanVal{Name: "in", Feed: feed}, out, &eval.ChanVal{Name: "err"}); err != nil {
				c.Und("R2/round-trip", gl.Pos(), "cannot evaluate getLines: %v", err)
				return
			}
			var fasta []*eval.StructVal
			var wfeed []eval.Value
			for _, e := range out.Sent {
				fasta = append(fasta, e.(*eval.StructVal))
				wfeed = append(wfeed, e)
			}
			// 2. records -> CSV text
			ev2 := newEval(c)
			text, errs, err := callWriter(c, ev2, wo, lineT, wfeed, nil)
			if err != nil || len(errs.Sent) > 0 {
				c.Und("R2/round-trip", wo.Pos(), "cannot evaluate the list writer: %v", err)
				return
			}
			var recs [][]string
			for _, l := range strings.Split(strings.TrimSuffix(text, "\n"), "\n") {
				recs = append(recs, strings.Split(l, ","))
			}
			// 3. CSV -> records, both readers
			for _, rd := range []string{"readCSVToUDLList", "readCSVToUDLChan"} {
				n++
				got, isErr, _, crash, und := runCSVReader(c, rd, recs)
				bad := &badList
				if rd == "readCSVToUDLChan" {
					bad = &badChan
				}
				if und != "" || crash != "" {
					*bad = append(*bad, "undecided: "+und+crash)
					continue
				}
				if isErr {
					badSchema = append(badSchema, fmt.Sprintf("%s rejects the list writer's own output %q", rd, firstN(text, 80)))
					continue
				}
				if len(got) != len(fasta) {
					*bad = append(*bad, fmt.Sprintf("%d records read back from %d written", len(got), len(fasta)))
					continue
				}
				for i := range fasta {
					for _, f := range readList {
						if f == "idx" && rd == "readCSVToUDLChan" {
							continue // target order is arrival order in the CSV path; idx is used by the FASTA re-orderer only
						}
						a, b := eval.Show(fasta[i].F[f]), eval.Show(got[i].F[f])
						if a != b {
							*bad = append(*bad, fmt.Sprintf("record %d (%s, reference %s): field %s is %s via FASTA but %s via CSV", i, seqs[start+i], ref, f, a, b))
						}
					}
				}
			}
			if len(badList)+len(badChan) > 30 {
				break
			}
		}
	}
	c.Count("round_trips_evaluated", n)
	c.Ob("R2/csv-schema/readers-accept-writer-output", len(badSchema) == 0, wo.Pos(), "%s", first(badSchema, 3))
	c.Ob("R1/field-agreement/readCSVToUDLList", len(badList) == 0, funcPos(c, "pkg/updown", "readCSVToUDLList"), "%s", first(badList, 4))
	c.Ob("R1/field-agreement/readCSVToUDLChan", len(badChan) == 0, funcPos(c, "pkg/updown", "readCSVToUDLChan"), "%s", first(badChan, 4))
	c.Sample(map[string]string{"rule": "R1/R2", "sequence": "CANN vs TGCA", "csv_row": "id,T1C|G2A,3-4,2,2", "compared_fields": strings.Join(readList, ",")})
}

func c09Order(c *core.Ctx) {
	// R4 ordering of the FASTA paths
	p := facts(c)
	for _, name := range []string{"fastaToUDLList", "readFastaToUDLChan"} {
		f := c.SSAFunc("pkg/updown", name)
		if f == nil {
			c.Und("R4/order/"+name, token.NoPos, "UNRESOLVED anchor updown.%s", name)
			continue
		}
		np, nc := checkPoolOrderSSA(c, p, "R4/order", f)
		if name == "readFastaToUDLChan" {
			c.Ob("R4/order/readFastaToUDLChan/reordered", np == 1 && nc >= 1, f.Pos(), "the parallel FASTA target conversion must feed an index re-orderer (pools=%d, consumers=%d)", np, nc)
		} else {
			// the query conversion either is not a pool, or its consumer re-orders (checked by the call above)
			c.Ob("R4/order/fastaToUDLList/file-order", np == 0 || nc >= 1, f.Pos(), "the query conversion runs a worker pool without a re-ordering consumer")
		}
	}
	if f := c.SSAFunc("pkg/updown", "TopRanking"); f != nil {
		nst := checkSlotStore(c, "R4/slot-store/TopRanking", f, "qidx")
		c.Floor("R4/slot-store/TopRanking", nst, 1)
	}
	// the result's qidx is the query's idx
	for _, name := range []string{"findUpDownCatchment", "findUpDownCatchmentPushDistance"} {
		f := c.SSAFunc("pkg/updown", name)
		if f == nil {
			c.Und("R4/qidx/"+name, token.NoPos, "UNRESOLVED anchor")
			continue
		}
		ok := false
		allInstrs(f, func(fn *ssa.Function, ins ssa.Instruction) {
			st, isSt := ins.(*ssa.Store)
			if !isSt {
				return
			}
			fa, isFA := st.Addr.(*ssa.FieldAddr)
			if !isFA {
				return
			}
			stt, isS := fa.X.Type().Underlying().(*types.Pointer).Elem().Underlying().(*types.Struct)
			if !isS || stt.Field(fa.Field).Name() != "qidx" {
				return
			}
			if _, isQ := fieldOf(st.Val, "idx"); isQ {
				ok = true
			}
		})
		c.Ob("R4/qidx/"+name, ok, f.Pos(), "the result's query index must be copied from the query record's idx field")
	}
}

func allStringsExact(alpha string, n int) []string {
	var out []string
	var rec func(cur string)
	rec = func(cur string) {
		if len(cur) == n {
			out = append(out, cur)
			return
		}
		for i := 0; i < len(alpha); i++ {
			rec(cur + string(alpha[i]))
		}
	}
	rec("")
	return out
}

// checkCSVValidation: header and emptiness checks of both CSV readers (shared with C18).
func checkCSVValidation(c *core.Ctx, rule string) {
	header := []string{"query", "SNPs", "ambiguities", "SNPcount", "ambcount"}
	for _, rd := range []string{"readCSVToUDLList", "readCSVToUDLChan"} {
		pos := funcPos(c, "pkg/updown", rd)
		var bad []string
		for _, tc := range []struct {
			name    string
			recs    [][]string
			wantErr bool
		}{
			{"empty file", [][]string{}, true},
			{"wrong header", [][]string{{"query", "SNPs", "ambiguities", "SNPcount", "ambiguouscount"}, {"a", "", "", "0", "0"}}, true},
			{"data row instead of header", [][]string{{"a", "A2C", "", "1", "0"}}, true},
			{"reordered header", [][]string{{"query", "ambiguities", "SNPs", "SNPcount", "ambcount"}}, true},
			{"valid file", [][]string{header, {"a", "A2C|A5G", "7-9|12", "2", "4"}}, false},
			{"non-numeric ambiguity count", [][]string{header, {"a", "", "", "0", "x"}}, true},
			{"non-numeric range", [][]string{header, {"a", "", "3-x", "0", "1"}}, true},
			{"non-numeric range start", [][]string{header, {"a", "", "x-5", "0", "5"}}, true},
			{"missing range start", [][]string{header, {"a", "", "-5", "0", "5"}}, true},
			{"non-numeric range start in a later row", [][]string{header, {"a", "", "1-2", "0", "2"}, {"b", "", "4|q-9", "0", "3"}}, true},
			{"non-numeric single ambiguity", [][]string{header, {"a", "", "7|y", "0", "2"}}, true},
			{"non-numeric SNP position", [][]string{header, {"a", "AxC", "", "1", "0"}}, true},
		} {
			got, isErr, done, crash, und := runCSVReader(c, rd, tc.recs)
			if und != "" || crash != "" {
				bad = append(bad, tc.name+": "+und+crash)
				continue
			}
			if isErr != tc.wantErr {
				bad = append(bad, fmt.Sprintf("%s: rejected=%v, want %v", tc.name, isErr, tc.wantErr))
				continue
			}
			if isErr && done {
				bad = append(bad, tc.name+": error reported but completion also signalled")
			}
			if tc.name == "valid file" {
				okRec := len(got) == 1
				if okRec {
					r := got[0]
					okRec = eval.Show(r.F["id"]) == `"a"` && eval.Show(r.F["snps"]) == `["A2C" "A5G"]` && eval.Show(r.F["snpsPos"]) == "[2 5]" &&
						eval.Show(r.F["ambs"]) == "[7 9 12 12]" && eval.Show(r.F["ambCount"]) == "4"
				}
				if !okRec {
					bad = append(bad, fmt.Sprintf("valid file: parsed %v", showStructs(got)))
				}
			}
		}
		c.Ob(rule+"/csv-validation/"+rd, len(bad) == 0, pos, "%s", first(bad, 4))
	}
}

func showStructs(svs []*eval.StructVal) string {
	var parts []string
	for _, s := range svs {
		parts = append(parts, eval.Show(s))
	}
	return strings.Join(parts, " ")
}
