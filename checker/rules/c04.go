package rules

import (
	"fmt"
	"go/token"
	"sort"
	"strings"

	"gofasta-verif/core"
	"gofasta-verif/eval"
	"gofasta-verif/oracle"
)

func init() {
	register("C04", C04)
	register("C05", C05)
	register("C11", C11)
}

func C04(c *core.Ctx) {
	c.Explanation("C04: variants.GetVariantsPair (getNucsPair, getAAsPair, merge/sort/dedup) is interpreted on a bounded family of gapped (reference, query) pairs - every single-site change to A/C/G/T/N/R/gap at every position of a 12-base reference, two changes per codon, every deletion of length 1..3, one and two insertions, both-gap columns - under three annotations (one forward gene, overlapping forward + reverse genes, a joined gene), against an independent specification: the set of positions mentioned as nuc: records or inside aa: records' SNP lists equals the set of positions whose base sets are disjoint (none dropped, none invented), and the aa: records are exactly the codons whose query translation is unambiguous and differs from the reference's under the standard code on the feature's strand. The codon dictionary is checked as in C17. Position coverage: for GenBank and GFF annotations (named, unnamed, overlapping, joined, reverse) every reference position is in the intergenic list or in the position list of a region that is scanned.")
	c13Variants(c) // in aggregate mode (with --append-snps) every reported position is still mentioned
	c02Rows(c)     // sam variants reads the rows blockToPairwiseAlignment builds
	c01Grouping(c) // ... from the records groupSamRecords keeps: secondary and unmapped records contribute no difference
	checkArrivalOrderIndependence(c, "R7/reorder", "variants.WriteVariants")
	checkSoftGapReaders(c, "R6", "pkg/variants", "pkg/sam", "pkg/gff", "pkg/genbank")
	ev0 := newEval(c)
	tabs := extractTables(c, ev0, "R0")
	if !tabs.OK {
		return
	}
	checkSamWorkerStateless(c, tabs, "R8")
	checkFastaWorkerStateless(c, tabs, "R8")
	checkReaders(c, tabs, "R10/", true, "findReference") // the differences are those from THE reference: the record named, not a namesake listed before it
	if dict, ok := codonDict(c, ev0, "R1"); ok {
		checkCodonDict(c, "R1", dict)
	}
	v := runVariantsFamily(c, tabs)
	pos := funcPos(c, "pkg/variants", "GetVariantsPair")
	c.Count("pairs_evaluated", v.n)
	if len(v.und) > 0 {
		c.Und("R3/GetVariantsPair", pos, "cannot evaluate: %s", first(v.und, 3))
		return
	}
	c.Ob("R3/GetVariantsPair/no-snp-dropped-none-invented", len(v.badSNP) == 0, funcPos(c, "pkg/variants", "getAAsPair"), "%s", first(v.badSNP, 3))
	c.Ob("R4/GetVariantsPair/aa-records-are-true-translations", len(v.badAA) == 0, funcPos(c, "pkg/variants", "getAAsPair"), "%s", first(v.badAA, 3))
	c.Sample(map[string]string{"rule": "R3/R4", "reference": variantRef, "query": "ATGCCTAAATTA", "annotation": "geneA 1..9 (+), geneR 12..7 (-)", "specified": "nuc:C6T mentioned; no aa (CCT=P)"})
	c04Partition(c)
	c04Constructed(c, tabs)
	c04AmbiguousReference(c, tabs)
}

// c04Constructed: regions as built by RegionsFromGFF / RegionsFromGenbank from each annotation layout are fed to
// GetVariantsPair for every single-base change of the reference; the result must equal the specification computed
// from an independent reading of the annotation (strand, joins, codon_start/phase).
func c04Constructed(c *core.Ctx, tabs *Tables) {
	rg := c.LookupFunc("pkg/variants", "RegionsFromGFF")
	rb := c.LookupFunc("pkg/variants", "RegionsFromGenbank")
	if rg == nil || rb == nil {
		c.Und("R5/constructed-regions", token.NoPos, "UNRESOLVED region constructors")
		return
	}
	var bad []string
	n := 0
	for _, ac := range annoCases(c) {
		var specs []regionSpec
		for _, f := range ac.gb {
			if f.kind != "CDS" {
				continue
			}
			ps := locPositions(f.location)
			strand := 1
			if strings.Contains(f.location, "complement(") {
				strand = -1 // what the location says; the order of the positions is no evidence (origin-spanning genes)
			}
			if f.codonStart > 1 {
				ps = ps[f.codonStart-1:]
			}
			specs = append(specs, regionSpec{Name: f.gene, Positions: ps, Strand: strand})
		}
		for _, form := range []string{"gff", "genbank"} {
			ev := newEval(c)
			var rv eval.Value
			var err error
			if form == "gff" {
				rv, err = ev.CallFunc(rg, mkGFF(c, ac.gff), eval.S(annoRef))
			} else {
				rv, err = ev.CallFunc(rb, mkGenbank(c, ac.gb, annoRef), eval.K(int64(len(annoRef))))
			}
			if err != nil {
				bad = append(bad, fmt.Sprintf("%s (%s): %v", ac.name, form, err))
				continue
			}
			t, ok := rv.(eval.Tuple)
			if !ok || len(t) != 3 {
				continue
			}
			if _, isErr := t[2].(eval.ErrVal); isErr {
				bad = append(bad, fmt.Sprintf("%s (%s): the annotation is rejected", ac.name, form))
				continue
			}
			step := 1
			if c.Tier != "thorough" {
				step = 2
			}
			for p := 0; p < len(annoRef); p += step {
				for _, alt := range []byte("ACGT") {
					if alt == annoRef[p] {
						continue
					}
					q := []byte(annoRef)
					q[p] = alt
					n++
					got, err := evalVariantsPairWith(c, tabs, annoRef, string(q), nil, []eval.Value{t[0], t[1]})
					if err != nil {
						bad = append(bad, fmt.Sprintf("%s (%s): %v", ac.name, form, err))
						continue
					}
					want := specPair(annoRef, string(q), specs)
					mention := map[string]bool{}
					for _, x := range got.nucs {
						mention[x] = true
					}
					for _, sn := range got.aaSNPs {
						for _, m := range strings.Split(sn, ";") {
							if m != "" {
								mention[m] = true
							}
						}
					}
					okS := len(mention) == len(want.snps)
					for sn := range want.snps {
						if !mention[sn] {
							okS = false
						}
					}
					if !okS || !sameSet(got.aas, want.aaList) {
						bad = append(bad, fmt.Sprintf("%s (%s form), %c%d%c: reported %v, specified aa %v with SNPs %v", ac.name, form, annoRef[p], p+1, alt, got.all, want.aaList, keysOf(want.snps)))
					}
				}
			}
			if len(bad) > 12 {
				break
			}
		}
	}
	c.Count("constructed_region_pairs_evaluated", n)
	c.Ob("R5/constructed-regions/calls-equal-annotation-semantics", len(bad) == 0, funcPos(c, "pkg/variants", "CDSRegion2fromGFF"), "%s", first(bad, 3))
}

func keysOf(m map[string]bool) []string {
	var out []string
	for k := range m {
		out = append(out, k)
	}
	sort.Strings(out)
	return out
}

// ---------------------------------------------------------------- position coverage of the region constructors

type annoCase struct {
	name string
	gff  []*eval.StructVal
	gb   []gbFeature
	ref  string
}

type gbFeature struct {
	kind, location, gene string
	codonStart           int
}

func mkGenbank(c *core.Ctx, feats []gbFeature, ref string) *eval.StructVal {
	gt := namedType(c, "pkg/genbank", "Genbank")
	ft := namedType(c, "pkg/genbank", "GenbankFeature")
	g := absValue(gt, "gb", eval.K(0)).(*eval.StructVal)
	var fs []eval.Value
	for _, f := range feats {
		fv := absValue(ft, "f", eval.K(0)).(*eval.StructVal)
		fv.F["Feature"] = eval.S(f.kind)
		fv.F["Location"] = &eval.StructVal{F: map[string]eval.Value{"Representation": eval.S(f.location)}}
		info := eval.NewMap()
		if f.gene != "" {
			info.Set(eval.S("gene"), eval.S(f.gene))
		}
		if f.codonStart > 0 {
			info.Set(eval.S("codon_start"), eval.S(fmt.Sprint(f.codonStart)))
		}
		info.Set(eval.S("translation"), eval.S(gbTranslation(f, ref)))
		fv.F["Info"] = info
		fs = append(fs, fv)
	}
	g.F["FEATURES"] = eval.NewSlice(fs...)
	g.F["ORIGIN"] = bytesVal(ref)
	return g
}

// locPositions: the checker's own reading of a GenBank location (a..b, join, complement, nesting).
func locPositions(loc string) []int {
	loc = strings.TrimSpace(loc)
	switch {
	case strings.HasPrefix(loc, "complement(") && strings.HasSuffix(loc, ")"):
		in := locPositions(loc[len("complement(") : len(loc)-1])
		for i, j := 0, len(in)-1; i < j; i, j = i+1, j-1 {
			in[i], in[j] = in[j], in[i]
		}
		return in
	case strings.HasPrefix(loc, "join(") && strings.HasSuffix(loc, ")"):
		body := loc[len("join(") : len(loc)-1]
		var out []int
		depth, start := 0, 0
		for i := 0; i <= len(body); i++ {
			if i == len(body) || (body[i] == ',' && depth == 0) {
				out = append(out, locPositions(body[start:i])...)
				start = i + 1
				continue
			}
			if body[i] == '(' {
				depth++
			} else if body[i] == ')' {
				depth--
			}
		}
		return out
	}
	var a, b int
	fmt.Sscanf(loc, "%d..%d", &a, &b)
	var out []int
	for p := a; p <= b; p++ {
		out = append(out, p)
	}
	return out
}

func gbTranslation(f gbFeature, ref string) string {
	ps := locPositions(strings.NewReplacer("<", "", ">", "").Replace(f.location)) // partial-feature markers do not change the range
	rev := strings.Contains(f.location, "complement(")                            // the strand is what the location says, not the order of its positions (a gene spanning the origin is join(16..21,1..6), forward)
	if f.codonStart > 1 {
		ps = ps[f.codonStart-1:]
	}
	var sb strings.Builder
	for k := 0; k+2 < len(ps); k += 3 {
		var cod [3]byte
		for t := 0; t < 3; t++ {
			b := ref[ps[k+t]-1]
			if rev {
				b = compBase(b)
			}
			cod[t] = b
		}
		aa, _ := oracle.TranslateIUPAC(string(cod[:]))
		sb.WriteByte(aa)
	}
	return strings.TrimSuffix(sb.String(), "*")
}

const annoRef = "ATGCCCAAATTAGGGTTTCATACG" // 24 bases

func annoCases(c *core.Ctx) []annoCase {
	A := func(kv ...string) map[string]string {
		m := map[string]string{}
		for i := 0; i+1 < len(kv); i += 2 {
			m[kv[i]] = kv[i+1]
		}
		return m
	}
	return []annoCase{
		{name: "one forward gene",
			gff: []*eval.StructVal{mkGFFFeature(c, "CDS", 1, 9, "+", 0, A("ID", "c1", "Name", "g1"))},
			gb:  []gbFeature{{"CDS", "1..9", "g1", 1}}},
		{name: "two genes, overlapping",
			gff: []*eval.StructVal{mkGFFFeature(c, "CDS", 1, 9, "+", 0, A("ID", "c1", "Name", "g1")), mkGFFFeature(c, "CDS", 7, 18, "+", 0, A("ID", "c2", "Name", "g2"))},
			gb:  []gbFeature{{"CDS", "1..9", "g1", 1}, {"CDS", "7..18", "g2", 1}}},
		{name: "reverse-strand gene",
			gff: []*eval.StructVal{mkGFFFeature(c, "CDS", 4, 15, "-", 0, A("ID", "c1", "Name", "g1"))},
			gb:  []gbFeature{{"CDS", "complement(4..15)", "g1", 1}}},
		{name: "joined gene, segment lengths 4+8",
			gff: []*eval.StructVal{mkGFFFeature(c, "CDS", 1, 4, "+", 0, A("ID", "c1", "Name", "g1")), mkGFFFeature(c, "CDS", 10, 17, "+", 2, A("ID", "c1", "Name", "g1"))},
			gb:  []gbFeature{{"CDS", "join(1..4,10..17)", "g1", 1}}},
		{name: "joined gene, segment lengths 6+6",
			gff: []*eval.StructVal{mkGFFFeature(c, "CDS", 1, 6, "+", 0, A("ID", "c1", "Name", "g1")), mkGFFFeature(c, "CDS", 10, 15, "+", 0, A("ID", "c1", "Name", "g1"))},
			gb:  []gbFeature{{"CDS", "join(1..6,10..15)", "g1", 1}}},
		{name: "reverse joined gene, segment lengths 5+7",
			gff: []*eval.StructVal{mkGFFFeature(c, "CDS", 2, 8, "-", 1, A("ID", "c1", "Name", "g1")), mkGFFFeature(c, "CDS", 14, 18, "-", 0, A("ID", "c1", "Name", "g1"))},
			gb:  []gbFeature{{"CDS", "complement(join(2..8,14..18))", "g1", 1}}},
		{name: "reverse joined gene written as a join of complements",
			gff: []*eval.StructVal{mkGFFFeature(c, "CDS", 2, 8, "-", 1, A("ID", "c1", "Name", "g1")), mkGFFFeature(c, "CDS", 14, 18, "-", 0, A("ID", "c1", "Name", "g1"))},
			gb:  []gbFeature{{"CDS", "join(complement(14..18),complement(2..8))", "g1", 1}}},
		{name: "two genes whose GFF rows carry a Name but no ID",
			gff: []*eval.StructVal{mkGFFFeature(c, "CDS", 1, 9, "+", 0, A("Name", "g1")), mkGFFFeature(c, "CDS", 13, 21, "+", 0, A("Name", "g2"))},
			gb:  []gbFeature{{"CDS", "1..9", "g1", 1}, {"CDS", "13..21", "g2", 1}}},
		{name: "a reverse and a forward gene whose GFF rows carry no ID",
			gff: []*eval.StructVal{mkGFFFeature(c, "CDS", 4, 12, "-", 0, A("Name", "g1")), mkGFFFeature(c, "CDS", 13, 21, "+", 0, A("Name", "g2"))},
			gb:  []gbFeature{{"CDS", "complement(4..12)", "g1", 1}, {"CDS", "13..21", "g2", 1}}},
		{name: "two CDS that share a gene name, the second in another frame",
			gff: []*eval.StructVal{mkGFFFeature(c, "CDS", 1, 9, "+", 0, A("ID", "c1", "Name", "g1")), mkGFFFeature(c, "CDS", 5, 16, "+", 0, A("ID", "c2", "Name", "g1"))},
			gb:  []gbFeature{{"CDS", "1..9", "g1", 1}, {"CDS", "5..16", "g1", 1}}},
		{name: "partial gene starting in frame 2",
			gff: []*eval.StructVal{mkGFFFeature(c, "CDS", 3, 12, "+", 1, A("ID", "c1", "Name", "g1"))},
			gb:  []gbFeature{{"CDS", "3..12", "g1", 2}}},
		{name: "reverse-strand partial gene starting in frame 2",
			gff: []*eval.StructVal{mkGFFFeature(c, "CDS", 4, 16, "-", 1, A("ID", "c1", "Name", "g1"))},
			gb:  []gbFeature{{"CDS", "complement(4..16)", "g1", 2}}},
		{name: "reverse joined partial gene starting in frame 3",
			gff: []*eval.StructVal{mkGFFFeature(c, "CDS", 2, 8, "-", 0, A("ID", "c1", "Name", "g1")), mkGFFFeature(c, "CDS", 14, 20, "-", 2, A("ID", "c1", "Name", "g1"))},
			gb:  []gbFeature{{"CDS", "complement(join(2..8,14..20))", "g1", 3}}},
		{name: "gene spanning the origin of a circular genome, rows listed 5' to 3'",
			gff: []*eval.StructVal{mkGFFFeature(c, "CDS", 16, 21, "+", 0, A("ID", "c1", "Name", "g1")), mkGFFFeature(c, "CDS", 1, 6, "+", 0, A("ID", "c1", "Name", "g1"))},
			gb:  []gbFeature{{"CDS", "join(16..21,1..6)", "g1", 1}}},
		{name: "reverse-strand gene spanning the origin, rows listed 3' to 5' as for any reverse gene",
			gff: []*eval.StructVal{mkGFFFeature(c, "CDS", 16, 21, "-", 0, A("ID", "c1", "Name", "g1")), mkGFFFeature(c, "CDS", 1, 6, "-", 0, A("ID", "c1", "Name", "g1"))},
			gb:  []gbFeature{{"CDS", "complement(join(16..21,1..6))", "g1", 1}}},
		{name: "ribosomal slippage: a join that reads base 6 twice, listed after the gene that overlaps it",
			gff: []*eval.StructVal{mkGFFFeature(c, "CDS", 7, 18, "+", 0, A("ID", "c2", "Name", "g2")), mkGFFFeature(c, "CDS", 1, 6, "+", 0, A("ID", "c1", "Name", "g1")), mkGFFFeature(c, "CDS", 6, 11, "+", 0, A("ID", "c1", "Name", "g1"))},
			gb:  []gbFeature{{"CDS", "7..18", "g2", 1}, {"CDS", "join(1..6,6..11)", "g1", 1}}},
		{name: "ribosomal slippage: a join that reads base 6 twice, listed before a gene that starts upstream of it",
			gff: []*eval.StructVal{mkGFFFeature(c, "CDS", 4, 6, "+", 0, A("ID", "c1", "Name", "g1")), mkGFFFeature(c, "CDS", 6, 14, "+", 0, A("ID", "c1", "Name", "g1")), mkGFFFeature(c, "CDS", 1, 9, "+", 0, A("ID", "c2", "Name", "g2"))},
			gb:  []gbFeature{{"CDS", "join(4..6,6..14)", "g1", 1}, {"CDS", "1..9", "g2", 1}}},
		{name: "a joined gene whose rows are interleaved with the row of an overlapping gene (a coordinate-sorted file)",
			gff: []*eval.StructVal{mkGFFFeature(c, "CDS", 4, 6, "+", 0, A("ID", "c1", "Name", "g1")), mkGFFFeature(c, "CDS", 5, 13, "+", 0, A("ID", "c2", "Name", "g2")), mkGFFFeature(c, "CDS", 6, 14, "+", 0, A("ID", "c1", "Name", "g1"))},
			gb:  []gbFeature{{"CDS", "join(4..6,6..14)", "g1", 1}, {"CDS", "5..13", "g2", 1}}},
		{name: "a mature peptide written on two rows that share an ID, inside its polyprotein",
			gff: []*eval.StructVal{mkGFFFeature(c, "CDS", 1, 18, "+", 0, A("ID", "c1", "Name", "poly")), mkGFFFeature(c, "mature_protein_region_of_CDS", 4, 9, "+", 0, A("ID", "m1", "Name", "mp")), mkGFFFeature(c, "mature_protein_region_of_CDS", 13, 18, "+", 0, A("ID", "m1", "Name", "mp"))},
			gb:  []gbFeature{{"CDS", "1..18", "poly", 1}, {"CDS", "join(4..9,13..18)", "mp", 1}}},
		{name: "gene plus non-CDS features",
			gff: []*eval.StructVal{mkGFFFeature(c, "gene", 1, 24, "+", 0, A("ID", "gene1", "Name", "g1")), mkGFFFeature(c, "CDS", 4, 12, "+", 0, A("ID", "c1", "Name", "g1"))},
			gb:  []gbFeature{{"gene", "1..24", "g1", 0}, {"CDS", "4..12", "g1", 1}}},
	}
}

type regionsOut struct {
	regions []string // rendered regions
	inter   []int
	cover   map[int]bool // positions covered by a returned (scanned) region
	err     string
}

func readRegions(v eval.Value) regionsOut {
	var o regionsOut
	o.cover = map[int]bool{}
	t, ok := v.(eval.Tuple)
	if !ok || len(t) != 3 {
		o.err = "unexpected result " + eval.Show(v)
		return o
	}
	if e, isErr := t[2].(eval.ErrVal); isErr {
		o.err = "constructor error: " + e.Msg.String()
		return o
	}
	if sl, ok := t[0].(eval.Slice); ok {
		for _, e := range sl.Elems() {
			r := e.(*eval.StructVal)
			var ps []string
			if p, ok := r.F["Positions"].(eval.Slice); ok {
				for _, x := range p.Elems() {
					n, _ := linConst(x)
					o.cover[int(n)] = true
					ps = append(ps, fmt.Sprint(n))
				}
			}
			o.regions = append(o.regions, fmt.Sprintf("%s strand=%s start=%s stop=%s positions=[%s] translation=%s",
				r.F["Name"].(eval.Str).Const(), eval.Show(r.F["Strand"]), eval.Show(r.F["Start"]), eval.Show(r.F["Stop"]), strings.Join(ps, " "), r.F["Translation"].(eval.Str).Const()))
		}
	}
	if sl, ok := t[1].(eval.Slice); ok {
		for _, x := range sl.Elems() {
			n, _ := linConst(x)
			o.inter = append(o.inter, int(n))
		}
	}
	return o
}

func evalRegionsGFF(c *core.Ctx, feats []*eval.StructVal, ref string) regionsOut {
	fn := c.LookupFunc("pkg/variants", "RegionsFromGFF")
	if fn == nil {
		return regionsOut{err: "UNRESOLVED variants.RegionsFromGFF"}
	}
	ev := newEval(c)
	v, err := ev.CallFunc(fn, mkGFF(c, feats), eval.S(ref))
	if err != nil {
		return regionsOut{err: "undecided: " + err.Error()}
	}
	return readRegions(v)
}

func evalRegionsGenbank(c *core.Ctx, feats []gbFeature, ref string) regionsOut {
	fn := c.LookupFunc("pkg/variants", "RegionsFromGenbank")
	if fn == nil {
		return regionsOut{err: "UNRESOLVED variants.RegionsFromGenbank"}
	}
	ev := newEval(c)
	v, err := ev.CallFunc(fn, mkGenbank(c, feats, ref), eval.K(int64(len(ref))))
	if err != nil {
		return regionsOut{err: "undecided: " + err.Error()}
	}
	return readRegions(v)
}

func uncovered(o regionsOut, n int) []int {
	in := map[int]bool{}
	for _, p := range o.inter {
		in[p] = true
	}
	var out []int
	for p := 1; p <= n; p++ {
		if !in[p] && !o.cover[p] {
			out = append(out, p)
		}
	}
	return out
}

func c04Partition(c *core.Ctx) {
	A := func(kv ...string) map[string]string {
		m := map[string]string{}
		for i := 0; i+1 < len(kv); i += 2 {
			m[kv[i]] = kv[i+1]
		}
		return m
	}
	cases := annoCases(c)
	// GFF-only layouts: unnamed features
	cases = append(cases,
		annoCase{name: "unnamed CDS next to a named mature peptide", gff: []*eval.StructVal{
			mkGFFFeature(c, "CDS", 4, 15, "+", 0, A("ID", "c1")),
			mkGFFFeature(c, "mature_protein_region_of_CDS", 4, 9, "+", 0, A("ID", "m1", "Name", "pep1"))}},
		annoCase{name: "CDS without ID or Name", gff: []*eval.StructVal{
			mkGFFFeature(c, "CDS", 1, 9, "+", 0, A("Note", "x")),
			mkGFFFeature(c, "CDS", 13, 18, "+", 0, A("ID", "c2", "Name", "g2"))}},
	)
	var badG, badB []string
	n := 0
	for _, ac := range cases {
		n++
		o := evalRegionsGFF(c, ac.gff, annoRef)
		if o.err != "" {
			if !strings.HasPrefix(o.err, "constructor error") {
				badG = append(badG, ac.name+": "+o.err)
			}
		} else if u := uncovered(o, len(annoRef)); len(u) > 0 {
			badG = append(badG, fmt.Sprintf("%s: reference positions %v are neither intergenic nor in a scanned region: a SNP there is reported by nobody", ac.name, u))
		}
		if ac.gb != nil {
			n++
			o := evalRegionsGenbank(c, ac.gb, annoRef)
			if o.err != "" {
				badB = append(badB, ac.name+": "+o.err)
			} else if u := uncovered(o, len(annoRef)); len(u) > 0 {
				badB = append(badB, fmt.Sprintf("%s: reference positions %v are neither intergenic nor in a scanned region", ac.name, u))
			}
		}
	}
	c.Count("annotations_evaluated", n)
	c.Ob("R2/RegionsFromGFF/every-position-scanned", len(badG) == 0, funcPos(c, "pkg/variants", "RegionsFromGFF"), "%s", first(badG, 3))
	c.Ob("R2/RegionsFromGenbank/every-position-scanned", len(badB) == 0, funcPos(c, "pkg/variants", "RegionsFromGenbank"), "%s", first(badB, 3))
}

func C05(c *core.Ctx) {
	c.Explanation("C05: variants.GetVariantsPair (getIndelsPair with the offset tables of GetMSAOffsets) is interpreted on the bounded family of gapped pairs of C04 - every deletion of length 1..3 at every position of a 12-base reference (including those touching the first and last base), one insertion of length 1..2 after every position 0..12, two insertions at all pairs of positions, columns that are gaps in both rows before, inside and after insertions, insertion adjacent to a deletion or a SNP - against an independent specification: ins:P:L with P = number of reference bases to the left, one record per maximal run of columns without a reference base (both-gap columns removed first); del:P:L with P = first deleted reference base, one record per maximal run of consecutive reference positions absent from the query (bases the query inserts between two deleted bases do not split the run - the statement speaks of reference bases P..P+L-1 in ungapped reference coordinates; until round 9 the specification split such a run, which no family member showed); deletions touching either end not reported. Layouts: deletion-insertion-deletion without an aligned base in between, both-gap columns added inside insertions of two and three bases. The soft-gap code used by pkg/variants equals the encoding table's.")
	ev0 := newEval(c)
	tabs := extractTables(c, ev0, "R0")
	if !tabs.OK {
		return
	}
	c15WindowFilter(c) // an indel is listed where its position P is: a window keeps or drops it by P alone, whatever its length
	v := runVariantsFamily(c, tabs)
	pos := funcPos(c, "pkg/variants", "getIndelsPair")
	c.Count("pairs_evaluated", v.n)
	if len(v.und) > 0 {
		c.Und("R1/getIndelsPair", pos, "cannot evaluate: %s", first(v.und, 3))
		return
	}
	c.Ob("R1/getIndelsPair/reference-coordinates", len(v.badIndel) == 0, pos, "%s", first(v.badIndel, 3))
	c.Sample(map[string]string{"rule": "R1", "reference_row": "ATG-CCCAA--ATTA", "query_row": "ATGGCCCAAGTATTA", "specified": "ins:3:1, ins:8:2"})
	// both-gap columns never matter: the same pair with extra columns gives the same list
	var bad []string
	base := []pairCase{{"ATG-CCCAAATTA", "ATGGCCCAAATTA", ""}, {"ATGCCCAAATTA", "ATG---AAATTA", ""}, {"ATGCC-CAAA-TTA", "ATGCCGCAAAGTTA", ""},
		{"ATG--CCCAAATTA", "ATGGTCCCAAATTA", ""}, {"ATGCCC---AAATTA", "ATGCCCGTGAAATTA", ""}, {"ATGC--CCAAATTA", "ATG-GT-CAAATTA", ""}} // incl. columns added INSIDE an insertion of two or three bases
	for _, pc := range base {
		ref0, err := evalVariantsPair(c, tabs, pc.ref, pc.qry, variantRegionSets()[0])
		if err != nil {
			bad = append(bad, err.Error())
			continue
		}
		for at := 0; at <= len(pc.ref); at++ {
			r := pc.ref[:at] + "--" + pc.ref[at:]
			q := pc.qry[:at] + "--" + pc.qry[at:]
			got, err := evalVariantsPair(c, tabs, r, q, variantRegionSets()[0])
			if err != nil {
				bad = append(bad, err.Error())
				continue
			}
			if strings.Join(got.all, "|") != strings.Join(ref0.all, "|") {
				bad = append(bad, fmt.Sprintf("adding two both-gap columns at %d to %s/%s changes the list from %v to %v", at, pc.ref, pc.qry, ref0.all, got.all))
			}
		}
	}
	c.Ob("R1/both-gap-columns-are-irrelevant", len(bad) == 0, pos, "%s", first(bad, 3))
	// the SAM form: rows built by blockToPairwiseAlignment from one- and two-record queries, then the same caller
	{
		ref := "ACGTTGA"
		var badSam []string
		nSam := 0
		for gi, g := range groupsFor(len(ref), false) {
			if c.Tier != "thorough" && len(g) == 2 && gi%5 != 0 {
				continue
			}
			if _, _, ok := specPairAlign(g, ref); !ok {
				continue
			}
			hasIndel := false
			for _, r := range g {
				if strings.ContainsAny(r.Cigar, "ID") {
					hasIndel = true
				}
			}
			if !hasIndel {
				continue
			}
			rr, qq, _, _, _, err := evalPairAlign(c, g, ref, false)
			if err != nil {
				badSam = append(badSam, fmt.Sprintf("%s: %v", recString(g), err))
				continue
			}
			got, err := evalVariantsPair(c, tabs, rr, qq, nil)
			if err != nil {
				badSam = append(badSam, fmt.Sprintf("%s: %v", recString(g), err))
				continue
			}
			nSam++
			// specification straight from the records: insertions by reference position, deletions from the projection
			var want []string
			ins := map[int]int{}
			for _, r := range g {
				for _, in := range recordInsertions(r) {
					ins[in.at] = len(in.seq)
				}
			}
			for at, l := range ins {
				want = append(want, fmt.Sprintf("ins:%d:%d", at, l))
			}
			var rows [][]byte
			for _, r := range g {
				rows = append(rows, projectRecord(r, len(ref)))
			}
			flat := flattenSpec(rows)
			for p := 0; p < len(flat); {
				if flat[p] != '-' {
					p++
					continue
				}
				q := p
				for q < len(flat) && flat[q] == '-' {
					q++
				}
				if p != 0 && q != len(flat) {
					want = append(want, fmt.Sprintf("del:%d:%d", p+1, q-p))
				}
				p = q
			}
			if !sameSet(got.indels, want) {
				badSam = append(badSam, fmt.Sprintf("%s on reference %s: rows %s / %s give %v, the records say %v", recString(g), ref, rr, qq, got.indels, want))
			}
			if len(badSam) > 10 {
				break
			}
		}
		c.Count("sam_groups_evaluated", nSam)
		c.Ob("R1/sam-form/indels-of-record-groups", len(badSam) == 0, funcPos(c, "pkg/sam", "blockToSeqPair"), "%s", first(badSam, 3))
	}
	checkSamWorkerStateless(c, tabs, "R1")
	c02WorkerBatches(c, "R1/sam-form/blockToPairwiseAlignment") // the rows of a query do not depend on the queries the worker built before
	// gap code agreement
	gapCodes := gapLiterals(c)
	var badCodes []string
	for _, g := range gapCodes {
		if g.val != tabs.Soft['-'] {
			badCodes = append(badCodes, fmt.Sprintf("%s compares with %d; the soft-gap code is %d", c.PosStr(g.pos), g.val, tabs.Soft['-']))
		}
	}
	c.Ob("R2/gap-code-literals", len(badCodes) == 0, pos, "%s", first(badCodes, 4))
	c.Floor("R2/gap-code-literals", len(gapCodes), 3)
}

type gapLit struct {
	pos token.Pos
	val int64
}

// gapLiterals: integer constants (literal or named, by value) compared (==, !=) with a byte in pkg/variants.
func gapLiterals(c *core.Ctx) []gapLit {
	p := c.Pkgs["pkg/variants"]
	if p == nil {
		return nil
	}
	var out []gapLit
	for _, file := range p.Syntax {
		inspectBinary(file, p.Syntax, p.TypesInfo, func(pos token.Pos, v int64) {
			if v > 16 {
				out = append(out, gapLit{pos, v})
			}
		})
	}
	sort.Slice(out, func(i, j int) bool { return out[i].pos < out[j].pos })
	return out
}

func C11(c *core.Ctx) {
	c.Explanation("C11: agreement by construction plus agreement on a bounded family: the SAM-path worker getVariantsSam (text rows, encoded in the worker) and the FASTA-path worker getVariants (encoded record, offsets from GetMSAOffsets as variants.Variants computes them) are interpreted on the same gapped pairs and annotations as C04/C05 and must emit identical mutation lists, names and indices; both paths call GetVariantsPair; sam variants obtains its rows from the function toPairAlign writes from (blockToPairwiseAlignment with insertions kept); both entry points hand results to the same two writers.")
	c15Stdin(c)                                                                  // toPairAlign -o stdout | variants reads the pair from a stream: the same table as from a file
	c16Structural(c)                                                             // the FASTA form is read back by the same readers, with the same line limit in each
	c02Rows(c)                                                                   // sam variants reads the rows blockToPairwiseAlignment builds
	c02Writer(c)                                                                 // what toPairAlign writes is those rows, whole, under every --wrap
	checkArrivalOrderIndependence(c, "R8/reorder", "sam.writePairwiseAlignment") // the pair written is the pair of that query, whatever arrives meanwhile
	checkCigarTables(c, "R7", func(t cigarTable) bool { return true })           // the toMultiAlign row and the toPairAlign pair come from tables that agree with the SAM specification
	checkReferenceRecordName(c, "R6")
	c15TrimAlignment(c) // the pair toPairAlign writes is the pair sam variants reads: no cut without a window
	ev0 := newEval(c)
	tabs := extractTables(c, ev0, "R0")
	if !tabs.OK {
		return
	}
	samW := c.LookupFunc("pkg/sam", "getVariantsSam")
	fasW := c.LookupFunc("pkg/variants", "getVariants")
	off := c.LookupFunc("pkg/variants", "GetMSAOffsets")
	pairT := namedType(c, "pkg/sam", "alignPair")
	recT := namedType(c, "pkg/fastaio", "EncodedFastaRecord")
	if samW == nil || fasW == nil || off == nil || pairT == nil || recT == nil {
		c.Und("R1/workers", token.NoPos, "UNRESOLVED anchors getVariantsSam/getVariants")
		return
	}
	var bad []string
	n := 0
	sets := variantRegionSets()
	pairs := variantPairs(c.Tier)
	for si, regions := range sets {
		for pi, pc := range pairs {
			if c.Tier != "thorough" && si > 0 && pi%3 != 0 {
				continue
			}
			n++
			ungapped := strings.ReplaceAll(pc.ref, "-", "")
			mkRegs := func() (eval.Value, eval.Value) {
				var regs, inter []eval.Value
				for _, r := range regions {
					regs = append(regs, mkRegion(c, r, ungapped))
				}
				for _, p := range intergenic(regions, len(ungapped)) {
					inter = append(inter, eval.K(int64(p)))
				}
				return eval.NewSlice(regs...), eval.NewSlice(inter...)
			}
			// SAM path
			ev := newEval(c)
			pair := absValue(pairT, "p", eval.K(0)).(*eval.StructVal)
			pair.F["ref"] = bytesVal(pc.ref)
			pair.F["query"] = bytesVal(pc.qry)
			pair.F["refname"] = eval.S("ref")
			pair.F["queryname"] = eval.S("qry")
			// in a SAM file the first query has input index 0; in the alignment `variants` reads, the reference comes
			// first and the same query has index 1 (alternating with a query further down the file)
			samIdx := int64(4 * (n % 2))
			pair.F["idx"] = eval.K(samIdx)
			regs, inter := mkRegs()
			outS := &eval.ChanVal{Name: "out"}
			errS := &eval.ChanVal{Name: "err"}
			_, err := ev.CallFunc(samW, regs, inter, &eval.ChanVal{Name: "in", Feed: []eval.Value{pair}}, outS, errS)
			if err != nil || len(outS.Sent) != 1 || len(errS.Sent) > 0 {
				bad = append(bad, fmt.Sprintf("%s/%s: SAM path undecided: %v", pc.ref, pc.qry, err))
				continue
			}
			// FASTA path
			ev2 := newEval(c)
			ov, err := ev2.CallFunc(off, encodeRow(tabs, pc.ref))
			if err != nil {
				bad = append(bad, "offsets undecided: "+err.Error())
				continue
			}
			ot := ov.(eval.Tuple)
			mkRec := func(id string, idx int64, row string) *eval.StructVal {
				r := absValue(recT, id, eval.K(0)).(*eval.StructVal)
				r.F["ID"] = eval.S(id)
				r.F["Description"] = eval.S(id)
				r.F["Idx"] = eval.K(idx)
				r.F["Seq"] = encodeRow(tabs, row)
				return r
			}
			regs2, inter2 := mkRegs()
			outF := &eval.ChanVal{Name: "out"}
			errF := &eval.ChanVal{Name: "err"}
			_, err = ev2.CallFunc(fasW, mkRec("ref", 0, pc.ref), regs2, inter2, ot[0], ot[1], &eval.ChanVal{Name: "in", Feed: []eval.Value{mkRec("qry", samIdx+1, pc.qry)}}, outF, errF)
			if err != nil || len(outF.Sent) != 1 || len(errF.Sent) > 0 {
				bad = append(bad, fmt.Sprintf("%s/%s: FASTA path undecided: %v", pc.ref, pc.qry, err))
				continue
			}
			showNoIdx := func(v eval.Value, idx int64) string {
				if sv, ok := v.(*eval.StructVal); ok {
					if got, ok := linConst(sv.F["Idx"]); !ok || got != idx {
						return fmt.Sprintf("(input index %s, want %d) %s", eval.Show(sv.F["Idx"]), idx, eval.Show(v))
					}
					cp := &eval.StructVal{F: map[string]eval.Value{}}
					for k, x := range sv.F {
						cp.F[k] = x
					}
					cp.F["Idx"] = eval.K(0)
					return eval.Show(cp)
				}
				return eval.Show(v)
			}
			a, b := showNoIdx(outS.Sent[0], samIdx), showNoIdx(outF.Sent[0], samIdx+1)
			if a != b {
				bad = append(bad, fmt.Sprintf("ref %s query %s: sam variants gives %s, variants gives %s", pc.ref, pc.qry, firstN(a, 300), firstN(b, 300)))
			}
			if len(bad) > 10 {
				break
			}
		}
	}
	c.Count("pairs_evaluated", n)
	c.Ob("R1/workers-agree-on-every-pair", len(bad) == 0, samW.Pos(), "%s", first(bad, 3))
	checkReaders(c, tabs, "R9/", true, "findReference") // the record `variants` compares everything with is the one named, as in sam variants
	// the two forms of one alignment differ in what stands where the query has no base (N in the pair sam variants builds,
	// '-' at the ends of a toMultiAlign row): every difference of the columns both forms share is reported from either,
	// so no SNP of a pair may be dropped or invented whatever else its codon contains (the family of C04)
	if v := runVariantsFamily(c, tabs); len(v.und) == 0 {
		c.Ob("R10/GetVariantsPair/no-snp-dropped-none-invented", len(v.badSNP) == 0, funcPos(c, "pkg/variants", "getAAsPair"), "%s", first(v.badSNP, 3))
	} else {
		c.Und("R10/GetVariantsPair/no-snp-dropped-none-invented", funcPos(c, "pkg/variants", "getAAsPair"), "cannot evaluate: %s", first(v.und, 2))
	}
	checkSamWorkerStateless(c, tabs, "R1")
	checkFastaWorkerStateless(c, tabs, "R1")
	c11Structure(c)
	c11Forms(c, tabs)
}

// checkSamWorkerStateless: several queries through ONE getVariantsSam worker; no state may leak from one query to
// the next. The worker gets pairs of equal width whose insertions sit at different reference positions; each result
// must equal the single-query result. (Shared by C11 and C05: a query's list depends only on its own pair.)
func checkSamWorkerStateless(c *core.Ctx, tabs *Tables, rule string) {
	samW := c.LookupFunc("pkg/sam", "getVariantsSam")
	pairT := namedType(c, "pkg/sam", "alignPair")
	if samW == nil || pairT == nil {
		c.Und(rule+"/sam-worker/no-state-between-queries", token.NoPos, "UNRESOLVED anchor sam.getVariantsSam")
		return
	}
	sets := variantRegionSets()
	{
		var badB []string
		regions := sets[0]
		batches := [][]pairCase{
			{{"ATGCC-CAAATTA", "ATGCCGCAAATTA", ""}, {"ATGCCCAAA-TTA", "ATGCCCAAAGTTA", ""}, {"ATGCCCAAATTA-", "ATGCCCTAATTAG", ""}, {"ATG-CCCAAATTA", "ATGGCCCAAATTA", ""}},
			{{"ATGCCCAAATTA", "ATGCCCAAATTA", ""}, {"ATGCCCAAATTA", "ATG---AAATTA", ""}, {"ATGCCCAAATTA", "ATGCCTAAATTA", ""}},
			{{"ATGCC--CAAATTA", "ATGCCGGCAAATTA", ""}, {"AT--GCCCAAATTA", "ATGGGCCCAAATTA", ""}},
		}
		for _, batch := range batches {
			ungapped := strings.ReplaceAll(batch[0].ref, "-", "")
			var regs, inter []eval.Value
			for _, r := range regions {
				regs = append(regs, mkRegion(c, r, ungapped))
			}
			for _, p := range intergenic(regions, len(ungapped)) {
				inter = append(inter, eval.K(int64(p)))
			}
			var feed []eval.Value
			for i, pc := range batch {
				pair := absValue(pairT, "p", eval.K(0)).(*eval.StructVal)
				pair.F["ref"] = bytesVal(pc.ref)
				pair.F["query"] = bytesVal(pc.qry)
				pair.F["refname"] = eval.S("ref")
				pair.F["queryname"] = eval.S(fmt.Sprintf("q%d", i))
				pair.F["idx"] = eval.K(int64(i))
				feed = append(feed, pair)
			}
			ev := newEval(c)
			out, errs := &eval.ChanVal{Name: "out"}, &eval.ChanVal{Name: "err"}
			if _, err := ev.CallFunc(samW, eval.NewSlice(regs...), eval.NewSlice(inter...), &eval.ChanVal{Name: "in", Feed: feed}, out, errs); err != nil || len(out.Sent) != len(batch) {
				badB = append(badB, fmt.Sprintf("batch undecided: %v (%d results, %d errors)", err, len(out.Sent), len(errs.Sent)))
				continue
			}
			for i, pc := range batch {
				single, err := evalVariantsPair(c, tabs, pc.ref, pc.qry, regions)
				if err != nil {
					badB = append(badB, err.Error())
					continue
				}
				got, err := readAnno(out.Sent[i])
				if err != nil || strings.Join(got.all, "|") != strings.Join(single.all, "|") {
					badB = append(badB, fmt.Sprintf("query %d of a batch through one worker (ref row %s, query row %s): %v, alone it gives %v", i, pc.ref, pc.qry, got.all, single.all))
				}
			}
		}
		c.Ob(rule+"/sam-worker/no-state-between-queries", len(badB) == 0, samW.Pos(), "%s", first(badB, 3))
	}
}

// checkFastaWorkerStateless: several alignment rows through ONE activation of variants.getVariants give, for each row,
// what that row gives alone (the worker keeps nothing from the rows it handled before; items already sent do not change).
func checkFastaWorkerStateless(c *core.Ctx, tabs *Tables, rule string) {
	key := rule + "/fasta-worker/no-state-between-records"
	fasW := c.LookupFunc("pkg/variants", "getVariants")
	off := c.LookupFunc("pkg/variants", "GetMSAOffsets")
	recT := namedType(c, "pkg/fastaio", "EncodedFastaRecord")
	if fasW == nil || off == nil || recT == nil {
		c.Und(key, token.NoPos, "UNRESOLVED anchors variants.getVariants / GetMSAOffsets")
		return
	}
	regions := variantRegionSets()[0]
	// rows of one alignment: the same gapped reference row for all of them
	byRef := map[string][]string{}
	var refs []string
	for _, pc := range variantPairs("quick") {
		if _, seen := byRef[pc.ref]; !seen {
			refs = append(refs, pc.ref)
		}
		byRef[pc.ref] = append(byRef[pc.ref], pc.qry)
	}
	sort.SliceStable(refs, func(i, j int) bool { return len(byRef[refs[i]]) > len(byRef[refs[j]]) })
	mkRec := func(id string, idx int64, row string) *eval.StructVal {
		r := absValue(recT, id, eval.K(0)).(*eval.StructVal)
		r.F["ID"] = eval.S(id)
		r.F["Description"] = eval.S(id)
		r.F["Idx"] = eval.K(idx)
		r.F["Seq"] = encodeRow(tabs, row)
		return r
	}
	run := func(ref string, rows []string, first int) ([]string, error) {
		ev := newEval(c)
		ov, err := ev.CallFunc(off, encodeRow(tabs, ref))
		if err != nil {
			return nil, err
		}
		ot := ov.(eval.Tuple)
		ungapped := strings.ReplaceAll(ref, "-", "")
		var regs, inter, feed []eval.Value
		for _, r := range regions {
			regs = append(regs, mkRegion(c, r, ungapped))
		}
		for _, p := range intergenic(regions, len(ungapped)) {
			inter = append(inter, eval.K(int64(p)))
		}
		for i, row := range rows {
			feed = append(feed, mkRec(fmt.Sprintf("q%d", first+i), int64(first+i), row))
		}
		out, errs := &eval.ChanVal{Name: "out"}, &eval.ChanVal{Name: "err"}
		if _, err := ev.CallFunc(fasW, mkRec("ref", 0, ref), eval.NewSlice(regs...), eval.NewSlice(inter...), ot[0], ot[1], &eval.ChanVal{Name: "in", Feed: feed}, out, errs); err != nil {
			return nil, err
		}
		if len(out.Sent) != len(rows) || len(errs.Sent) > 0 {
			return nil, fmt.Errorf("%d items, %d errors for %d rows", len(out.Sent), len(errs.Sent), len(rows))
		}
		var items []string
		for _, v := range out.Sent { // read after the whole batch
			items = append(items, eval.Show(v))
		}
		return items, nil
	}
	var bad []string
	n := 0
	for _, ref := range refs {
		rows := byRef[ref]
		if len(rows) < 3 || n >= 3 {
			continue
		}
		n++
		// a spread of the family: every seventh row, at most eight
		var batch []string
		for i := 0; i < len(rows) && len(batch) < 8; i += 7 {
			batch = append(batch, rows[i])
		}
		got, err := run(ref, batch, 1)
		if err != nil {
			c.Und(key, fasW.Pos(), "cannot evaluate a batch: %v", err)
			return
		}
		for i, row := range batch {
			alone, err := run(ref, []string{row}, 1+i)
			if err != nil {
				c.Und(key, fasW.Pos(), "cannot evaluate a row: %v", err)
				return
			}
			if got[i] != alone[0] {
				bad = append(bad, fmt.Sprintf("row %s (reference row %s) as item %d of a batch through one worker gives %s; alone it gives %s", row, ref, i, firstN(got[i], 200), firstN(alone[0], 200)))
			}
		}
	}
	c.Count("fasta_worker_batches", n)
	c.Ob(key, len(bad) == 0 && n > 0, fasW.Pos(), "%s", first(bad, 2))
}

// c04AmbiguousReference: a reference codon that contains an ambiguity code and has no single translation (ARA: K or R)
// has no R to put in an aa: record. Either the annotation is refused for that reference (what the strict translation of
// the GFF path does), or no aa: record is ever reported for that codon - never a record whose reference residue is a
// placeholder.
func c04AmbiguousReference(c *core.Ctx, tabs *Tables) {
	rg := c.LookupFunc("pkg/variants", "RegionsFromGFF")
	key := "R5/ambiguous-reference-codon/no-aa-record-without-a-reference-residue"
	if rg == nil {
		c.Und(key, token.NoPos, "UNRESOLVED variants.RegionsFromGFF")
		return
	}
	A := map[string]string{"ID": "c1", "Name": "g1"}
	var bad []string
	n := 0
	for _, tc := range []struct {
		strand     string
		start, end int
		at         int // 0-based position given the code
		code       byte
	}{{"+", 1, 9, 7, 'R'}, {"+", 1, 9, 6, 'M'}, {"-", 4, 15, 7, 'Y'}} {
		ref := []byte(annoRef)
		ref[tc.at] = tc.code
		ev := newEval(c)
		rv, err := ev.CallFunc(rg, mkGFF(c, []*eval.StructVal{mkGFFFeature(c, "CDS", int64(tc.start), int64(tc.end), tc.strand, 0, A)}), eval.S(string(ref)))
		if err != nil {
			if strings.Contains(err.Error(), "panic") || strings.Contains(err.Error(), "out of range") {
				continue // refused
			}
			c.Und(key, rg.Pos(), "cannot evaluate RegionsFromGFF on a reference with %c at %d: %v", tc.code, tc.at+1, err)
			return
		}
		t, ok := rv.(eval.Tuple)
		if !ok || len(t) != 3 {
			c.Und(key, rg.Pos(), "unexpected result of RegionsFromGFF")
			return
		}
		if _, isErr := t[2].(eval.ErrVal); isErr {
			continue // refused
		}
		// accepted: the codon with the code is residue k of the gene; resolve the code in the query both ways
		for _, alt := range oracle.Expand(tc.code) {
			q := append([]byte{}, ref...)
			q[tc.at] = alt
			n++
			got, err := evalVariantsPairWith(c, tabs, string(ref), string(q), nil, []eval.Value{t[0], t[1]})
			if err != nil {
				c.Und(key, rg.Pos(), "cannot evaluate GetVariantsPair: %v", err)
				return
			}
			for _, a := range got.aas {
				bad = append(bad, fmt.Sprintf("reference %s (CDS %d..%d %s), query with %c at %d: %s is reported, but the reference codon has no single translation", ref, tc.start, tc.end, tc.strand, alt, tc.at+1, a))
			}
		}
	}
	c.Count("ambiguous_reference_pairs_evaluated", n)
	c.Ob(key, len(bad) == 0, funcPos(c, "pkg/variants", "CDSRegion2fromGFF"), "%s", first(bad, 3))
}

// c11Forms: the two FASTA forms of one SAM record differ in what stands where the query has no base - N in the pair
// `sam variants` works on (and `sam toPairAlign` writes), '-' at the ends of the `sam toMultiAlign` row. A query that
// ends inside a codon is the place where that difference can reach the mutation list: the record is interpreted through
// blockToPairwiseAlignment and through blockToFastaRecord, GetVariantsPair is interpreted on both forms with the same
// regions, and the two lists must be equal. One obligation per query (the covered bases of its last, partial codon), so
// that each disagreement is a finding of its own.
func c11Forms(c *core.Ctx, tabs *Tables) {
	rg := c.LookupFunc("pkg/variants", "RegionsFromGFF")
	if rg == nil {
		c.Und("R12/forms-agree", token.NoPos, "UNRESOLVED variants.RegionsFromGFF")
		return
	}
	ev := newEval(c)
	rv, err := ev.CallFunc(rg, mkGFF(c, []*eval.StructVal{mkGFFFeature(c, "CDS", 1, 9, "+", 0, map[string]string{"ID": "c1", "Name": "g1"})}), eval.S(annoRef))
	t, ok := rv.(eval.Tuple)
	if err != nil || !ok || len(t) != 3 {
		c.Und("R12/forms-agree", rg.Pos(), "cannot build the regions: %v", err)
		return
	}
	regs := []eval.Value{t[0], t[1]}
	n := 0
	// the gene is 1..9 (ATG CCC AAA); the query covers bases 1..7 or 1..8 and differs from the reference in the covered
	// bases of codon 3
	for _, cut := range []int{7, 8} {
		var tails []string
		for _, x := range "ACGT" {
			if cut == 7 {
				tails = append(tails, string(x))
				continue
			}
			for _, y := range "ACGT" {
				tails = append(tails, string(x)+string(y))
			}
		}
		for _, tail := range tails {
			if tail == annoRef[6:cut] {
				continue
			}
			key := fmt.Sprintf("R12/forms-agree/query-ends-after-base-%d-of-the-gene/last-codon-%s", cut, tail)
			rec := samRec{Name: "q", Pos: 0, Cigar: fmt.Sprintf("%dM", cut), Seq: annoRef[:6] + tail}
			refRow, qryRow, _, _, _, err := evalPairAlign(c, []samRec{rec}, annoRef, false)
			if err != nil {
				c.Und(key, funcPos(c, "pkg/sam", "blockToPairwiseAlignment"), "cannot build the pair: %v", err)
				continue
			}
			row, _, _, err := evalMultiAlignRow(c, []samRec{rec}, len(annoRef), false, false, 1, len(annoRef))
			if err != nil {
				c.Und(key, funcPos(c, "pkg/sam", "blockToFastaRecord"), "cannot build the row: %v", err)
				continue
			}
			a, err1 := evalVariantsPairWith(c, tabs, refRow, qryRow, nil, regs)
			b, err2 := evalVariantsPairWith(c, tabs, annoRef, row, nil, regs)
			if err1 != nil || err2 != nil {
				c.Und(key, funcPos(c, "pkg/variants", "GetVariantsPair"), "cannot evaluate: %v %v", err1, err2)
				continue
			}
			n++
			c.Ob(key, strings.Join(a.all, "|") == strings.Join(b.all, "|"), funcPos(c, "pkg/variants", "getAAsPair"),
				"SAM record %s %s %s on reference %s (gene 1..9): the pair form %s / %s gives %v, the toMultiAlign row %s gives %v", rec.Cigar, rec.Seq, "POS=1", annoRef, refRow, qryRow, a.all, row, b.all)
		}
	}
	// the mirror image: a gene on the reverse strand, complement(13..21) (ATG AAA CCC read from 21 down to 13), and a
	// query whose alignment BEGINS inside its last codon: base 13, the codon's third base, is not covered
	rv2, err := newEval(c).CallFunc(rg, mkGFF(c, []*eval.StructVal{mkGFFFeature(c, "CDS", 13, 21, "-", 0, map[string]string{"ID": "c2", "Name": "g2"})}), eval.S(annoRef))
	t2, ok2 := rv2.(eval.Tuple)
	if err != nil || !ok2 || len(t2) != 3 {
		c.Und("R12/forms-agree/reverse-gene", rg.Pos(), "cannot build the regions: %v", err)
		return
	}
	regs2 := []eval.Value{t2[0], t2[1]}
	for _, x := range "ACGT" {
		for _, y := range "ACGT" {
			pair := string(x) + string(y) // query bases at 14 and 15
			if pair == annoRef[13:15] {
				continue
			}
			key := fmt.Sprintf("R12/forms-agree/query-begins-at-base-14-inside-the-last-codon-of-a-reverse-gene/bases-14-15-%s", pair)
			rec := samRec{Name: "q", Pos: 13, Cigar: "11M", Seq: pair + annoRef[15:]}
			refRow, qryRow, _, _, _, err := evalPairAlign(c, []samRec{rec}, annoRef, false)
			if err != nil {
				c.Und(key, funcPos(c, "pkg/sam", "blockToPairwiseAlignment"), "cannot build the pair: %v", err)
				continue
			}
			row, _, _, err := evalMultiAlignRow(c, []samRec{rec}, len(annoRef), false, false, 1, len(annoRef))
			if err != nil {
				c.Und(key, funcPos(c, "pkg/sam", "blockToFastaRecord"), "cannot build the row: %v", err)
				continue
			}
			a, err1 := evalVariantsPairWith(c, tabs, refRow, qryRow, nil, regs2)
			b, err2 := evalVariantsPairWith(c, tabs, annoRef, row, nil, regs2)
			if err1 != nil || err2 != nil {
				c.Und(key, funcPos(c, "pkg/variants", "GetVariantsPair"), "cannot evaluate: %v %v", err1, err2)
				continue
			}
			n++
			c.Ob(key, strings.Join(a.all, "|") == strings.Join(b.all, "|"), funcPos(c, "pkg/variants", "getAAsPair"),
				"SAM record %s %s POS=14 on reference %s (gene complement(13..21)): the pair form %s / %s gives %v, the toMultiAlign row %s gives %v", rec.Cigar, rec.Seq, annoRef, refRow, qryRow, a.all, row, b.all)
		}
	}
	c.Count("form_pairs_evaluated", n)
}
