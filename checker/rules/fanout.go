package rules

import (
	"fmt"
	"go/token"
	"go/types"
	"strings"

	"golang.org/x/tools/go/ssa"

	"gofasta-verif/core"
	"gofasta-verif/eval"
	"gofasta-verif/oracle"
)

func oracleBaseSet(sym byte) (int, bool) { return oracle.BaseSet(sym, false) }
func popcount(s int) int                 { return oracle.Popcount(s) }

// fieldOf reports whether v is field `name` of a struct value (through loads of a local copy).
func fieldOf(v ssa.Value, name string) (ssa.Value, bool) {
	for _, o := range origins(v) {
		switch x := o.(type) {
		case *ssa.Field:
			st := x.X.Type().Underlying().(*types.Struct)
			if st.Field(x.Field).Name() == name {
				// a promoted field: the value it is a field of is the struct that embeds its struct
				root := x.X
				for d := 0; d < 4; d++ {
					in, ok := root.(*ssa.Field)
					if !ok {
						break
					}
					ist, ok := in.X.Type().Underlying().(*types.Struct)
					if !ok || !ist.Field(in.Field).Embedded() {
						break
					}
					root = in.X
				}
				return root, true
			}
		case *ssa.UnOp:
			if x.Op == token.MUL {
				if fa, ok := x.X.(*ssa.FieldAddr); ok {
					st := fa.X.Type().Underlying().(*types.Pointer).Elem().Underlying().(*types.Struct)
					if st.Field(fa.Field).Name() == name {
						root := fa.X
						for d := 0; d < 4; d++ { // a promoted field: climb out of the embedded structs
							in, ok := root.(*ssa.FieldAddr)
							if !ok {
								break
							}
							ist, ok := derefType(in.X.Type()).Underlying().(*types.Struct)
							if !ok || !ist.Field(in.Field).Embedded() {
								break
							}
							root = in.X
						}
						return root, true
					}
				}
			}
		}
	}
	return nil, false
}

// checkSlotStore: in entry function f, every value received from a channel of result
// structs is stored into a slice at the index held in the value's own index field.
func checkSlotStore(c *core.Ctx, key string, f *ssa.Function, idxField string) int {
	n := 0
	allInstrs(f, func(fn *ssa.Function, ins ssa.Instruction) {
		st, ok := ins.(*ssa.Store)
		if !ok {
			return
		}
		ia, ok := st.Addr.(*ssa.IndexAddr)
		if !ok {
			return
		}
		if _, isSlice := ia.X.Type().Underlying().(*types.Slice); !isSlice {
			return
		}
		// the stored value must come from a channel receive
		if !allOrigins(st.Val, func(o ssa.Value) bool { return fromChannel(o) }) {
			return
		}
		n++
		base, ok := fieldOf(ia.Index, idxField)
		good := false
		if ok {
			// the struct the index field is read from is the received value itself
			good = sameReceived(base, st.Val)
		}
		c.Ob(key, good, ins.Pos(), "a result received from the workers must be stored at the slot named by its own %s field", idxField)
	})
	return n
}

func sameReceived(a, b ssa.Value) bool {
	ra := map[ssa.Value]bool{}
	for _, o := range origins(a) {
		ra[o] = true
	}
	if al, ok := a.(*ssa.Alloc); ok {
		for _, r := range *al.Referrers() {
			if st, ok := r.(*ssa.Store); ok && st.Addr == al {
				for _, o := range origins(st.Val) {
					ra[o] = true
				}
			}
		}
	}
	for _, o := range origins(b) {
		if ra[o] {
			return true
		}
	}
	return false
}

// checkFanout: in the splitter, targets are read from one channel and forwarded to every
// per-query channel by the splitter's own goroutine (no `go` inside the forwarding loop),
// and exactly one consumer goroutine is started per query.
func checkFanout(c *core.Ctx, key string, f *ssa.Function) {
	var goInLoop, goPerQuery, sends int
	// blocks that belong to a loop receiving from a channel: approximated by blocks
	// dominated by a block that contains a channel receive and that can reach it again.
	recvBlocks := map[*ssa.BasicBlock]bool{}
	for _, b := range f.Blocks {
		for _, ins := range b.Instrs {
			if u, ok := ins.(*ssa.UnOp); ok && u.Op == token.ARROW {
				recvBlocks[b] = true
			}
		}
	}
	inRecvLoop := func(b *ssa.BasicBlock) bool {
		for rb := range recvBlocks {
			if rb.Dominates(b) && reaches(b, rb) {
				return true
			}
		}
		return false
	}
	for _, b := range f.Blocks {
		for _, ins := range b.Instrs {
			switch x := ins.(type) {
			case *ssa.Go:
				if inRecvLoop(b) {
					goInLoop++
				} else {
					goPerQuery++
				}
			case *ssa.Send:
				if inRecvLoop(b) {
					if _, ok := x.Chan.Type().Underlying().(*types.Chan); ok {
						sends++
					}
				}
			}
		}
	}
	c.Ob(key+"/sequential-forwarding", goInLoop == 0 && sends >= 1, f.Pos(), "targets must be forwarded to the per-query channels by the splitter itself, in arrival order: %d goroutine(s) started inside the target loop, %d forwarding send(s)", goInLoop, sends)
	c.Ob(key+"/one-consumer-per-query", goPerQuery >= 1, f.Pos(), "no per-query consumer goroutine started")
}

func reaches(from, to *ssa.BasicBlock) bool {
	seen := map[*ssa.BasicBlock]bool{}
	var dfs func(b *ssa.BasicBlock) bool
	dfs = func(b *ssa.BasicBlock) bool {
		for _, s := range b.Succs {
			if s == to {
				return true
			}
			if !seen[s] {
				seen[s] = true
				if dfs(s) {
					return true
				}
			}
		}
		return false
	}
	return dfs(from)
}

func c06Fanout(c *core.Ctx) {
	for _, e := range []struct{ entry, split string }{{"Closest", "splitInput"}, {"ClosestN", "splitInputN"}} {
		f := c.SSAFunc("pkg/closest", e.entry)
		if f == nil {
			c.Und("R4/slot-store/"+e.entry, token.NoPos, "UNRESOLVED anchor closest.%s", e.entry)
			continue
		}
		n := checkSlotStore(c, "R4/slot-store/"+e.entry, f, "qidx")
		c.Floor("R4/slot-store/"+e.entry, n, 1)
		s := c.SSAFunc("pkg/closest", e.split)
		if s == nil {
			c.Und("R4/fan-out/"+e.split, token.NoPos, "UNRESOLVED anchor closest.%s", e.split)
			continue
		}
		checkFanout(c, "R4/fan-out/"+e.split, s)
	}
	checkClosestSplit(c, "R4")
}

// checkClosestSplit interprets closest.splitInput / splitInputN in the sequential pipeline model with the per-query
// worker replaced by a recorder: one worker per query, with the options in their places, every worker is sent every
// target in file order, its channel is closed afterwards and completion is signalled once; a target alignment of
// another width than the queries is reported on the error channel.
func checkClosestSplit(c *core.Ctx, rule string) {
	recT := namedType(c, "pkg/fastaio", "EncodedFastaRecord")
	for _, e := range []struct{ split, worker string }{{"splitInput", "findClosest"}, {"splitInputN", "findClosestN"}} {
		key := rule + "/" + e.split + "/every-target-to-every-query"
		fn := c.LookupFunc("pkg/closest", e.split)
		w := c.LookupFunc("pkg/closest", e.worker)
		if fn == nil || w == nil || recT == nil {
			c.Und(key, token.NoPos, "UNRESOLVED anchors closest.%s / %s", e.split, e.worker)
			continue
		}
		mk := func(id string, idx int64, width int) eval.Value {
			r := absValue(recT, id, eval.K(int64(width))).(*eval.StructVal)
			r.F["ID"] = eval.S(id)
			r.F["Description"] = eval.S(id)
			r.F["Idx"] = eval.K(idx)
			vs := make([]eval.Value, width)
			for i := range vs {
				vs[i] = eval.K(136)
			}
			r.F["Seq"] = eval.NewSlice(vs...)
			return r
		}
		var bad []string
		for _, nq := range []int{1, 3} {
			for _, tw := range []int{4, 5} { // targets of the queries' width, and of another width
				type started struct {
					args []string
					in   *eval.ChanVal
				}
				var ws []started
				ev := newEval(c)
				ev.Pipeline = true
				ev.Extern[w.FullName()] = func(ev *eval.Evaluator, pos token.Pos, recv eval.Value, args []eval.Value) eval.Value {
					var st started
					for _, a := range args {
						if ch, ok := unref(a).(*eval.ChanVal); ok {
							if st.in == nil {
								st.in = ch
							}
							st.args = append(st.args, "chan")
							continue
						}
						st.args = append(st.args, renderWire(a))
					}
					ws = append(ws, st)
					return nil
				}
				var qs, feed []eval.Value
				for i := 0; i < nq; i++ {
					qs = append(qs, mk(fmt.Sprintf("q%d", i), int64(i), 4))
				}
				var wantT []string
				for i := 0; i < 3; i++ {
					feed = append(feed, mk(fmt.Sprintf("t%d", i), int64(i), tw))
					wantT = append(wantT, fmt.Sprintf("t%d", i))
				}
				out, errs, done := &eval.ChanVal{Name: "out"}, &eval.ChanVal{Name: "err"}, &eval.ChanVal{Name: "done"}
				in := &eval.ChanVal{Name: "in", Feed: feed}
				label := fmt.Sprintf("%d queries of width 4, 3 targets of width %d", nq, tw)
				var err error
				if e.split == "splitInput" {
					_, err = ev.CallFunc(fn, eval.NewSlice(qs...), eval.S("snp"), in, out, errs, done)
				} else {
					_, err = ev.CallFunc(fn, eval.NewSlice(qs...), eval.K(7), eval.FConst(0.5), eval.S("snp"), in, out, errs, done)
				}
				if err != nil {
					bad = append(bad, fmt.Sprintf("[%s] undecided: %v", label, err))
					continue
				}
				if tw != 4 {
					if len(errs.Sent) == 0 {
						bad = append(bad, fmt.Sprintf("[%s] no error is reported for targets of another width than the queries", label))
					}
					continue
				}
				if len(ws) != nq || len(errs.Sent) != 0 || len(done.Sent) != 1 {
					bad = append(bad, fmt.Sprintf("[%s] %d workers, %d errors, %d completion signals", label, len(ws), len(errs.Sent), len(done.Sent)))
					continue
				}
				for i, st := range ws {
					want := fmt.Sprintf("record(q%d), \"snp\", chan, chan", i)
					if e.split == "splitInputN" {
						want = fmt.Sprintf("record(q%d), 7, 0.5, \"snp\", chan, chan", i)
					}
					if got := strings.Join(st.args, ", "); got != want && !c.SigChanged("pkg/closest", e.worker) {
						bad = append(bad, fmt.Sprintf("[%s] worker %d is %s(%s), want (%s)", label, i, e.worker, got, want))
					}
					var gotT []string
					if st.in != nil {
						for _, v := range st.in.Sent {
							if sv, ok := v.(*eval.StructVal); ok {
								if id, ok := sv.F["ID"].(eval.Str); ok {
									gotT = append(gotT, id.Const())
								}
							}
						}
					}
					if st.in == nil || strings.Join(gotT, ",") != strings.Join(wantT, ",") {
						bad = append(bad, fmt.Sprintf("[%s] the worker of query %d is sent %v, want every target in file order %v", label, i, gotT, wantT))
					} else if !st.in.Closed {
						bad = append(bad, fmt.Sprintf("[%s] the input channel of query %d's worker is never closed", label, i))
					}
				}
			}
		}
		c.Ob(key, len(bad) == 0, fn.Pos(), "%s", first(bad, 3))
	}
}
