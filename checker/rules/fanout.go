package rules

import (
	"go/token"
	"go/types"

	"golang.org/x/tools/go/ssa"

	"gofasta-verif/core"
	"gofasta-verif/oracle"
)

func oracleBaseSet(sym byte) (int, bool) { return oracle.BaseSet(sym, false) }
func popcount(s int) int                 { return oracle.Popcount(s) }

// fieldOf reports whether v is field `name` of a struct value (through loads of a local copy).
func fieldOf(v ssa.Value, name string) (ssa.Value, bool) {
	for _, o := range origins(v) {
		switch x := o.(type) {
		case *ssa.Field:
			st := x.X.Type().Underlying().(*types.Struct)
			if st.Field(x.Field).Name() == name {
				return x.X, true
			}
		case *ssa.UnOp:
			if x.Op == token.MUL {
				if fa, ok := x.X.(*ssa.FieldAddr); ok {
					st := fa.X.Type().Underlying().(*types.Pointer).Elem().Underlying().(*types.Struct)
					if st.Field(fa.Field).Name() == name {
						return fa.X, true
					}
				}
			}
		}
	}
	return nil, false
}

// checkSlotStore: in entry function f, every value received from a channel of result
// structs is stored into a slice at the index held in the value's own index field.
func checkSlotStore(c *core.Ctx, key string, f *ssa.Function, idxField string) int {
	n := 0
	allInstrs(f, func(fn *ssa.Function, ins ssa.Instruction) {
		st, ok := ins.(*ssa.Store)
		if !ok {
			return
		}
		ia, ok := st.Addr.(*ssa.IndexAddr)
		if !ok {
			return
		}
		if _, isSlice := ia.X.Type().Underlying().(*types.Slice); !isSlice {
			return
		}
		// the stored value must come from a channel receive
		if !allOrigins(st.Val, func(o ssa.Value) bool { return fromChannel(o) }) {
			return
		}
		n++
		base, ok := fieldOf(ia.Index, idxField)
		good := false
		if ok {
			// the struct the index field is read from is the received value itself
			good = sameReceived(base, st.Val)
		}
		c.Ob(key, good, ins.Pos(), "a result received from the workers must be stored at the slot named by its own %s field", idxField)
	})
	return n
}

func sameReceived(a, b ssa.Value) bool {
	ra := map[ssa.Value]bool{}
	for _, o := range origins(a) {
		ra[o] = true
	}
	if al, ok := a.(*ssa.Alloc); ok {
		for _, r := range *al.Referrers() {
			if st, ok := r.(*ssa.Store); ok && st.Addr == al {
				for _, o := range origins(st.Val) {
					ra[o] = true
				}
			}
		}
	}
	for _, o := range origins(b) {
		if ra[o] {
			return true
		}
	}
	return false
}

// checkFanout: in the splitter, targets are read from one channel and forwarded to every
// per-query channel by the splitter's own goroutine (no `go` inside the forwarding loop),
// and exactly one consumer goroutine is started per query.
func checkFanout(c *core.Ctx, key string, f *ssa.Function) {
	var goInLoop, goPerQuery, sends int
	// blocks that belong to a loop receiving from a channel: approximated by blocks
	// dominated by a block that contains a channel receive and that can reach it again.
	recvBlocks := map[*ssa.BasicBlock]bool{}
	for _, b := range f.Blocks {
		for _, ins := range b.Instrs {
			if u, ok := ins.(*ssa.UnOp); ok && u.Op == token.ARROW {
				recvBlocks[b] = true
			}
		}
	}
	inRecvLoop := func(b *ssa.BasicBlock) bool {
		for rb := range recvBlocks {
			if rb.Dominates(b) && reaches(b, rb) {
				return true
			}
		}
		return false
	}
	for _, b := range f.Blocks {
		for _, ins := range b.Instrs {
			switch x := ins.(type) {
			case *ssa.Go:
				if inRecvLoop(b) {
					goInLoop++
				} else {
					goPerQuery++
				}
			case *ssa.Send:
				if inRecvLoop(b) {
					if _, ok := x.Chan.Type().Underlying().(*types.Chan); ok {
						sends++
					}
				}
			}
		}
	}
	c.Ob(key+"/sequential-forwarding", goInLoop == 0 && sends >= 1, f.Pos(), "targets must be forwarded to the per-query channels by the splitter itself, in arrival order: %d goroutine(s) started inside the target loop, %d forwarding send(s)", goInLoop, sends)
	c.Ob(key+"/one-consumer-per-query", goPerQuery >= 1, f.Pos(), "no per-query consumer goroutine started")
}

func reaches(from, to *ssa.BasicBlock) bool {
	seen := map[*ssa.BasicBlock]bool{}
	var dfs func(b *ssa.BasicBlock) bool
	dfs = func(b *ssa.BasicBlock) bool {
		for _, s := range b.Succs {
			if s == to {
				return true
			}
			if !seen[s] {
				seen[s] = true
				if dfs(s) {
					return true
				}
			}
		}
		return false
	}
	return dfs(from)
}

func c06Fanout(c *core.Ctx) {
	for _, e := range []struct{ entry, split string }{{"Closest", "splitInput"}, {"ClosestN", "splitInputN"}} {
		f := c.SSAFunc("pkg/closest", e.entry)
		if f == nil {
			c.Und("R4/slot-store/"+e.entry, token.NoPos, "UNRESOLVED anchor closest.%s", e.entry)
			continue
		}
		n := checkSlotStore(c, "R4/slot-store/"+e.entry, f, "qidx")
		c.Floor("R4/slot-store/"+e.entry, n, 1)
		s := c.SSAFunc("pkg/closest", e.split)
		if s == nil {
			c.Und("R4/fan-out/"+e.split, token.NoPos, "UNRESOLVED anchor closest.%s", e.split)
			continue
		}
		checkFanout(c, "R4/fan-out/"+e.split, s)
	}
}
