package rules

import (
	"fmt"
	"go/constant"
	"go/token"
	"math"
	"sort"

	"golang.org/x/tools/go/ssa"

	"gofasta-verif/core"
)

// Lower bounds of integer SSA values, for every processor count >= 1 and every value of the function's
// integer parameters (--threads is not validated by the command layer). A phi edge is refined by the
// comparison that guards it (the clamp idiom `if t < 1 { t = 1 }`).

const negInf = math.MinInt64 / 4
const posInf = math.MaxInt64 / 4

type ival struct{ lo, hi int64 }

func addSat(a, b int64) int64 {
	if a <= negInf || b <= negInf {
		return negInf
	}
	if a >= posInf || b >= posInf {
		return posInf
	}
	return a + b
}

// boundsCallers: static call sites per function (set by the pool rule), for counts that arrive as parameters.
var boundsCallers map[*ssa.Function][]ssa.CallInstruction

func boundsOf(v ssa.Value, depth int, seen map[ssa.Value]bool) ival {
	top := ival{negInf, posInf}
	if depth > 12 || seen[v] {
		return top
	}
	seen[v] = true
	defer delete(seen, v)
	switch x := v.(type) {
	case *ssa.Const:
		if x.Value != nil && x.Value.Kind() == constant.Int {
			if n, ok := constant.Int64Val(x.Value); ok {
				return ival{n, n}
			}
		}
	case *ssa.Call:
		if cal := x.Common().StaticCallee(); cal != nil {
			switch cal.String() {
			case "runtime.NumCPU":
				return ival{1, posInf}
			case "runtime.GOMAXPROCS":
				return ival{1, posInf}
			}
		}
		if b, ok := x.Common().Value.(*ssa.Builtin); ok && (b.Name() == "len" || b.Name() == "cap") {
			return ival{0, posInf}
		}
	case *ssa.Parameter:
		// a count handed to a helper: the join over the helper's static call sites (none known: unbounded)
		fn := x.Parent()
		if boundsCallers == nil || fn == nil {
			return top
		}
		idx := -1
		for i, prm := range fn.Params {
			if prm == x {
				idx = i
			}
		}
		sites := boundsCallers[fn]
		if idx < 0 || len(sites) == 0 {
			return top
		}
		out := ival{posInf, negInf}
		for _, site := range sites {
			args := site.Common().Args
			if idx >= len(args) {
				return top
			}
			b := boundsOf(args[idx], depth+1, seen)
			if b.lo < out.lo {
				out.lo = b.lo
			}
			if b.hi > out.hi {
				out.hi = b.hi
			}
		}
		return out
	case *ssa.Convert:
		return boundsOf(x.X, depth+1, seen)
	case *ssa.ChangeType:
		return boundsOf(x.X, depth+1, seen)
	case *ssa.BinOp:
		a, b := boundsOf(x.X, depth+1, seen), boundsOf(x.Y, depth+1, seen)
		switch x.Op {
		case token.ADD:
			return ival{addSat(a.lo, b.lo), addSat(a.hi, b.hi)}
		case token.SUB:
			return ival{addSat(a.lo, -b.hi), addSat(a.hi, -b.lo)}
		case token.MUL:
			if a.lo >= 0 && b.lo >= 0 && a.lo < 1<<20 && b.lo < 1<<20 {
				return ival{a.lo * b.lo, posInf}
			}
		case token.QUO:
			if a.lo >= 0 && b.lo >= 1 {
				return ival{0, a.hi}
			}
		}
	case *ssa.UnOp:
		if x.Op == token.MUL {
			// load of a local: join of the stored values
			if al, ok := x.X.(*ssa.Alloc); ok {
				out := ival{posInf, negInf}
				n := 0
				for _, r := range *al.Referrers() {
					if st, ok := r.(*ssa.Store); ok && st.Addr == al {
						b := boundsOf(st.Val, depth+1, seen)
						if b.lo < out.lo {
							out.lo = b.lo
						}
						if b.hi > out.hi {
							out.hi = b.hi
						}
						n++
					}
				}
				if n > 0 {
					return out
				}
			}
		}
	case *ssa.Phi:
		out := ival{posInf, negInf}
		for i, e := range x.Edges {
			b := boundsOf(e, depth+1, seen)
			b = refineByGuard(b, e, x.Block().Preds[i], x.Block())
			if b.lo < out.lo {
				out.lo = b.lo
			}
			if b.hi > out.hi {
				out.hi = b.hi
			}
		}
		return out
	}
	return top
}

// refineByGuard narrows the bounds of value e on the edge pred->blk when pred ends in `if e OP const`.
func refineByGuard(b ival, e ssa.Value, pred, blk *ssa.BasicBlock) ival {
	if len(pred.Instrs) == 0 {
		return b
	}
	iff, ok := pred.Instrs[len(pred.Instrs)-1].(*ssa.If)
	if !ok {
		return b
	}
	cond, ok := iff.Cond.(*ssa.BinOp)
	if !ok {
		return b
	}
	k, isK := cond.Y.(*ssa.Const)
	x := cond.X
	op := cond.Op
	if !isK {
		// const OP value
		k, isK = cond.X.(*ssa.Const)
		x = cond.Y
		op = map[token.Token]token.Token{token.LSS: token.GTR, token.LEQ: token.GEQ, token.GTR: token.LSS, token.GEQ: token.LEQ, token.EQL: token.EQL, token.NEQ: token.NEQ}[cond.Op]
	}
	if !isK || x != e || k.Value == nil || k.Value.Kind() != constant.Int {
		return b
	}
	n, exact := constant.Int64Val(k.Value)
	if !exact {
		return b
	}
	taken := pred.Succs[0] == blk
	if pred.Succs[0] == pred.Succs[1] {
		return b
	}
	if !taken {
		op = map[token.Token]token.Token{token.LSS: token.GEQ, token.LEQ: token.GTR, token.GTR: token.LEQ, token.GEQ: token.LSS, token.EQL: token.NEQ, token.NEQ: token.EQL}[op]
	}
	switch op {
	case token.LSS:
		if n-1 < b.hi {
			b.hi = n - 1
		}
	case token.LEQ:
		if n < b.hi {
			b.hi = n
		}
	case token.GTR:
		if n+1 > b.lo {
			b.lo = n + 1
		}
	case token.GEQ:
		if n > b.lo {
			b.lo = n
		}
	case token.EQL:
		b.lo, b.hi = n, n
	}
	return b
}

func sameExpr(a, b ssa.Value, d int) bool {
	if a == b {
		return true
	}
	if d > 6 {
		return false
	}
	switch x := a.(type) {
	case *ssa.Const:
		y, ok := b.(*ssa.Const)
		return ok && x.Value != nil && y.Value != nil && x.Value.ExactString() == y.Value.ExactString()
	case *ssa.Call:
		y, ok := b.(*ssa.Call)
		if !ok {
			return false
		}
		cx, cy := x.Common().StaticCallee(), y.Common().StaticCallee()
		return cx != nil && cx == cy && cx.String() == "runtime.NumCPU"
	case *ssa.BinOp:
		y, ok := b.(*ssa.BinOp)
		return ok && x.Op == y.Op && sameExpr(x.X, y.X, d+1) && sameExpr(x.Y, y.Y, d+1)
	case *ssa.Convert:
		if y, ok := b.(*ssa.Convert); ok {
			return sameExpr(x.X, y.X, d+1)
		}
	}
	return false
}

// checkPoolSizes: in f, every counted loop that starts goroutines runs at least once (so a worker exists
// for every processor count and every --threads value), the WaitGroup is armed with the same count, and
// no channel capacity can be negative.
func checkPoolSizes(c *core.Ctx, rule string, f *ssa.Function) int {
	n := 0
	var bad []string
	var pos token.Pos
	note := func(p token.Pos, format string, a ...interface{}) {
		bad = append(bad, c.PosStr(p)+": "+fmt.Sprintf(format, a...))
		pos = p
	}
	var loopBounds []ssa.Value
	for _, b := range f.Blocks {
		for _, ins := range b.Instrs {
			switch x := ins.(type) {
			case *ssa.Go:
				if !blockInLoop(b) {
					continue
				}
				// the loop's exit test: an If in a block of the same cycle with a successor outside it
				var bound ssa.Value
				for _, hb := range f.Blocks {
					if !(reaches(hb, b) && reaches(b, hb)) || len(hb.Instrs) == 0 {
						continue
					}
					iff, ok := hb.Instrs[len(hb.Instrs)-1].(*ssa.If)
					if !ok {
						continue
					}
					exits := false
					for _, s := range hb.Succs {
						if !reaches(s, hb) {
							exits = true
						}
					}
					cond, isBin := iff.Cond.(*ssa.BinOp)
					if exits && isBin && cond.Op == token.LSS {
						if _, isPhi := cond.X.(*ssa.Phi); isPhi {
							bound = cond.Y
						}
					}
				}
				if bound == nil {
					continue // a loop over data (one goroutine per query), not a counted pool
				}
				n++
				loopBounds = append(loopBounds, bound)
				bd := boundsOf(bound, 0, map[ssa.Value]bool{})
				if bd.lo < 1 {
					lo := "unbounded below"
					if bd.lo > negInf {
						lo = fmt.Sprintf("%d", bd.lo)
					}
					note(x.Pos(), "the number of workers started (%s) can be %s: with no worker the stage never delivers and the command hangs or loses its rows", bound.String(), lo)
				}
			case *ssa.MakeChan:
				n++
				bd := boundsOf(x.Size, 0, map[ssa.Value]bool{})
				if bd.lo < 0 {
					note(x.Pos(), "channel capacity %s can be negative (make panics)", x.Size.String())
				}
			}
		}
	}
	// WaitGroup.Add arguments other than constants must equal one of the pool bounds
	for _, b := range f.Blocks {
		for _, ins := range b.Instrs {
			call, ok := ins.(*ssa.Call)
			if !ok {
				continue
			}
			cal := call.Common().StaticCallee()
			if cal == nil || cal.String() != "(*sync.WaitGroup).Add" {
				continue
			}
			arg := call.Common().Args[len(call.Common().Args)-1]
			if _, isConst := arg.(*ssa.Const); isConst {
				continue
			}
			n++
			match := false
			for _, lb := range loopBounds {
				if sameExpr(arg, lb, 0) {
					match = true
				}
			}
			if !match && len(loopBounds) > 0 {
				note(call.Pos(), "WaitGroup.Add(%s) differs from the number of workers started", arg.String())
			}
		}
	}
	sort.Strings(bad)
	c.Ob(rule+"/pool-sizes/"+fnKey(f), len(bad) == 0, pos, "%s", first(bad, 3))
	return n
}
