package rules

import (
	"fmt"
	"go/token"
	"go/types"
	"sort"
	"strings"

	"golang.org/x/tools/go/ssa"

	"gofasta-verif/core"
)

// checkReferenceRecordName: the per-sequence and the aggregate writer skip (and do not count) the record whose
// name equals their refID argument. Structural necessary conditions, per entry point (variants.Variants,
// sam.Variants): (1) both writers are started with the same expression as refID; (2) wherever the entry point
// builds the reference record itself (reference taken from the annotation), the record's ID is a constant, and
// it is the same constant in the GenBank branch and the GFF branch and in both entry points.
func checkReferenceRecordName(c *core.Ctx, rule string) {
	consts := map[string][]string{}
	for _, e := range []struct{ pkg, fn string }{{"pkg/variants", "Variants"}, {"pkg/sam", "Variants"}} {
		f := c.SSAFunc(e.pkg, e.fn)
		key := rule + "/reference-record-name/" + strings.TrimPrefix(e.pkg, "pkg/") + "." + e.fn
		if f == nil {
			c.Und(key, token.NoPos, "UNRESOLVED anchor %s.%s", e.pkg, e.fn)
			continue
		}
		// (1) refID arguments of the writers
		type warg struct {
			callee string
			v      ssa.Value
			pos    token.Pos
		}
		var wargs []warg
		allInstrs(f, func(fn *ssa.Function, ins ssa.Instruction) {
			call, ok := ins.(ssa.CallInstruction)
			if !ok {
				return
			}
			cal := call.Common().StaticCallee()
			if cal == nil || cal.Pkg == nil || c.RelOf(cal.Pkg.Pkg) != "pkg/variants" {
				return
			}
			sig := cal.Signature
			for i := 0; i < sig.Params().Len(); i++ {
				p := sig.Params().At(i)
				if b, ok := p.Type().Underlying().(*types.Basic); ok && b.Kind() == types.String && strings.EqualFold(p.Name(), "refID") && hasWriterParam(sig) {
					wargs = append(wargs, warg{cal.Name(), call.Common().Args[i], ins.Pos()})
				}
			}
		})
		var bad []string
		var pos token.Pos = f.Pos()
		if len(wargs) < 2 {
			c.Und(key+"/writers-agree", f.Pos(), "expected the per-sequence and the aggregate writer to be started here with a refID argument; found %d such call(s)", len(wargs))
		} else {
			for _, w := range wargs[1:] {
				if !sameLoad(wargs[0].v, w.v) {
					bad = append(bad, fmt.Sprintf("%s: %s gets %s as the reference record's name, %s gets %s", c.PosStr(w.pos), w.callee, describeVal(w.v), wargs[0].callee, describeVal(wargs[0].v)))
					pos = w.pos
				}
			}
			c.Ob(key+"/writers-agree", len(bad) == 0, pos, "%s", first(bad, 3))
		}
		// (2) IDs of records built here
		var bad2 []string
		pos = f.Pos()
		n := 0
		scope := map[*ssa.Function]bool{}
		calleesOf(f, 3, scope)
		var scoped []*ssa.Function
		for g := range scope {
			if g.Pkg != nil && (g == f || c.RelOf(g.Pkg.Pkg) != "") && g.Parent() == nil { // helpers in any package of the repository (the record may be built by the annotation package itself)
				scoped = append(scoped, g)
			}
		}
		sort.Slice(scoped, func(i, j int) bool { return scoped[i].Pos() < scoped[j].Pos() })
		visitStores := func(visit func(fn *ssa.Function, ins ssa.Instruction)) {
			for _, g := range scoped {
				allInstrs(g, visit)
			}
		}
		visitStores(func(fn *ssa.Function, ins ssa.Instruction) {
			st, ok := ins.(*ssa.Store)
			if !ok {
				return
			}
			fa, ok := st.Addr.(*ssa.FieldAddr)
			if !ok {
				return
			}
			stt, ok := derefType(fa.X.Type()).Underlying().(*types.Struct)
			if !ok || stt.Field(fa.Field).Name() != "ID" {
				return
			}
			named, _ := derefType(fa.X.Type()).(*types.Named)
			if named == nil || named.Obj().Pkg() == nil || c.RelOf(named.Obj().Pkg()) != "pkg/fastaio" {
				return
			}
			k, isConst := st.Val.(*ssa.Const)
			if (!isConst || k.Value == nil) && topFunc(fn) != f {
				return // a helper that builds records from a file names them after the file's records
			}
			if !isConst || k.Value == nil {
				bad2 = append(bad2, fmt.Sprintf("%s: the record built here is named %s, not a fixed placeholder", c.PosStr(st.Pos()), describeVal(st.Val)))
				pos = st.Pos()
				return
			}
			n++
			consts[k.Value.ExactString()] = append(consts[k.Value.ExactString()], c.PosStr(st.Pos()))
		})
		c.Ob(key+"/annotation-reference-has-the-placeholder-name", len(bad2) == 0, pos, "%s", first(bad2, 3))
		c.Floor(key+"/annotation-reference-has-the-placeholder-name", n, 1)
	}
	var ks []string
	for k, at := range consts {
		sort.Strings(at)
		ks = append(ks, k+" at "+strings.Join(at, ", "))
	}
	sort.Strings(ks)
	c.Ob(rule+"/reference-record-name/one-placeholder", len(consts) <= 1, token.NoPos, "the annotation-derived reference is named differently in different branches: %s", strings.Join(ks, "; "))
}

func hasWriterParam(sig *types.Signature) bool {
	for i := 0; i < sig.Params().Len(); i++ {
		if strings.HasSuffix(sig.Params().At(i).Type().String(), "io.Writer") {
			return true
		}
	}
	return false
}

func derefType(t types.Type) types.Type {
	if p, ok := t.Underlying().(*types.Pointer); ok {
		return p.Elem()
	}
	return t
}

// sameLoad: the same constant, or loads of the same field of the same variable.
// accessPath names a value by where it is read from: a chain of field selections and loads rooted in a local variable,
// a parameter or a call result ("" when the value is not of that shape). Two reads with the same path read the same
// storage (the rule is a necessary condition: stores in between are not considered).
func accessPath(v ssa.Value, d int) string {
	if d > 8 || v == nil {
		return ""
	}
	switch x := v.(type) {
	case *ssa.Parameter:
		return "param:" + x.Name()
	case *ssa.Alloc:
		return fmt.Sprintf("local:%p", x)
	case *ssa.FreeVar:
		return "free:" + x.Name()
	case *ssa.Field:
		if st, ok := x.X.Type().Underlying().(*types.Struct); ok {
			if p := accessPath(x.X, d+1); p != "" {
				return p + "." + st.Field(x.Field).Name()
			}
		}
	case *ssa.FieldAddr:
		if st, ok := derefType(x.X.Type()).Underlying().(*types.Struct); ok {
			if p := accessPath(x.X, d+1); p != "" {
				return p + "." + st.Field(x.Field).Name()
			}
		}
	case *ssa.UnOp:
		if x.Op == token.MUL {
			return accessPath(x.X, d+1)
		}
	case *ssa.Extract:
		if call, ok := x.Tuple.(*ssa.Call); ok {
			return fmt.Sprintf("result%d:%p", x.Index, call)
		}
	case *ssa.Call:
		return fmt.Sprintf("result:%p", x)
	}
	return ""
}

func sameLoad(a, b ssa.Value) bool {
	if sameExpr(a, b, 0) {
		return true
	}
	if pa, pb := accessPath(a, 0), accessPath(b, 0); pa != "" && pa == pb {
		return true
	}
	ua, ok1 := a.(*ssa.UnOp)
	ub, ok2 := b.(*ssa.UnOp)
	if !ok1 || !ok2 || ua.Op != token.MUL || ub.Op != token.MUL {
		return false
	}
	fa, ok1 := ua.X.(*ssa.FieldAddr)
	fb, ok2 := ub.X.(*ssa.FieldAddr)
	if ok1 && ok2 {
		return fa.Field == fb.Field && fa.X == fb.X
	}
	return ua.X == ub.X
}

func describeVal(v ssa.Value) string {
	if k, ok := v.(*ssa.Const); ok && k.Value != nil {
		return k.Value.ExactString()
	}
	if u, ok := v.(*ssa.UnOp); ok && u.Op == token.MUL {
		if fa, ok := u.X.(*ssa.FieldAddr); ok {
			if st, ok := derefType(fa.X.Type()).Underlying().(*types.Struct); ok {
				base := fa.X.Name()
				if a, ok := fa.X.(*ssa.Alloc); ok && a.Comment != "" {
					base = a.Comment
				}
				return base + "." + st.Field(fa.Field).Name()
			}
		}
	}
	if f, ok := v.(*ssa.Field); ok {
		if st, ok := f.X.Type().Underlying().(*types.Struct); ok {
			return f.X.Name() + "." + st.Field(f.Field).Name()
		}
	}
	return v.String()
}
