package rules

// Engine D: the command layer. Each leaf command's RunE literal is interpreted with the flag variables
// preset from a scenario (what pflag would have stored before RunE runs), cobra/pflag/os modelled, the
// real gfio.OpenIn/OpenOut interpreted from source, and every exported function of the library packages
// replaced by a recorder. The recorded call (which entry point, which argument in which position, which
// file opened how) and RunE's own result are compared with a specification written over the user-visible
// flag names - not over the repository's variable names.

import (
	"fmt"
	"go/ast"
	"go/token"
	"go/types"
	"math"
	"path"
	"sort"
	"strconv"
	"strings"

	"gofasta-verif/core"
	"gofasta-verif/eval"
)

const (
	cobraCmd  = "(*github.com/spf13/cobra.Command)."
	pflagSet  = "(*github.com/spf13/pflag.FlagSet)."
	pflagFlag = "github.com/spf13/pflag.Flag"
)

type cmdFlag struct {
	name, short string
	kind        string // string int bool float64 float32
	def         interface{}
	persistent  bool
	pos         token.Pos
	lookupPos   token.Pos
}

type cmdNoOpt struct {
	flag string
	pos  token.Pos
}

type cmdNode struct {
	noOpt      []cmdNoOpt // flags given a NoOptDefVal in init()
	use        string
	sv         *eval.StructVal // the command's struct value in the evaluator that interpreted init()
	runE       *ast.FuncLit
	runEV      *eval.FuncVal
	preRunE    *eval.FuncVal
	argsV      *eval.FuncVal
	otherHooks []string
	parent     *cmdNode
	flags      []*cmdFlag
	pos        token.Pos
}

func (n *cmdNode) path() string {
	if n.parent == nil || n.parent.parent == nil && n.parent.use == "gofasta" {
		return n.use
	}
	return n.parent.path() + " " + n.use
}

// visible: the flags cobra's Command.Flag resolves for this command (own flags, then inherited persistent flags).
func (n *cmdNode) visible() []*cmdFlag {
	var out []*cmdFlag
	seen := map[string]bool{}
	for _, f := range n.flags {
		if !seen[f.name] {
			out = append(out, f)
			seen[f.name] = true
		}
	}
	for p := n.parent; p != nil; p = p.parent {
		for _, f := range p.flags {
			if f.persistent && !seen[f.name] {
				out = append(out, f)
				seen[f.name] = true
			}
		}
	}
	return out
}

// cmdInit is what interpreting package cmd's init() functions registers: the commands (by identity of their struct
// value), their parents, and every flag binding with the reference the flag writes through. Nothing here looks at
// how the registration is written - flag variables may be package-level variables or fields of an options struct,
// registered directly in init() or through a helper - only at which pflag/cobra calls are made with which values.
type cmdInit struct {
	nodes    map[*eval.StructVal]*cmdNode
	refs     map[*cmdFlag]*eval.Ref
	flagMeta map[*cmdFlag]*eval.StructVal // the pflag.Flag model handed out by Lookup (NoOptDefVal is assigned on it)
	order    []*cmdNode
	problems []string
}

// interpretCmdInit runs every init() of package cmd in ev with recording models of the cobra/pflag registration API.
func interpretCmdInit(c *core.Ctx, ev *eval.Evaluator) (*cmdInit, error) {
	p := c.Pkgs["cmd"]
	if p == nil {
		return nil, fmt.Errorf("package cmd not loaded")
	}
	ci := &cmdInit{nodes: map[*eval.StructVal]*cmdNode{}, refs: map[*cmdFlag]*eval.Ref{}, flagMeta: map[*cmdFlag]*eval.StructVal{}}
	nodeOf := func(v eval.Value) *cmdNode {
		sv, ok := unref(v).(*eval.StructVal)
		if !ok {
			return nil
		}
		if n, ok := ci.nodes[sv]; ok {
			return n
		}
		n := &cmdNode{sv: sv}
		if u, ok := sv.F["Use"].(eval.Str); ok && u.IsConst() {
			n.use = strings.Fields(u.Const() + " ")[0]
		}
		for _, k := range []string{"RunE", "PreRunE", "PersistentPreRunE", "Args", "Run", "PreRun"} {
			if fv, ok := sv.F[k].(*eval.FuncVal); ok && fv != nil {
				switch k {
				case "RunE":
					n.runE = fv.Lit
					n.runEV = fv
				case "PreRunE":
					n.preRunE = fv
				case "Args":
					n.argsV = fv
				default:
					n.otherHooks = append(n.otherHooks, k)
				}
				if n.pos == token.NoPos && fv.Lit != nil {
					n.pos = fv.Lit.Pos()
				}
			}
		}
		ci.nodes[sv] = n
		ci.order = append(ci.order, n)
		return n
	}
	type flagSetModel struct {
		owner      *cmdNode
		persistent bool
	}
	sets := map[*eval.StructVal]*flagSetModel{}
	mkSet := func(recv eval.Value, persistent bool) eval.Value {
		n := nodeOf(recv)
		if n == nil {
			ci.problems = append(ci.problems, "Flags() on a value that is not a command literal")
			return eval.Opaque{Why: "flag set"}
		}
		sv := &eval.StructVal{F: map[string]eval.Value{"SortFlags": true}}
		sets[sv] = &flagSetModel{n, persistent}
		return &eval.Ref{Get: func() eval.Value { return sv }, Set: func(eval.Value) {}}
	}
	ext := func(name string, f func(pos token.Pos, recv eval.Value, args []eval.Value) eval.Value) {
		ev.Extern[name] = func(ev *eval.Evaluator, pos token.Pos, recv eval.Value, args []eval.Value) eval.Value {
			return f(pos, recv, args)
		}
	}
	ext(cobraCmd+"AddCommand", func(pos token.Pos, recv eval.Value, args []eval.Value) eval.Value {
		parent := nodeOf(recv)
		for _, a := range args {
			kids := []eval.Value{a}
			if sl, ok := a.(eval.Slice); ok {
				kids = sl.Elems()
			}
			for _, k := range kids {
				if ch := nodeOf(k); ch != nil && parent != nil {
					ch.parent = parent
				} else {
					ci.problems = append(ci.problems, c.PosStr(pos)+": AddCommand with a value that is not a command literal")
				}
			}
		}
		return nil
	})
	ext(cobraCmd+"Flags", func(_ token.Pos, recv eval.Value, _ []eval.Value) eval.Value { return mkSet(recv, false) })
	ext(cobraCmd+"PersistentFlags", func(_ token.Pos, recv eval.Value, _ []eval.Value) eval.Value { return mkSet(recv, true) })
	for _, k := range []string{"String", "Int", "Bool", "Float64", "Float32"} {
		for _, withShort := range []bool{false, true} {
			kind, withShort := strings.ToLower(k), withShort
			name := pflagSet + k + "Var"
			if withShort {
				name += "P"
			}
			ext(name, func(pos token.Pos, recv eval.Value, a []eval.Value) eval.Value {
				fsv, _ := unref(recv).(*eval.StructVal)
				set := sets[fsv]
				want := 4
				if withShort {
					want = 5
				}
				ref, isRef := a[0].(*eval.Ref)
				if set == nil || len(a) != want || !isRef {
					ci.problems = append(ci.problems, c.PosStr(pos)+": flag binding not resolved (a pointer to the flag's variable and a flag set obtained from a command expected)")
					return nil
				}
				f := &cmdFlag{kind: kind, persistent: set.persistent, pos: pos}
				if st, ok := a[1].(eval.Str); ok && st.IsConst() {
					f.name = st.Const()
				}
				di := 2
				if withShort {
					if st, ok := a[2].(eval.Str); ok && st.IsConst() {
						f.short = st.Const()
					}
					di = 3
				}
				switch d := a[di].(type) {
				case eval.Str:
					if d.IsConst() && kind == "string" {
						f.def = d.Const()
					}
				case eval.Lin:
					if d.IsConst() && kind == "int" {
						f.def = d.C
					}
				case bool:
					if kind == "bool" {
						f.def = d
					}
				case *eval.FExpr:
					if d.IsConst() && (kind == "float64" || kind == "float32") {
						f.def = d.C
					}
				}
				if f.name == "" || f.def == nil {
					ci.problems = append(ci.problems, c.PosStr(pos)+": flag binding not resolved (constant name and constant default of the flag's type expected)")
					return nil
				}
				ref.Set(toEval(kind, f.def)) // pflag stores the default through the pointer at registration
				ci.refs[f] = ref
				set.owner.flags = append(set.owner.flags, f)
				return nil
			})
		}
	}
	ext(pflagSet+"Lookup", func(pos token.Pos, recv eval.Value, a []eval.Value) eval.Value {
		fsv, _ := unref(recv).(*eval.StructVal)
		set := sets[fsv]
		name, _ := a[0].(eval.Str)
		if set == nil || !name.IsConst() {
			return eval.Nil{}
		}
		for n := set.owner; n != nil; n = n.parent {
			for _, f := range n.flags {
				if f.name == name.Const() && (n == set.owner || f.persistent) {
					m, ok := ci.flagMeta[f]
					if !ok {
						m = &eval.StructVal{F: map[string]eval.Value{"Name": eval.S(f.name), "Shorthand": eval.S(f.short), "NoOptDefVal": eval.S(""), "Hidden": false, "Deprecated": eval.S(""), "Usage": eval.S(""), "DefValue": eval.S(flagString(f.def))}}
						ci.flagMeta[f] = m
					}
					f.lookupPos = pos
					return &eval.Ref{Get: func() eval.Value { return m }, Set: func(eval.Value) {}}
				}
			}
		}
		return eval.Nil{}
	})
	for _, m := range []string{cobraCmd + "MarkFlagRequired", cobraCmd + "MarkPersistentFlagRequired", pflagSet + "MarkHidden", pflagSet + "MarkDeprecated", pflagSet + "MarkShorthandDeprecated", cobraCmd + "MarkFlagsMutuallyExclusive", cobraCmd + "MarkFlagsRequiredTogether"} {
		ext(m, func(token.Pos, eval.Value, []eval.Value) eval.Value { return eval.Nil{} })
	}
	for _, m := range []string{cobraCmd + "SetHelpTemplate", cobraCmd + "SetUsageTemplate", cobraCmd + "SetVersionTemplate", cobraCmd + "SetOut", cobraCmd + "SetErr"} {
		ext(m, func(token.Pos, eval.Value, []eval.Value) eval.Value { return nil })
	}
	// positional-argument validators: the scenarios pass no positional arguments
	argCount := func(ok func(n, have int64) bool, what string) func(token.Pos, eval.Value, []eval.Value) eval.Value {
		return func(_ token.Pos, _ eval.Value, a []eval.Value) eval.Value {
			var n int64
			if len(a) > 0 {
				n, _ = linConst(a[0])
			}
			return &eval.FuncVal{Native: func(ev *eval.Evaluator, args []eval.Value) eval.Value {
				have := int64(0)
				if len(args) == 2 {
					if sl, isSlice := args[1].(eval.Slice); isSlice {
						have = int64(sl.Len())
					}
				}
				if ok(n, have) {
					return eval.Nil{}
				}
				return eval.ErrVal{Msg: eval.S(what)}
			}}
		}
	}
	ext("github.com/spf13/cobra.MinimumNArgs", argCount(func(n, have int64) bool { return have >= n }, "requires more arguments"))
	ext("github.com/spf13/cobra.MaximumNArgs", argCount(func(n, have int64) bool { return have <= n }, "accepts fewer arguments"))
	ext("github.com/spf13/cobra.ExactArgs", argCount(func(n, have int64) bool { return have == n }, "accepts a fixed number of arguments"))
	ext("github.com/spf13/cobra.NoArgs", func(_ token.Pos, _ eval.Value, a []eval.Value) eval.Value {
		if len(a) == 2 {
			if sl, ok := a[1].(eval.Slice); ok && sl.Len() > 0 {
				return eval.ErrVal{Msg: eval.S("unknown command")}
			}
		}
		return eval.Nil{}
	})
	ext("github.com/spf13/cobra.ArbitraryArgs", func(token.Pos, eval.Value, []eval.Value) eval.Value { return eval.Nil{} })
	var inits []*ast.FuncDecl
	for _, file := range p.Syntax {
		if strings.HasSuffix(c.Fset.Position(file.Pos()).Filename, "_test.go") {
			continue
		}
		for _, d := range file.Decls {
			if fd, ok := d.(*ast.FuncDecl); ok && fd.Recv == nil && fd.Name.Name == "init" && fd.Body != nil {
				inits = append(inits, fd)
			}
		}
	}
	sort.Slice(inits, func(a, b int) bool {
		return c.Fset.Position(inits[a].Pos()).Filename < c.Fset.Position(inits[b].Pos()).Filename
	})
	for _, fd := range inits {
		fd := fd
		if err := ev.Try(func() { ev.CallValue(&eval.FuncVal{Decl: fd, Pkg: p}, nil) }); err != nil {
			return ci, fmt.Errorf("cannot interpret %s: %v", c.PosStr(fd.Pos()), err)
		}
	}
	// flags given a no-option default
	for _, n := range ci.order {
		for _, f := range n.flags {
			if m := ci.flagMeta[f]; m != nil {
				if st, ok := m.F["NoOptDefVal"].(eval.Str); !ok || !st.IsConst() || st.Const() != "" {
					owner := n
					owner.noOpt = append(owner.noOpt, cmdNoOpt{f.name, f.lookupPos})
				}
			}
		}
	}
	if len(ci.problems) > 0 {
		sort.Strings(ci.problems)
		return ci, fmt.Errorf("%s", strings.Join(uniqStrings(ci.problems), "; "))
	}
	return ci, nil
}

// cmdTree: the commands by path ("sam toMultiAlign"), from an interpretation of package cmd's init() functions.
func cmdTree(c *core.Ctx) (map[string]*cmdNode, error) {
	ci, err := interpretCmdInit(c, newEval(c))
	if ci == nil {
		return nil, err
	}
	out := map[string]*cmdNode{}
	for _, n := range ci.order {
		if n.use != "" {
			out[n.path()] = n
		}
	}
	return out, err
}

// ------------------------------------------------------------------ scenarios

type scenario struct {
	label    string
	vals     map[string]interface{} // flag name -> string / int64 / bool / float64
	changed  map[string]bool
	failOpen map[string]bool // paths whose opening fails
	files    map[string][]string
	entryErr bool
}

func (s *scenario) clone(label string) *scenario {
	n := &scenario{label: label, vals: map[string]interface{}{}, changed: map[string]bool{}, failOpen: map[string]bool{}, files: s.files, entryErr: s.entryErr}
	for k, v := range s.vals {
		n.vals[k] = v
	}
	for k, v := range s.changed {
		n.changed[k] = v
	}
	for k, v := range s.failOpen {
		n.failOpen[k] = v
	}
	return n
}
func (s *scenario) set(name string, v interface{}) *scenario {
	s.vals[name] = v
	s.changed[name] = true
	return s
}
func (s *scenario) str(n string) string { v, _ := s.vals[n].(string); return v }
func (s *scenario) num(n string) int64  { v, _ := s.vals[n].(int64); return v }
func (s *scenario) flt(n string) float64 {
	v, _ := s.vals[n].(float64)
	return v
}
func (s *scenario) boolean(n string) bool { v, _ := s.vals[n].(bool); return v }

func (s *scenario) in(flag string) string {
	p := s.str(flag)
	if p == "stdin" {
		return "stdin"
	}
	return "open(" + p + ")"
}
func (s *scenario) out(flag string) string {
	p := s.str(flag)
	if p == "stdout" {
		return "stdout"
	}
	return "create(" + p + ")"
}
func (s *scenario) opensFail(paths ...string) bool {
	for _, p := range paths {
		if p != "stdin" && p != "stdout" && (s.failOpen[p] || p == "") {
			return true
		}
	}
	return false
}

type cmdWant struct {
	err   bool
	entry string // rel package + "." + name
	args  []string
}

func fmtI(n int64) string     { return strconv.FormatInt(n, 10) }
func fmtB(b bool) string      { return strconv.FormatBool(b) }
func fmtF(f float64) string   { return strconv.FormatFloat(f, 'g', -1, 64) }
func fmtS(s string) string    { return strconv.Quote(s) }
func fmtL(ss []string) string { return "[" + strings.Join(ss, " ") + "]" }

type cmdSpec struct {
	path    string
	props   []string
	special func(base *scenario) []*scenario
	want    func(s *scenario) cmdWant
}

func annoWant(s *scenario) (string, string, bool) {
	if s.str("genbank") != "" {
		if s.str("annotation") != "" {
			return "", "", false
		}
		if s.opensFail(s.str("genbank")) {
			return "", "", false
		}
		return s.in("genbank"), "gb", true
	}
	if s.opensFail(s.str("annotation")) {
		return "", "", false
	}
	switch path.Ext(s.str("annotation")) {
	case ".gb":
		return s.in("annotation"), "gb", true
	case ".gff":
		return s.in("annotation"), "gff", true
	}
	return "", "", false
}

func annoScenarios(b *scenario) []*scenario {
	return []*scenario{
		b.clone("annotation .gff").set("annotation", "/p/anno.gff"),
		b.clone("annotation with another suffix").set("annotation", "/p/anno.txt"),
		b.clone("annotation .gbk").set("annotation", "/p/anno.gbk"),
		b.clone("legacy --genbank").set("annotation", "").set("genbank", "/p/legacy.gb"),
		b.clone("legacy --genbank named .gff").set("annotation", "").set("genbank", "/p/legacy.gff"),
		b.clone("--genbank and --annotation").set("genbank", "/p/legacy.gb"),
		b.clone("no annotation at all").set("annotation", ""),
		b.clone("window given").set("start", int64(7)).set("end", int64(9)),
		b.clone("only --start").set("start", int64(7)).set("end", int64(-1)),
		b.clone("only --end").set("start", int64(-1)).set("end", int64(9)),
	}
}

// cmdDefaults: the default of every flag as `gofasta <command> --help` documents it (-1 = no window / no wrapping,
// "stdin"/"stdout" = the standard streams). A default is part of the command line a user relies on: with no option
// given, the run must be the documented one.
var cmdDefaults = map[string]map[string]interface{}{
	"closest": {"threads": int64(0), "query": "", "target": "", "measure": "raw", "number": int64(0), "max-dist": "", "outfile": "stdout", "table": false},
	"snps":    {"reference": "", "query": "stdin", "outfile": "stdout", "hard-gaps": false, "aggregate": false, "threshold": 0.0},
	"sam toMultiAlign": {"threads": int64(1), "samfile": "stdin", "reference": "", "start": int64(-1), "end": int64(-1), "pad": false, "fasta-out": "stdout", "wrap": int64(-1),
		"trim": false, "trimstart": int64(-1), "trimend": int64(-1)},
	"sam toPairAlign": {"threads": int64(1), "samfile": "stdin", "reference": "", "outpath": "", "omit-reference": false, "skip-insertions": false, "start": int64(-1), "end": int64(-1), "wrap": int64(-1)},
	"sam variants": {"threads": int64(1), "samfile": "stdin", "reference": "", "annotation": "", "outfile": "stdout", "start": int64(-1), "end": int64(-1), "aggregate": false,
		"threshold": 0.0, "append-snps": false, "genbank": ""},
	"sam indels": {"threads": int64(1), "samfile": "stdin", "insertions-out": "insertions.txt", "deletions-out": "deletions.txt", "threshold": int64(2)},
	"variants": {"msa": "stdin", "reference": "", "annotation": "", "outfile": "stdout", "start": int64(-1), "end": int64(-1), "aggregate": false, "threshold": 0.0,
		"append-snps": false, "threads": int64(1), "genbank": ""},
	"updown list": {"reference": "", "query": "stdin", "outfile": "stdout"},
	"updown topranking": {"query": "", "target": "", "outfile": "stdout", "table": false, "reference": "", "ignore": "", "dist-all": int64(0), "dist-up": int64(0), "dist-down": int64(0),
		"dist-side": int64(0), "size-total": int64(0), "size-up": int64(0), "size-down": int64(0), "size-side": int64(0), "size-same": int64(0), "threshold-pair": 0.1,
		"threshold-target": int64(10000), "dist-push": int64(0), "no-fill": false},
}

var cmdSpecs = []cmdSpec{
	{
		path: "snps", props: []string{"C03", "C13"},
		want: func(s *scenario) cmdWant {
			if s.opensFail(s.str("query"), s.str("reference"), s.str("outfile")) {
				return cmdWant{err: true}
			}
			return cmdWant{entry: "pkg/snps.SNPs", args: []string{s.in("reference"), s.in("query"), fmtB(s.boolean("hard-gaps")), fmtB(s.boolean("aggregate")), fmtF(s.flt("threshold")), s.out("outfile")}}
		},
	},
	{
		path: "closest", props: []string{"C06", "C07"},
		special: func(b *scenario) []*scenario {
			var out []*scenario
			for _, m := range []string{"raw", "snp", "tn93", "RAW", "Snp", "TN93", "tn94", "", "raw "} {
				out = append(out, b.clone("measure "+fmtS(m)).set("measure", m))
				out = append(out, b.clone("measure "+fmtS(m)+" single closest").set("measure", m).set("number", int64(0)).set("max-dist", ""))
			}
			for _, d := range []string{"0.1", "1e-3", "0", "3", "0.30000000000000004", "x", "1,5"} {
				out = append(out, b.clone("max-dist "+fmtS(d)).set("max-dist", d))
				out = append(out, b.clone("max-dist "+fmtS(d)+" without -n").set("max-dist", d).set("number", int64(0)))
			}
			out = append(out, b.clone("neither -n nor -d").set("number", int64(0)).set("max-dist", ""))
			out = append(out, b.clone("-n only").set("max-dist", ""))
			out = append(out, b.clone("--table with -n").set("table", true).set("max-dist", ""))
			// every combination of the three options that select and shape the catchment: none changes what another means
			for _, table := range []bool{false, true} {
				for _, n := range []int64{0, 1, 3} {
					for _, d := range []string{"", "0.5"} {
						out = append(out, b.clone(fmt.Sprintf("table=%v -n %d -d %q", table, n, d)).set("table", table).set("number", n).set("max-dist", d))
					}
				}
			}
			return out
		},
		want: func(s *scenario) cmdWant {
			if s.opensFail(s.str("query"), s.str("target"), s.str("outfile")) {
				return cmdWant{err: true}
			}
			m := strings.ToLower(s.str("measure"))
			if m != "raw" && m != "snp" && m != "tn93" {
				return cmdWant{err: true}
			}
			dist := -1.0
			if s.str("max-dist") != "" {
				d, err := strconv.ParseFloat(s.str("max-dist"), 64)
				if err != nil {
					return cmdWant{err: true}
				}
				dist = d
			}
			if s.num("number") > 0 || dist != -1.0 {
				return cmdWant{entry: "pkg/closest.ClosestN", args: []string{fmtI(s.num("number")), fmtF(dist), s.in("query"), s.in("target"), fmtS(m), s.out("outfile"), fmtB(s.boolean("table")), fmtI(s.num("threads"))}}
			}
			return cmdWant{entry: "pkg/closest.Closest", args: []string{s.in("query"), s.in("target"), fmtS(m), s.out("outfile"), fmtI(s.num("threads"))}}
		},
	},
	{
		path: "sam toMultiAlign", props: []string{"C01", "C15"},
		special: func(b *scenario) []*scenario {
			out := []*scenario{
				b.clone("no window").set("start", int64(-1)).set("end", int64(-1)),
				b.clone("only --start").set("end", int64(-1)),
				b.clone("only --end").set("start", int64(-1)),
				b.clone("legacy --trimstart/--trimend").set("start", int64(-1)).set("end", int64(-1)).set("trimstart", int64(5)).set("trimend", int64(9)),
				b.clone("legacy --trimstart only").set("start", int64(-1)).set("end", int64(-1)).set("trimstart", int64(0)),
				b.clone("legacy --trimend only").set("start", int64(-1)).set("end", int64(-1)).set("trimend", int64(9)),
				b.clone("legacy --trim with new flags").set("trim", true),
				b.clone("legacy --trimstart with --end").set("start", int64(-1)).set("trimstart", int64(5)),
				b.clone("legacy --trim alone").set("start", int64(-1)).set("end", int64(-1)).set("trim", true),
				b.clone("--pad and window").set("pad", true),
			}
			// the whole grid of legacy and current window flags (reconciliation: refused together; 0-based half-open to
			// 1-based inclusive)
			for _, trim := range []bool{false, true} {
				for _, ts := range []int64{-1, 0, 3} {
					for _, te := range []int64{-1, 5} {
						for _, st := range []int64{-1, 2} {
							for _, en := range []int64{-1, 6} {
								out = append(out, b.clone(fmt.Sprintf("trim=%v trimstart=%d trimend=%d start=%d end=%d", trim, ts, te, st, en)).
									set("trim", trim).set("trimstart", ts).set("trimend", te).set("start", st).set("end", en))
							}
						}
					}
				}
			}
			return out
		},
		want: func(s *scenario) cmdWant {
			legacy := s.boolean("trim") || s.num("trimstart") != -1 || s.num("trimend") != -1
			if legacy && (s.num("start") != -1 || s.num("end") != -1) {
				return cmdWant{err: true}
			}
			if s.opensFail(s.str("samfile"), s.str("fasta-out")) {
				return cmdWant{err: true}
			}
			start, end := s.num("start"), s.num("end")
			if s.num("trimstart") != -1 {
				start = s.num("trimstart") + 1 // 0-based half-open -> 1-based inclusive
			}
			if s.num("trimend") != -1 {
				end = s.num("trimend")
			}
			return cmdWant{entry: "pkg/sam.ToMultiAlign", args: []string{s.in("samfile"), s.out("fasta-out"), fmtI(s.num("wrap")), fmtI(start), fmtI(end), fmtB(s.boolean("pad")), fmtI(s.num("threads"))}}
		},
	},
	{
		path: "sam toPairAlign", props: []string{"C02", "C15"},
		special: func(b *scenario) []*scenario {
			return []*scenario{
				b.clone("no window").set("start", int64(-1)).set("end", int64(-1)),
				b.clone("only --start").set("end", int64(-1)),
				b.clone("only --end").set("start", int64(-1)),
			}
		},
		want: func(s *scenario) cmdWant {
			if s.opensFail(s.str("samfile"), s.str("reference")) {
				return cmdWant{err: true}
			}
			return cmdWant{entry: "pkg/sam.ToPairAlign", args: []string{s.in("samfile"), s.in("reference"), fmtS(s.str("outpath")), fmtI(s.num("wrap")), fmtI(s.num("start")), fmtI(s.num("end")), fmtB(s.boolean("omit-reference")), fmtB(s.boolean("skip-insertions")), fmtI(s.num("threads"))}}
		},
	},
	{
		path: "sam variants", props: []string{"C05", "C11", "C13", "C14", "C15"},
		special: func(b *scenario) []*scenario {
			return append(annoScenarios(b), b.clone("no --reference (taken from the annotation)").set("reference", ""))
		},
		want: func(s *scenario) cmdWant {
			if s.opensFail(s.str("samfile"), s.str("outfile")) {
				return cmdWant{err: true}
			}
			ref, fromFile := "nil", false
			if s.str("reference") != "" {
				if s.opensFail(s.str("reference")) {
					return cmdWant{err: true}
				}
				ref, fromFile = s.in("reference"), true
			}
			anno, suffix, ok := annoWant(s)
			if !ok {
				return cmdWant{err: true}
			}
			return cmdWant{entry: "pkg/sam.Variants", args: []string{s.in("samfile"), ref, fmtB(fromFile), anno, fmtS(suffix), s.out("outfile"), fmtI(s.num("start")), fmtI(s.num("end")), fmtB(s.boolean("aggregate")), fmtF(s.flt("threshold")), fmtB(s.boolean("append-snps")), fmtI(s.num("threads"))}}
		},
	},
	{
		path: "sam indels", props: []string{"C05"},
		want: func(s *scenario) cmdWant {
			if s.opensFail(s.str("samfile"), s.str("insertions-out"), s.str("deletions-out")) {
				return cmdWant{err: true}
			}
			return cmdWant{entry: "pkg/sam.Indels", args: []string{s.in("samfile"), s.out("insertions-out"), s.out("deletions-out"), fmtI(s.num("threshold"))}}
		},
	},
	{
		path: "variants", props: []string{"C04", "C05", "C11", "C13", "C14", "C15"},
		special: func(b *scenario) []*scenario {
			return append(annoScenarios(b),
				b.clone("no --reference (taken from the annotation)").set("reference", ""),
				b.clone("msa named stdin.fasta").set("msa", "/p/stdin.fasta"))
		},
		want: func(s *scenario) cmdWant {
			if s.opensFail(s.str("msa"), s.str("outfile")) {
				return cmdWant{err: true}
			}
			anno, suffix, ok := annoWant(s)
			if !ok {
				return cmdWant{err: true}
			}
			return cmdWant{entry: "pkg/variants.Variants", args: []string{s.in("msa"), fmtB(s.str("msa") == "stdin"), fmtS(s.str("reference")), anno, fmtS(suffix), s.out("outfile"), fmtI(s.num("start")), fmtI(s.num("end")), fmtB(s.boolean("aggregate")), fmtF(s.flt("threshold")), fmtB(s.boolean("append-snps")), fmtI(s.num("threads"))}}
		},
	},
	{
		path: "updown list", props: []string{"C10"},
		want: func(s *scenario) cmdWant {
			if s.opensFail(s.str("reference"), s.str("query"), s.str("outfile")) {
				return cmdWant{err: true}
			}
			return cmdWant{entry: "pkg/updown.List", args: []string{s.in("reference"), s.in("query"), s.out("outfile")}}
		},
	},
	{
		path: "updown topranking", props: []string{"C08", "C09"},
		special: func(b *scenario) []*scenario {
			var out []*scenario
			for _, q := range []string{"/p/q.csv", "/p/q.fasta", "/p/q.fa", "/p/q.txt", "/p/q", "/p/q.fasta.gz"} {
				for _, t := range []string{"/p/t.csv", "/p/t.fasta", "/p/t.fa", "/p/t.tsv"} {
					out = append(out, b.clone("query "+path.Ext(q)+" target "+path.Ext(t)).set("query", q).set("target", t))
					out = append(out, b.clone("query "+path.Ext(q)+" target "+path.Ext(t)+" without --reference").set("query", q).set("target", t).set("reference", ""))
				}
			}
			out = append(out, b.clone("--ignore file").set("ignore", "/p/ignore.txt"))
			out = append(out, b.clone("--ignore file missing").set("ignore", "/p/missing.txt"))
			return out
		},
		want: func(s *scenario) cmdWant {
			typ := func(p string) string {
				switch path.Ext(p) {
				case ".csv":
					return "csv"
				case ".fasta", ".fa":
					return "fasta"
				}
				return ""
			}
			qt, tt := typ(s.str("query")), typ(s.str("target"))
			if qt == "" || tt == "" {
				return cmdWant{err: true}
			}
			needRef := qt == "fasta" || tt == "fasta"
			if needRef && s.str("reference") == "" {
				return cmdWant{err: true}
			}
			ignore := []string{}
			if s.str("ignore") != "" {
				if s.opensFail(s.str("ignore")) {
					return cmdWant{err: true}
				}
				for _, l := range s.files[s.str("ignore")] {
					ignore = append(ignore, fmtS(l))
				}
			}
			if s.opensFail(s.str("query"), s.str("target"), s.str("outfile")) {
				return cmdWant{err: true}
			}
			ref := "nil"
			if needRef {
				if s.opensFail(s.str("reference")) {
					return cmdWant{err: true}
				}
				ref = s.in("reference")
			}
			a := []string{s.in("query"), s.in("target"), ref, s.out("outfile"), fmtB(s.boolean("table")), fmtS(qt), fmtS(tt), fmtL(ignore)}
			for _, f := range []string{"size-total", "size-up", "size-down", "size-side", "size-same", "dist-all", "dist-up", "dist-down", "dist-side"} {
				a = append(a, fmtI(s.num(f)))
			}
			// --threshold-pair is the one 32-bit float option (TopRanking takes a float32)
			a = append(a, fmtF(float64(float32(s.flt("threshold-pair")))), fmtI(s.num("threshold-target")), fmtB(s.boolean("no-fill")), fmtI(s.num("dist-push")))
			return cmdWant{entry: "pkg/updown.TopRanking", args: a}
		},
	},
}

// baseScenario gives every visible flag a distinct, non-default value (booleans stay false).
func baseScenario(n *cmdNode) *scenario {
	s := &scenario{label: "distinct values", vals: map[string]interface{}{}, changed: map[string]bool{}, failOpen: map[string]bool{"/p/missing.txt": true},
		files: map[string][]string{"/p/ignore.txt": {"t2", "", "t9", "a b"}}}
	for i, f := range n.visible() {
		switch f.kind {
		case "string":
			switch f.name {
			case "annotation":
				s.set(f.name, "/p/anno.gb")
			case "genbank", "ignore", "max-dist":
				s.vals[f.name] = f.def
			case "measure":
				s.set(f.name, "snp")
			case "query", "target":
				s.set(f.name, "/p/"+f.name+".fasta")
			default:
				s.set(f.name, "/p/"+f.name+".x")
			}
		case "int":
			if strings.HasPrefix(f.name, "trim") {
				s.vals[f.name] = f.def
			} else {
				s.set(f.name, int64(101+i))
			}
		case "bool":
			s.vals[f.name] = false
		case "float64":
			s.set(f.name, 0.1+float64(i)) // not representable in 32 bits
		case "float32":
			s.set(f.name, 0.1+float64(i)) // pflag stores it rounded to 32 bits; the specification says which flags are 32-bit
		}
	}
	return s
}

func scenariosFor(n *cmdNode, spec cmdSpec) []*scenario {
	base := baseScenario(n)
	out := []*scenario{base}
	// every flag at its default, unchanged
	d := base.clone("all defaults (inputs given)")
	for _, f := range n.visible() {
		isPath := f.kind == "string" && strings.HasPrefix(base.str(f.name), "/p/")
		if !isPath || f.def.(string) != "" {
			d.vals[f.name] = f.def
			d.changed[f.name] = false
		}
	}
	out = append(out, d)
	// every flag given explicitly with its default value
	e := d.clone("every flag given explicitly with its default value")
	for _, f := range n.visible() {
		e.changed[f.name] = true
	}
	out = append(out, e)
	for _, f := range n.visible() {
		switch f.kind {
		case "bool":
			out = append(out, base.clone("--"+f.name).set(f.name, true))
			out = append(out, base.clone("--"+f.name+"=false").set(f.name, false))
		case "string":
			if strings.HasPrefix(base.str(f.name), "/p/") {
				fo := base.clone("--" + f.name + " cannot be opened")
				fo.failOpen[base.str(f.name)] = true
				out = append(out, fo)
			}
		case "int":
			out = append(out, base.clone("--"+f.name+" 0").set(f.name, int64(0)))
		}
	}
	if spec.special != nil {
		out = append(out, spec.special(base)...)
	}
	// the entry point fails: same scenarios, the error must come back
	n0 := len(out)
	for i := 0; i < n0; i++ {
		fe := out[i].clone(out[i].label + "; the library call fails")
		fe.entryErr = true
		out = append(out, fe)
	}
	return out
}

// ------------------------------------------------------------------ the run

type fileHandle struct{ desc string }

type flagValueModel struct{ s string }

type cmdRun struct {
	entry  string
	args   []string
	calls  int
	result eval.Value
	err    error
}

func lookupPkgVar(c *core.Ctx, pkgPath, name string) *types.Var {
	for _, p := range c.All {
		if p.PkgPath == pkgPath && p.Types != nil {
			v, _ := p.Types.Scope().Lookup(name).(*types.Var)
			return v
		}
	}
	return nil
}

func renderArg(v eval.Value) string {
	switch x := unref(v).(type) {
	case *fileHandle:
		return x.desc
	case eval.Nil, nil:
		return "nil"
	case bool:
		return fmtB(x)
	case eval.Lin:
		if x.IsConst() {
			return fmtI(x.C)
		}
	case eval.Str:
		if x.IsConst() {
			return fmtS(x.Const())
		}
	case *eval.FExpr:
		if x.IsConst() {
			return fmtF(x.C)
		}
	case eval.Slice:
		var ss []string
		for _, e := range x.Elems() {
			ss = append(ss, renderArg(e))
		}
		return fmtL(ss)
	}
	return "?" + eval.Show(v)
}

func toEval(kind string, v interface{}) eval.Value {
	switch x := v.(type) {
	case string:
		return eval.S(x)
	case int64:
		return eval.K(x)
	case bool:
		return x
	case float64:
		if kind == "float32" {
			return eval.FConst(float64(float32(x)))
		}
		return eval.FConst(x)
	}
	return eval.Opaque{Why: "flag value"}
}

func flagString(v interface{}) string {
	switch x := v.(type) {
	case string:
		return x
	case int64:
		return fmtI(x)
	case bool:
		return fmtB(x)
	case float64:
		return fmtF(x)
	}
	return ""
}

func runCmdScenario(c *core.Ctx, n *cmdNode, s *scenario) cmdRun {
	var run cmdRun
	ev := newEval(c)
	cmdPkg := c.Pkgs["cmd"]
	handle := func(desc string) eval.Value {
		h := &fileHandle{desc: desc}
		return &eval.Ref{Get: func() eval.Value { return h }, Set: func(eval.Value) {}}
	}
	vis := n.visible()
	// the flag variables are whatever init() bound the flags to in THIS evaluator: the registration is interpreted again
	// and each flag's value is stored through the reference it was registered with
	ci, ierr := interpretCmdInit(c, ev)
	if ierr != nil || ci == nil {
		run.err = fmt.Errorf("command registration: %v", ierr)
		return run
	}
	var here *cmdNode
	for _, m := range ci.order {
		if m.use != "" && m.path() == n.path() {
			here = m
		}
	}
	if here == nil {
		run.err = fmt.Errorf("command %q not registered", n.path())
		return run
	}
	for _, f := range here.visible() {
		val, ok := s.vals[f.name]
		if !ok {
			run.err = fmt.Errorf("flag --%s has no value in the scenario", f.name)
			return run
		}
		ci.refs[f].Set(toEval(f.kind, val))
	}
	for name, desc := range map[string]string{"Stdin": "stdin", "Stdout": "stdout", "Stderr": "stderr"} {
		if v := lookupPkgVar(c, "os", name); v != nil {
			ev.SetGlobal(v, handle(desc))
		}
	}
	flagModel := func(name string) eval.Value {
		for _, f := range vis {
			if f.name == name {
				sv := &eval.StructVal{F: map[string]eval.Value{
					"Name": eval.S(f.name), "Shorthand": eval.S(f.short), "Usage": eval.S(""),
					"Value": &flagValueModel{flagString(s.vals[f.name])}, "DefValue": eval.S(flagString(f.def)),
					"Changed": s.changed[f.name], "NoOptDefVal": eval.S(""), "Deprecated": eval.S(""), "Hidden": false,
					"ShorthandDeprecated": eval.S(""),
				}}
				return &eval.Ref{Get: func() eval.Value { return sv }, Set: func(eval.Value) {}}
			}
		}
		return eval.Nil{}
	}
	ext := func(name string, f func(recv eval.Value, args []eval.Value) eval.Value) {
		ev.Extern[name] = func(ev *eval.Evaluator, pos token.Pos, recv eval.Value, args []eval.Value) eval.Value {
			return f(recv, args)
		}
	}
	argS := func(v eval.Value) string {
		if st, ok := v.(eval.Str); ok && st.IsConst() {
			return st.Const()
		}
		return "?"
	}
	flagSet := &struct{ persistent bool }{}
	ext(cobraCmd+"Flag", func(_ eval.Value, a []eval.Value) eval.Value { return flagModel(argS(a[0])) })
	ext(cobraCmd+"Flags", func(_ eval.Value, a []eval.Value) eval.Value { return flagSet })
	ext(cobraCmd+"PersistentFlags", func(_ eval.Value, a []eval.Value) eval.Value { return flagSet })
	ext(cobraCmd+"InheritedFlags", func(_ eval.Value, a []eval.Value) eval.Value { return flagSet })
	ext(pflagSet+"Lookup", func(_ eval.Value, a []eval.Value) eval.Value { return flagModel(argS(a[0])) })
	ext(pflagSet+"Changed", func(_ eval.Value, a []eval.Value) eval.Value { return s.changed[argS(a[0])] })
	for _, k := range []string{"String", "Int", "Bool", "Float64", "Float32"} {
		kind := strings.ToLower(k)
		ext(pflagSet+"Get"+k, func(_ eval.Value, a []eval.Value) eval.Value {
			for _, f := range vis {
				if f.name == argS(a[0]) && f.kind == kind {
					return eval.Tuple{toEval(f.kind, s.vals[f.name]), eval.Nil{}}
				}
			}
			return eval.Tuple{toEval(kind, map[string]interface{}{"string": "", "int": int64(0), "bool": false, "float64": 0.0, "float32": 0.0}[kind]), eval.ErrVal{Msg: eval.S("flag accessed but not defined")}}
		})
	}
	ext("(github.com/spf13/pflag.Value).String", func(recv eval.Value, _ []eval.Value) eval.Value {
		if m, ok := unref(recv).(*flagValueModel); ok {
			return eval.S(m.s)
		}
		return eval.Opaque{Why: "flag value"}
	})
	openErr := func(op, p string) eval.Value {
		inner := eval.ErrVal{Msg: eval.S("no such file or directory")}
		pe := &eval.StructVal{F: map[string]eval.Value{"Op": eval.S(op), "Path": eval.S(p), "Err": inner}}
		return eval.ErrVal{Msg: eval.S(op + " " + p + ": no such file or directory"), Dyn: "*io/fs.PathError",
			Concrete: &eval.Ref{Get: func() eval.Value { return pe }, Set: func(eval.Value) {}}}
	}
	ext("os.Open", func(_ eval.Value, a []eval.Value) eval.Value {
		p := argS(a[0])
		if s.failOpen[p] || p == "" {
			return eval.Tuple{eval.Nil{}, openErr("open", p)}
		}
		return eval.Tuple{handle("open(" + p + ")"), eval.Nil{}}
	})
	ext("os.Create", func(_ eval.Value, a []eval.Value) eval.Value {
		p := argS(a[0])
		if s.failOpen[p] || p == "" {
			return eval.Tuple{eval.Nil{}, openErr("open", p)}
		}
		return eval.Tuple{handle("create(" + p + ")"), eval.Nil{}}
	})
	ext("os.OpenFile", func(_ eval.Value, a []eval.Value) eval.Value {
		p := argS(a[0])
		if s.failOpen[p] || p == "" {
			return eval.Tuple{eval.Nil{}, openErr("open", p)}
		}
		fl, ok := linConst(a[1])
		if !ok {
			return eval.Tuple{handle("openfile(" + p + ", symbolic flags)"), eval.Nil{}}
		}
		// O_RDONLY 0, O_WRONLY 1, O_RDWR 2, O_APPEND 0x400, O_CREATE 0x40, O_EXCL 0x80, O_TRUNC 0x200 (linux, the only build target analysed)
		switch {
		case fl&3 == 0 && fl&(0x40|0x200|0x400) == 0:
			return eval.Tuple{handle("open(" + p + ")"), eval.Nil{}}
		case fl&3 != 0 && fl&0x40 != 0 && fl&0x200 != 0 && fl&0x400 == 0 && fl&0x80 == 0:
			return eval.Tuple{handle("create(" + p + ")"), eval.Nil{}}
		}
		return eval.Tuple{handle(fmt.Sprintf("openfile(%s, flags %#x: not create-and-truncate)", p, fl)), eval.Nil{}}
	})
	// a file asked what it is: a regular file (standard input redirected from a file is one; so is every path opened)
	ext("(*os.File).Stat", func(recv eval.Value, _ []eval.Value) eval.Value {
		return eval.Tuple{&eval.Handle{Dyn: "fs.FileInfo", Tag: "regular file"}, eval.Nil{}}
	})
	for _, n := range []string{"(io/fs.FileInfo).Mode", "(os.FileInfo).Mode"} {
		ext(n, func(recv eval.Value, _ []eval.Value) eval.Value { return eval.K(0) })
	}
	for _, n := range []string{"(io/fs.FileInfo).Size", "(os.FileInfo).Size"} {
		ext(n, func(recv eval.Value, _ []eval.Value) eval.Value { return eval.K(4096) })
	}
	ext("(io/fs.FileMode).IsRegular", func(recv eval.Value, _ []eval.Value) eval.Value { return true })
	ext("(io/fs.FileMode).IsDir", func(recv eval.Value, _ []eval.Value) eval.Value { return false })
	// printing the help text is not running the command
	for _, n := range []string{"(*github.com/spf13/cobra.Command).Help", "(*github.com/spf13/cobra.Command).Usage"} {
		ext(n, func(recv eval.Value, _ []eval.Value) eval.Value { return eval.Nil{} })
	}
	// the name of an opened file is the path it was opened with; the standard streams have their device names
	ext("(*os.File).Name", func(recv eval.Value, _ []eval.Value) eval.Value {
		h, ok := unref(recv).(*fileHandle)
		if !ok {
			return eval.Opaque{Why: "file name"}
		}
		if i := strings.Index(h.desc, "("); i >= 0 && strings.HasSuffix(h.desc, ")") {
			return eval.S(h.desc[i+1 : len(h.desc)-1])
		}
		return eval.S("/dev/" + h.desc)
	})
	// the error from os.Open carries *fs.PathError fields read by gfio.parseInErr
	ext("(*io/fs.PathError).Error", func(recv eval.Value, _ []eval.Value) eval.Value { return eval.S("path error") })
	ext("(error).Error", func(recv eval.Value, _ []eval.Value) eval.Value {
		if e, ok := recv.(eval.ErrVal); ok {
			return e.Msg
		}
		return eval.S("error")
	})
	// anything the command layer itself prints (notes on stderr) is accepted and ignored
	okWrite := func(eval.Value, []eval.Value) eval.Value { return eval.Tuple{eval.K(0), eval.Nil{}} }
	for _, name := range []string{"fmt.Fprintln", "fmt.Fprint", "fmt.Fprintf", "io.WriteString", "(*os.File).WriteString", "(*os.File).Write", "(io.Writer).Write", "fmt.Println", "fmt.Printf", "fmt.Print"} {
		ext(name, okWrite)
	}
	closes := 0
	ext("(*os.File).Close", func(recv eval.Value, _ []eval.Value) eval.Value {
		closes++
		return eval.Nil{}
	})
	// the ignore file is read with a bufio.Scanner
	var scanLines []string
	ext("bufio.NewScanner", func(_ eval.Value, a []eval.Value) eval.Value {
		scanLines = nil
		if h, ok := unref(a[0]).(*fileHandle); ok {
			p := strings.TrimSuffix(strings.TrimPrefix(h.desc, "open("), ")")
			scanLines = s.files[p]
		}
		m := &scanModel{lines: scanLines}
		return &eval.Ref{Get: func() eval.Value { return m }, Set: func(eval.Value) {}}
	})
	getScan := func(recv eval.Value) *scanModel { m, _ := unref(recv).(*scanModel); return m }
	ext("(*bufio.Scanner).Buffer", func(eval.Value, []eval.Value) eval.Value { return nil })
	ext("(*bufio.Scanner).Scan", func(recv eval.Value, _ []eval.Value) eval.Value {
		m := getScan(recv)
		if m.pos < len(m.lines) {
			m.pos++
			return true
		}
		return false
	})
	ext("(*bufio.Scanner).Text", func(recv eval.Value, _ []eval.Value) eval.Value {
		m := getScan(recv)
		return eval.S(m.lines[m.pos-1])
	})
	ext("(*bufio.Scanner).Err", func(eval.Value, []eval.Value) eval.Value { return eval.Nil{} })
	// every exported function of the library packages is a recorder
	for rel, p := range c.Pkgs {
		if rel == "cmd" || rel == "pkg/gfio" || rel == "" || rel == "." {
			continue
		}
		scope := p.Types.Scope()
		for _, name := range scope.Names() {
			fn, ok := scope.Lookup(name).(*types.Func)
			if !ok || !fn.Exported() {
				continue
			}
			// an entry point does work and reports an error (or nothing); an exported helper that only computes a value from
			// scalars (a predicate on an option's spelling, a constant's accessor) is interpreted from its source
			if sig := fn.Type().(*types.Signature); errResultIndex(sig) < 0 && sig.Results().Len() > 0 {
				pure := true
				for i := 0; i < sig.Params().Len(); i++ {
					if _, isBasic := sig.Params().At(i).Type().Underlying().(*types.Basic); !isBasic {
						pure = false
					}
				}
				if pure {
					continue
				}
			}
			rel, name := rel, name
			ext(fn.FullName(), func(_ eval.Value, a []eval.Value) eval.Value {
				run.calls++
				run.entry = rel + "." + name
				run.args = nil
				for _, v := range a {
					run.args = append(run.args, renderArg(v))
				}
				sig := fn.Type().(*types.Signature)
				var res eval.Value = eval.Nil{}
				if s.entryErr {
					res = eval.ErrVal{Msg: eval.S("the library call failed")}
				}
				if sig.Results().Len() == 1 {
					return res
				}
				return nil
			})
		}
	}
	cmdModel := &struct{ name string }{n.use}
	_ = cmdPkg
	if len(here.otherHooks) > 0 {
		run.err = fmt.Errorf("the command uses hooks that are not modelled: %v", here.otherHooks)
		return run
	}
	// cobra's order: positional-argument validation, PreRunE, RunE; the first error ends the run
	run.err = ev.Try(func() {
		for _, hook := range []*eval.FuncVal{here.argsV, here.preRunE, here.runEV} {
			if hook == nil {
				continue
			}
			run.result = ev.CallValue(hook, []eval.Value{cmdModel, eval.NewSlice()})
			if _, isErr := run.result.(eval.ErrVal); isErr {
				return
			}
		}
	})
	return run
}

func describeCmdRun(r cmdRun) string {
	if r.err != nil {
		return "undecided: " + r.err.Error()
	}
	res := "nil"
	if e, ok := r.result.(eval.ErrVal); ok {
		res = "error " + fmtS(eval.Show(e.Msg))
	} else if _, ok := r.result.(eval.Nil); !ok {
		res = eval.Show(r.result)
	}
	if r.calls == 0 {
		return "no library call; returns " + res
	}
	return fmt.Sprintf("%s(%s); returns %s", r.entry, strings.Join(r.args, ", "), res)
}

// checkCmdContract runs the scenarios of the commands registered for property `prop` (or the named ones).
func checkCmdContract(c *core.Ctx, rule string, paths ...string) {
	tree, err := cmdTree(c)
	if err != nil {
		c.Und(rule+"/cmd/flag-bindings", token.NoPos, "command tree not fully resolved: %v", err)
	}
	if tree == nil {
		return
	}
	want := map[string]bool{}
	for _, p := range paths {
		want[p] = true
	}
	nScen := 0
	for _, spec := range cmdSpecs {
		if !want[spec.path] {
			continue
		}
		key := rule + "/cmd/" + strings.ReplaceAll(spec.path, " ", "-")
		node := tree[spec.path]
		if node == nil {
			// a renamed command: resolve by the entry point it calls is not attempted; the command names are user-visible
			c.Und(key, token.NoPos, "UNRESOLVED anchor: no cobra command with path %q", spec.path)
			continue
		}
		if node.runE == nil {
			c.Und(key, node.pos, "command %q has no RunE function literal", spec.path)
			continue
		}
		// a flag with a no-option default does not consume the next word: only booleans may have one,
		// otherwise `--threshold 0.6` silently becomes the default plus a stray argument
		{
			var badNo []string
			kinds := map[string]string{}
			for _, f := range node.visible() {
				kinds[f.name] = f.kind
			}
			for _, no := range node.noOpt {
				if kinds[no.flag] != "bool" {
					badNo = append(badNo, fmt.Sprintf("%s: --%s (%s) is given a NoOptDefVal: `--%s VALUE` would no longer take VALUE", c.PosStr(no.pos), no.flag, kinds[no.flag], no.flag))
				}
			}
			c.Ob(key+"/value-flags-take-their-value", len(badNo) == 0, node.pos, "%s", first(badNo, 3))
		}
		// with no option given, the run is the documented one: every flag has its documented default
		if defs := cmdDefaults[spec.path]; defs != nil {
			var badDef []string
			have := map[string]*cmdFlag{}
			for _, f := range node.visible() {
				have[f.name] = f
			}
			var names []string
			for name := range defs {
				names = append(names, name)
			}
			sort.Strings(names)
			for _, name := range names {
				f := have[name]
				switch {
				case f == nil:
					badDef = append(badDef, fmt.Sprintf("--%s is not a flag of this command any more", name))
				case f.kind == "float32":
					if math.Abs(f.def.(float64)-defs[name].(float64)) > 1e-6 {
						badDef = append(badDef, fmt.Sprintf("%s: --%s defaults to %v, documented default %v", c.PosStr(f.pos), name, f.def, defs[name]))
					}
				case f.def != defs[name]:
					badDef = append(badDef, fmt.Sprintf("%s: --%s defaults to %v, documented default %v", c.PosStr(f.pos), name, f.def, defs[name]))
				}
			}
			c.Ob(key+"/documented-defaults", len(badDef) == 0, node.pos, "%s", first(badDef, 3))
		}
		var badArgs, badErr, badEntryErr, undecided []string
		for _, sc := range scenariosFor(node, spec) {
			nScen++
			w := spec.want(sc)
			r := runCmdScenario(c, node, sc)
			if r.err != nil {
				undecided = append(undecided, fmt.Sprintf("[%s] %v", sc.label, r.err))
				continue
			}
			_, isErr := r.result.(eval.ErrVal)
			_, isNil := r.result.(eval.Nil)
			if !isErr && !isNil {
				undecided = append(undecided, fmt.Sprintf("[%s] RunE result %s", sc.label, eval.Show(r.result)))
				continue
			}
			if w.err {
				if !isErr || r.calls != 0 {
					badErr = append(badErr, fmt.Sprintf("[%s] must fail before any library call; got: %s", sc.label, describeCmdRun(r)))
				}
				continue
			}
			wantEntry := w.entry
			if i := strings.LastIndex(w.entry, "."); i >= 0 {
				wantEntry = w.entry[:i] + "." + currentName(c, w.entry[:i], w.entry[i+1:])
			}
			// an empty string in a list of names (a blank line of the --ignore file) names no record: a command may pass it
			// on or leave it out
			noEmpty := func(args []string) string {
				j := strings.Join(args, ", ")
				j = strings.ReplaceAll(j, `[""]`, "[]")
				j = strings.ReplaceAll(j, `["" `, "[")
				j = strings.ReplaceAll(j, ` ""]`, "]")
				return strings.ReplaceAll(j, ` "" `, " ")
			}
			if r.calls != 1 || r.entry != wantEntry || noEmpty(r.args) != noEmpty(w.args) {
				badArgs = append(badArgs, fmt.Sprintf("[%s] want %s(%s); got: %s", sc.label, wantEntry, strings.Join(w.args, ", "), describeCmdRun(r)))
				continue
			}
			if sc.entryErr != isErr {
				badEntryErr = append(badEntryErr, fmt.Sprintf("[%s] the library call returned %v; got: %s", sc.label, map[bool]string{true: "an error", false: "nil"}[sc.entryErr], describeCmdRun(r)))
			}
		}
		if len(undecided) > 0 {
			c.Und(key+"/decided", node.runE.Pos(), "%s", first(undecided, 3))
		} else {
			c.Ob(key+"/decided", true, node.runE.Pos(), "")
		}
		c.Ob(key+"/flags-reach-the-library-call", len(badArgs) == 0, node.runE.Pos(), "%s", first(badArgs, 3))
		c.Ob(key+"/invalid-options-and-unopenable-files-fail", len(badErr) == 0, node.runE.Pos(), "%s", first(badErr, 3))
		c.Ob(key+"/library-error-is-returned", len(badEntryErr) == 0, node.runE.Pos(), "%s", first(badEntryErr, 3))
	}
	c.Count("cmd_scenarios_interpreted", nScen)
}

func allCmdPaths() []string {
	var out []string
	for _, s := range cmdSpecs {
		out = append(out, s.path)
	}
	return out
}
