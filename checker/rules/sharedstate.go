package rules

import (
	"fmt"
	"go/constant"
	"go/token"
	"sort"

	"golang.org/x/tools/go/ssa"

	"gofasta-verif/core"
)

// globalWrites lists the instructions of f that write a package-level variable of the repository, or memory
// reached from one (an element or field of a package-level slice, array, map or struct).
func globalWrites(c *core.Ctx, f *ssa.Function) []ssa.Instruction {
	var out []ssa.Instruction
	rootedAtGlobal := func(v ssa.Value) *ssa.Global {
		for d := 0; d < 8 && v != nil; d++ {
			switch x := v.(type) {
			case *ssa.Global:
				if x.Pkg != nil && c.RelOf(x.Pkg.Pkg) != "" {
					return x
				}
				return nil
			case *ssa.IndexAddr:
				v = x.X
			case *ssa.FieldAddr:
				v = x.X
			case *ssa.UnOp:
				if x.Op != token.MUL {
					return nil
				}
				v = x.X
			case *ssa.Slice:
				v = x.X
			default:
				return nil
			}
		}
		return nil
	}
	for _, b := range f.Blocks {
		for _, ins := range b.Instrs {
			switch x := ins.(type) {
			case *ssa.Store:
				if rootedAtGlobal(x.Addr) != nil {
					out = append(out, ins)
				}
			case *ssa.MapUpdate:
				if rootedAtGlobal(x.Map) != nil {
					out = append(out, ins)
				}
			case *ssa.Call:
				if bi, ok := x.Common().Value.(*ssa.Builtin); ok && (bi.Name() == "append" || bi.Name() == "copy" || bi.Name() == "delete") && len(x.Common().Args) > 0 {
					if rootedAtGlobal(x.Common().Args[0]) != nil {
						out = append(out, ins) // appends in place when capacity allows
					}
				}
			}
		}
	}
	return out
}

func transitiveCallees(f *ssa.Function, out map[*ssa.Function]bool) {
	if f == nil || out[f] {
		return
	}
	out[f] = true
	for _, b := range f.Blocks {
		for _, ins := range b.Instrs {
			switch x := ins.(type) {
			case ssa.CallInstruction:
				if cal := x.Common().StaticCallee(); cal != nil && inRepo(cal) {
					transitiveCallees(cal, out)
				}
			case *ssa.MakeClosure:
				if fn, ok := x.Fn.(*ssa.Function); ok {
					transitiveCallees(fn, out)
				}
			}
		}
	}
}

// checkNoSharedWrites: the functions given (and everything they call in the repository) never write
// package-level state. For code that runs in several worker goroutines at once this is a necessary condition
// of race freedom and of results that do not depend on scheduling; for the alphabet functions it is purity.
func checkNoSharedWrites(c *core.Ctx, key string, roots []*ssa.Function, why string) int {
	reach := map[*ssa.Function]bool{}
	for _, r := range roots {
		transitiveCallees(r, reach)
	}
	var fs []*ssa.Function
	for f := range reach {
		fs = append(fs, f)
	}
	sort.Slice(fs, func(i, j int) bool { return fnKey(fs[i]) < fnKey(fs[j]) })
	var bad []string
	var pos token.Pos
	for _, f := range fs {
		if f.Name() == "init" && f.Parent() == nil {
			continue
		}
		if onceGuarded(f) {
			continue // runs once, under sync.Once
		}
		for _, w := range globalWrites(c, f) {
			bad = append(bad, fmt.Sprintf("%s: %s writes package-level state (%s)", c.PosStr(w.Pos()), fnKey(f), w.String()))
			pos = w.Pos()
		}
	}
	c.Ob(key, len(bad) == 0, pos, "%s: %s", why, first(bad, 3))
	return len(fs)
}

// goroutineRoots: the functions started by go statements anywhere in the library packages.
func goroutineRoots(p *progFacts) []*ssa.Function {
	var out []*ssa.Function
	for _, f := range p.funcs {
		if isDeprecatedIndels(topFunc(f)) {
			continue
		}
		for _, b := range f.Blocks {
			for _, ins := range b.Instrs {
				g, ok := ins.(*ssa.Go)
				if !ok {
					continue
				}
				if cal := g.Common().StaticCallee(); cal != nil && inRepo(cal) {
					out = append(out, cal)
				} else if mc, ok := g.Common().Value.(*ssa.MakeClosure); ok {
					if fn, ok := mc.Fn.(*ssa.Function); ok {
						out = append(out, fn)
					}
				}
			}
		}
	}
	return out
}

// capturedWrites lists the stores a goroutine closure (and the closures nested in it) makes to variables
// captured from the function that started it.
func capturedWrites(fn *ssa.Function) []ssa.Instruction {
	var out []ssa.Instruction
	rooted := func(v ssa.Value) bool {
		for d := 0; d < 8 && v != nil; d++ {
			switch x := v.(type) {
			case *ssa.FreeVar:
				return true
			case *ssa.IndexAddr:
				v = x.X
			case *ssa.FieldAddr:
				v = x.X
			case *ssa.UnOp:
				if x.Op != token.MUL {
					return false
				}
				v = x.X
			default:
				return false
			}
		}
		return false
	}
	allInstrs(fn, func(f *ssa.Function, ins ssa.Instruction) {
		switch x := ins.(type) {
		case *ssa.Store:
			if rooted(x.Addr) {
				out = append(out, ins)
			}
		case *ssa.MapUpdate:
			if rooted(x.Map) {
				out = append(out, ins)
			}
		}
	})
	return out
}

// checkNoCapturedWrites: a function literal started with `go` may assign to a variable of the function that
// started it only as a *collector*: it is started once (not in a loop), no other goroutine literal captures the
// variable, and the starter touches the variable again only after it has received a completion token that this
// goroutine sends (every CFG path from the go statement to the access passes through a receive on such a
// channel; the counting idiom `for n := 1; n > 0; { select { ... n-- } }` is followed by evaluating the loop
// test on the entry edge). Anything else is unsynchronised shared state.
func checkNoCapturedWrites(c *core.Ctx, key string, p *progFacts) int {
	n := 0
	var bad []string
	var pos token.Pos
	note := func(at token.Pos, format string, a ...interface{}) {
		bad = append(bad, c.PosStr(at)+": "+fmt.Sprintf(format, a...))
		pos = at
	}
	for _, f := range p.funcs {
		if isDeprecatedIndels(topFunc(f)) {
			continue
		}
		for _, b := range f.Blocks {
			for gi, ins := range b.Instrs {
				g, ok := ins.(*ssa.Go)
				if !ok {
					continue
				}
				mc, ok := g.Common().Value.(*ssa.MakeClosure)
				if !ok {
					continue
				}
				fn, _ := mc.Fn.(*ssa.Function)
				if fn == nil {
					continue
				}
				n++
				// which captured variables does the literal write?
				written := map[int]ssa.Instruction{}
				for _, w := range capturedWrites(fn) {
					var addr ssa.Value
					switch x := w.(type) {
					case *ssa.Store:
						addr = x.Addr
					case *ssa.MapUpdate:
						addr = x.Map
					}
					for d := 0; d < 8 && addr != nil; d++ {
						switch x := addr.(type) {
						case *ssa.FreeVar:
							if x.Parent() == fn {
								for k, fv := range fn.FreeVars {
									if fv == x {
										written[k] = w
									}
								}
							} else {
								written[-1] = w // a variable of an outer function, through a nested literal
							}
							addr = nil
						case *ssa.IndexAddr:
							addr = x.X
						case *ssa.FieldAddr:
							addr = x.X
						case *ssa.UnOp:
							addr = x.X
						default:
							addr = nil
						}
					}
				}
				if len(written) == 0 {
					continue
				}
				if w, nested := written[-1]; nested {
					note(w.Pos(), "a literal nested in the goroutine started at %s assigns to a captured variable", c.PosStr(g.Pos()))
					continue
				}
				// completion tokens this goroutine sends
				// (a token sent, a channel closed - also by a deferred close -, or Done() on a WaitGroup of the starter)
				tokens := map[*ssa.MakeChan]bool{}
				wgTokens := map[*ssa.Alloc]bool{}
				allInstrs(fn, func(_ *ssa.Function, in ssa.Instruction) {
					if sd, ok := in.(*ssa.Send); ok {
						for _, src := range p.chanSources(sd.Chan) {
							tokens[src] = true
						}
					}
					ci, ok := in.(ssa.CallInstruction)
					if !ok || len(ci.Common().Args) == 0 {
						return
					}
					if bi, ok := ci.Common().Value.(*ssa.Builtin); ok && bi.Name() == "close" {
						for _, src := range p.chanSources(ci.Common().Args[0]) {
							tokens[src] = true
						}
					}
					if cal := ci.Common().StaticCallee(); cal != nil && cal.String() == "(*sync.WaitGroup).Done" {
						if fv, ok := ci.Common().Args[0].(*ssa.FreeVar); ok && fv.Parent() == fn {
							for k, v := range fn.FreeVars {
								if v == fv && k < len(mc.Bindings) {
									if a, ok := mc.Bindings[k].(*ssa.Alloc); ok {
										wgTokens[a] = true
									}
								}
							}
						}
					}
				})
				for k, w := range written {
					if k >= len(mc.Bindings) {
						continue
					}
					A, isAlloc := mc.Bindings[k].(*ssa.Alloc)
					name := fn.FreeVars[k].Name()
					if !isAlloc {
						note(w.Pos(), "the goroutine started at %s assigns to %s, which is not a local of its starter", c.PosStr(g.Pos()), name)
						continue
					}
					if blockInLoop(b) {
						note(w.Pos(), "goroutines started in a loop at %s all assign to the starter's variable %s", c.PosStr(g.Pos()), name)
						continue
					}
					shared := false
					for _, r := range *A.Referrers() {
						if omc, ok := r.(*ssa.MakeClosure); ok && omc != mc {
							for _, rr := range *omc.Referrers() {
								if _, isGo := rr.(*ssa.Go); isGo {
									shared = true
								}
							}
						}
					}
					if shared {
						note(w.Pos(), "the starter's variable %s is assigned by the goroutine started at %s and captured by another goroutine", name, c.PosStr(g.Pos()))
						continue
					}
					if at, ok := accessBeforeToken(p, f, b, gi+1, A, mc, tokens, wgTokens); !ok {
						note(w.Pos(), "the goroutine started at %s assigns to %s, and %s touches %s at %s on a path that has not received that goroutine's completion token", c.PosStr(g.Pos()), name, fnKey(f), name, c.PosStr(at))
					}
				}
			}
		}
	}
	sort.Strings(bad)
	c.Ob(key, len(bad) == 0, pos, "%s", first(bad, 3))
	return n
}

// accessBeforeToken walks the starter's CFG from the instruction after the go statement; a path ends at a receive
// from one of the token channels; reaching an instruction that uses the variable first is a violation.
func accessBeforeToken(p *progFacts, f *ssa.Function, b0 *ssa.BasicBlock, i0 int, A *ssa.Alloc, self *ssa.MakeClosure, tokens map[*ssa.MakeChan]bool, wgTokens map[*ssa.Alloc]bool) (token.Pos, bool) {
	isToken := func(ch ssa.Value) bool {
		for _, src := range p.chanSources(ch) {
			if tokens[src] {
				return true
			}
		}
		return false
	}
	uses := func(ins ssa.Instruction) bool {
		if ins == ssa.Instruction(self) {
			return false
		}
		for _, op := range ins.Operands(nil) {
			if op != nil && *op == ssa.Value(A) {
				return true
			}
		}
		return false
	}
	type edge struct{ from, to *ssa.BasicBlock }
	seen := map[edge]bool{}
	type item struct {
		from *ssa.BasicBlock
		b    *ssa.BasicBlock
		i    int
	}
	work := []item{{nil, b0, i0}}
	for len(work) > 0 {
		it := work[len(work)-1]
		work = work[:len(work)-1]
		stop := false
		for i := it.i; i < len(it.b.Instrs) && !stop; i++ {
			ins := it.b.Instrs[i]
			if u, ok := ins.(*ssa.UnOp); ok && u.Op == token.ARROW && isToken(u.X) {
				stop = true
				break
			}
			if ci, ok := ins.(*ssa.Call); ok && len(ci.Common().Args) == 1 {
				if cal := ci.Common().StaticCallee(); cal != nil && cal.String() == "(*sync.WaitGroup).Wait" {
					if a, ok := ci.Common().Args[0].(*ssa.Alloc); ok && wgTokens[a] {
						stop = true // Wait returns only after this goroutine's Done
						break
					}
				}
			}
			if uses(ins) {
				return ins.Pos(), false
			}
		}
		if stop || len(it.b.Instrs) == 0 {
			continue
		}
		succs := it.b.Succs
		if iff, ok := it.b.Instrs[len(it.b.Instrs)-1].(*ssa.If); ok && len(succs) == 2 {
			// (1) a select case that received the token ends the path on its true edge
			if cond, ok := iff.Cond.(*ssa.BinOp); ok && cond.Op == token.EQL {
				if ex, ok := cond.X.(*ssa.Extract); ok && ex.Index == 0 {
					if sel, ok := ex.Tuple.(*ssa.Select); ok {
						if k, ok := cond.Y.(*ssa.Const); ok && k.Value != nil {
							if idx, exact := constant.Int64Val(k.Value); exact && int(idx) < len(sel.States) && isToken(sel.States[idx].Chan) {
								succs = []*ssa.BasicBlock{succs[1]}
							}
						}
					}
				}
			}
			// (2) a loop test decided by the constant the counter has on the edge we arrived by
			if cond, ok := iff.Cond.(*ssa.BinOp); ok && it.from != nil && len(succs) == 2 {
				if phi, ok := cond.X.(*ssa.Phi); ok && phi.Block() == it.b {
					if k2, ok := cond.Y.(*ssa.Const); ok && k2.Value != nil && k2.Value.Kind() == constant.Int {
						for pi, pred := range it.b.Preds {
							if pred != it.from {
								continue
							}
							if k1, ok := phi.Edges[pi].(*ssa.Const); ok && k1.Value != nil && k1.Value.Kind() == constant.Int {
								if constant.Compare(k1.Value, cond.Op, k2.Value) {
									succs = []*ssa.BasicBlock{succs[0]}
								} else {
									succs = []*ssa.BasicBlock{succs[1]}
								}
							}
						}
					}
				}
			}
		}
		for _, s2 := range succs {
			e := edge{it.b, s2}
			if !seen[e] {
				seen[e] = true
				work = append(work, item{it.b, s2, 0})
			}
		}
	}
	return token.NoPos, true
}

// onceGuarded: the function literal is only ever passed to (*sync.Once).Do.
func onceGuarded(f *ssa.Function) bool {
	if f.Parent() == nil {
		return false
	}
	found, other := false, false
	for _, b := range f.Parent().Blocks {
		for _, ins := range b.Instrs {
			mc, ok := ins.(*ssa.MakeClosure)
			if !ok || mc.Fn != f {
				continue
			}
			for _, r := range *mc.Referrers() {
				if call, ok := r.(ssa.CallInstruction); ok {
					if cal := call.Common().StaticCallee(); cal != nil && cal.String() == "(*sync.Once).Do" {
						found = true
						continue
					}
				}
				other = true
			}
		}
	}
	return found && !other
}
