package rules

import (
	"fmt"
	"go/token"
	"sort"

	"golang.org/x/tools/go/ssa"

	"gofasta-verif/core"
)

// globalWrites lists the instructions of f that write a package-level variable of the repository, or memory
// reached from one (an element or field of a package-level slice, array, map or struct).
func globalWrites(c *core.Ctx, f *ssa.Function) []ssa.Instruction {
	var out []ssa.Instruction
	rootedAtGlobal := func(v ssa.Value) *ssa.Global {
		for d := 0; d < 8 && v != nil; d++ {
			switch x := v.(type) {
			case *ssa.Global:
				if x.Pkg != nil && c.RelOf(x.Pkg.Pkg) != "" {
					return x
				}
				return nil
			case *ssa.IndexAddr:
				v = x.X
			case *ssa.FieldAddr:
				v = x.X
			case *ssa.UnOp:
				if x.Op != token.MUL {
					return nil
				}
				v = x.X
			case *ssa.Slice:
				v = x.X
			default:
				return nil
			}
		}
		return nil
	}
	for _, b := range f.Blocks {
		for _, ins := range b.Instrs {
			switch x := ins.(type) {
			case *ssa.Store:
				if rootedAtGlobal(x.Addr) != nil {
					out = append(out, ins)
				}
			case *ssa.MapUpdate:
				if rootedAtGlobal(x.Map) != nil {
					out = append(out, ins)
				}
			case *ssa.Call:
				if bi, ok := x.Common().Value.(*ssa.Builtin); ok && (bi.Name() == "append" || bi.Name() == "copy" || bi.Name() == "delete") && len(x.Common().Args) > 0 {
					if rootedAtGlobal(x.Common().Args[0]) != nil {
						out = append(out, ins) // appends in place when capacity allows
					}
				}
			}
		}
	}
	return out
}

func transitiveCallees(f *ssa.Function, out map[*ssa.Function]bool) {
	if f == nil || out[f] {
		return
	}
	out[f] = true
	for _, b := range f.Blocks {
		for _, ins := range b.Instrs {
			switch x := ins.(type) {
			case ssa.CallInstruction:
				if cal := x.Common().StaticCallee(); cal != nil && inRepo(cal) {
					transitiveCallees(cal, out)
				}
			case *ssa.MakeClosure:
				if fn, ok := x.Fn.(*ssa.Function); ok {
					transitiveCallees(fn, out)
				}
			}
		}
	}
}

// checkNoSharedWrites: the functions given (and everything they call in the repository) never write
// package-level state. For code that runs in several worker goroutines at once this is a necessary condition
// of race freedom and of results that do not depend on scheduling; for the alphabet functions it is purity.
func checkNoSharedWrites(c *core.Ctx, key string, roots []*ssa.Function, why string) int {
	reach := map[*ssa.Function]bool{}
	for _, r := range roots {
		transitiveCallees(r, reach)
	}
	var fs []*ssa.Function
	for f := range reach {
		fs = append(fs, f)
	}
	sort.Slice(fs, func(i, j int) bool { return fnKey(fs[i]) < fnKey(fs[j]) })
	var bad []string
	var pos token.Pos
	for _, f := range fs {
		if f.Name() == "init" && f.Parent() == nil {
			continue
		}
		for _, w := range globalWrites(c, f) {
			bad = append(bad, fmt.Sprintf("%s: %s writes package-level state (%s)", c.PosStr(w.Pos()), fnKey(f), w.String()))
			pos = w.Pos()
		}
	}
	c.Ob(key, len(bad) == 0, pos, "%s: %s", why, first(bad, 3))
	return len(fs)
}

// goroutineRoots: the functions started by go statements anywhere in the library packages.
func goroutineRoots(p *progFacts) []*ssa.Function {
	var out []*ssa.Function
	for _, f := range p.funcs {
		if isDeprecatedIndels(topFunc(f)) {
			continue
		}
		for _, b := range f.Blocks {
			for _, ins := range b.Instrs {
				g, ok := ins.(*ssa.Go)
				if !ok {
					continue
				}
				if cal := g.Common().StaticCallee(); cal != nil && inRepo(cal) {
					out = append(out, cal)
				} else if mc, ok := g.Common().Value.(*ssa.MakeClosure); ok {
					if fn, ok := mc.Fn.(*ssa.Function); ok {
						out = append(out, fn)
					}
				}
			}
		}
	}
	return out
}
