package rules

import (
	"golang.org/x/tools/go/ssa"

	"fmt"
	"go/token"
	"sort"

	"gofasta-verif/core"
	"gofasta-verif/eval"
	"gofasta-verif/oracle"
)

func init() { register("C17", C17) }

// codonDict extracts the codon dictionary (shared with C04).
func codonDict(c *core.Ctx, ev *eval.Evaluator, rule string) (map[string]string, bool) {
	v, ok := evalFunc(c, ev, rule+"/extract/MakeCodonDict", "pkg/alphabet", "MakeCodonDict")
	if !ok {
		return nil, false
	}
	m, ok := v.(*eval.MapVal)
	if !ok {
		c.Und(rule+"/extract/MakeCodonDict", funcPos(c, "pkg/alphabet", "MakeCodonDict"), "did not evaluate to a map")
		return nil, false
	}
	out := map[string]string{}
	for _, k := range m.Keys {
		ks, ok1 := m.K[k].(eval.Str)
		vs, ok2 := m.M[k].(eval.Str)
		if !ok1 || !ok2 || !ks.IsConst() || !vs.IsConst() {
			c.Und(rule+"/extract/MakeCodonDict", funcPos(c, "pkg/alphabet", "MakeCodonDict"), "non-constant dictionary entry")
			return nil, false
		}
		out[ks.Const()] = vs.Const()
	}
	c.Count("tables_extracted", 1)
	c.Count("codon_dict_entries", len(out))
	return out, true
}

// checkCodonDict compares the dictionary with the independently written standard code over all 3375 codons.
func checkCodonDict(c *core.Ctx, rule string, dict map[string]string) {
	pos := funcPos(c, "pkg/alphabet", "MakeCodonDict")
	var missing, wrong, spurious, unamb []string
	all := oracle.AllCodons()
	inDomain := map[string]bool{}
	for _, cod := range all {
		inDomain[cod] = true
		aa, ok := oracle.TranslateIUPAC(cod)
		got, present := dict[cod]
		switch {
		case ok && !present:
			missing = append(missing, cod+"->"+string(aa))
		case ok && got != string(aa):
			wrong = append(wrong, fmt.Sprintf("%s: dict %q, standard code %q", cod, got, string(aa)))
		case !ok && present:
			spurious = append(spurious, fmt.Sprintf("%s->%s (expansions disagree)", cod, got))
		}
	}
	for k, v := range dict {
		if !inDomain[k] {
			spurious = append(spurious, fmt.Sprintf("%q->%s (not an IUPAC codon)", k, v))
		}
	}
	for cod, aa := range oracle.StandardCode {
		if dict[cod] != string(aa) {
			unamb = append(unamb, fmt.Sprintf("%s: dict %q, table %q", cod, dict[cod], string(aa)))
		}
	}
	c.Count("domain_points_evaluated", len(all)+64)
	c.Ob(rule+"/codon-dict/64-unambiguous", len(unamb) == 0, pos, "the 64 A/C/G/T codons against NCBI table 1: %s", first(unamb, 5))
	c.Ob(rule+"/codon-dict/complete", len(missing) == 0, pos, "IUPAC codons whose expansions all agree but are absent: %s", first(missing, 6))
	c.Ob(rule+"/codon-dict/sound", len(wrong) == 0, pos, "entries with a wrong product: %s", first(wrong, 6))
	c.Ob(rule+"/codon-dict/no-spurious", len(spurious) == 0, pos, "entries that should not translate: %s", first(spurious, 6))
}

func C17(c *core.Ctx) {
	c.Explanation("C17: the codon dictionary, the text and encoded complement tables and the encoding/decoding tables are extracted from the constructors' source by constant evaluation and compared, exhaustively over 3375 IUPAC codons / 256 byte values, with an independently written standard genetic code and IUPAC base-set table; Translate, Complement, ReverseComplement and the four record methods are evaluated by the abstract interpreter on every single codon / every accepted symbol and on distinct-symbol strings of length 0..8 (they never branch on symbol identity other than through the tables).")
	// purity: the alphabet and encoding functions write no package-level state (their results are functions of
	// their arguments also when several workers call them at once)
	{
		var roots []*ssa.Function
		for _, f := range c.RepoFuncs() {
			if f.Pkg != nil && f.Parent() == nil && (c.RelOf(f.Pkg.Pkg) == "pkg/alphabet" || c.RelOf(f.Pkg.Pkg) == "pkg/encoding") && f.Name() != "init" {
				roots = append(roots, f)
			}
		}
		checkNoSharedWrites(c, "R7/alphabet-and-encoding-functions-are-pure", roots, "translation, complement and the table constructors must not keep state between calls")
		// ... and a table that is built once and handed to every caller by reference stays what its constructor made it:
		// no caller writes through it
		checkNoWritesThroughSharedResults(c, "R7/no-caller-writes-through-a-shared-table", facts(c))
		c.Floor("R7/alphabet-and-encoding-functions", len(roots), 6)
	}
	ev := newEval(c)
	// 1. codon dictionary
	dict, ok := codonDict(c, ev, "R1")
	if ok {
		checkCodonDict(c, "R1", dict)
		c.Sample(map[string]string{"codon": "MGR", "dict": dict["MGR"], "oracle": func() string { a, _ := oracle.TranslateIUPAC("MGR"); return string(a) }()})
	}
	// 2. text complement
	comp, okc := byteTable(c, ev, "R2/extract/MakeCompArray", "pkg/alphabet", "MakeCompArray")
	posC := funcPos(c, "pkg/alphabet", "MakeCompArray")
	if okc {
		var bad []string
		for b := 0; b < 256; b++ {
			got := comp[b]
			if !isAccepted(byte(b)) {
				if got != 0 {
					bad = append(bad, fmt.Sprintf("%q->%q (not a nucleotide character)", byte(b), byte(got)))
				}
				continue
			}
			want := wantComp(byte(b))
			if byte(got) != want {
				bad = append(bad, fmt.Sprintf("%q->%q, want %q", byte(b), byte(got), want))
			}
		}
		c.Count("domain_points_evaluated", 256)
		c.Ob("R2/text-complement/base-wise", len(bad) == 0, posC, "%s", first(bad, 6))
		inv := []string{}
		for _, b := range accepted32() {
			if byte(comp[comp[b]]) != b {
				inv = append(inv, string(b))
			}
		}
		c.Ob("R2/text-complement/involution", len(inv) == 0, posC, "comp(comp(x)) != x for %s", first(inv, 8))
	}
	// 3. encoded complement agrees with the text one through the encoding
	tabs := extractTables(c, ev, "R3")
	ecomp, oke := byteTable(c, ev, "R3/extract/MakeEncodedCompArray", "pkg/alphabet", "MakeEncodedCompArray")
	posE := funcPos(c, "pkg/alphabet", "MakeEncodedCompArray")
	if tabs.OK && oke {
		var bad []string
		codes := map[int64]bool{}
		for _, b := range accepted32() {
			code := tabs.Soft[b]
			codes[code] = true
			want := tabs.Soft[wantComp(b)]
			if ecomp[code] != want {
				bad = append(bad, fmt.Sprintf("code %d (%q) -> %d, want %d (%q)", code, b, ecomp[code], want, wantComp(b)))
			}
		}
		for i := 0; i < 256; i++ {
			if !codes[int64(i)] && ecomp[i] != 0 {
				bad = append(bad, fmt.Sprintf("index %d is not a code but maps to %d", i, ecomp[i]))
			}
		}
		c.Count("domain_points_evaluated", 256)
		c.Ob("R3/encoded-complement/base-wise", len(bad) == 0, posE, "%s", first(bad, 6))
		inv := []string{}
		for code := range codes {
			if ecomp[ecomp[code]] != code {
				inv = append(inv, fmt.Sprint(code))
			}
		}
		c.Ob("R3/encoded-complement/involution", len(inv) == 0, posE, "not an involution at codes %s", first(inv, 8))
		checkEncDec(c, "R4", tabs)
	}
	// 4. Translate over all single codons, both modes
	c17Translate(c, ev)
	// 5. Complement / ReverseComplement and the record methods
	c17Strings(c, ev, tabs)
}

func wantComp(b byte) byte {
	switch b {
	case '-', '?':
		return b
	}
	lower := b >= 'a' && b <= 'z'
	s := oracle.IUPAC[upper(b)]
	r := oracle.CodeOfSet(oracle.CompSet(s))
	if lower {
		r += 32
	}
	return r
}

// checkEncDec: encoding tables denote the IUPAC base sets; decode(encode(x)) = upper(x). (Shared with C03/C16.)
func checkEncDec(c *core.Ctx, rule string, t *Tables) {
	posS := funcPos(c, "pkg/encoding", "MakeEncodingArray")
	posH := funcPos(c, "pkg/encoding", "MakeEncodingArrayHardGaps")
	posD := funcPos(c, "pkg/encoding", "MakeDecodingArray")
	for _, mode := range []struct {
		name string
		tab  [256]int64
		hard bool
		pos  token.Pos
	}{{"soft", t.Soft, false, posS}, {"hard", t.Hard, true, posH}} {
		var bad, caseBad, inval, dec []string
		for b := 0; b < 256; b++ {
			if !isAccepted(byte(b)) {
				if mode.tab[b] != 0 {
					inval = append(inval, fmt.Sprintf("%q->%d", byte(b), mode.tab[b]))
				}
				continue
			}
			if mode.tab[b] == 0 {
				bad = append(bad, fmt.Sprintf("%q is rejected (code 0)", byte(b)))
			}
			if mode.tab[b] != mode.tab[upper(byte(b))] {
				caseBad = append(caseBad, string(byte(b)))
			}
			if t.Dec[mode.tab[b]] != string(upper(byte(b))) {
				dec = append(dec, fmt.Sprintf("%q->%d->%q", byte(b), mode.tab[b], t.Dec[mode.tab[b]]))
			}
		}
		// pairwise: (a&b) >= 16 iff base sets intersect
		var dis []string
		for _, a := range oracle.Symbols17 {
			for _, b := range oracle.Symbols17 {
				got := (mode.tab[a] & mode.tab[b]) < 16
				if got != disjoint(a, b, mode.hard) {
					dis = append(dis, fmt.Sprintf("%c/%c", a, b))
				}
			}
		}
		// resolved bit
		var res []string
		for _, a := range oracle.Symbols17 {
			if (mode.tab[a]&8 == 8) != oracle.Resolved(a) {
				res = append(res, string(a))
			}
		}
		// injective on symbols (decoding is possible)
		seen := map[int64]byte{}
		var inj []string
		for _, a := range oracle.Symbols17 {
			if p, ok := seen[mode.tab[a]]; ok {
				inj = append(inj, fmt.Sprintf("%c=%c", p, a))
			}
			seen[mode.tab[a]] = a
		}
		c.Count("domain_points_evaluated", 256+289+17)
		c.Ob(rule+"/encoding-"+mode.name+"/accepts-32", len(bad) == 0, mode.pos, "%s", first(bad, 6))
		c.Ob(rule+"/encoding-"+mode.name+"/rejects-others", len(inval) == 0, mode.pos, "bytes outside the alphabet with a non-zero code: %s", first(inval, 6))
		c.Ob(rule+"/encoding-"+mode.name+"/case-insensitive", len(caseBad) == 0, mode.pos, "lower/upper case differ for %s", first(caseBad, 8))
		c.Ob(rule+"/encoding-"+mode.name+"/decode-inverts", len(dec) == 0, posD, "decode(encode(x)) != upper(x): %s", first(dec, 6))
		c.Ob(rule+"/encoding-"+mode.name+"/disjointness-17x17", len(dis) == 0, mode.pos, "(a&b)<16 differs from base-set disjointness for pairs %s", first(dis, 8))
		c.Ob(rule+"/encoding-"+mode.name+"/resolved-bit", len(res) == 0, mode.pos, "bit 8 does not mean 'one of A,C,G,T' for %s", first(res, 8))
		c.Ob(rule+"/encoding-"+mode.name+"/injective", len(inj) == 0, mode.pos, "symbols share a code: %s", first(inj, 8))
	}
}

func c17Translate(c *core.Ctx, ev *eval.Evaluator) {
	fn := c.LookupFunc("pkg/alphabet", "Translate")
	if fn == nil {
		c.Und("R5/Translate", token.NoPos, "UNRESOLVED anchor alphabet.Translate")
		return
	}
	var bad []string
	n := 0
	call := func(s string, strict bool) (string, bool, bool) {
		v, err := ev.CallFunc(fn, eval.S(s), strict)
		if err != nil {
			bad = append(bad, fmt.Sprintf("%s: undecided: %v", s, err))
			return "", false, false
		}
		t, ok := v.(eval.Tuple)
		if !ok || len(t) != 2 {
			bad = append(bad, s+": unexpected result shape")
			return "", false, false
		}
		_, isErr := t[1].(eval.ErrVal)
		str, _ := t[0].(eval.Str)
		n++
		return str.Const(), isErr, true
	}
	for _, cod := range oracle.AllCodons() {
		aa, ok := oracle.TranslateIUPAC(cod)
		for _, strict := range []bool{true, false} {
			got, isErr, decided := call(cod, strict)
			if !decided {
				continue
			}
			switch {
			case ok && (isErr || got != string(aa)):
				bad = append(bad, fmt.Sprintf("%s strict=%v -> %q err=%v, want %q", cod, strict, got, isErr, string(aa)))
			case !ok && strict && !isErr:
				bad = append(bad, fmt.Sprintf("%s strict -> %q without error", cod, got))
			case !ok && !strict && (isErr || got != "X"):
				bad = append(bad, fmt.Sprintf("%s non-strict -> %q err=%v, want X", cod, got, isErr))
			}
		}
		if len(bad) > 40 {
			break
		}
	}
	c.Count("domain_points_evaluated", n)
	c.Ob("R5/Translate/single-codons-3375x2", len(bad) == 0, fn.Pos(), "%s", first(bad, 6))
	// length not divisible by three is an error; windows are consecutive, non-overlapping triples
	var win []string
	for _, s := range []string{"A", "AC", "ACGT", "ACGTA"} {
		_, isErr, decided := call(s, false)
		if decided && !isErr {
			win = append(win, s+": no error for length "+fmt.Sprint(len(s)))
		}
	}
	reps := []string{"ATG", "TAA", "GCN", "MGR", "NNN", "RAY", "TTY", "YTA"}
	for _, a := range reps {
		for _, b := range reps {
			for _, d := range []string{"", "CAR"} {
				want := ""
				for _, x := range []string{a, b, d} {
					if x == "" {
						continue
					}
					if aa, ok := oracle.TranslateIUPAC(x); ok {
						want += string(aa)
					} else {
						want += "X"
					}
				}
				got, isErr, decided := call(a+b+d, false)
				if decided && (isErr || got != want) {
					win = append(win, fmt.Sprintf("%s -> %q, want %q", a+b+d, got, want))
				}
			}
		}
	}
	c.Ob("R5/Translate/windows-and-length", len(win) == 0, fn.Pos(), "%s", first(win, 6))
	// a codon's product does not depend on the codons around it: every IUPAC codon after and before each of a few
	// (thorough: all 64) unambiguous codons, in both modes
	companions := []string{"AAC", "TTG"}
	if c.Tier == "thorough" {
		companions = nil
		for _, a := range "ACGT" {
			for _, b := range "ACGT" {
				for _, d := range "ACGT" {
					companions = append(companions, string([]rune{a, b, d}))
				}
			}
		}
	}
	var ctx []string
	np := 0
	for _, u := range companions {
		ua, _ := oracle.TranslateIUPAC(u)
		for _, cod := range oracle.AllCodons() {
			aa, ok := oracle.TranslateIUPAC(cod)
			for _, strict := range []bool{false, true} {
				for _, order := range []int{0, 1} {
					seq, want := u+cod, string(ua)
					if order == 1 {
						seq = cod + u
					}
					x := "X"
					if ok {
						x = string(aa)
					}
					if order == 0 {
						want += x
					} else {
						want = x + want
					}
					got, isErr, decided := call(seq, strict)
					np++
					if !decided {
						continue
					}
					switch {
					case !ok && strict:
						if !isErr {
							ctx = append(ctx, fmt.Sprintf("%s strict -> %q without error (%s has more than one product)", seq, got, cod))
						}
					case isErr || got != want:
						ctx = append(ctx, fmt.Sprintf("%s strict=%v -> %q err=%v, want %q", seq, strict, got, isErr, want))
					}
				}
			}
			if len(ctx) > 40 {
				break
			}
		}
	}
	c.Count("codon_pairs_evaluated", np)
	c.Ob("R5/Translate/codon-product-independent-of-neighbours", len(ctx) == 0, fn.Pos(), "%s", first(ctx, 6))
}

func c17Strings(c *core.Ctx, ev *eval.Evaluator, tabs *Tables) {
	acc := accepted32()
	sort.Slice(acc, func(i, j int) bool { return acc[i] < acc[j] })
	inputs := []string{""}
	for n := 1; n <= 8; n++ {
		inputs = append(inputs, string(acc[:n]), string(acc[len(acc)-n:]))
	}
	inputs = append(inputs, string(acc))
	// every string of length 1..3 over A/C/G/T (all 64 codons: a codon is complemented base by base like any other
	// string), the same in lower case, and codons with one ambiguity code
	for _, alpha := range []string{"ACGT", "acgt"} {
		for _, w := range allStrings(alpha, 3) {
			if w != "" {
				inputs = append(inputs, w)
			}
		}
	}
	for _, amb := range "RYKMSWBDHVN-" {
		inputs = append(inputs, "A"+string(amb)+"C", string(amb)+"GT", "TC"+string(amb))
	}
	compOf := func(s string) string {
		b := []byte(s)
		for i := range b {
			b[i] = wantComp(b[i])
		}
		return string(b)
	}
	rev := func(s string) string {
		b := []byte(s)
		for i, j := 0, len(b)-1; i < j; i, j = i+1, j-1 {
			b[i], b[j] = b[j], b[i]
		}
		return string(b)
	}
	for _, f := range []struct {
		name string
		want func(string) string
	}{{"Complement", compOf}, {"ReverseComplement", func(s string) string { return rev(compOf(s)) }}} {
		fn := c.LookupFunc("pkg/alphabet", f.name)
		if fn == nil {
			c.Und("R6/"+f.name, token.NoPos, "UNRESOLVED anchor alphabet.%s", f.name)
			continue
		}
		var bad []string
		for _, in := range inputs {
			v, err := ev.CallFunc(fn, eval.S(in))
			if err != nil {
				bad = append(bad, fmt.Sprintf("undecided: %v", err))
				break
			}
			s, ok := v.(eval.Str)
			if !ok || !s.IsConst() || s.Const() != f.want(in) {
				bad = append(bad, fmt.Sprintf("%q -> %s, want %q", in, eval.Show(v), f.want(in)))
			}
		}
		c.Count("domain_points_evaluated", len(inputs))
		c.Ob("R6/alphabet."+f.name, len(bad) == 0, fn.Pos(), "%s", first(bad, 4))
	}
	// record methods
	for _, m := range []struct {
		typ, name string
		encoded   bool
		want      func(string) string
	}{
		{"FastaRecord", "Complement", false, compOf},
		{"FastaRecord", "ReverseComplement", false, func(s string) string { return rev(compOf(s)) }},
		{"EncodedFastaRecord", "Complement", true, compOf},
		{"EncodedFastaRecord", "ReverseComplement", true, func(s string) string { return rev(compOf(s)) }},
	} {
		key := "R6/fastaio." + m.typ + "." + m.name
		fn := c.LookupFunc("pkg/fastaio", m.typ+"."+m.name)
		if fn == nil {
			c.Und(key, token.NoPos, "UNRESOLVED anchor")
			continue
		}
		if m.encoded && !tabs.OK {
			continue
		}
		var bad []string
		for _, in := range inputs {
			var seq eval.Value
			if m.encoded {
				vs := make([]eval.Value, len(in))
				for i := 0; i < len(in); i++ {
					vs[i] = eval.K(tabs.Soft[in[i]])
				}
				seq = eval.NewSlice(vs...)
			} else {
				seq = eval.S(in)
			}
			rec := &eval.StructVal{F: map[string]eval.Value{"ID": eval.S("id1"), "Description": eval.S("id1 desc"), "Seq": seq, "Idx": eval.K(7),
				"Score": eval.K(0), "Count_A": eval.K(0), "Count_T": eval.K(0), "Count_G": eval.K(0), "Count_C": eval.K(0)}}
			before := eval.Show(rec.F["Seq"])
			res, err := ev.CallMethod(fn, rec)
			if err != nil {
				bad = append(bad, fmt.Sprintf("undecided: %v", err))
				break
			}
			if after := eval.Show(rec.F["Seq"]); after != before {
				bad = append(bad, fmt.Sprintf("%q: the method changed the record it was called on (%s -> %s): complementing it again is no longer the complement of the original", in, before, after))
				continue
			}
			out, ok := res.(*eval.StructVal)
			if !ok {
				bad = append(bad, "result is not a record")
				break
			}
			want := m.want(in)
			got := ""
			if m.encoded {
				sl, ok := out.F["Seq"].(eval.Slice)
				if !ok {
					bad = append(bad, "result Seq is not a slice")
					break
				}
				wantUp := []byte(want)
				okAll := sl.Len() == len(wantUp)
				for i, e := range sl.Elems() {
					code, _ := linConst(e)
					if okAll && code != tabs.Soft[wantUp[i]] {
						okAll = false
					}
				}
				if !okAll {
					bad = append(bad, fmt.Sprintf("%q -> %s", in, eval.Show(out.F["Seq"])))
				}
			} else {
				s, _ := out.F["Seq"].(eval.Str)
				got = s.Const()
				if got != want {
					bad = append(bad, fmt.Sprintf("%q -> %q, want %q", in, got, want))
				}
			}
			if id, _ := out.F["ID"].(eval.Str); id.Const() != "id1" {
				bad = append(bad, "ID not preserved")
			}
			if ix, _ := linConst(out.F["Idx"]); ix != 7 {
				bad = append(bad, "Idx not preserved")
			}
		}
		c.Count("domain_points_evaluated", len(inputs))
		c.Ob(key, len(bad) == 0, fn.Pos(), "%s", first(bad, 4))
	}
}
