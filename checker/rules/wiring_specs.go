package rules

import (
	"fmt"
	"go/types"
	"os"
	"strings"

	"gofasta-verif/core"
	"gofasta-verif/eval"
)

func wr(tag string) eval.Value { return eval.Opaque{Why: tag} }

func rep(n int, s string) []string {
	var out []string
	for i := 0; i < n; i++ {
		out = append(out, s)
	}
	return out
}

func cat(parts ...[]string) []string {
	var out []string
	for _, p := range parts {
		out = append(out, p...)
	}
	return out
}

func encRecord(c *core.Ctx, id, seqTag string) *eval.StructVal {
	recT := namedType(c, "pkg/fastaio", "EncodedFastaRecord")
	r := absValue(recT, "r", eval.K(0)).(*eval.StructVal)
	r.F["ID"] = eval.S(id)
	r.F["Description"] = eval.S(id)
	r.F["Seq"] = eval.Opaque{Why: seqTag}
	r.F["Idx"] = eval.K(0)
	return r
}

// wireSeq is the encoded form of "AGCT-" in the given gap mode, so that a reference's provenance (which gap
// mode it was read with) is visible wherever its sequence is passed on.
func wireSeq(c *core.Ctx, hard bool) eval.Value {
	tabs := wiringTables(c)
	t := tabs.Soft
	if hard {
		t = tabs.Hard
	}
	var vs []eval.Value
	for _, ch := range []byte("AGCT-") {
		vs = append(vs, eval.K(t[ch]))
	}
	return eval.NewSlice(vs...)
}

func wireSeqStr(c *core.Ctx, hard bool) string { return renderWire(wireSeq(c, hard)) }

var wiringTabs *Tables

func wiringTables(c *core.Ctx) *Tables {
	if wiringTabs == nil {
		wiringTabs = extractTables(c, newEval(c), "E/tables")
	}
	return wiringTabs
}

func encRecordSeq(c *core.Ctx, id string, hard bool) *eval.StructVal {
	r := encRecord(c, id, "")
	r.F["Seq"] = wireSeq(c, hard)
	return r
}

// refList: what the list reader returns: n records whose sequence shows the gap mode they were read with.
func refList(c *core.Ctx, n int) wireCanned {
	return func(a []eval.Value, sig *types.Signature) eval.Value {
		hard, _ := wireFind(a, sig, func(t types.Type, v eval.Value) bool { _, ok := v.(bool); return ok }).(bool)
		rd := wireFind(a, sig, func(t types.Type, v eval.Value) bool { return strings.HasSuffix(t.String(), "io.Reader") })
		var recs []eval.Value
		for i := 0; i < n; i++ {
			recs = append(recs, encRecordSeq(c, fmt.Sprintf("%s#%d", strings.TrimPrefix(renderWire(rd), "reader:"), i), hard))
		}
		return eval.Tuple{eval.NewSlice(recs...), eval.Nil{}}
	}
}

func dumpWiring(c *core.Ctx, pkg, entry string, scs []wireScenario) {
	if os.Getenv("GFWIRE_DUMP") == "" {
		return
	}
	for _, sc := range scs {
		r := runWiring(c, pkg, entry, sc.args, sc.numCPU, sc.canned, "")
		fmt.Fprintf(os.Stderr, "WIRE %s.%s [%s] err=%v result=%s\n   %s\n", pkg, entry, sc.label, r.err, eval.Show(r.result), strings.Join(r.events, "\n   "))
	}
}

// ---- snps.SNPs(ref, alignment, hardGaps, aggregate, threshold, w)
func wiringSNPs(c *core.Ctx, rule string) {
	var scs []wireScenario
	for _, hard := range []bool{false, true} {
		for _, agg := range []bool{false, true} {
			for _, thr := range []float64{0, 0.25} {
				for _, cpu := range []int{1, 3} {
					h := fmtB(hard)
					writer := "snps.writeOutput(writer:out, chan, chan, chan)"
					if agg {
						writer = "snps.aggregateWriteOutput(writer:out, " + fmtF(thr) + ", chan, chan, chan)"
					}
					scs = append(scs, wireScenario{
						label:  fmt.Sprintf("hardGaps=%v aggregate=%v threshold=%v cpus=%d", hard, agg, thr, cpu),
						args:   []eval.Value{wr("reader:reference"), wr("reader:alignment"), hard, agg, eval.FConst(thr), wr("writer:out")},
						numCPU: cpu,
						canned: map[string]wireCanned{"fastaio.ReadEncodeAlignmentToList": refList(c, 1)},
						want: cat([]string{
							"fastaio.ReadEncodeAlignmentToList(reader:reference, " + h + ")",
							"fastaio.ReadEncodeAlignment(reader:alignment, " + h + ", chan, chan, chan)",
							writer},
							rep(cpu, "snps.getSNPs("+wireSeqStr(c, hard)+", chan, chan, chan)")),
					})
				}
			}
		}
	}
	scs = append(scs, wireScenario{label: "two records in --reference", numCPU: 2,
		args:   []eval.Value{wr("reader:reference"), wr("reader:alignment"), false, false, eval.FConst(0), wr("writer:out")},
		canned: map[string]wireCanned{"fastaio.ReadEncodeAlignmentToList": refList(c, 2)}, wantErr: true})
	dumpWiring(c, "pkg/snps", "SNPs", scs)
	checkWiring(c, rule, "pkg/snps", "SNPs", scs)
}

// ---- updown.List(reference, alignment, out)
func wiringList(c *core.Ctx, rule string) {
	var scs []wireScenario
	for _, cpu := range []int{1, 4} {
		scs = append(scs, wireScenario{label: fmt.Sprintf("cpus=%d", cpu), numCPU: cpu,
			args:   []eval.Value{wr("reader:reference"), wr("reader:alignment"), wr("writer:out")},
			canned: map[string]wireCanned{"fastaio.ReadEncodeAlignmentToList": refList(c, 1)},
			want: cat([]string{
				"fastaio.ReadEncodeAlignmentToList(reader:reference, false)",
				"fastaio.ReadEncodeAlignment(reader:alignment, false, chan, chan, chan)",
				"updown.writeOutput(writer:out, chan, chan, chan)"},
				rep(cpu, "updown.getLines("+wireSeqStr(c, false)+", chan, chan, chan)"))})
	}
	scs = append(scs, wireScenario{label: "two records in --reference", numCPU: 2,
		args:   []eval.Value{wr("reader:reference"), wr("reader:alignment"), wr("writer:out")},
		canned: map[string]wireCanned{"fastaio.ReadEncodeAlignmentToList": refList(c, 2)}, wantErr: true})
	dumpWiring(c, "pkg/updown", "List", scs)
	checkWiring(c, rule, "pkg/updown", "List", scs)
}

// resultsSender: a splitter stage delivers one result per query on its results channel before reporting done.
func resultsSender(c *core.Ctx, pkg, typ string, queriesArg, resultsArg int) wireCanned {
	return func(a []eval.Value, sig *types.Signature) eval.Value {
		t := namedType(c, pkg, typ)
		n := 0
		// the queries: the (first) slice of records among the arguments; the results channel: the one carrying typ
		if q, ok := wireFind(a, sig, func(pt types.Type, v eval.Value) bool {
			sl, isSl := pt.Underlying().(*types.Slice)
			if !isSl {
				return false
			}
			_, isStruct := sl.Elem().Underlying().(*types.Struct)
			_, isVal := v.(eval.Slice)
			return isStruct && isVal
		}).(eval.Slice); ok {
			n = q.Len()
		}
		ch, _ := wireFind(a, sig, func(pt types.Type, v eval.Value) bool {
			ct, isCh := pt.Underlying().(*types.Chan)
			return isCh && t != nil && types.Identical(ct.Elem(), t)
		}).(*eval.ChanVal)
		for i := 0; i < n && ch != nil && t != nil; i++ {
			r := absValue(t, "res", eval.K(0)).(*eval.StructVal)
			r.F["qidx"] = eval.K(int64(i))
			r.F["qname"] = eval.S(fmt.Sprintf("q%d", i))
			pushDownEmbedded(r, map[*eval.StructVal]bool{}) // the index and name may live in an embedded struct
			ch.Sent = append(ch.Sent, r)
			ch.Feed = append(ch.Feed, r)
		}
		return nil
	}
}

func okNil(a []eval.Value, sig *types.Signature) eval.Value { return eval.Nil{} }

// ---- closest.Closest(query, target, measure, out, threads) / ClosestN(n, maxdist, query, target, measure, out, table, threads)
func wiringClosest(c *core.Ctx, rule string) {
	qs := "[record(query#0) record(query#1)]"
	var s1, s2 []wireScenario
	for _, m := range []string{"raw", "snp", "tn93"} {
		for _, th := range []int{0, 1, 5} {
			canned := map[string]wireCanned{"fastaio.ReadEncodeAlignmentToList": refList(c, 2), "closest.writeClosest": okNil,
				"closest.splitInput": resultsSender(c, "pkg/closest", "resultsStruct", 0, 3)}
			s1 = append(s1, wireScenario{label: fmt.Sprintf("measure=%s threads=%d", m, th), numCPU: 3, canned: canned,
				args: []eval.Value{wr("reader:query"), wr("reader:target"), eval.S(m), wr("writer:out"), eval.K(int64(th))},
				want: []string{"fastaio.ReadEncodeAlignmentToList(reader:query, false)",
					"fastaio.ReadEncodeScoreAlignment(reader:target, false, chan, chan, chan)",
					"closest.splitInput(" + qs + ", " + fmtS(m) + ", chan, chan, chan, chan)",
					"closest.writeClosest([res res], " + fmtS(m) + ", writer:out)"}})
			for _, tbl := range []bool{false, true} {
				for _, nd := range [][2]float64{{3, -1}, {0, 0.5}, {2, 0.5}} {
					n, d := int64(nd[0]), nd[1]
					size := fmtI(n)
					if d != -1 && n == 0 {
						size = "9223372036854775807" // no -n: every target within -d
					}
					cn := map[string]wireCanned{"fastaio.ReadEncodeAlignmentToList": refList(c, 2), "closest.writeClosestN": okNil, "closest.writeClosestNTable": okNil,
						"closest.splitInputN": resultsSender(c, "pkg/closest", "catchmentStruct", 0, 5)}
					wrt := "closest.writeClosestN([res res], writer:out)"
					if tbl {
						wrt = "closest.writeClosestNTable([res res], writer:out, " + fmtS(m) + ")"
					}
					s2 = append(s2, wireScenario{label: fmt.Sprintf("measure=%s threads=%d n=%d d=%v table=%v", m, th, n, d, tbl), numCPU: 3, canned: cn,
						args: []eval.Value{eval.K(n), eval.FConst(d), wr("reader:query"), wr("reader:target"), eval.S(m), wr("writer:out"), tbl, eval.K(int64(th))},
						want: []string{"fastaio.ReadEncodeAlignmentToList(reader:query, false)",
							"fastaio.ReadEncodeScoreAlignment(reader:target, false, chan, chan, chan)",
							"closest.splitInputN(" + qs + ", " + size + ", " + fmtF(d) + ", " + fmtS(m) + ", chan, chan, chan, chan)", wrt}})
				}
			}
		}
	}
	dumpWiring(c, "pkg/closest", "Closest", s1[:1])
	dumpWiring(c, "pkg/closest", "ClosestN", s2[:2])
	checkWiring(c, rule, "pkg/closest", "Closest", s1)
	checkWiring(c, rule, "pkg/closest", "ClosestN", s2)
}

// ---- sam.ToMultiAlign(samIn, out, wrap, trimstart, trimend, pad, threads); reference length 30 from the header
func wiringToMultiAlign(c *core.Ctx, rule string) {
	var scs []wireScenario
	for _, wrap := range []int64{-1, 0, 7} {
		for _, win := range [][2]int64{{-1, -1}, {3, 12}, {5, -1}, {-1, 20}} {
			for _, pad := range []bool{false, true} {
				for _, th := range []int64{1, 3, 0} {
					s, e, trim := win[0], win[1], true
					if s == -1 && e == -1 {
						trim = false
					}
					if s == -1 {
						s = 1
					}
					if e == -1 {
						e = 30
					}
					n := int(th)
					if n < 1 {
						n = 1
					}
					writer := "fastaio.WriteAlignment(chan, writer:out, chan, chan)"
					if wrap > 0 {
						writer = "fastaio.WriteWrapAlignment(chan, writer:out, " + fmtI(wrap) + ", chan, chan)"
					}
					scs = append(scs, wireScenario{label: fmt.Sprintf("wrap=%d start=%d end=%d pad=%v threads=%d", wrap, win[0], win[1], pad, th), numCPU: 2,
						args: []eval.Value{wr("reader:sam"), wr("writer:out"), eval.K(wrap), eval.K(win[0]), eval.K(win[1]), pad, eval.K(th)},
						want: cat([]string{"sam.groupSamRecords(reader:sam, chan, chan, chan, chan)", writer},
							// blockToFastaRecord(in, out, err, refLen, trim, pad, first kept base (1-based), last kept base, includeInsertions=false)
							rep(n, "sam.blockToFastaRecord(chan, chan, chan, 30, "+fmtB(trim)+", "+fmtB(pad)+", "+fmtI(s)+", "+fmtI(e)+", false)"))})
				}
			}
		}
	}
	// --pad keeps the full reference width, so a --wrap between the window width and the reference length still wraps
	for _, win := range [][2]int64{{3, 12}, {5, 9}, {-1, 11}} {
		for _, wrap := range []int64{10, 12, 29} {
			s, e := win[0], win[1]
			if s == -1 {
				s = 1
			}
			scs = append(scs, wireScenario{label: fmt.Sprintf("wrap=%d start=%d end=%d pad=true threads=1", wrap, win[0], win[1]), numCPU: 2,
				args: []eval.Value{wr("reader:sam"), wr("writer:out"), eval.K(wrap), eval.K(win[0]), eval.K(win[1]), true, eval.K(1)},
				want: []string{"sam.groupSamRecords(reader:sam, chan, chan, chan, chan)", "fastaio.WriteWrapAlignment(chan, writer:out, " + fmtI(wrap) + ", chan, chan)",
					"sam.blockToFastaRecord(chan, chan, chan, 30, true, true, " + fmtI(s) + ", " + fmtI(e) + ", false)"}})
		}
	}
	for _, win := range [][2]int64{{0, 5}, {7, 3}, {1, 31}, {31, -1}} {
		scs = append(scs, wireScenario{label: fmt.Sprintf("window %d..%d on a 30-base reference", win[0], win[1]), numCPU: 2, wantErr: true,
			args: []eval.Value{wr("reader:sam"), wr("writer:out"), eval.K(-1), eval.K(win[0]), eval.K(win[1]), false, eval.K(1)}})
	}
	dumpWiring(c, "pkg/sam", "ToMultiAlign", scs[:2])
	checkWiring(c, rule, "pkg/sam", "ToMultiAlign", scs)
}

// ---- sam.ToPairAlign(samIn, ref, outpath, wrap, trimStart, trimEnd, omitRef, omitIns, threads); 5-base reference "AGCT-"
func wiringToPairAlign(c *core.Ctx, rule string) {
	var scs []wireScenario
	refBytes := "[65 71 67 84 45]" // the decoded reference text A G C T -
	for _, win := range [][2]int64{{-1, -1}, {2, 4}, {3, -1}, {-1, 2}} {
		for _, flags := range [][2]bool{{false, false}, {true, false}, {false, true}, {true, true}} {
			for _, th := range []int64{1, 3, 0} {
				for _, wrap := range []int64{-1, 60} {
					s, e, trim := win[0], win[1], !(win[0] == -1 && win[1] == -1)
					if s == -1 {
						s = 1
					}
					if e == -1 {
						e = 5
					}
					n := int(th)
					if n < 1 {
						n = 1
					}
					omitRef, omitIns := flags[0], flags[1]
					scs = append(scs, wireScenario{label: fmt.Sprintf("start=%d end=%d omit-reference=%v skip-insertions=%v threads=%d wrap=%d", win[0], win[1], omitRef, omitIns, th, wrap), numCPU: 2,
						canned: map[string]wireCanned{"fastaio.ReadEncodeAlignmentToList": refList(c, 1)},
						args:   []eval.Value{wr("reader:sam"), wr("reader:reference"), eval.S("outdir"), eval.K(wrap), eval.K(win[0]), eval.K(win[1]), omitRef, omitIns, eval.K(th)},
						want: cat([]string{"fastaio.ReadEncodeAlignmentToList(reader:reference, false)",
							"sam.groupSamRecords(reader:sam, chan, chan, chan, chan)",
							"sam.writePairwiseAlignment(\"outdir\", " + fmtI(wrap) + ", chan, chan, chan, " + fmtB(omitRef) + ")"},
							rep(n, "sam.blockToPairwiseAlignment(chan, chan, chan, "+refBytes+", "+fmtB(omitIns)+")"),
							rep(n, "sam.trimAlignment("+fmtB(trim)+", "+fmtI(s)+", "+fmtI(e)+", chan, chan, chan)"))})
				}
			}
		}
	}
	for _, win := range [][2]int64{{0, 3}, {4, 2}, {1, 6}} {
		scs = append(scs, wireScenario{label: fmt.Sprintf("window %d..%d on a 5-base reference", win[0], win[1]), numCPU: 2, wantErr: true,
			canned: map[string]wireCanned{"fastaio.ReadEncodeAlignmentToList": refList(c, 1)},
			args:   []eval.Value{wr("reader:sam"), wr("reader:reference"), eval.S("outdir"), eval.K(-1), eval.K(win[0]), eval.K(win[1]), false, false, eval.K(1)}})
	}
	scs = append(scs, wireScenario{label: "two records in --reference", numCPU: 2, wantErr: true,
		canned: map[string]wireCanned{"fastaio.ReadEncodeAlignmentToList": refList(c, 2)},
		args:   []eval.Value{wr("reader:sam"), wr("reader:reference"), eval.S("outdir"), eval.K(-1), eval.K(-1), eval.K(-1), false, false, eval.K(1)}})
	dumpWiring(c, "pkg/sam", "ToPairAlign", scs[:2])
	checkWiring(c, rule, "pkg/sam", "ToPairAlign", scs)
}

func udLines(c *core.Ctx, tag string, n int) eval.Value {
	lt := namedType(c, "pkg/updown", "updownLine")
	var out []eval.Value
	for i := 0; i < n; i++ {
		l := mkLine(lt, fmt.Sprintf("%s#%d", tag, i), int64(i), 0)
		l.F["_tag"] = eval.S(fmt.Sprintf("line(%s#%d)", tag, i))
		out = append(out, l)
	}
	return eval.NewSlice(out...)
}

// ---- updown.TopRanking(query, target, reference, out, table, qtype, ttype, ignore, sizes..., dists..., threshpair, threshtarg, nofill, distpush)
func wiringTopRanking(c *core.Ctx, rule string) {
	var scs []wireScenario
	mk := func(label string, qt, tt string, table bool, sizes [5]int64, dists [4]int64, nofill bool, push int64, wantErr bool) {
		args := []eval.Value{wr("reader:query"), wr("reader:target"), wr("reader:reference"), wr("writer:out"), table, eval.S(qt), eval.S(tt),
			eval.NewSlice(eval.S("ign1"), eval.S("ign2"))}
		for _, v := range sizes {
			args = append(args, eval.K(v))
		}
		for _, v := range dists {
			args = append(args, eval.K(v))
		}
		args = append(args, eval.FConst(0.25), eval.K(777), nofill, eval.K(push))
		canned := map[string]wireCanned{
			"fastaio.ReadEncodeAlignmentToList": refList(c, 1),
			"updown.readCSVToUDLList": func(a []eval.Value, sig *types.Signature) eval.Value {
				return eval.Tuple{udLines(c, "csvquery", 2), eval.Nil{}}
			},
			"updown.fastaToUDLList": func(a []eval.Value, sig *types.Signature) eval.Value {
				return eval.Tuple{udLines(c, "fastaquery", 2), eval.Nil{}}
			},
			"updown.writeUpdownTable": okNil, "updown.writeUpDownCatchment": okNil,
			"updown.splitInput": resultsSender(c, "pkg/updown", "updownCatchmentStruct", 0, 9),
		}
		sc := wireScenario{label: label, numCPU: 2, args: args, canned: canned, wantErr: wantErr}
		if !wantErr {
			var ev []string
			refSeq := "[]"
			if qt == "fasta" || tt == "fasta" {
				ev = append(ev, "fastaio.ReadEncodeAlignmentToList(reader:reference, false)")
				refSeq = wireSeqStr(c, false)
			}
			q := "[line(csvquery#0) line(csvquery#1)]"
			if qt == "csv" {
				ev = append(ev, "updown.readCSVToUDLList(reader:query)")
			} else {
				ev = append(ev, "updown.fastaToUDLList(reader:query, "+refSeq+")")
				q = "[line(fastaquery#0) line(fastaquery#1)]"
			}
			if tt == "csv" {
				ev = append(ev, "updown.readCSVToUDLChan(reader:target, chan, chan, chan)")
			} else {
				ev = append(ev, "updown.readFastaToUDLChan(reader:target, "+refSeq+", chan, chan, chan)")
			}
			// what checkArgs makes of the options is decided under C08 (checkArgs grid); here: its results reach splitInput
			szArr, dArr := wireTopRankingArrays(c, sizes, dists, push)
			ev = append(ev, "updown.splitInput("+q+", [\"ign1\" \"ign2\"], "+szArr+", "+fmtB(nofill)+", "+dArr+", 0.25, 777, "+fmtI(push)+", chan, chan, chan, chan)")
			if table {
				ev = append(ev, "updown.writeUpdownTable(writer:out, [res res])")
			} else {
				ev = append(ev, "updown.writeUpDownCatchment(writer:out, [res res])")
			}
			sc.want = ev
		}
		scs = append(scs, sc)
	}
	for _, qt := range []string{"csv", "fasta"} {
		for _, tt := range []string{"csv", "fasta"} {
			for _, table := range []bool{false, true} {
				mk(fmt.Sprintf("query %s target %s table=%v --size-total 8", qt, tt, table), qt, tt, table, [5]int64{8, 0, 0, 0, 0}, [4]int64{0, 0, 0, 0}, false, 0, false)
				mk(fmt.Sprintf("query %s target %s table=%v --size-up 3 --size-side 2 --no-fill --dist-down 4", qt, tt, table), qt, tt, table, [5]int64{0, 3, 0, 2, 0}, [4]int64{0, 0, 4, 0}, true, 0, false)
				mk(fmt.Sprintf("query %s target %s table=%v --dist-all 5 --dist-push 2", qt, tt, table), qt, tt, table, [5]int64{0, 0, 0, 0, 0}, [4]int64{5, 0, 0, 0}, false, 2, false)
			}
		}
	}
	mk("no size, dist or push option", "csv", "csv", false, [5]int64{0, 0, 0, 0, 0}, [4]int64{0, 0, 0, 0}, false, 0, true)
	mk("no size, dist or push option (fasta inputs, --table, --no-fill)", "fasta", "fasta", true, [5]int64{0, 0, 0, 0, 0}, [4]int64{0, 0, 0, 0}, true, 0, true)
	dumpWiring(c, "pkg/updown", "TopRanking", scs[:3])
	checkWiring(c, rule, "pkg/updown", "TopRanking", scs)
}

// wireTopRankingArrays evaluates updown.checkArgs (interpreted from source; its own correctness is C08's grid)
// to obtain the size and distance arrays the entry point must hand to splitInput.
func wireTopRankingArrays(c *core.Ctx, sizes [5]int64, dists [4]int64, push int64) (string, string) {
	fn := c.LookupFunc("pkg/updown", "checkArgs")
	if fn == nil {
		return "?", "?"
	}
	var args []eval.Value
	for _, v := range sizes {
		args = append(args, eval.K(v))
	}
	for _, v := range dists {
		args = append(args, eval.K(v))
	}
	args = append(args, eval.K(push))
	v, err := newEval(c).CallFunc(fn, args...)
	t, ok := v.(eval.Tuple)
	if err != nil || !ok || len(t) != 3 {
		return "?", "?"
	}
	return renderWire(t[0]), renderWire(t[1])
}

// ---- annotation models shared by the two Variants entry points
func wireGenbank(origin string) wireCanned {
	return func(a []eval.Value, sig *types.Signature) eval.Value {
		gb := &eval.StructVal{F: map[string]eval.Value{"ORIGIN": bytesVal(origin), "FEATURES": eval.NewSlice(), "_tag": eval.S("genbank(" + renderWire(a[0]) + ")")}}
		return eval.Tuple{gb, eval.Nil{}}
	}
}

func wireGFF(c *core.Ctx, fasta []string, regionEnd int64) wireCanned {
	return func(a []eval.Value, sig *types.Signature) eval.Value {
		fm := eval.NewMap()
		frT := namedType(c, "pkg/fastaio", "FastaRecord")
		for i, s := range fasta {
			r := absValue(frT, "f", eval.K(0)).(*eval.StructVal)
			r.F["ID"] = eval.S(fmt.Sprintf("gffseq%d", i))
			r.F["Description"] = eval.S(fmt.Sprintf("gffseq%d", i))
			r.F["Seq"] = eval.S(s)
			r.F["Idx"] = eval.K(int64(i))
			fm.Set(eval.S(fmt.Sprintf("gffseq%d", i)), r)
		}
		sr := eval.NewMap()
		if regionEnd > 0 {
			sr.Set(eval.S("gffseq0"), &eval.StructVal{F: map[string]eval.Value{"Seqid": eval.S("gffseq0"), "Start": eval.K(1), "End": eval.K(regionEnd)}})
		}
		g := &eval.StructVal{F: map[string]eval.Value{"FASTA": fm, "SequenceRegions": sr, "Features": eval.NewSlice(), "IDmap": eval.NewMap(),
			"GFF_version": eval.S("3"), "HeaderLines": eval.NewSlice(), "CommentLines": eval.NewSlice(), "_tag": eval.S("gff(" + renderWire(a[0]) + ")")}}
		return eval.Tuple{g, eval.Nil{}}
	}
}

// wireRegions: what a region constructor returns - two coding regions NOT in coordinate order (the GenBank constructor
// keeps the order of the feature table), the first of them beyond every window the scenarios use; all of them, in this
// order, are what the workers must be handed.
func wireRegions(tag string) wireCanned {
	return func(a []eval.Value, sig *types.Signature) eval.Value {
		mk := func(name string, start, stop int64) *eval.StructVal {
			var ps []eval.Value
			for p := start; p <= stop; p++ {
				ps = append(ps, eval.K(p))
			}
			return &eval.StructVal{F: map[string]eval.Value{"_tag": eval.S("regions(" + tag + ")/" + name), "Whichtype": eval.S("protein-coding"),
				"Name": eval.S(name), "Start": eval.K(start), "Stop": eval.K(stop), "Strand": eval.K(1), "Translation": eval.S("MKF"), "Positions": eval.NewSlice(ps...)}}
		}
		return eval.Tuple{eval.NewSlice(mk("far", 30, 38), mk("near", 2, 10)), eval.NewSlice(eval.K(1)), eval.Nil{}}
	}
}

func textOf(codes string) string { // how a []byte of text renders
	var ss []string
	for i := 0; i < len(codes); i++ {
		ss = append(ss, fmt.Sprint(codes[i]))
	}
	return "[" + strings.Join(ss, " ") + "]"
}

// ---- sam.Variants(samIn, refIn, refFromFile, annoIn, annoSuffix, out, start, end, aggregate, threshold, appendSNP, threads)
// reference file: "AGCT-" (5 columns, 4 bases); annotation sequence: "TTGA"
func wiringSamVariants(c *core.Ctx, rule string) {
	var scs []wireScenario
	for _, fromFile := range []bool{true, false} {
		for _, suffix := range []string{"gb", "gff"} {
			for _, agg := range []bool{false, true} {
				for _, th := range []int64{1, 3, 0} {
					refID, refText, refLen := "reference#0", "AGCT-", "4"
					if !fromFile {
						refID, refText, refLen = "annotation_fasta", "TTGA", "4"
					}
					n := int(th)
					if n < 1 {
						n = 1
					}
					canned := map[string]wireCanned{
						"fastaio.ReadEncodeAlignmentToList": refList(c, 1),
						"genbank.ReadGenBank":               wireGenbank("ttga"),
						"gff.ReadGFF":                       wireGFF(c, []string{"TTGA"}, 4),
						"variants.RegionsFromGenbank":       wireRegions("genbank"),
						"variants.RegionsFromGFF":           wireRegions("gff"),
					}
					var ev []string
					if fromFile {
						ev = append(ev, "fastaio.ReadEncodeAlignmentToList(reader:reference, false)")
					}
					regs := "[regions(genbank)/far regions(genbank)/near]"
					if suffix == "gb" {
						ev = append(ev, "genbank.ReadGenBank(reader:annotation)", "variants.RegionsFromGenbank(genbank(reader:annotation), "+refLen+")")
					} else {
						regs = "[regions(gff)/far regions(gff)/near]"
						ev = append(ev, "gff.ReadGFF(reader:annotation)", "variants.RegionsFromGFF(gff(reader:annotation), "+fmtS(strings.ReplaceAll(refText, "-", ""))+")")
					}
					if agg {
						ev = append(ev, "variants.AggregateWriteVariants(writer:out, 7, 19, true, 0.25, "+fmtS(refID)+", chan, chan, chan)")
					} else {
						ev = append(ev, "variants.WriteVariants(writer:out, 7, 19, false, true, "+fmtS(refID)+", chan, chan, chan)")
					}
					ev = append(ev, "sam.groupSamRecords(reader:sam, chan, chan, chan, chan)")
					ev = append(ev, rep(n, "sam.blockToPairwiseAlignment(chan, chan, chan, "+textOf(refText)+", false)")...)
					ev = append(ev, rep(n, "sam.getVariantsSam("+regs+", [1], chan, chan, chan)")...)
					scs = append(scs, wireScenario{label: fmt.Sprintf("reference from file=%v annotation=.%s aggregate=%v threads=%d", fromFile, suffix, agg, th), numCPU: 2, canned: canned,
						args: []eval.Value{wr("reader:sam"), wr("reader:reference"), fromFile, wr("reader:annotation"), eval.S(suffix), wr("writer:out"), eval.K(7), eval.K(19), agg, eval.FConst(0.25), true, eval.K(th)},
						want: ev})
				}
			}
		}
	}
	base := func(canned map[string]wireCanned, fromFile bool, suffix string) wireScenario {
		return wireScenario{numCPU: 2, canned: canned, wantErr: true,
			args: []eval.Value{wr("reader:sam"), wr("reader:reference"), fromFile, wr("reader:annotation"), eval.S(suffix), wr("writer:out"), eval.K(-1), eval.K(-1), false, eval.FConst(0), false, eval.K(1)}}
	}
	s1 := base(map[string]wireCanned{"fastaio.ReadEncodeAlignmentToList": refList(c, 2), "genbank.ReadGenBank": wireGenbank("ttga"), "variants.RegionsFromGenbank": wireRegions("genbank")}, true, "gb")
	s1.label = "two records in --reference"
	s2 := base(map[string]wireCanned{"gff.ReadGFF": wireGFF(c, nil, 0), "variants.RegionsFromGFF": wireRegions("gff")}, false, "gff")
	s2.label = "no --reference and no ##FASTA in the gff"
	s3 := base(map[string]wireCanned{"gff.ReadGFF": wireGFF(c, []string{"TTGA", "TTGA"}, 0), "variants.RegionsFromGFF": wireRegions("gff")}, false, "gff")
	s3.label = "no --reference and two ##FASTA records"
	scs = append(scs, s1, s2, s3)
	dumpWiring(c, "pkg/sam", "Variants", scs[:1])
	checkWiring(c, rule, "pkg/sam", "Variants", scs)
}

// ---- variants.Variants(msaIn, stdin, refID, annoIn, annoSuffix, out, start, end, aggregate, threshold, appendSNP, threads)
// the MSA's reference record is "AGCT-" (4 bases); annotation sequence "TTGA"
func wiringVariants(c *core.Ctx, rule string) {
	var scs []wireScenario
	msaFile := &eval.Handle{Dyn: "*os.File", Tag: "file:msa"}
	stdinH := &eval.Handle{Dyn: "*os.File", Tag: "file:stdin"}
	for _, mode := range []string{"file+reference", "stdin+reference", "file, reference from the annotation", "stdin, reference from the annotation"} {
		for _, suffix := range []string{"gb", "gff"} {
			for _, agg := range []bool{false, true} {
				for _, th := range []int64{1, 3, 0} {
					stdin := strings.HasPrefix(mode, "stdin")
					withRef := strings.Contains(mode, "+reference")
					in := msaFile
					if stdin {
						in = stdinH
					}
					refID := ""
					refName, refText := "annotation_fasta", "TTGA"
					if withRef {
						refID, refName, refText = "REFID", "REFID", "AGCT"
					}
					n := int(th)
					if n < 1 {
						n = 1
					}
					refRec := encRecordSeq(c, "REFID", false)
					canned := map[string]wireCanned{
						"variants.findReference":      func(a []eval.Value, sig *types.Signature) eval.Value { return eval.Tuple{refRec, eval.Nil{}} },
						"genbank.ReadGenBank":         wireGenbank("ttga"),
						"gff.ReadGFF":                 wireGFF(c, []string{"TTGA"}, 4),
						"variants.RegionsFromGenbank": wireRegions("genbank"), "variants.RegionsFromGFF": wireRegions("gff"),
						// the streaming reader: when the reference is to be taken from the head of the stream, it is there
						"fastaio.ReadEncodeAlignment": func(a []eval.Value, sig *types.Signature) eval.Value {
							recT := namedType(c, "pkg/fastaio", "EncodedFastaRecord")
							if ch, ok := wireFind(a, sig, func(pt types.Type, v eval.Value) bool {
								ct, isCh := pt.Underlying().(*types.Chan)
								return isCh && recT != nil && types.Identical(ct.Elem(), recT)
							}).(*eval.ChanVal); ok {
								r := encRecordSeq(c, "REFID", false)
								ch.Sent = append(ch.Sent, r)
								ch.Feed = append(ch.Feed, r)
							}
							return nil
						},
					}
					var ev []string
					if withRef && !stdin {
						ev = append(ev, "variants.findReference(file:msa, \"REFID\")")
					}
					ev = append(ev, "fastaio.ReadEncodeAlignment("+in.Tag+", false, chan, chan, chan)")
					regs := "[regions(genbank)/far regions(genbank)/near]"
					if suffix == "gb" {
						ev = append(ev, "genbank.ReadGenBank(reader:annotation)", "variants.RegionsFromGenbank(genbank(reader:annotation), 4)")
					} else {
						regs = "[regions(gff)/far regions(gff)/near]"
						ev = append(ev, "gff.ReadGFF(reader:annotation)", "variants.RegionsFromGFF(gff(reader:annotation), "+fmtS(refText)+")")
					}
					firstmissing := stdin && withRef
					if agg {
						ev = append(ev, "variants.AggregateWriteVariants(writer:out, 7, 19, true, 0.25, "+fmtS(refName)+", chan, chan, chan)")
					} else {
						ev = append(ev, "variants.WriteVariants(writer:out, 7, 19, "+fmtB(firstmissing)+", true, "+fmtS(refName)+", chan, chan, chan)")
					}
					offs := "[0 0 0 0], [0 0 0 0]"
					if withRef {
						offs = "[0 0 0 0], [0 0 0 0 0]" // reference-to-alignment per base, alignment-to-reference per column ("AGCT-")
					}
					ev = append(ev, rep(n, "variants.getVariants(record("+refName+"), "+regs+", [1], "+offs+", chan, chan, chan)")...)
					scs = append(scs, wireScenario{label: fmt.Sprintf("%s annotation=.%s aggregate=%v threads=%d", mode, suffix, agg, th), numCPU: 2, canned: canned,
						args: []eval.Value{in, stdin, eval.S(refID), wr("reader:annotation"), eval.S(suffix), wr("writer:out"), eval.K(7), eval.K(19), agg, eval.FConst(0.25), true, eval.K(th)},
						want: ev})
				}
			}
		}
	}
	// a window given inside an alignment whose reference row has gaps: --start/--end are positions in the reference
	// (what the writers compare with each record's position), so they reach the writers as given, whatever the columns
	for _, stdin := range []bool{false, true} {
		for _, suffix := range []string{"gb", "gff"} {
			for _, agg := range []bool{false, true} {
				in := msaFile
				if stdin {
					in = stdinH
				}
				gapped := encRecord(c, "REFID", "")
				var vs []eval.Value
				for _, ch := range []byte("A--GCT") {
					vs = append(vs, eval.K(wiringTables(c).Soft[ch]))
				}
				gapped.F["Seq"] = eval.NewSlice(vs...)
				canned := map[string]wireCanned{
					"variants.findReference":      func(a []eval.Value, sig *types.Signature) eval.Value { return eval.Tuple{gapped, eval.Nil{}} },
					"genbank.ReadGenBank":         wireGenbank("ttga"),
					"gff.ReadGFF":                 wireGFF(c, []string{"TTGA"}, 4),
					"variants.RegionsFromGenbank": wireRegions("genbank"), "variants.RegionsFromGFF": wireRegions("gff"),
					"fastaio.ReadEncodeAlignment": func(a []eval.Value, sig *types.Signature) eval.Value {
						recT := namedType(c, "pkg/fastaio", "EncodedFastaRecord")
						if ch, ok := wireFind(a, sig, func(pt types.Type, v eval.Value) bool {
							ct, isCh := pt.Underlying().(*types.Chan)
							return isCh && recT != nil && types.Identical(ct.Elem(), recT)
						}).(*eval.ChanVal); ok {
							ch.Sent = append(ch.Sent, gapped)
							ch.Feed = append(ch.Feed, gapped)
						}
						return nil
					},
				}
				var ev []string
				if !stdin {
					ev = append(ev, "variants.findReference(file:msa, \"REFID\")")
				}
				ev = append(ev, "fastaio.ReadEncodeAlignment("+in.Tag+", false, chan, chan, chan)")
				regs := "[regions(genbank)/far regions(genbank)/near]"
				if suffix == "gb" {
					ev = append(ev, "genbank.ReadGenBank(reader:annotation)", "variants.RegionsFromGenbank(genbank(reader:annotation), 4)")
				} else {
					regs = "[regions(gff)/far regions(gff)/near]"
					ev = append(ev, "gff.ReadGFF(reader:annotation)", "variants.RegionsFromGFF(gff(reader:annotation), \"AGCT\")")
				}
				if agg {
					ev = append(ev, "variants.AggregateWriteVariants(writer:out, 4, 5, true, 0.25, \"REFID\", chan, chan, chan)")
				} else {
					ev = append(ev, "variants.WriteVariants(writer:out, 4, 5, "+fmtB(stdin)+", true, \"REFID\", chan, chan, chan)")
				}
				// reference-to-alignment per base; alignment-to-reference per column of "A--GCT" (documented: 0 at the gap columns)
				ev = append(ev, "variants.getVariants(record(REFID), "+regs+", [1], [0 2 2 2], [0 0 0 2 2 2], chan, chan, chan)")
				scs = append(scs, wireScenario{label: fmt.Sprintf("window 4..5 inside an alignment whose reference row is A--GCT, stdin=%v annotation=.%s aggregate=%v", stdin, suffix, agg), numCPU: 2, canned: canned,
					args: []eval.Value{in, stdin, eval.S("REFID"), wr("reader:annotation"), eval.S(suffix), wr("writer:out"), eval.K(4), eval.K(5), agg, eval.FConst(0.25), true, eval.K(1)},
					want: ev})
			}
		}
	}
	// an annotation kind the library does not know is an error, not an unannotated run
	for _, suffix := range []string{"txt", "", "gbk"} {
		scs = append(scs, wireScenario{label: "annotation kind " + fmtS(suffix), numCPU: 2, wantErr: true,
			canned: map[string]wireCanned{"genbank.ReadGenBank": wireGenbank("ttga"), "gff.ReadGFF": wireGFF(c, []string{"TTGA"}, 4),
				"variants.RegionsFromGenbank": wireRegions("genbank"), "variants.RegionsFromGFF": wireRegions("gff"),
				"variants.findReference": func(a []eval.Value, sig *types.Signature) eval.Value {
					return eval.Tuple{encRecordSeq(c, "REFID", false), eval.Nil{}}
				}},
			args: []eval.Value{msaFile, false, eval.S("REFID"), wr("reader:annotation"), eval.S(suffix), wr("writer:out"), eval.K(-1), eval.K(-1), false, eval.FConst(0), false, eval.K(1)}})
	}
	// a GenBank annotation whose sequence is shorter or longer than the (degapped) reference record describes another
	// genome: its coordinates do not apply
	for _, origin := range []string{"ttg", "ttgac"} {
		scs = append(scs, wireScenario{label: fmt.Sprintf("GenBank ORIGIN of %d bases, reference record of 4", len(origin)), numCPU: 2, wantErr: true,
			canned: map[string]wireCanned{"genbank.ReadGenBank": wireGenbank(origin), "variants.RegionsFromGenbank": wireRegions("genbank"),
				"variants.findReference": func(a []eval.Value, sig *types.Signature) eval.Value {
					return eval.Tuple{encRecordSeq(c, "REFID", false), eval.Nil{}}
				}},
			args: []eval.Value{msaFile, false, eval.S("REFID"), wr("reader:annotation"), eval.S("gb"), wr("writer:out"), eval.K(-1), eval.K(-1), false, eval.FConst(0), false, eval.K(1)}})
	}
	// the same for a GFF annotation: its ##sequence-region (named after the annotated genome, not after the record the
	// user calls the reference) is one base shorter / longer than the degapped reference record
	for _, end := range []int64{3, 5} {
		scs = append(scs, wireScenario{label: fmt.Sprintf("GFF ##sequence-region of %d bases, reference record of 4", end), numCPU: 2, wantErr: true,
			canned: map[string]wireCanned{"gff.ReadGFF": wireGFF(c, []string{"TTGA"}, end), "variants.RegionsFromGFF": wireRegions("gff"),
				"variants.findReference": func(a []eval.Value, sig *types.Signature) eval.Value {
					return eval.Tuple{encRecordSeq(c, "REFID", false), eval.Nil{}}
				}},
			args: []eval.Value{msaFile, false, eval.S("REFID"), wr("reader:annotation"), eval.S("gff"), wr("writer:out"), eval.K(-1), eval.K(-1), false, eval.FConst(0), false, eval.K(1)}})
	}
	dumpWiring(c, "pkg/variants", "Variants", scs[:1])
	checkWiring(c, rule, "pkg/variants", "Variants", scs)
}

// ---- sam.Indels(samFile, insOut, delOut, threshold) (deprecated; still a command, so C18/C19 apply)
func wiringIndels(c *core.Ctx, rule string) {
	mapSender := func(arg int, tag string) wireCanned {
		return func(a []eval.Value, sig *types.Signature) eval.Value {
			if ch, ok := wireFind(a, sig, func(pt types.Type, v eval.Value) bool {
				ct, isCh := pt.Underlying().(*types.Chan)
				if !isCh {
					return false
				}
				_, isMap := ct.Elem().Underlying().(*types.Map)
				return isMap
			}).(*eval.ChanVal); ok {
				m := eval.NewMap()
				m.Set(eval.K(1), eval.S(tag))
				ch.Sent = append(ch.Sent, m)
				ch.Feed = append(ch.Feed, m)
			}
			return nil
		}
	}
	var scs []wireScenario
	for _, cpu := range []int{1, 3} {
		for _, thr := range []int64{1, 2, 7} {
			scs = append(scs, wireScenario{label: fmt.Sprintf("threshold=%d cpus=%d", thr, cpu), numCPU: cpu,
				args: []eval.Value{wr("reader:sam"), wr("writer:insertions"), wr("writer:deletions"), eval.K(thr)},
				canned: map[string]wireCanned{"sam.populateInsMap": mapSender(1, "insertions"), "sam.populateDelMap": mapSender(1, "deletions"),
					"sam.writeInsMap": okNil, "sam.writeDelMap": okNil},
				want: cat([]string{"sam.getSamRecords(reader:sam, chan, chan, chan)", "sam.populateInsMap(chan, chan, chan)", "sam.populateDelMap(chan, chan, chan)",
					"sam.writeInsMap(writer:insertions, map(1), " + fmtI(thr) + ")", "sam.writeDelMap(writer:deletions, map(1), " + fmtI(thr) + ")"},
					rep(cpu, "sam.getIndels(chan, chan, chan, chan)"))})
		}
	}
	dumpWiring(c, "pkg/sam", "Indels", scs[:1])
	checkWiring(c, rule, "pkg/sam", "Indels", scs)
}
