package rules

import (
	"fmt"
	"go/token"
	"go/types"
	"sort"
	"strings"

	"golang.org/x/tools/go/ssa"

	"gofasta-verif/core"
	"gofasta-verif/eval"
	"gofasta-verif/oracle"
)

func init() { register("C16", C16) }

// scanModel models a bufio.Scanner with the default split function over a list of lines
// (line terminators, including a trailing CR, are already removed - that is ScanLines' contract).
type scanModel struct {
	lines []string
	pos   int
}

func unref(v eval.Value) eval.Value {
	if r, ok := v.(*eval.Ref); ok {
		return r.Get()
	}
	return v
}

func installScanner(ev *eval.Evaluator, lines []string) {
	ev.Extern["bufio.NewScanner"] = func(ev *eval.Evaluator, pos token.Pos, recv eval.Value, args []eval.Value) eval.Value {
		m := &scanModel{lines: lines}
		return &eval.Ref{Get: func() eval.Value { return m }, Set: func(eval.Value) {}}
	}
	get := func(recv eval.Value) *scanModel {
		m, _ := unref(recv).(*scanModel)
		return m
	}
	ev.Extern["(*bufio.Scanner).Buffer"] = func(ev *eval.Evaluator, pos token.Pos, recv eval.Value, args []eval.Value) eval.Value { return nil }
	ev.Extern["(*bufio.Scanner).Scan"] = func(ev *eval.Evaluator, pos token.Pos, recv eval.Value, args []eval.Value) eval.Value {
		m := get(recv)
		if m.pos < len(m.lines) {
			m.pos++
			return true
		}
		m.pos = len(m.lines) + 1
		return false
	}
	ev.Extern["(*bufio.Scanner).Text"] = func(ev *eval.Evaluator, pos token.Pos, recv eval.Value, args []eval.Value) eval.Value {
		m := get(recv)
		return eval.S(m.lines[m.pos-1])
	}
	ev.Extern["(*bufio.Scanner).Bytes"] = func(ev *eval.Evaluator, pos token.Pos, recv eval.Value, args []eval.Value) eval.Value {
		m := get(recv)
		return bytesVal(m.lines[m.pos-1])
	}
	ev.Extern["(*bufio.Scanner).Err"] = func(ev *eval.Evaluator, pos token.Pos, recv eval.Value, args []eval.Value) eval.Value {
		return eval.Nil{}
	}
}

// fastaRec is a reader-independent view of one record.
type fastaRec struct {
	ID, Desc, Seq string
	Idx           int64
	Score         int64
	A, C, G, T    int64
	HasScore      bool
}

type readResult struct {
	recs     []fastaRec
	err      bool
	done     bool
	crash    string // the evaluator hit an out-of-range index / nil dereference: the reader would panic
	undecide string
}

func recFromStruct(tabs *Tables, sv *eval.StructVal, hard bool) (fastaRec, bool) {
	var r fastaRec
	id, ok1 := sv.F["ID"].(eval.Str)
	ds, ok2 := sv.F["Description"].(eval.Str)
	ix, ok3 := linConst(sv.F["Idx"])
	if !ok1 || !ok2 || !ok3 || !id.IsConst() || !ds.IsConst() {
		return r, false
	}
	r.ID, r.Desc, r.Idx = id.Const(), ds.Const(), ix
	switch s := sv.F["Seq"].(type) {
	case eval.Str:
		if !s.IsConst() {
			return r, false
		}
		r.Seq = s.Const()
	case eval.Slice:
		var sb strings.Builder
		for _, e := range s.Elems() {
			code, ok := linConst(e)
			if !ok {
				return r, false
			}
			sym, ok := tabs.symOfCode(code, hard)
			if !ok {
				sb.WriteByte('#')
			} else {
				sb.WriteByte(sym)
			}
		}
		r.Seq = sb.String()
	default:
		return r, false
	}
	if sc, ok := sv.F["Score"]; ok {
		r.Score, _ = linConst(sc)
		r.A, _ = linConst(sv.F["Count_A"])
		r.C, _ = linConst(sv.F["Count_C"])
		r.G, _ = linConst(sv.F["Count_G"])
		r.T, _ = linConst(sv.F["Count_T"])
	}
	return r, true
}

// runReader interprets one FASTA reader on the given lines.
func runReader(c *core.Ctx, tabs *Tables, pkg, name string, lines []string, hard bool, refID string) readResult {
	var res readResult
	fn := c.LookupFunc(pkg, name)
	if fn == nil {
		res.undecide = "UNRESOLVED " + name
		return res
	}
	ev := newEval(c)
	installScanner(ev, lines)
	sig := fn.Type().(*types.Signature)
	var args []eval.Value
	var out, errs, done *eval.ChanVal
	for i := 0; i < sig.Params().Len(); i++ {
		p := sig.Params().At(i)
		switch t := p.Type().Underlying().(type) {
		case *types.Chan:
			switch {
			case isErrorType(t.Elem()):
				errs = &eval.ChanVal{Name: "err"}
				args = append(args, errs)
			case isBoolType(t.Elem()):
				done = &eval.ChanVal{Name: "done"}
				args = append(args, done)
			default:
				out = &eval.ChanVal{Name: "out"}
				args = append(args, out)
			}
		case *types.Basic:
			if t.Kind() == types.Bool {
				args = append(args, hard)
			} else if t.Kind() == types.String {
				args = append(args, eval.S(refID))
			} else {
				args = append(args, eval.Opaque{Why: p.Name()})
			}
		default:
			args = append(args, eval.Opaque{Why: "reader input"})
		}
	}
	v, err := ev.CallFuncBound(fn, args...)
	if err != nil {
		msg := err.Error()
		if strings.Contains(msg, "out of range") || strings.Contains(msg, "panic") {
			res.crash = msg
		} else {
			res.undecide = msg
		}
		return res
	}
	collect := func(vals []eval.Value) {
		for _, e := range vals {
			if sv, ok := e.(*eval.StructVal); ok {
				if r, ok := recFromStruct(tabs, sv, hard); ok {
					res.recs = append(res.recs, r)
				} else {
					res.undecide = "record with non-constant fields"
				}
			}
		}
	}
	if out != nil {
		collect(out.Sent)
		res.err = errs != nil && len(errs.Sent) > 0
		res.done = done != nil && len(done.Sent) > 0
		return res
	}
	if t, ok := v.(eval.Tuple); ok && len(t) >= 2 {
		_, res.err = t[len(t)-1].(eval.ErrVal)
		switch x := t[0].(type) {
		case eval.Slice:
			collect(x.Elems())
		case *eval.StructVal:
			if !res.err {
				collect([]eval.Value{x})
			}
		}
		res.done = !res.err
	}
	return res
}

func isBoolType(t types.Type) bool {
	b, ok := t.Underlying().(*types.Basic)
	return ok && b.Kind() == types.Bool
}

// specRecords is the reader-independent meaning of a FASTA layout.
func specRecords(lines []string, validate bool, skipBlank bool) ([]fastaRec, string) {
	var recs []fastaRec
	var cur *fastaRec
	for i, l := range lines {
		if l == "" && skipBlank {
			continue
		}
		if i == 0 || cur == nil {
			if len(l) == 0 || l[0] != '>' {
				return nil, "no leading header"
			}
		}
		if len(l) > 0 && l[0] == '>' {
			if cur != nil {
				recs = append(recs, *cur)
			}
			f := strings.Fields(l[1:])
			if len(f) == 0 {
				return nil, "empty header"
			}
			cur = &fastaRec{ID: f[0], Desc: l[1:], Idx: int64(len(recs))}
			continue
		}
		for k := 0; k < len(l); k++ {
			if validate && !isAccepted(l[k]) {
				return nil, "invalid symbol"
			}
		}
		cur.Seq += strings.ToUpper(l)
	}
	if cur != nil {
		recs = append(recs, *cur)
	}
	if len(recs) == 0 {
		return nil, "no records"
	}
	for _, r := range recs {
		if len(r.Seq) != len(recs[0].Seq) {
			return nil, "unequal record lengths"
		}
	}
	for i := range recs {
		for k := 0; k < len(recs[i].Seq); k++ {
			s, ok := oracle.BaseSet(recs[i].Seq[k], false)
			if !ok {
				continue
			}
			recs[i].Score += int64(12 / oracle.Popcount(s))
			switch recs[i].Seq[k] {
			case 'A':
				recs[i].A++
			case 'C':
				recs[i].C++
			case 'G':
				recs[i].G++
			case 'T':
				recs[i].T++
			}
		}
	}
	return recs, ""
}

type readerDef struct {
	pkg, name string
	validate  bool // rejects non-IUPAC symbols
	score     bool
	stream    bool
}

var fastaReaders = []readerDef{
	{"pkg/fastaio", "ReadAlignment", false, false, true},
	{"pkg/fastaio", "ReadEncodeAlignment", true, false, true},
	{"pkg/fastaio", "ReadEncodeScoreAlignment", true, true, true},
	{"pkg/fastaio", "ReadEncodeAlignmentToList", true, false, false},
}

func sameRecs(got, want []fastaRec, score bool) string {
	if len(got) != len(want) {
		return fmt.Sprintf("%d records, want %d", len(got), len(want))
	}
	for i := range want {
		g, w := got[i], want[i]
		if g.ID != w.ID || g.Desc != w.Desc || g.Seq != w.Seq || g.Idx != w.Idx {
			return fmt.Sprintf("record %d = {ID:%q Desc:%q Seq:%q Idx:%d}, want {ID:%q Desc:%q Seq:%q Idx:%d}", i, g.ID, g.Desc, g.Seq, g.Idx, w.ID, w.Desc, w.Seq, w.Idx)
		}
		if score && (g.Score != w.Score || g.A != w.A || g.C != w.C || g.G != w.G || g.T != w.T) {
			return fmt.Sprintf("record %d (%s): score %d counts A%d C%d G%d T%d, want score %d counts A%d C%d G%d T%d", i, g.Seq, g.Score, g.A, g.C, g.G, g.T, w.Score, w.A, w.C, w.G, w.T)
		}
	}
	return ""
}

func rewrap(seq string, w int) []string {
	var out []string
	for i := 0; i < len(seq); i += w {
		j := i + w
		if j > len(seq) {
			j = len(seq)
		}
		out = append(out, seq[i:j])
	}
	return out
}

// layouts builds the families of valid inputs: the same three records under every re-wrapping and case.
func validLayouts() [][]string {
	seqs := []string{"ACGTRYSWKMBDHVN-?A", "acgtryswkmbdhvn-?c", "NNNNACGTTTGGCCAA--"}
	heads := []string{">id1 first record, with description", ">id2", ">id3\tdesc"}
	var out [][]string
	for _, w := range []int{100, 7, 1, 18} {
		var lines []string
		for i, s := range seqs {
			lines = append(lines, heads[i])
			lines = append(lines, rewrap(s, w)...)
		}
		out = append(out, lines)
	}
	// upper-cased and lower-cased versions of the first layout
	up := []string{}
	lo := []string{}
	for _, l := range out[0] {
		if l[0] == '>' {
			up = append(up, l)
			lo = append(lo, l)
		} else {
			up = append(up, strings.ToUpper(l))
			lo = append(lo, strings.ToLower(l))
		}
	}
	out = append(out, up, lo)
	// header text that itself begins with (or contains) the marker character: the marker is the first byte of the line, once
	var marked []string
	for i, h := range []string{">>marked first record", ">id2>tail", ">>"} {
		marked = append(marked, h)
		marked = append(marked, rewrap(seqs[i], 100)...)
	}
	out = append(out, marked)
	return out
}

func C16(c *core.Ctx) {
	c.Explanation("C16: each of the FASTA readers (ReadAlignment, ReadEncodeAlignment, ReadEncodeScoreAlignment, ReadEncodeAlignmentToList, findReference) is interpreted against a model of bufio.Scanner with the default split function, on families of line layouts: the same records under every re-wrapping and letter case (records - ID = first header token, description = whole header, sequence, input index, and for the scoring reader completeness score and A/C/G/T counts - must equal a reader-independent specification, hence the readers agree with one another); every single byte value placed in a sequence (accepted iff it is one of the 32 IUPAC characters, for the validating readers); unequal record lengths at a boundary and at the end; empty input; missing header; blank lines and empty headers (must not index out of range: either skipped/rejected, never a crash). Structural: no reader installs a custom split function. CR handling is bufio.ScanLines' (trusted).")
	c.Assumption("bufio.Scanner with the default split function removes LF and a preceding CR (library contract); the 1 MiB line limit and scanner I/O errors are handled through Scanner.Err, which is consulted (checked structurally)")
	ev0 := newEval(c)
	tabs := extractTables(c, ev0, "R0")
	if !tabs.OK {
		return
	}
	checkReaders(c, tabs, "", true)
	c16Structural(c)
}

// checkReaders runs the layout families; prefix distinguishes the C18 rows from the C16 ones.
func checkReaders(c *core.Ctx, tabs *Tables, prefix string, full bool, only ...string) {
	nEval := 0
	decisions := map[string]map[string]string{} // layout -> reader -> accepted / rejected
	var decisionOrder []string
	for _, rd := range fastaReaders {
		if len(only) > 0 && !containsStr(only, rd.name) {
			continue
		}
		pos := funcPos(c, rd.pkg, rd.name)
		key := prefix + "D/" + rd.name
		var bad []string
		// A: valid layouts
		if full {
			for _, hard := range []bool{false, true} {
				if !rd.validate && hard {
					continue
				}
				for li, lines := range validLayouts() {
					nEval++
					want, why := specRecords(lines, rd.validate, false)
					if why != "" {
						panic("bad layout " + why)
					}
					res := runReader(c, tabs, rd.pkg, rd.name, lines, hard, "")
					if res.undecide != "" || res.crash != "" {
						bad = append(bad, fmt.Sprintf("layout %d: %s%s", li, res.undecide, res.crash))
						continue
					}
					if res.err || !res.done {
						bad = append(bad, fmt.Sprintf("layout %d: valid input rejected (err=%v, completion signalled=%v)", li, res.err, res.done))
						continue
					}
					if rd.validate {
						// '-' decodes as '-' in both gap modes
					}
					if d := sameRecs(res.recs, want, rd.score && !hard); d != "" {
						bad = append(bad, fmt.Sprintf("layout %d hardGaps=%v: %s", li, hard, d))
					}
				}
			}
			c.Ob(key+"/layout-independent-records", len(bad) == 0, pos, "%s", first(bad, 3))
		}
		// B: every byte value inside a sequence
		bad = nil
		for b := 0; b < 256; b++ {
			if b == '\n' || b == '\r' {
				continue
			}
			x := string([]byte{byte(b)})
			// the byte inside a line, as the first and as the last symbol of a line, on a continuation line, in the last record
			layouts := [][]string{
				{">id1", "AC" + x + "T", ">id2", "ACGT"},
				{">id1", x + "CGT", ">id2", "ACGT"},
				{">id1", "ACG" + x, ">id2", "ACGT"},
				{">id1", "AC", x + "T", ">id2", "ACGT"},
				{">id1", "ACGT", ">id2", "AC", "G" + x},
			}
			if !full && isAccepted(byte(b)) {
				layouts = layouts[:1]
			}
			for li, lines := range layouts {
				if byte(b) == '>' && (li == 1 || li == 3) {
					continue // a line starting with '>' is a header
				}
				nEval++
				res := runReader(c, tabs, rd.pkg, rd.name, lines, false, "")
				if res.undecide != "" || res.crash != "" {
					bad = append(bad, fmt.Sprintf("byte 0x%02x: %s%s", b, res.undecide, res.crash))
					continue
				}
				wantErr := rd.validate && !isAccepted(byte(b))
				if !rd.validate && !isAccepted(byte(b)) {
					continue // the plain-text reader may read or reject other bytes; it must not crash (checked above)
				}
				if res.err != wantErr {
					bad = append(bad, fmt.Sprintf("byte 0x%02x (%q) in a sequence (lines %q): rejected=%v, want %v", b, byte(b), lines, res.err, wantErr))
				}
				if wantErr && res.done {
					bad = append(bad, fmt.Sprintf("byte 0x%02x: error reported but completion also signalled", b))
				}
			}
		}
		c.Ob(key+"/symbol-check-all-bytes", len(bad) == 0, pos, "%s", first(bad, 5))
		// C/D: strictness
		bad = nil
		for _, tc := range []struct {
			name  string
			lines []string
		}{
			{"short middle record", []string{">a", "ACGT", ">b", "ACG", ">c", "ACGT"}},
			{"short last record", []string{">a", "ACGT", ">b", "ACGT", ">c", "AC"}},
			{"long last record", []string{">a", "ACGT", ">b", "ACGTA"}},
			{"long middle record", []string{">a", "ACGT", ">b", "ACGTA", ">c", "ACGT"}},
			{"long middle record, wrapped", []string{">a", "AC", "GT", ">b", "ACG", "TAC", ">c", "ACGT"}},
			{"short first record, the rest agree", []string{">a", "ACG", ">b", "ACGT", ">c", "ACGT"}},
			{"every record one longer than the one before", []string{">a", "AC", ">b", "ACG", ">c", "ACGT"}},
			{"short first record", []string{">a", "AC", ">b", "ACGT", ">c", "ACGT"}},
			{"wrapped records of unequal total length", []string{">a", "AC", "GT", ">b", "AC", "G"}},
			{"empty first record followed by longer records", []string{">a", ">b", "ACGT", ">c", "ACGT"}},
			{"two empty leading records followed by longer records", []string{">a", ">b", ">c", "ACGT", ">d", "ACGT"}},
			{"empty middle record", []string{">a", "ACGT", ">b", ">c", "ACGT"}},
			{"empty last record", []string{">a", "ACGT", ">b", "ACGT", ">c"}},
			{"empty input", []string{}},
			{"no leading header", []string{"ACGT", ">b", "ACGT"}},
			{"header without any sequence", []string{">a"}},
		} {
			nEval++
			res := runReader(c, tabs, rd.pkg, rd.name, tc.lines, false, "")
			if res.undecide != "" || res.crash != "" {
				bad = append(bad, fmt.Sprintf("%s: %s%s", tc.name, res.undecide, res.crash))
				continue
			}
			if !res.err {
				bad = append(bad, fmt.Sprintf("%s: accepted (%d records) instead of rejected with an error", tc.name, len(res.recs)))
			}
			if res.err && res.done {
				bad = append(bad, tc.name+": error reported but completion also signalled")
			}
		}
		c.Ob(key+"/strict-rejections", len(bad) == 0, pos, "%s", first(bad, 4))
		// E/F: totality on blank lines and empty headers (C16 only; a panic is still a non-zero exit for C18)
		bad = nil
		if !full {
			continue
		}
		for _, tc := range []struct {
			name  string
			lines []string
		}{
			{"blank line between records", []string{">a", "ACGT", "", ">b", "ACGT"}},
			{"blank line inside a record", []string{">a", "AC", "", "GT", ">b", "ACGT"}},
			{"blank line at the end", []string{">a", "ACGT", ">b", "ACGT", ""}},
			{"blank first line", []string{"", ">a", "ACGT"}},
			{"only a blank line", []string{""}},
			{"header with no identifier", []string{">", "ACGT"}},
			{"header of spaces", []string{">a", "ACGT", ">  ", "ACGT"}},
			{"first header of spaces", []string{">  ", "ACGT", ">b", "ACGT"}},
			{"later header with no identifier", []string{">a", "ACGT", ">", "ACGT"}},
			{"header of a tab", []string{">a", "ACGT", ">\t", "ACGT"}},
		} {
			nEval++
			res := runReader(c, tabs, rd.pkg, rd.name, tc.lines, false, "")
			if res.undecide != "" {
				bad = append(bad, tc.name+": "+res.undecide)
				continue
			}
			if res.crash != "" {
				bad = append(bad, fmt.Sprintf("%s: the reader indexes past the end of the line (%s): it panics instead of reading or rejecting the input", tc.name, res.crash))
				continue
			}
			if decisions[tc.name] == nil {
				decisions[tc.name] = map[string]string{}
				decisionOrder = append(decisionOrder, tc.name)
			}
			decisions[tc.name][rd.name] = map[bool]string{true: "rejected", false: "read"}[res.err]
			if !res.err {
				// accepted: must equal the records with blank lines ignored
				want, why := specRecords(tc.lines, rd.validate, true)
				if why != "" {
					bad = append(bad, fmt.Sprintf("%s: accepted although the input is malformed (%s)", tc.name, why))
				} else if d := sameRecs(res.recs, want, false); d != "" {
					bad = append(bad, fmt.Sprintf("%s: accepted with wrong records: %s", tc.name, d))
				}
			}
		}
		c.Ob(key+"/total-on-blank-lines-and-empty-headers", len(bad) == 0, pos, "%s", first(bad, 4))
	}
	// the readers agree with one another: a file one of them reads is read by all (a record file is handed to different
	// readers depending on the option it is given with)
	if full && len(only) == 0 {
		var bad []string
		for _, name := range decisionOrder {
			byDecision := map[string][]string{}
			for rdName, d := range decisions[name] {
				byDecision[d] = append(byDecision[d], rdName)
			}
			if len(byDecision) > 1 {
				sort.Strings(byDecision["read"])
				sort.Strings(byDecision["rejected"])
				bad = append(bad, fmt.Sprintf("%s: read by %v, rejected by %v", name, byDecision["read"], byDecision["rejected"]))
			}
		}
		c.Ob(prefix+"D/readers-agree-on-blank-lines-and-empty-headers", len(bad) == 0, funcPos(c, "pkg/fastaio", "ReadEncodeAlignment"), "%s", first(bad, 4))
	}
	// findReference: same scanner loop, returns the named record
	if len(only) == 0 || containsStr(only, "findReference") {
		pos := funcPos(c, "pkg/variants", "findReference")
		key := prefix + "D/findReference"
		var bad []string
		if full {
			for li, lines := range validLayouts() {
				nEval++
				want, _ := specRecords(lines, true, false)
				for _, wr := range want {
					id := wr.ID
					res := runReader(c, tabs, "pkg/variants", "findReference", lines, false, id)
					if res.undecide != "" || res.crash != "" {
						bad = append(bad, fmt.Sprintf("layout %d: %s%s", li, res.undecide, res.crash))
						continue
					}
					var w fastaRec
					for _, r := range want {
						if r.ID == id {
							w = r
						}
					}
					if res.err || len(res.recs) != 1 || res.recs[0].ID != w.ID || res.recs[0].Seq != w.Seq || res.recs[0].Desc != w.Desc {
						bad = append(bad, fmt.Sprintf("layout %d reference %s: err=%v records=%v, want %q", li, id, res.err, res.recs, w.Seq))
					}
				}
				res := runReader(c, tabs, "pkg/variants", "findReference", lines, false, "absent")
				if !res.err {
					bad = append(bad, "a reference ID that is not in the alignment is not reported as an error")
				}
			}
			// the reference is the record whose ID EQUALS the name given: not a longer ID that starts with it, not a shorter
			// one, not one in another letter case, wherever such near-namesakes sit in the file
			for _, tc := range []struct {
				lines []string
				id    string
				seq   string
			}{
				{[]string{">ref.2 later version", "ACGA", ">ref", "ACGT", ">reference", "ACGG"}, "ref", "ACGT"},
				{[]string{">ref", "ACGT", ">ref.2", "ACGA"}, "ref.2", "ACGA"},
				{[]string{">REF", "ACGA", ">re", "ACGC", ">ref", "ACGT"}, "ref", "ACGT"},
				{[]string{">xref", "ACGA", ">ref|x", "ACGC", ">ref second field", "ACGT"}, "ref", "ACGT"},
			} {
				nEval++
				res := runReader(c, tabs, "pkg/variants", "findReference", tc.lines, false, tc.id)
				if res.undecide != "" || res.crash != "" {
					bad = append(bad, fmt.Sprintf("lines %q: %s%s", tc.lines, res.undecide, res.crash))
				} else if res.err || len(res.recs) != 1 || res.recs[0].ID != tc.id || res.recs[0].Seq != tc.seq {
					bad = append(bad, fmt.Sprintf("lines %q, reference %q: err=%v records=%v, want the record with sequence %s", tc.lines, tc.id, res.err, res.recs, tc.seq))
				}
			}
			c.Ob(key+"/finds-named-record-layout-independently", len(bad) == 0, pos, "%s", first(bad, 3))
		}
		bad = nil
		for _, tc := range []struct {
			name  string
			lines []string
		}{
			{"blank first line", []string{"", ">a", "ACGT"}},
			{"blank line before the reference", []string{">a", "ACGT", "", ">ref", "ACGT"}},
			{"empty input", []string{}},
			{"header with no identifier", []string{">", "ACGT", ">ref", "ACGT"}},
			{"later header with no identifier", []string{">a", "ACGT", ">", "ACGT", ">ref", "ACGT"}},
			{"first header of spaces", []string{">  ", "ACGT", ">ref", "ACGT"}},
			{"later header of spaces", []string{">a", "ACGT", ">  ", "ACGT", ">ref", "ACGT"}},
			{"later header of a tab", []string{">a", "ACGT", ">\t", "ACGT", ">ref", "ACGT"}},
			{"no leading header", []string{"ACGT", ">ref", "ACGT"}},
			{"invalid symbol before the reference", []string{">a", "AC!T", ">ref", "ACGT"}},
			{"unequal lengths before the reference", []string{">a", "ACGT", ">b", "ACG", ">ref", "ACGT"}},
		} {
			nEval++
			strictCase := strings.HasPrefix(tc.name, "empty") || strings.HasPrefix(tc.name, "no leading") || strings.HasPrefix(tc.name, "invalid") || strings.HasPrefix(tc.name, "unequal")
			if !full && !strictCase {
				continue
			}
			res := runReader(c, tabs, "pkg/variants", "findReference", tc.lines, false, "ref")
			if res.undecide != "" {
				bad = append(bad, tc.name+": "+res.undecide)
			} else if res.crash != "" {
				bad = append(bad, fmt.Sprintf("%s: the reader indexes past the end of the line (%s): panic", tc.name, res.crash))
			} else if !res.err && (strings.HasPrefix(tc.name, "empty") || strings.HasPrefix(tc.name, "no leading") || strings.HasPrefix(tc.name, "invalid") || strings.HasPrefix(tc.name, "unequal")) {
				bad = append(bad, tc.name+": accepted instead of rejected")
			}
		}
		c.Ob(key+"/strict-and-total", len(bad) == 0, pos, "%s", first(bad, 4))
	}
	c.Count("reader_evaluations", nEval)
}

// c16Structural: no custom split function; Scanner.Err is consulted by every reader.
// pkgs restricts the rule to the readers of the named packages (those the property's command uses); none means all five.
func c16Structural(c *core.Ctx, pkgs ...string) {
	p := facts(c)
	nScan := 0
	lineLimits := map[string][]string{}
	type scanHelper struct {
		makes, split, returnsErr bool
		maxTok                   string
	}
	scannerHelpers := map[*ssa.Function]scanHelper{}
	for _, g := range p.funcs {
		if g.Parent() != nil || g.Signature.Results().Len() != 1 {
			continue
		}
		rt := g.Signature.Results().At(0).Type().String()
		var h scanHelper
		h.maxTok = "default (64 KiB)"
		allInstrs(g, func(_ *ssa.Function, ins ssa.Instruction) {
			call, ok := ins.(ssa.CallInstruction)
			if !ok {
				return
			}
			cal := call.Common().StaticCallee()
			if cal == nil {
				return
			}
			switch cal.String() {
			case "bufio.NewScanner":
				h.makes = rt == "*bufio.Scanner"
			case "(*bufio.Scanner).Buffer":
				args := call.Common().Args
				if k, ok := args[len(args)-1].(*ssa.Const); ok && k.Value != nil {
					h.maxTok = k.Value.ExactString()
				} else {
					h.maxTok = "not a constant"
				}
			case "(*bufio.Scanner).Split":
				h.split = true
			case "(*bufio.Scanner).Err":
				if v := call.Value(); v != nil && isErrorType(g.Signature.Results().At(0).Type()) {
					if ft := p.fateOf(v); ft.returned {
						h.returnsErr = true
					}
				}
			}
		})
		if h.makes || h.returnsErr {
			scannerHelpers[g] = h
		}
	}
	for _, f := range p.funcs {
		if f.Parent() != nil || isDeprecatedIndels(f) {
			continue
		}
		if _, isHelper := scannerHelpers[f]; isHelper {
			continue
		}
		if len(pkgs) > 0 && (f.Pkg == nil || !containsStr(pkgs, c.RelOf(f.Pkg.Pkg))) {
			continue
		}
		usesScanner, split, errChecked, errReported := false, false, false, false
		pf := p
		maxTok := "default (64 KiB)"
		allInstrs(f, func(fn *ssa.Function, ins ssa.Instruction) {
			call, ok := ins.(ssa.CallInstruction)
			if !ok {
				return
			}
			cal := call.Common().StaticCallee()
			if cal == nil {
				return
			}
			// a helper of the repository that makes the scanner (its line limit and split function are the reader's) or
			// that asks the scanner for its error and returns it (the reader must then report the helper's result)
			if inRepo(cal) && cal != fn {
				if h, ok := scannerHelpers[cal]; ok {
					if h.makes {
						usesScanner = true
						maxTok = h.maxTok
						split = split || h.split
					}
					if h.returnsErr {
						errChecked = true
						if v := call.Value(); v != nil {
							if ft := pf.fateOf(v); ft.returned || ft.sent {
								errReported = true
							}
						}
					}
				}
				return
			}
			switch cal.String() {
			case "bufio.NewScanner":
				usesScanner = true
			case "(*bufio.Scanner).Buffer":
				args := call.Common().Args
				if k, ok := args[len(args)-1].(*ssa.Const); ok && k.Value != nil {
					maxTok = k.Value.ExactString()
				} else {
					maxTok = "not a constant"
				}
			case "(*bufio.Scanner).Split":
				split = true
			case "(*bufio.Scanner).Err":
				errChecked = true
				if v := call.Value(); v != nil {
					if ft := pf.fateOf(v); ft.returned || ft.sent {
						errReported = true
					}
				}
			}
		})
		if !usesScanner {
			continue
		}
		isFasta := false
		for _, rd := range fastaReaders {
			if f.Name() == rd.name {
				isFasta = true
			}
		}
		if f.Name() == currentName(c, "pkg/variants", "findReference") {
			isFasta = true
		}
		if !isFasta {
			continue
		}
		nScan++
		lineLimits[maxTok] = append(lineLimits[maxTok], f.Name())
		// per-symbol counters (score, base counts, widths, indices) are machine-word integers: a narrower counter
		// wraps on records the 1 MiB line limit allows
		var narrow []string
		allInstrs(f, func(fn *ssa.Function, ins ssa.Instruction) {
			bo, ok := ins.(*ssa.BinOp)
			if !ok || bo.Op != token.ADD {
				return
			}
			b, ok := bo.Type().Underlying().(*types.Basic)
			if !ok || b.Info()&types.IsInteger == 0 {
				return
			}
			switch b.Kind() {
			case types.Int8, types.Int16, types.Int32, types.Uint8, types.Uint16, types.Uint32:
				if blockInLoop(ins.Block()) {
					narrow = append(narrow, fmt.Sprintf("%s: a %s counter is incremented per symbol", c.PosStr(ins.Pos()), b.Name()))
				}
			}
		})
		sort.Strings(narrow)
		c.Ob("D/"+f.Name()+"/counters-are-word-sized", len(narrow) == 0, f.Pos(), "%s", first(uniqStrings(narrow), 3))
		c.Ob("D/"+f.Name()+"/default-split-function", !split, f.Pos(), "the reader installs a custom split function; line-ending handling is no longer bufio.ScanLines'")
		c.Ob("D/"+f.Name()+"/scanner-error-consulted", errChecked, f.Pos(), "Scanner.Err() is never consulted: an over-long line or read error would be taken for end of input")
		c.Ob("D/"+f.Name()+"/scanner-error-reported", errReported, f.Pos(), "what Scanner.Err() returns is not returned or sent when it is non-nil (whatever the error is: an over-long line, a read fault): the records read so far would pass for the whole file")
	}
	var lims []string
	for k, fs := range lineLimits {
		sort.Strings(fs)
		lims = append(lims, k+" bytes: "+strings.Join(fs, ", "))
	}
	sort.Strings(lims)
	c.Ob("D/readers-agree-on-the-longest-line-accepted", len(lineLimits) == 1, token.NoPos, "the readers accept different maximum line lengths, so one alignment is read or rejected depending on its wrapping and on the reader: %s", strings.Join(lims, "; "))
	c.Floor("D/scanner-readers", nScan, 1) // the readers may share one scanning core
}

func containsStr(xs []string, x string) bool {
	for _, y := range xs {
		if y == x {
			return true
		}
	}
	return false
}
