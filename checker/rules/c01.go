package rules

import (
	"fmt"
	"strings"

	"gofasta-verif/core"
	"gofasta-verif/eval"
	"gofasta-verif/oracle"
)

func init() { register("C01", C01) }

// ---------------------------------------------------------------- R1: symbolic CIGAR operator effects

type cigarTable struct {
	name    string
	withRef bool
	keepIns bool
}

var cigarTables = []cigarTable{
	{"getCigarOperationMapNoInsertions", false, false},
	{"getCigarOperationMapWithInsertions", false, true},
	{"getCigarOperationMapNoInsertionsWithRef", true, false},
	{"getCigarOperationMapWithInsertionsWithRef", true, true},
}

// describeSeq renders an extension value as kind/len for comparison with the specification.
func describeSeq(ev *eval.Evaluator, v eval.Value) (kind string, length eval.Lin, ok bool) {
	switch x := v.(type) {
	case eval.Slice:
		if x.Len() == 0 {
			return "empty", eval.K(0), true
		}
		return "literal", eval.K(int64(x.Len())), true
	case eval.AbsSeq:
		if x.Fill != nil {
			if n, isC := linConst(x.Fill.V); isC {
				return fmt.Sprintf("fill(%q)", byte(n)), x.Len, true
			}
			return "fill(?)", x.Len, true
		}
		return fmt.Sprintf("%s[%s:]", x.Name, x.Off), x.Len, true
	}
	return "", eval.Lin{}, false
}

func checkCigarTables(c *core.Ctx, rule string, only func(cigarTable) bool) {
	q, r, n := eval.Sym("q"), eval.Sym("r"), eval.Sym("n")
	nOps := 0
	for _, tb := range cigarTables {
		if only != nil && !only(tb) {
			continue
		}
		ev := newEval(c)
		v, ok := evalFunc(c, ev, rule+"/extract/"+tb.name, "pkg/sam", tb.name)
		if !ok {
			continue
		}
		m, isMap := v.(*eval.MapVal)
		pos := funcPos(c, "pkg/sam", tb.name)
		if !isMap {
			c.Und(rule+"/extract/"+tb.name, pos, "did not evaluate to a map")
			continue
		}
		c.Ob(rule+"/"+tb.name+"/exactly-nine-operators", len(m.M) == 9, pos, "the table has %d operators", len(m.M))
		for _, spec := range oracle.CigarOps {
			nOps++
			key := fmt.Sprintf("%s/%s/op-%s", rule, tb.name, spec.Op)
			fv, present, _ := m.Get(eval.S(spec.Op))
			if !present {
				c.Ob(key, false, pos, "operator %s is missing from the table", spec.Op)
				continue
			}
			f, isF := fv.(*eval.FuncVal)
			if !isF {
				c.Und(key, pos, "entry is not a function")
				continue
			}
			args := []eval.Value{q, r, n, eval.AbsSeq{Name: "seq", Len: eval.Sym("Lq")}}
			if tb.withRef {
				args = append(args, eval.AbsSeq{Name: "refseq", Len: eval.Sym("Lr")})
			}
			var res eval.Value
			err := ev.Try(func() { res = ev.CallValue(f, args) })
			if err != nil {
				c.Und(key, pos, "cannot evaluate the operator function symbolically: %v", err)
				continue
			}
			t, isT := res.(eval.Tuple)
			wantLen := 3
			if tb.withRef {
				wantLen = 4
			}
			if !isT || len(t) != wantLen {
				c.Und(key, pos, "unexpected result %s", eval.Show(res))
				continue
			}
			var bad []string
			wq, wr := q, r
			if spec.ConsumesQuery {
				wq = q.Add(n)
			}
			if spec.ConsumesRef {
				wr = r.Add(n)
			}
			if gq, ok := t[0].(eval.Lin); !ok || !gq.Eq(wq) {
				bad = append(bad, fmt.Sprintf("query position becomes %s, SAM spec: %s", eval.Show(t[0]), wq))
			}
			if gr, ok := t[1].(eval.Lin); !ok || !gr.Eq(wr) {
				bad = append(bad, fmt.Sprintf("reference position becomes %s, SAM spec: %s", eval.Show(t[1]), wr))
			}
			// query-row extension
			kind, ln, ok := describeSeq(ev, t[2])
			wantKind, wantN := "empty", eval.K(0)
			switch {
			case spec.ConsumesQuery && spec.ConsumesRef:
				wantKind, wantN = "seq[q:]", n
			case spec.Op == "D":
				wantKind, wantN = `fill('-')`, n
			case spec.Op == "N":
				wantKind, wantN = `fill('*')`, n
			case spec.Op == "I" && tb.keepIns:
				wantKind, wantN = "seq[q:]", n
			}
			if !ok || kind != wantKind || !ln.Eq(wantN) {
				bad = append(bad, fmt.Sprintf("query row is extended by %s of length %s, want %s of length %s", kind, ln, wantKind, wantN))
			}
			if tb.withRef {
				rk, rl, ok := describeSeq(ev, t[3])
				wk, wn := "empty", eval.K(0)
				switch {
				case spec.ConsumesRef:
					wk, wn = "refseq[r:]", n
				case spec.Op == "I" && tb.keepIns:
					wk, wn = `fill('-')`, n
				}
				if !ok || rk != wk || !rl.Eq(wn) {
					bad = append(bad, fmt.Sprintf("reference row is extended by %s of length %s, want %s of length %s", rk, rl, wk, wn))
				}
				if ok && !rl.Eq(ln) {
					bad = append(bad, "query and reference rows are extended by different lengths")
				}
			}
			c.Ob(key, len(bad) == 0, pos, "%s", strings.Join(bad, "; "))
		}
	}
	c.Count("cigar_operator_effects_checked", nOps)
}

// ---------------------------------------------------------------- R2/R3: rows of whole groups

var cigarPool = []string{"3M", "1S2M", "2M1I1M", "1M2D1M", "1M1N1M", "2H2M", "1M1P1M", "2=1X", "1I2M1S", "1M1D1M1I1M", "4M", "2D2M", "1=1X1I2=", "2X2I1="}

func groupsFor(refLen int, single bool) [][]samRec {
	var singles []samRec
	for _, pos := range []int{0, 1, 3} {
		for ci, cg := range cigarPool {
			if pos+cigarRefLen(cg) > refLen {
				continue
			}
			alpha := "ACGT"
			if ci%2 == 1 {
				alpha = "TGCA"
			}
			singles = append(singles, samRec{Name: "q", Pos: pos, Cigar: cg, Seq: seqFor(cg, alpha)})
		}
	}
	var out [][]samRec
	for _, s := range singles {
		out = append(out, []samRec{s})
	}
	if single {
		return out
	}
	for i, a := range singles {
		for j, b := range singles {
			if (i+j)%3 == 0 || a.Pos != b.Pos {
				out = append(out, []samRec{a, b})
			}
		}
	}
	// groups of three records in every file order (a record that ends early listed between two that end later, two
	// records that cover a column the third does not, ...): flattening a column is a function of the SET of its symbols
	var small []samRec
	for _, pos := range []int{0, 2, 4} {
		for ci, cg := range []string{"2M", "3M", "1M1D1M"} {
			if pos+cigarRefLen(cg) > refLen {
				continue
			}
			alpha := "ACGT"
			if (ci+pos)%2 == 1 {
				alpha = "TGCA"
			}
			small = append(small, samRec{Name: "q", Pos: pos, Cigar: cg, Seq: seqFor(cg, alpha)})
		}
	}
	for _, a := range small {
		for _, b := range small {
			for _, d := range small {
				if a.Pos != b.Pos && b.Pos != d.Pos && a.Pos != d.Pos {
					out = append(out, []samRec{a, b, d})
				}
			}
		}
	}
	return out
}

func samGroupValue(c *core.Ctx, recs []samRec, idx int64) *eval.StructVal {
	var es []eval.Value
	for _, r := range recs {
		es = append(es, mkSamRecord(c, r))
	}
	return &eval.StructVal{F: map[string]eval.Value{"records": eval.NewSlice(es...), "idx": eval.K(idx)}}
}

// evalMultiAlignRow interprets blockToFastaRecord for one group.
func evalMultiAlignRow(c *core.Ctx, recs []samRec, refLen int, pad bool, trim bool, s, e int) (seq string, id string, idx int64, err error) {
	rows, err := evalMultiAlignBatch(c, [][]samRec{recs}, []int64{7}, refLen, pad, trim, s, e)
	if err != nil {
		return "", "", 0, err
	}
	return rows[0].seq, rows[0].id, rows[0].idx, nil
}

type rowOut struct {
	seq, id string
	idx     int64
}

// evalMultiAlignBatch feeds the groups through ONE activation of blockToFastaRecord (one pool worker) and reads the
// emitted rows after the whole batch.
func evalMultiAlignBatch(c *core.Ctx, groups [][]samRec, idxs []int64, refLen int, pad bool, trim bool, s, e int) ([]rowOut, error) {
	fn := c.LookupFunc("pkg/sam", "blockToFastaRecord")
	if fn == nil {
		return nil, fmt.Errorf("UNRESOLVED sam.blockToFastaRecord")
	}
	ev := newEval(c)
	installBiogo(ev)
	out := &eval.ChanVal{Name: "out"}
	errs := &eval.ChanVal{Name: "err"}
	var feed []eval.Value
	for i, g := range groups {
		feed = append(feed, samGroupValue(c, g, idxs[i]))
	}
	_, e2 := ev.CallFunc(fn, &eval.ChanVal{Name: "in", Feed: feed}, out, errs,
		eval.K(int64(refLen)), trim, pad, eval.K(int64(s)), eval.K(int64(e)), false)
	if e2 != nil {
		return nil, e2
	}
	if len(errs.Sent) > 0 || len(out.Sent) != len(groups) {
		return nil, fmt.Errorf("%d errors, %d rows for %d queries", len(errs.Sent), len(out.Sent), len(groups))
	}
	var res []rowOut
	for _, v := range out.Sent {
		rec, ok := v.(*eval.StructVal)
		if !ok {
			return nil, fmt.Errorf("unexpected item %s", eval.Show(v))
		}
		sq, ok := bytesStr(rec.F["Seq"])
		if !ok {
			return nil, fmt.Errorf("non-constant row")
		}
		idS, _ := rec.F["ID"].(eval.Str)
		ix, _ := linConst(rec.F["Idx"])
		res = append(res, rowOut{sq, idS.Const(), ix})
	}
	return res, nil
}

// c01WorkerBatches: the row the multi-alignment worker emits for a query does not depend on the queries it handled before.
func c01WorkerBatches(c *core.Ctx, rule string) {
	ref := "ACGTTGA"
	pos := funcPos(c, "pkg/sam", "blockToFastaRecord")
	var bad []string
	for _, mode := range []struct {
		pad, trim bool
		s, e      int
	}{{false, false, 0, 0}, {true, false, 0, 0}, {false, true, 1, 6}, {true, true, 1, 6}} {
		for _, batch := range samWorkerBatches(ref) {
			idxs := make([]int64, len(batch))
			for i := range idxs {
				idxs[i] = int64(i)
			}
			got, err := evalMultiAlignBatch(c, batch, idxs, len(ref), mode.pad, mode.trim, mode.s, mode.e)
			if err != nil {
				c.Und(rule+"/no-state-between-queries", pos, "cannot evaluate a batch: %v", err)
				return
			}
			for i, g := range batch {
				alone, err := evalMultiAlignBatch(c, [][]samRec{g}, []int64{int64(i)}, len(ref), mode.pad, mode.trim, mode.s, mode.e)
				if err != nil {
					c.Und(rule+"/no-state-between-queries", pos, "cannot evaluate %s: %v", recString(g), err)
					return
				}
				if got[i] != alone[0] {
					bad = append(bad, fmt.Sprintf("query %s as item %d of a batch through one worker (pad=%v trim=%v) gives %q; handled alone it gives %q", recString(g), i, mode.pad, mode.trim, got[i].seq, alone[0].seq))
				}
			}
		}
	}
	c.Ob(rule+"/no-state-between-queries", len(bad) == 0, pos, "%s", first(bad, 2))
}

func C01(c *core.Ctx) {
	c.Explanation("C01: (R1) each operator function of the no-insertion CIGAR table is interpreted on symbolic arguments (query position q, reference position r, length n, abstract sequences) and its effect must equal the SAM specification for all nine operators, for every q, r, n: positions advance by n exactly when the operator consumes query/reference, and the row is extended by seq[q:q+n], n deletions, n no-coverage marks or nothing; (R2/R3) blockToFastaRecord (getSeqFromBlock, getOneLine, flattening, flank rewrite, trim/pad) is interpreted on a bounded family of groups of one and two records (three start positions x fourteen CIGAR strings covering all operators, incl. insertions after =/X) against an independent projection of the records onto the reference (base > deletion > no coverage, conflicting bases -> N, '-' outside / 'N' between the first and last aligned base, all N with --pad); getNucFromSite on all sites of up to three symbols; (R4) groupSamRecords is interpreted against a model of the biogo reader on every flag word (12 bits quick, 16 bits thorough) and on all short record streams over two names: exactly the records with neither 0x4 nor 0x100 are kept, grouped by adjacent name, indexed 0,1,2.. in input order; (R5) window validation and trim/pad column selection (shared with C15); (R6) pool output is index re-ordered.")
	checkArrivalOrderIndependence(c, "R7/reorder", "fastaio.WriteAlignment", "fastaio.WriteWrapAlignment")
	c15Wrap(c) // with --wrap the rows are re-broken, not shortened
	c.Assumption("biogo/hts parses SAM text into records (Pos 0-based, Cigar, Flags, Seq) as specified; the model of its reader API is in checker/rules/sammodel.go")
	checkCigarTables(c, "R1", func(t cigarTable) bool { return !t.withRef })
	// ---- R3 flattening of one column
	{
		var bad []string
		n := 0
		err := evalNucFromSite(c, false, func(site []byte, got byte) {
			n++
			if want := siteSpec(site); got != want {
				bad = append(bad, fmt.Sprintf("site %q -> %q, want %q", site, got, want))
			}
		})
		if err != nil {
			c.Und("R3/getNucFromSite", funcPos(c, "pkg/sam", "getNucFromSite"), "cannot evaluate: %v", err)
		} else {
			c.Count("sites_evaluated", n)
			c.Ob("R3/getNucFromSite/base-beats-deletion-beats-nothing", len(bad) == 0, funcPos(c, "pkg/sam", "getNucFromSite"), "%s", first(bad, 5))
		}
	}
	// ---- R2/R3 whole rows
	refLen := 7
	groups := groupsFor(refLen, false)
	if c.Tier != "thorough" {
		var g2 [][]samRec
		for i, g := range groups {
			if len(g) == 1 || i%4 == 0 {
				g2 = append(g2, g)
			}
		}
		groups = g2
	}
	var bad []string
	n := 0
	for _, g := range groups {
		for _, pad := range []bool{false, true} {
			want, specified := specMultiAlignRow(g, refLen, pad)
			if !specified {
				continue
			}
			n++
			got, id, idx, err := evalMultiAlignRow(c, g, refLen, pad, false, 1, refLen)
			if err != nil {
				bad = append(bad, fmt.Sprintf("%s: undecided: %v", recString(g), err))
				continue
			}
			if got != want {
				bad = append(bad, fmt.Sprintf("%s pad=%v (reference length %d) -> %q, want %q", recString(g), pad, refLen, got, want))
			}
			if id != "q" || idx != 7 {
				bad = append(bad, "the row does not carry the query name and the group's input index")
			}
		}
		if len(bad) > 20 {
			break
		}
	}
	c.Count("record_groups_evaluated", n)
	c01WorkerBatches(c, "R2/blockToFastaRecord")
	c.Ob("R2/blockToFastaRecord/projection-onto-reference", len(bad) == 0, funcPos(c, "pkg/sam", "blockToFastaRecord"), "%s", first(bad, 4))
	c.Sample(map[string]string{"rule": "R2", "group": "q@2:2M1I1M:ACGT", "reference_length": "7", "row": "-AC T-- (insertion dropped)"})
	// ---- R4 flags, grouping, index
	c01Grouping(c)
	// ---- R5 window
	checkSamCheckArgs(c, "R5")
	checkGetFastaRecord(c, "R5")
	// ---- R6 order
	checkPoolOrder(c, "R6", "pkg/sam", "ToMultiAlign")
}

type samGroupOut struct {
	names []string
	seqs  []string
	idx   int64
}

// runGroupSam interprets groupSamRecords on a record stream.
func runGroupSam(c *core.Ctx, recs []samRec, failNew bool, failReadAt int) (groups []samGroupOut, header, done int, errs int, err error) {
	fn := c.LookupFunc("pkg/sam", "groupSamRecords")
	if fn == nil {
		return nil, 0, 0, 0, fmt.Errorf("UNRESOLVED sam.groupSamRecords")
	}
	ev := newEval(c)
	installSamReader(c, ev, recs, failNew, failReadAt)
	cH, cG, cD, cE := &eval.ChanVal{Name: "hdr"}, &eval.ChanVal{Name: "groups"}, &eval.ChanVal{Name: "done"}, &eval.ChanVal{Name: "err"}
	_, e := ev.CallFunc(fn, eval.Opaque{Why: "sam input"}, cH, cG, cD, cE)
	for _, g := range cG.Sent {
		sv := g.(*eval.StructVal)
		var o samGroupOut
		o.idx, _ = linConst(sv.F["idx"])
		if rs, ok := sv.F["records"].(eval.Slice); ok {
			for _, r := range rs.Elems() {
				rv := r.(*eval.StructVal)
				o.names = append(o.names, rv.F["Name"].(eval.Str).Const())
				sq, _ := bytesStr(rv.F["Seq"].(*eval.StructVal).F["__bytes"])
				o.seqs = append(o.seqs, sq)
			}
		}
		groups = append(groups, o)
	}
	done = len(cD.Sent)
	if done == 0 && cG.Closed {
		done = 1 // completion signalled by closing the stream of groups instead of a token on a done channel
	}
	return groups, len(cH.Sent), done, len(cE.Sent), e
}

func c01Grouping(c *core.Ctx) {
	pos := funcPos(c, "pkg/sam", "groupSamRecords")
	// every flag word
	bits := 12
	if c.Tier == "thorough" {
		bits = 16
	}
	var bad []string
	for f := 0; f < 1<<bits; f++ {
		gs, _, _, _, err := runGroupSam(c, []samRec{{Name: "a", Flags: f, Pos: 0, Cigar: "1M", Seq: "A"}}, false, -1)
		if err != nil {
			bad = append(bad, fmt.Sprintf("flags 0x%x: undecided: %v", f, err))
			break
		}
		kept := len(gs) == 1 && len(gs[0].names) == 1
		want := f&(oracle.FlagUnmapped|oracle.FlagSecondary) == 0
		if kept != want {
			bad = append(bad, fmt.Sprintf("flags 0x%x: kept=%v, want %v (only unmapped 0x4 and secondary 0x100 records are dropped)", f, kept, want))
			if len(bad) > 10 {
				break
			}
		}
	}
	c.Count("flag_words_evaluated", 1<<bits)
	c.Ob("R4/groupSamRecords/flag-filter", len(bad) == 0, pos, "%s", first(bad, 5))
	// streams
	flags := []int{0, 4, 256, 2048, 16}
	names := []string{"a", "b"}
	var streams [][]samRec
	var rec func(cur []samRec)
	maxLen := 3
	if c.Tier == "thorough" {
		maxLen = 5
	}
	rec = func(cur []samRec) {
		streams = append(streams, append([]samRec{}, cur...))
		if len(cur) == maxLen {
			return
		}
		for _, nm := range names {
			for _, f := range flags {
				k := len(cur)
				rec(append(cur, samRec{Name: nm, Flags: f, Pos: 0, Cigar: "1M", Seq: string("ACGT"[k%4])}))
			}
		}
	}
	rec(nil)
	bad = nil
	for _, st := range streams {
		gs, hdr, done, nerr, err := runGroupSam(c, st, false, -1)
		if err != nil {
			bad = append(bad, fmt.Sprintf("%s: undecided: %v", recString(st), err))
			break
		}
		// specification
		var want []samGroupOut
		for _, r := range st {
			if r.Flags&(oracle.FlagUnmapped|oracle.FlagSecondary) != 0 {
				continue
			}
			if len(want) > 0 && want[len(want)-1].names[0] == r.Name {
				w := &want[len(want)-1]
				w.names = append(w.names, r.Name)
				w.seqs = append(w.seqs, r.Seq)
				continue
			}
			want = append(want, samGroupOut{names: []string{r.Name}, seqs: []string{r.Seq}, idx: int64(len(want))})
		}
		ok := len(gs) == len(want) && hdr == 1 && done == 1 && nerr == 0
		if ok {
			for i := range want {
				if gs[i].idx != want[i].idx || strings.Join(gs[i].seqs, ",") != strings.Join(want[i].seqs, ",") || strings.Join(gs[i].names, ",") != strings.Join(want[i].names, ",") {
					ok = false
				}
			}
		}
		if !ok {
			bad = append(bad, fmt.Sprintf("stream [%s]: groups %v (header sent %d, done %d, errors %d), want %v", recString(st), gs, hdr, done, nerr, want))
			if len(bad) > 10 {
				break
			}
		}
	}
	c.Count("record_streams_evaluated", len(streams))
	c.Ob("R4/groupSamRecords/grouping-and-input-index", len(bad) == 0, pos, "%s", first(bad, 3))
}

// checkSamReaderFailure (C18 row): a SAM stream that cannot be opened or read is reported once and the
// reader stops; it must not go on to use the failed reader.
func checkSamReaderFailure(c *core.Ctx) {
	pos := funcPos(c, "pkg/sam", "groupSamRecords")
	for _, eof := range []bool{false, true} {
		samOpenErrEOF = eof
		key := "T/sam/unreadable-header"
		if eof {
			key = "T/sam/empty-stream"
		}
		_, hdr, done, nerr, err := runGroupSam(c, nil, true, -1)
		if err != nil {
			c.Ob(key, false, pos, "after failing to open the SAM stream (empty or header-less input) the reader does not stop: %v", err)
		} else {
			c.Ob(key, nerr == 1 && done == 0, pos, "opening the SAM stream fails: %d error(s) reported, header sent %d, completion signalled %d; want exactly one error and no completion", nerr, hdr, done)
		}
	}
	samOpenErrEOF = false
	// the reader of `sam indels` (its own function): same two failures
	if fn := c.LookupFunc("pkg/sam", "getSamRecords"); fn != nil {
		for _, tc := range []struct {
			key     string
			recs    []samRec
			failNew bool
			failAt  int
			eof     bool
		}{{"T/sam-indels/unreadable-header", nil, true, -1, false}, {"T/sam-indels/empty-stream", nil, true, -1, true},
			{"T/sam-indels/malformed-record", []samRec{{Name: "a", Cigar: "1M", Seq: "A"}, {Name: "b", Cigar: "1M", Seq: "C"}}, false, 1, false}} {
			samOpenErrEOF = tc.eof
			ev := newEval(c)
			installSamReader(c, ev, tc.recs, tc.failNew, tc.failAt)
			cR, cD, cE := &eval.ChanVal{Name: "records"}, &eval.ChanVal{Name: "done"}, &eval.ChanVal{Name: "err"}
			if _, err := ev.CallFunc(fn, eval.Opaque{Why: "sam input"}, cR, cD, cE); err != nil {
				c.Ob(tc.key, false, fn.Pos(), "after the SAM stream fails the reader of sam indels does not stop: %v", err)
				continue
			}
			done := len(cD.Sent)
			if done == 0 && cR.Closed {
				done = 1
			}
			c.Ob(tc.key, len(cE.Sent) >= 1 && done == 0, fn.Pos(), "the SAM stream cannot be opened or read: %d error(s) reported, completion signalled %d, %d record(s) passed on; want an error and no completion", len(cE.Sent), done, len(cR.Sent))
		}
		samOpenErrEOF = false
	}
	gs, _, done, nerr, err := runGroupSam(c, []samRec{{Name: "a", Cigar: "1M", Seq: "A"}, {Name: "b", Cigar: "1M", Seq: "C"}}, false, 1)
	if err != nil {
		c.Und("T/sam/malformed-record", pos, "cannot evaluate: %v", err)
	} else {
		c.Ob("T/sam/malformed-record", nerr >= 1, pos, "a malformed record in the middle of the stream: %d error(s) reported, %d group(s) emitted, completion %d", nerr, len(gs), done)
	}
}
