// Package algebra normalises float expressions built from + - * / and log into
// sums of (rational function) * log(rational function) plus a rational part, with
// rational functions as quotients of multivariate polynomials over big rationals.
// Two expressions are equal iff their normal forms agree (cross-multiplication).
package algebra

import (
	"fmt"
	"math/big"
	"sort"
	"strconv"
	"strings"

	"gofasta-verif/eval"
)

// Mono is a monomial: sorted "x^2*y".
type Poly map[string]*big.Rat

func monoKey(m map[string]int) string {
	keys := make([]string, 0, len(m))
	for k, e := range m {
		if e != 0 {
			keys = append(keys, k)
		}
	}
	sort.Strings(keys)
	parts := make([]string, len(keys))
	for i, k := range keys {
		parts[i] = fmt.Sprintf("%s^%d", k, m[k])
	}
	return strings.Join(parts, "*")
}

func parseMono(k string) map[string]int {
	m := map[string]int{}
	if k == "" {
		return m
	}
	for _, p := range strings.Split(k, "*") {
		i := strings.LastIndex(p, "^")
		var e int
		fmt.Sscanf(p[i+1:], "%d", &e)
		m[p[:i]] = e
	}
	return m
}

func Const(r *big.Rat) Poly {
	p := Poly{}
	if r.Sign() != 0 {
		p[""] = new(big.Rat).Set(r)
	}
	return p
}
func Int(n int64) Poly { return Const(big.NewRat(n, 1)) }
func Var(name string) Poly {
	return Poly{monoKey(map[string]int{name: 1}): big.NewRat(1, 1)}
}
func (p Poly) Add(q Poly) Poly {
	r := Poly{}
	for k, v := range p {
		r[k] = new(big.Rat).Set(v)
	}
	for k, v := range q {
		if x, ok := r[k]; ok {
			x.Add(x, v)
			if x.Sign() == 0 {
				delete(r, k)
			}
		} else {
			r[k] = new(big.Rat).Set(v)
		}
	}
	return r
}
func (p Poly) Neg() Poly {
	r := Poly{}
	for k, v := range p {
		r[k] = new(big.Rat).Neg(v)
	}
	return r
}
func (p Poly) Mul(q Poly) Poly {
	r := Poly{}
	for k1, v1 := range p {
		m1 := parseMono(k1)
		for k2, v2 := range q {
			m := map[string]int{}
			for k, e := range m1 {
				m[k] = e
			}
			for k, e := range parseMono(k2) {
				m[k] += e
			}
			key := monoKey(m)
			c := new(big.Rat).Mul(v1, v2)
			if x, ok := r[key]; ok {
				x.Add(x, c)
				if x.Sign() == 0 {
					delete(r, key)
				}
			} else if c.Sign() != 0 {
				r[key] = c
			}
		}
	}
	return r
}
func (p Poly) IsZero() bool { return len(p) == 0 }
func (p Poly) Eq(q Poly) bool {
	return p.Add(q.Neg()).IsZero()
}
func (p Poly) String() string {
	keys := make([]string, 0, len(p))
	for k := range p {
		keys = append(keys, k)
	}
	sort.Strings(keys)
	parts := []string{}
	for _, k := range keys {
		parts = append(parts, p[k].RatString()+"·"+k)
	}
	if len(parts) == 0 {
		return "0"
	}
	return strings.Join(parts, " + ")
}

// Rat is a rational function.
type Rat struct{ N, D Poly }

func RInt(n int64) Rat      { return Rat{Int(n), Int(1)} }
func RVar(s string) Rat     { return Rat{Var(s), Int(1)} }
func (a Rat) Add(b Rat) Rat { return Rat{a.N.Mul(b.D).Add(b.N.Mul(a.D)), a.D.Mul(b.D)} }
func (a Rat) Neg() Rat      { return Rat{a.N.Neg(), a.D} }
func (a Rat) Mul(b Rat) Rat { return Rat{a.N.Mul(b.N), a.D.Mul(b.D)} }
func (a Rat) Div(b Rat) (Rat, bool) {
	if b.N.IsZero() {
		return Rat{}, false
	}
	return Rat{a.N.Mul(b.D), a.D.Mul(b.N)}, true
}
func (a Rat) Eq(b Rat) bool { return a.N.Mul(b.D).Eq(b.N.Mul(a.D)) }
func (a Rat) IsZero() bool  { return a.N.IsZero() }
func (a Rat) String() string {
	return "(" + a.N.String() + ")/(" + a.D.String() + ")"
}

// LogTerm is Coef * log(Arg).
type LogTerm struct{ Coef, Arg Rat }

// Form is Rat + sum of LogTerms.
type Form struct {
	R    Rat
	Logs []LogTerm
}

func (f Form) add(g Form) Form {
	out := Form{R: f.R.Add(g.R)}
	out.Logs = append(out.Logs, f.Logs...)
	for _, t := range g.Logs {
		merged := false
		for i := range out.Logs {
			if out.Logs[i].Arg.Eq(t.Arg) {
				out.Logs[i].Coef = out.Logs[i].Coef.Add(t.Coef)
				merged = true
				break
			}
		}
		if !merged {
			out.Logs = append(out.Logs, t)
		}
	}
	return out.clean()
}
func (f Form) clean() Form {
	out := Form{R: f.R}
	for _, t := range f.Logs {
		if !t.Coef.IsZero() {
			out.Logs = append(out.Logs, t)
		}
	}
	return out
}
func (f Form) scale(r Rat) Form {
	out := Form{R: f.R.Mul(r)}
	for _, t := range f.Logs {
		out.Logs = append(out.Logs, LogTerm{Coef: t.Coef.Mul(r), Arg: t.Arg})
	}
	return out.clean()
}

// Normalise converts an evaluator float expression into a Form. Symbols are
// renamed through rename (nil = identity); rename may map a symbol to "0".
func Normalise(e *eval.FExpr, rename func(string) string) (Form, error) {
	rn := func(s string) Rat {
		if rename != nil {
			s = rename(s)
		}
		if s == "0" {
			return RInt(0)
		}
		// "lin:2*n+1*s": the symbol stands for an integer combination of variables
		if strings.HasPrefix(s, "lin:") {
			r := RInt(0)
			for _, term := range strings.Split(s[4:], "+") {
				if term == "" {
					continue
				}
				i := strings.Index(term, "*")
				k, _ := strconv.ParseInt(term[:i], 10, 64)
				r = r.Add(RVar(term[i+1:]).Mul(RInt(k)))
			}
			return r
		}
		return RVar(s)
	}
	var lin func(l eval.Lin) Rat
	lin = func(l eval.Lin) Rat {
		r := RInt(l.C)
		for s, k := range l.T {
			r = r.Add(rn(s).Mul(RInt(k)))
		}
		return r
	}
	var rec func(e *eval.FExpr) (Form, error)
	rec = func(e *eval.FExpr) (Form, error) {
		switch e.Op {
		case "const":
			r := new(big.Rat)
			if r.SetFloat64(e.C) == nil {
				return Form{}, fmt.Errorf("non-finite constant")
			}
			return Form{R: Rat{Const(r), Int(1)}}, nil
		case "sym":
			return Form{R: rn(e.Name)}, nil
		case "int":
			return Form{R: lin(e.I)}, nil
		case "neg":
			a, err := rec(e.A)
			if err != nil {
				return a, err
			}
			return a.scale(RInt(-1)), nil
		case "log":
			a, err := rec(e.A)
			if err != nil {
				return a, err
			}
			if len(a.Logs) > 0 {
				return Form{}, fmt.Errorf("log of log")
			}
			return Form{R: RInt(0), Logs: []LogTerm{{Coef: RInt(1), Arg: a.R}}}, nil
		case "+", "-", "*", "/":
			a, err := rec(e.A)
			if err != nil {
				return a, err
			}
			b, err := rec(e.B)
			if err != nil {
				return b, err
			}
			switch e.Op {
			case "+":
				return a.add(b), nil
			case "-":
				return a.add(b.scale(RInt(-1))), nil
			case "*":
				if len(b.Logs) == 0 {
					return a.scale(b.R), nil
				}
				if len(a.Logs) == 0 {
					return b.scale(a.R), nil
				}
				return Form{}, fmt.Errorf("product of logarithms")
			case "/":
				if len(b.Logs) > 0 {
					return Form{}, fmt.Errorf("division by logarithm")
				}
				inv, ok := RInt(1).Div(b.R)
				if !ok {
					return Form{}, fmt.Errorf("division by zero")
				}
				return a.scale(inv), nil
			}
		}
		return Form{}, fmt.Errorf("unsupported float operator %q", e.Op)
	}
	f, err := rec(e)
	if err != nil {
		return f, err
	}
	return f.add(Form{R: RInt(0)}), nil
}

// Equal compares two forms; diff describes the first difference.
func Equal(a, b Form) (bool, string) {
	if !a.R.Eq(b.R) {
		return false, "rational parts differ: " + a.R.String() + " vs " + b.R.String()
	}
	used := make([]bool, len(b.Logs))
	for _, t := range a.Logs {
		found := false
		for j, u := range b.Logs {
			if !used[j] && t.Arg.Eq(u.Arg) {
				if !t.Coef.Eq(u.Coef) {
					return false, fmt.Sprintf("coefficient of log(%s) differs: %s vs %s", t.Arg, t.Coef, u.Coef)
				}
				used[j] = true
				found = true
				break
			}
		}
		if !found {
			return false, "no counterpart for the term with log argument " + t.Arg.String()
		}
	}
	for j, u := range b.Logs {
		if !used[j] {
			return false, "missing the term with log argument " + u.Arg.String()
		}
	}
	return true, ""
}
