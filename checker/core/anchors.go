package core

import (
	"go/types"
	"strings"
)

// TypeStr renders a type with full package paths.
func TypeStr(t types.Type) string {
	return types.TypeString(t, func(p *types.Package) string { return p.Path() })
}

// SigString renders a signature without parameter names (receiver excluded).
func SigString(sig *types.Signature) string {
	var ps, rs []string
	for i := 0; i < sig.Params().Len(); i++ {
		ps = append(ps, TypeStr(sig.Params().At(i).Type()))
	}
	for i := 0; i < sig.Results().Len(); i++ {
		rs = append(rs, TypeStr(sig.Results().At(i).Type()))
	}
	v := ""
	if sig.Variadic() {
		v = "..."
	}
	return "(" + strings.Join(ps, ",") + v + ")(" + strings.Join(rs, ",") + ")"
}

// lookupByRole resolves a function that is no longer found under its reference name: the unique function of
// the same package (same receiver kind) with the reference signature whose own name is not a reference name.
func (c *Ctx) lookupByRole(pkg, name string) *types.Func {
	want, ok := anchorSigs[pkg+"."+name]
	if !ok {
		return nil
	}
	p := c.Pkgs[pkg]
	if p == nil {
		return nil
	}
	isMethod := strings.Contains(name, ".")
	var cands []*types.Func
	consider := func(key string, f *types.Func) {
		if _, known := anchorSigs[pkg+"."+key]; known {
			return // still carries a reference name: it is some other anchor
		}
		if SigString(f.Type().(*types.Signature)) == want {
			cands = append(cands, f)
		}
	}
	scope := p.Types.Scope()
	for _, n := range scope.Names() {
		switch o := scope.Lookup(n).(type) {
		case *types.Func:
			if !isMethod {
				consider(n, o)
			}
		case *types.TypeName:
			if named, ok := o.Type().(*types.Named); ok && isMethod {
				for i := 0; i < named.NumMethods(); i++ {
					consider(n+"."+named.Method(i).Name(), named.Method(i))
				}
			}
		}
	}
	if len(cands) == 1 {
		c.Note("anchor %s.%s resolved by signature to %s (renamed)", pkg, name, cands[0].Name())
		return cands[0]
	}
	return nil
}
