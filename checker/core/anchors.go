package core

import (
	"go/types"
	"strings"
)

// TypeStr renders a type with full package paths.
func TypeStr(t types.Type) string {
	return types.TypeString(t, func(p *types.Package) string { return p.Path() })
}

// SigString renders a signature without parameter names (receiver excluded).
func SigString(sig *types.Signature) string {
	var ps, rs []string
	for i := 0; i < sig.Params().Len(); i++ {
		ps = append(ps, TypeStr(sig.Params().At(i).Type()))
	}
	for i := 0; i < sig.Results().Len(); i++ {
		rs = append(rs, TypeStr(sig.Results().At(i).Type()))
	}
	v := ""
	if sig.Variadic() {
		v = "..."
	}
	return "(" + strings.Join(ps, ",") + v + ")(" + strings.Join(rs, ",") + ")"
}

// lookupByRole resolves a function that is no longer found under its reference name: the unique function of
// the same package (same receiver kind) with the reference signature whose own name is not a reference name.
func (c *Ctx) lookupByRole(pkg, name string) *types.Func {
	want, ok := anchorSigs[pkg+"."+name]
	if !ok {
		return nil
	}
	p := c.Pkgs[pkg]
	if p == nil {
		return nil
	}
	isMethod := strings.Contains(name, ".")
	var cands []*types.Func
	consider := func(key string, f *types.Func) {
		if _, known := anchorSigs[pkg+"."+key]; known {
			return // still carries a reference name: it is some other anchor
		}
		if SigString(f.Type().(*types.Signature)) == want {
			cands = append(cands, f)
		}
	}
	scope := p.Types.Scope()
	for _, n := range scope.Names() {
		switch o := scope.Lookup(n).(type) {
		case *types.Func:
			if !isMethod {
				consider(n, o)
			}
		case *types.TypeName:
			if named, ok := o.Type().(*types.Named); ok && isMethod {
				for i := 0; i < named.NumMethods(); i++ {
					consider(n+"."+named.Method(i).Name(), named.Method(i))
				}
			}
		}
	}
	if len(cands) == 1 {
		c.Note("anchor %s.%s resolved by signature to %s (renamed)", pkg, name, cands[0].Name())
		return cands[0]
	}
	return nil
}

// SigChanged reports whether pkg.name still exists under its reference name but with another signature than
// on the reference tree (its interface was refactored). Unknown functions report false.
func (c *Ctx) SigChanged(pkg, name string) bool {
	want, ok := anchorSigs[pkg+"."+name]
	if !ok {
		return false
	}
	p := c.Pkgs[pkg]
	if p == nil {
		return false
	}
	f, _ := p.Types.Scope().Lookup(name).(*types.Func)
	if f == nil {
		return false
	}
	return SigString(f.Type().(*types.Signature)) != want
}

// RefParams returns the parameter names and (fully qualified) types pkg.name had on the reference tree.
func (c *Ctx) RefParams(pkg, name string) (names, typs []string, ok bool) {
	ps, ok := anchorParams[pkg+"."+name]
	if !ok {
		return nil, nil, false
	}
	if ps == "" {
		return nil, nil, true
	}
	for _, p := range strings.Split(ps, ";") {
		i := strings.Index(p, " ")
		if i < 0 {
			return nil, nil, false
		}
		names = append(names, p[:i])
		typs = append(typs, p[i+1:])
	}
	return names, typs, true
}
