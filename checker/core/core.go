// Package core: loading of /repo (syntax, types, SSA), obligations, verdicts,
// evidence and known-findings handling shared by all rules.
package core

import (
	"encoding/json"
	"fmt"
	"go/ast"
	"go/token"
	"go/types"
	"os"
	"path/filepath"
	"sort"
	"strings"
	"time"

	"golang.org/x/tools/go/packages"
	"golang.org/x/tools/go/ssa"
	"golang.org/x/tools/go/ssa/ssautil"
)

const ModPath = "github.com/virus-evolution/gofasta"

// Status of one obligation.
type Status int

const (
	OK Status = iota
	Violated
	Undecided
)

func (s Status) String() string {
	switch s {
	case OK:
		return "ok"
	case Violated:
		return "VIOLATED"
	default:
		return "UNDECIDED"
	}
}

// Obligation is one rule instance with a stable key rule/construct.
type Obligation struct {
	Key    string `json:"key"`
	Status string `json:"status"`
	Pos    string `json:"pos,omitempty"`
	Detail string `json:"detail,omitempty"`
	st     Status
}

// Ctx is handed to every rule.
type Ctx struct {
	Repo      string
	Tier      string
	Prop      string
	Fset      *token.FileSet
	Pkgs      map[string]*packages.Package // keyed by path relative to module root ("pkg/sam", "cmd", ".")
	All       []*packages.Package          // every loaded package incl. dependencies
	Prog      *ssa.Program
	SSA       map[string]*ssa.Package
	Obs       []*Obligation
	Notes     []string
	Counts    map[string]int // measured counters for the evidence file
	Assume    []string
	Explain   []string
	Samples   []interface{}
	start     time.Time
	funcDecls map[*types.Func]*ast.FuncDecl
	declPkg   map[*types.Func]*packages.Package
	varInits  map[*types.Var]ast.Expr
	varPkg    map[*types.Var]*packages.Package
}

// Load loads every package of the repository with syntax, types and SSA.
func Load(repo string) (*Ctx, error) {
	c := &Ctx{Repo: repo, Pkgs: map[string]*packages.Package{}, SSA: map[string]*ssa.Package{}, Counts: map[string]int{}, start: time.Now()}
	env := []string{}
	for _, kv := range os.Environ() {
		if strings.HasPrefix(kv, "GOWORK=") || strings.HasPrefix(kv, "GOFLAGS=") || strings.HasPrefix(kv, "GOPROXY=") || strings.HasPrefix(kv, "GOSUMDB=") || strings.HasPrefix(kv, "GOTOOLCHAIN=") {
			continue
		}
		env = append(env, kv)
	}
	env = append(env, "GOWORK=off", "GOFLAGS=-mod=mod", "GOPROXY=off", "GOSUMDB=off", "GOTOOLCHAIN=local")
	cfg := &packages.Config{
		Mode:  packages.LoadAllSyntax,
		Dir:   repo,
		Env:   env,
		Tests: false,
	}
	pkgs, err := packages.Load(cfg, "./...")
	if err != nil {
		return nil, fmt.Errorf("load: %v", err)
	}
	if len(pkgs) == 0 {
		return nil, fmt.Errorf("load: zero packages")
	}
	c.Fset = pkgs[0].Fset
	nerr := 0
	packages.Visit(pkgs, nil, func(p *packages.Package) {
		c.All = append(c.All, p)
		if strings.HasPrefix(p.PkgPath, ModPath) {
			for _, e := range p.Errors {
				fmt.Fprintf(os.Stderr, "LOAD-ERROR %s: %v\n", p.PkgPath, e)
				nerr++
			}
		}
	})
	if nerr > 0 {
		return nil, fmt.Errorf("load: %d type/parse errors in repository packages", nerr)
	}
	for _, p := range pkgs {
		rel := strings.TrimPrefix(strings.TrimPrefix(p.PkgPath, ModPath), "/")
		if rel == "" {
			rel = "."
		}
		c.Pkgs[rel] = p
	}
	if len(c.Pkgs) < 13 {
		return nil, fmt.Errorf("load: only %d repository packages loaded (expected >= 13)", len(c.Pkgs))
	}
	prog, _ := ssautil.AllPackages(pkgs, ssa.InstantiateGenerics)
	prog.Build()
	c.Prog = prog
	for rel, p := range c.Pkgs {
		c.SSA[rel] = prog.Package(p.Types)
	}
	c.funcDecls = map[*types.Func]*ast.FuncDecl{}
	c.declPkg = map[*types.Func]*packages.Package{}
	c.varInits = map[*types.Var]ast.Expr{}
	c.varPkg = map[*types.Var]*packages.Package{}
	for _, p := range c.All {
		// the repository's packages, and the few standard-library packages that are plain Go over an interface the caller
		// implements (interpreted from their source like repository code)
		if !strings.HasPrefix(p.PkgPath, ModPath) && !InterpretedStdlib[p.PkgPath] {
			continue
		}
		for _, f := range p.Syntax {
			for _, d := range f.Decls {
				if fd, ok := d.(*ast.FuncDecl); ok {
					if obj, ok := p.TypesInfo.Defs[fd.Name].(*types.Func); ok {
						c.funcDecls[obj] = fd
						c.declPkg[obj] = p
					}
				}
				if gd, ok := d.(*ast.GenDecl); ok && gd.Tok == token.VAR {
					for _, sp := range gd.Specs {
						vs := sp.(*ast.ValueSpec)
						for i, n := range vs.Names {
							if obj, ok := p.TypesInfo.Defs[n].(*types.Var); ok {
								c.varPkg[obj] = p // declared in the repository: zero-valued unless initialised
								if len(vs.Values) == len(vs.Names) {
									c.varInits[obj] = vs.Values[i]
								}
							}
						}
					}
				}
			}
		}
	}
	return c, nil
}

// InterpretedStdlib: standard-library packages whose functions are interpreted from source.
var InterpretedStdlib = map[string]bool{"container/heap": true}

// RelOf returns the repository-relative path of a package ("" for foreign packages).
func (c *Ctx) RelOf(p *types.Package) string {
	if p == nil || !strings.HasPrefix(p.Path(), ModPath) {
		return ""
	}
	return strings.TrimPrefix(strings.TrimPrefix(p.Path(), ModPath), "/")
}

// PkgInits returns the init() functions of a library package of the repository (package cmd's registration code is
// interpreted by the command-layer engine, not here).
func (c *Ctx) PkgInits(p *packages.Package) []*ast.FuncDecl {
	if p == nil || !strings.HasPrefix(p.PkgPath, ModPath+"/pkg/") {
		return nil
	}
	var out []*ast.FuncDecl
	for _, f := range p.Syntax {
		for _, d := range f.Decls {
			if fd, ok := d.(*ast.FuncDecl); ok && fd.Recv == nil && fd.Name.Name == "init" && fd.Body != nil {
				out = append(out, fd)
			}
		}
	}
	return out
}

// VarInit returns the initialiser of a repository package-level variable.
func (c *Ctx) VarInit(v *types.Var) (ast.Expr, *packages.Package) {
	return c.varInits[v], c.varPkg[v]
}

// FuncDecl returns the syntax of a repository function.
func (c *Ctx) FuncDecl(f *types.Func) (*ast.FuncDecl, *packages.Package) {
	if f == nil {
		return nil, nil
	}
	f = f.Origin()
	return c.funcDecls[f], c.declPkg[f]
}

// LookupFunc finds a package-level function or method ("T.m") by name.
func (c *Ctx) LookupFunc(pkg, name string) *types.Func {
	p := c.Pkgs[pkg]
	if p == nil {
		return nil
	}
	if i := strings.Index(name, "."); i >= 0 {
		tn, _ := p.Types.Scope().Lookup(name[:i]).(*types.TypeName)
		if tn == nil {
			return nil
		}
		obj, _, _ := types.LookupFieldOrMethod(tn.Type(), true, p.Types, name[i+1:])
		f, _ := obj.(*types.Func)
		if f == nil {
			f = c.lookupByRole(pkg, name)
		}
		return f
	}
	f, _ := p.Types.Scope().Lookup(name).(*types.Func)
	if f == nil {
		f = c.lookupByRole(pkg, name)
	}
	return f
}

// SSAFunc returns the SSA function for a package-level function or method.
func (c *Ctx) SSAFunc(pkg, name string) *ssa.Function {
	f := c.LookupFunc(pkg, name)
	if f == nil {
		return nil
	}
	return c.Prog.FuncValue(f)
}

// RepoFuncs lists all source functions (incl. anonymous) of the repository packages, sorted.
func (c *Ctx) RepoFuncs() []*ssa.Function {
	var out []*ssa.Function
	seen := map[*ssa.Function]bool{}
	var add func(f *ssa.Function)
	add = func(f *ssa.Function) {
		if f == nil || seen[f] || f.Blocks == nil {
			return
		}
		seen[f] = true
		out = append(out, f)
		for _, a := range f.AnonFuncs {
			add(a)
		}
	}
	for _, sp := range c.SSA {
		if sp == nil {
			continue
		}
		for _, m := range sp.Members {
			switch m := m.(type) {
			case *ssa.Function:
				add(m)
			case *ssa.Type:
				for _, t := range []types.Type{m.Type(), types.NewPointer(m.Type())} {
					ms := c.Prog.MethodSets.MethodSet(t)
					for i := 0; i < ms.Len(); i++ {
						add(c.Prog.MethodValue(ms.At(i)))
					}
				}
			}
		}
	}
	sort.Slice(out, func(i, j int) bool { return c.PosStr(out[i].Pos()) < c.PosStr(out[j].Pos()) })
	return out
}

// PosStr renders a position relative to the repository root.
func (c *Ctx) PosStr(p token.Pos) string {
	if !p.IsValid() {
		return ""
	}
	pp := c.Fset.Position(p)
	rel, err := filepath.Rel(c.Repo, pp.Filename)
	if err != nil {
		rel = pp.Filename
	}
	return fmt.Sprintf("%s:%d", rel, pp.Line)
}

// Ob records an obligation with verdict ok / violated.
func (c *Ctx) Ob(key string, ok bool, pos token.Pos, format string, args ...interface{}) bool {
	st := OK
	if !ok {
		st = Violated
	}
	detail := fmt.Sprintf(format, args...)
	if ok {
		detail = ""
	}
	c.add(key, st, pos, detail)
	return ok
}

// Und records an undecided obligation (the analysed shape is outside what the rule can decide).
func (c *Ctx) Und(key string, pos token.Pos, format string, args ...interface{}) {
	c.add(key, Undecided, pos, fmt.Sprintf(format, args...))
}

func (c *Ctx) add(key string, st Status, pos token.Pos, detail string) {
	full := c.Prop + "/" + key
	c.Obs = append(c.Obs, &Obligation{Key: full, Status: st.String(), Pos: c.PosStr(pos), Detail: detail, st: st})
}

// Floor fails when a rule found fewer instances than were confirmed by hand.
func (c *Ctx) Floor(rule string, n, floor int) {
	c.Counts["instances:"+rule] = n
	c.Ob(rule+"/floor", n >= floor, token.NoPos, "rule %s matched %d instance(s); floor confirmed by hand is %d", rule, n, floor)
}

func (c *Ctx) Note(format string, args ...interface{}) {
	c.Notes = append(c.Notes, fmt.Sprintf(format, args...))
}

func (c *Ctx) Count(name string, n int) { c.Counts[name] += n }
func (c *Ctx) Assumption(s string)      { c.Assume = append(c.Assume, s) }
func (c *Ctx) Explanation(s string)     { c.Explain = append(c.Explain, s) }
func (c *Ctx) Sample(v interface{}) {
	if len(c.Samples) < 12 {
		c.Samples = append(c.Samples, v)
	}
}

// ---------------------------------------------------------------- known findings

type Known struct {
	Property string `json:"property"`
	Key      string `json:"key"`
	What     string `json:"what"`
}

type KnownFile struct {
	Known []Known  `json:"known"`
	Fixed []string `json:"fixed"`
}

func LoadKnown(path string) (*KnownFile, error) {
	kf := &KnownFile{}
	b, err := os.ReadFile(path)
	if err != nil {
		if os.IsNotExist(err) {
			return kf, nil
		}
		return nil, err
	}
	if err := json.Unmarshal(b, kf); err != nil {
		return nil, err
	}
	return kf, nil
}

// ---------------------------------------------------------------- verdict + evidence

type Evidence struct {
	PropertyID  string                 `json:"property_id"`
	Tier        string                 `json:"tier"`
	Seed        int                    `json:"seed"`
	Level       string                 `json:"level"`
	Coverage    map[string]interface{} `json:"coverage"`
	Assumptions []string               `json:"assumptions"`
	WallS       float64                `json:"wall_s"`
	Violations  int                    `json:"violations"`
}

// Finish prints the report, writes the evidence file and returns the exit status.
func (c *Ctx) Finish(evidencePath, knownPath string, seed int, extra map[string]interface{}) int {
	kf, err := LoadKnown(knownPath)
	if err != nil {
		fmt.Printf("BROKEN: cannot read known findings: %v\n", err)
		return 2
	}
	known := map[string]Known{}
	for _, k := range kf.Known {
		if k.Property == c.Prop {
			known[k.Key] = k
		}
	}
	sort.SliceStable(c.Obs, func(i, j int) bool { return c.Obs[i].Key < c.Obs[j].Key })
	nOK, nViol, nUnd, nKnown := 0, 0, 0, 0
	distinct := map[string]bool{}
	var viols []*Obligation
	knownHit := map[string]bool{}
	for _, o := range c.Obs {
		distinct[o.Key] = true
		switch o.st {
		case OK:
			nOK++
		case Violated:
			if k, ok := known[o.Key]; ok {
				nKnown++
				if !knownHit[o.Key] {
					fmt.Printf("KNOWN-FINDING: property=%s %s [%s at %s]\n", c.Prop, k.What, o.Key, o.Pos)
					knownHit[o.Key] = true
				}
				o.Status = "known-finding"
				continue
			}
			nViol++
			viols = append(viols, o)
		case Undecided:
			nUnd++
			viols = append(viols, o)
		}
	}
	fmt.Printf("property %s tier %s: %d obligations, %d discharged, %d known findings, %d violated, %d undecided\n",
		c.Prop, c.Tier, len(c.Obs), nOK, nKnown, nViol, nUnd)
	names := make([]string, 0, len(c.Counts))
	for k := range c.Counts {
		names = append(names, k)
	}
	sort.Strings(names)
	for _, k := range names {
		fmt.Printf("  analysed %-40s %d\n", k, c.Counts[k])
	}
	for _, n := range c.Notes {
		fmt.Printf("  note: %s\n", n)
	}
	for _, o := range viols {
		fmt.Printf("%s: %s %s: %s\n", o.Pos, o.Status, o.Key, o.Detail)
	}
	wall := time.Since(c.start).Seconds()
	samples := c.Samples
	for i, o := range c.Obs {
		if len(samples) >= 14 {
			break
		}
		if i%((len(c.Obs)/6)+1) == 0 || o.st != OK {
			samples = append(samples, map[string]string{"obligation": o.Key, "status": o.Status, "at": o.Pos, "detail": o.Detail})
		}
	}
	cov := map[string]interface{}{
		"explanation":         strings.Join(c.Explain, " "),
		"obligations":         len(c.Obs),
		"discharged":          nOK,
		"known_findings":      nKnown,
		"undecided":           nUnd,
		"evaluations":         len(c.Obs),
		"distinct_nontrivial": len(distinct),
		"rule":                "one evaluation per obligation (rule instance x construct); distinct = distinct obligation keys; an obligation is non-trivial because each is generated from a construct found in /repo's current source",
		"samples":             samples,
		"measured":            c.Counts,
		"checker_cmd":         "checker/bin/gfcheck -prop " + c.Prop + " -tier " + c.Tier,
		"trusted_base":        []string{"go/parser, go/types, go/packages, x/tools go/ssa v0.29.0", "the abstract evaluator in checker/eval", "the oracles in checker/oracle"},
		"notes":               c.Notes,
	}
	for k, v := range extra {
		cov[k] = v
	}
	ev := Evidence{PropertyID: c.Prop, Tier: c.Tier, Seed: seed, Level: "other", Coverage: cov, Assumptions: c.Assume, WallS: wall, Violations: nViol + nUnd}
	if ev.Assumptions == nil {
		ev.Assumptions = []string{}
	}
	if evidencePath != "" {
		os.MkdirAll(filepath.Dir(evidencePath), 0o755)
		b, _ := json.MarshalIndent(ev, "", " ")
		if err := os.WriteFile(evidencePath, append(b, '\n'), 0o644); err != nil {
			fmt.Printf("BROKEN: cannot write evidence: %v\n", err)
			return 2
		}
	}
	if len(viols) > 0 {
		replay := strings.TrimSuffix(evidencePath, ".json") + ".violation.txt"
		var sb strings.Builder
		for _, o := range viols {
			fmt.Fprintf(&sb, "%s\t%s\t%s\t%s\n", o.Key, o.Status, o.Pos, o.Detail)
		}
		if evidencePath != "" {
			os.WriteFile(replay, []byte(sb.String()), 0o644)
		}
		fmt.Printf("VIOLATION property=%s replay=%s\n", c.Prop, replay)
		return 1
	}
	return 0
}
