package eval

import (
	"fmt"
	"go/ast"
	"go/token"
	"go/types"
	"sort"

	"golang.org/x/tools/go/types/typeutil"
)

type ctrlKind int

const (
	ctrlNone ctrlKind = iota
	ctrlBreak
	ctrlContinue
	ctrlReturn
)

type ctrl struct {
	kind  ctrlKind
	label string
	val   Value
	bare  bool
}

func (ev *Evaluator) block(env *Env, list []ast.Stmt) ctrl {
	for _, s := range list {
		if c := ev.stmt(env, s); c.kind != ctrlNone {
			return c
		}
	}
	return ctrl{}
}

func (ev *Evaluator) stmt(env *Env, s ast.Stmt) ctrl {
	ev.tick(s.Pos())
	info := env.pkg.TypesInfo
	switch s := s.(type) {
	case *ast.EmptyStmt:
	case *ast.BlockStmt:
		return ev.block(env.child(), s.List)
	case *ast.ExprStmt:
		ev.expr(env, s.X)
	case *ast.DeclStmt:
		gd, ok := s.Decl.(*ast.GenDecl)
		if !ok || gd.Tok == token.TYPE || gd.Tok == token.CONST {
			return ctrl{}
		}
		for _, sp := range gd.Specs {
			vs := sp.(*ast.ValueSpec)
			if len(vs.Values) == 0 {
				for _, n := range vs.Names {
					if obj := info.Defs[n]; obj != nil {
						env.define(obj, ev.zero(n.Pos(), obj.Type()))
					}
				}
				continue
			}
			if len(vs.Values) == 1 && len(vs.Names) > 1 {
				t, ok := ev.resolve(ev.expr(env, vs.Values[0])).(Tuple)
				if !ok || len(t) != len(vs.Names) {
					ev.fail(vs.Pos(), "tuple arity mismatch")
				}
				for i, n := range vs.Names {
					if obj := info.Defs[n]; obj != nil {
						env.define(obj, Copy(t[i]))
					}
				}
				continue
			}
			for i, n := range vs.Names {
				v := Copy(ev.resolve(ev.expr(env, vs.Values[i])))
				if obj := info.Defs[n]; obj != nil {
					env.define(obj, v)
				}
			}
		}
	case *ast.AssignStmt:
		ev.assign(env, s)
	case *ast.IncDecStmt:
		r := ev.lvalue(env, s.X)
		cur := ev.resolve(r.Get())
		d := int64(1)
		if s.Tok == token.DEC {
			d = -1
		}
		switch c := cur.(type) {
		case Lin:
			r.Set(ev.wrapInt(c.Add(K(d)), info.TypeOf(s.X)))
		case *FExpr:
			r.Set(ev.binop(s.Pos(), token.ADD, c, FConst(float64(d)), nil))
		default:
			ev.fail(s.Pos(), "++/-- on %s", Show(cur))
		}
	case *ast.IfStmt:
		e := env.child()
		if s.Init != nil {
			ev.stmt(e, s.Init)
		}
		return ev.ifStmt(e, s)
	case *ast.ForStmt:
		return ev.forStmt(env, s, "")
	case *ast.RangeStmt:
		return ev.rangeStmt(env, s, "")
	case *ast.LabeledStmt:
		switch inner := s.Stmt.(type) {
		case *ast.ForStmt:
			return ev.forStmt(env, inner, s.Label.Name)
		case *ast.RangeStmt:
			return ev.rangeStmt(env, inner, s.Label.Name)
		}
		return ev.stmt(env, s.Stmt)
	case *ast.SwitchStmt:
		return ev.switchStmt(env, s)
	case *ast.TypeSwitchStmt:
		return ev.typeSwitch(env, s)
	case *ast.ReturnStmt:
		if len(s.Results) == 0 {
			return ctrl{kind: ctrlReturn, bare: true}
		}
		if len(s.Results) == 1 {
			return ctrl{kind: ctrlReturn, val: Copy(ev.resolve(ev.expr(env, s.Results[0])))}
		}
		t := Tuple{}
		for _, r := range s.Results {
			t = append(t, Copy(ev.resolve(ev.expr(env, r))))
		}
		return ctrl{kind: ctrlReturn, val: t}
	case *ast.BranchStmt:
		lbl := ""
		if s.Label != nil {
			lbl = s.Label.Name
		}
		switch s.Tok {
		case token.BREAK:
			return ctrl{kind: ctrlBreak, label: lbl}
		case token.CONTINUE:
			return ctrl{kind: ctrlContinue, label: lbl}
		}
		ev.fail(s.Pos(), "unsupported branch %s", s.Tok)
	case *ast.SendStmt:
		ch := ev.expr(env, s.Chan)
		v := Copy(ev.resolve(ev.expr(env, s.Value)))
		name := "?"
		if c, ok := ch.(*ChanVal); ok {
			name = c.Name
			c.Sent = append(c.Sent, v)
			if c.OnSend != nil {
				c.OnSend(v)
			}
			if c.Queue {
				c.Feed = append(c.Feed, v)
			}
		}
		ev.Sent = append(ev.Sent, SendRec{Chan: name, V: v, Pos: s.Pos()})
		if len(ev.loops) > 0 {
			lc := ev.loops[len(ev.loops)-1]
			if lc.cur != nil {
				lc.cur.Sent = append(lc.cur.Sent, SendRec{Chan: name, V: v, Pos: s.Pos()})
			}
		}
	case *ast.GoStmt:
		if !ev.Pipeline {
			ev.fail(s.Pos(), "go statement outside the sequential pipeline model")
		}
		ev.Spawned = append(ev.Spawned, s.Pos())
		ev.prepareCall(env, s.Call)()
	case *ast.SelectStmt:
		if !ev.Pipeline {
			ev.fail(s.Pos(), "select statement outside the sequential pipeline model")
		}
		return ev.selectStmt(env, s)
	case *ast.DeferStmt:
		// function value, receiver and arguments are evaluated now; the call runs when the enclosing
		// function returns. Close on a file handle without a registered model has no modelled effect.
		if fn, ok := typeutil.Callee(env.pkg.TypesInfo, s.Call).(*types.Func); ok && fn != nil {
			if _, modelled := ev.Extern[fn.FullName()]; !modelled && (fn.FullName() == "(*os.File).Close" || fn.FullName() == "(io.Closer).Close") {
				return ctrl{}
			}
		}
		if env.frame == nil {
			ev.fail(s.Pos(), "defer outside a function activation")
		}
		env.frame.deferred = append(env.frame.deferred, ev.prepareCall(env, s.Call))
	default:
		ev.fail(s.Pos(), "unsupported statement %T", s)
	}
	return ctrl{}
}

func (ev *Evaluator) ifStmt(env *Env, s *ast.IfStmt) ctrl {
	var cond Value
	err := ev.Try(func() { cond = ev.resolve(ev.expr(env, s.Cond)) })
	if err != nil {
		// undecidable condition: only the idiom `if x == c { x = c }` is tolerated
		if s.Else == nil && len(s.Body.List) == 1 {
			if as, ok := s.Body.List[0].(*ast.AssignStmt); ok && as.Tok == token.ASSIGN && len(as.Lhs) == 1 {
				if be, ok := s.Cond.(*ast.BinaryExpr); ok && be.Op == token.EQL {
					info := env.pkg.TypesInfo
					if sameIdent(info, be.X, as.Lhs[0]) {
						if c1, ok1 := info.Types[be.Y]; ok1 && c1.Value != nil {
							if c2, ok2 := info.Types[as.Rhs[0]]; ok2 && c2.Value != nil && c1.Value.ExactString() == c2.Value.ExactString() {
								return ctrl{}
							}
						}
					}
				}
			}
		}
		panic(err)
	}
	b, ok := cond.(bool)
	if !ok {
		ev.fail(s.Cond.Pos(), "non-boolean condition %s", Show(cond))
	}
	if b {
		return ev.block(env.child(), s.Body.List)
	}
	switch el := s.Else.(type) {
	case nil:
	case *ast.BlockStmt:
		return ev.block(env.child(), el.List)
	case *ast.IfStmt:
		e := env.child()
		if el.Init != nil {
			ev.stmt(e, el.Init)
		}
		return ev.ifStmt(e, el)
	}
	return ctrl{}
}

func sameIdent(info *types.Info, a, b ast.Expr) bool {
	ia, ok1 := unparen(a).(*ast.Ident)
	ib, ok2 := unparen(b).(*ast.Ident)
	if !ok1 || !ok2 {
		return false
	}
	oa := info.Uses[ia]
	ob := info.Uses[ib]
	return oa != nil && oa == ob
}

func (ev *Evaluator) assign(env *Env, s *ast.AssignStmt) {
	info := env.pkg.TypesInfo
	if s.Tok != token.ASSIGN && s.Tok != token.DEFINE {
		// op-assign
		r := ev.lvalue(env, s.Lhs[0])
		cur := ev.resolve(r.Get())
		rhs := ev.resolve(ev.expr(env, s.Rhs[0]))
		var op token.Token
		switch s.Tok {
		case token.ADD_ASSIGN:
			op = token.ADD
		case token.SUB_ASSIGN:
			op = token.SUB
		case token.MUL_ASSIGN:
			op = token.MUL
		case token.QUO_ASSIGN:
			op = token.QUO
		case token.REM_ASSIGN:
			op = token.REM
		case token.AND_ASSIGN:
			op = token.AND
		case token.OR_ASSIGN:
			op = token.OR
		case token.XOR_ASSIGN:
			op = token.XOR
		case token.SHL_ASSIGN:
			op = token.SHL
		case token.SHR_ASSIGN:
			op = token.SHR
		case token.AND_NOT_ASSIGN:
			op = token.AND_NOT
		default:
			ev.fail(s.Pos(), "unsupported assignment operator %s", s.Tok)
		}
		r.Set(ev.binop(s.Pos(), op, cur, rhs, info.TypeOf(s.Lhs[0])))
		return
	}
	var vals []Value
	if len(s.Lhs) > 1 && len(s.Rhs) == 1 {
		rhs := unparen(s.Rhs[0])
		switch re := rhs.(type) {
		case *ast.IndexExpr:
			x := ev.resolve(ev.expr(env, re.X))
			idx := ev.resolve(ev.expr(env, re.Index))
			v, ok := ev.index(re.Pos(), x, idx, info.TypeOf(re))
			vals = []Value{v, ok}
		case *ast.TypeAssertExpr:
			v, ok := ev.typeAssert(env, re)
			vals = []Value{v, ok}
		case *ast.UnaryExpr:
			if re.Op == token.ARROW {
				ch, ok := ev.expr(env, re.X).(*ChanVal)
				if !ok {
					ev.fail(re.Pos(), "receive from unknown channel")
				}
				if ch.pos < len(ch.Feed) {
					ch.pos++
					vals = []Value{ch.Feed[ch.pos-1], true}
				} else {
					vals = []Value{Nil{}, false}
				}
			}
		}
		if vals == nil {
			t, ok := ev.resolve(ev.expr(env, s.Rhs[0])).(Tuple)
			if !ok || len(t) != len(s.Lhs) {
				ev.fail(s.Pos(), "tuple arity mismatch in assignment")
			}
			vals = t
		}
	} else {
		for _, r := range s.Rhs {
			vals = append(vals, Copy(ev.resolve(ev.expr(env, r))))
		}
	}
	if s.Tok == token.DEFINE {
		for i, l := range s.Lhs {
			id := l.(*ast.Ident)
			if id.Name == "_" {
				continue
			}
			if obj := info.Defs[id]; obj != nil {
				env.define(obj, Copy(vals[i]))
			} else {
				ev.lvalue(env, l).Set(Copy(vals[i]))
			}
		}
		return
	}
	refs := make([]*Ref, len(s.Lhs))
	for i, l := range s.Lhs {
		refs[i] = ev.lvalue(env, l)
	}
	for i := range refs {
		refs[i].Set(Copy(vals[i]))
	}
}

func (ev *Evaluator) switchStmt(env *Env, s *ast.SwitchStmt) ctrl {
	e := env.child()
	if s.Init != nil {
		ev.stmt(e, s.Init)
	}
	var tag Value
	if s.Tag != nil {
		tag = ev.resolve(ev.expr(e, s.Tag))
	}
	var deflt *ast.CaseClause
	for _, c := range s.Body.List {
		cc := c.(*ast.CaseClause)
		if cc.List == nil {
			deflt = cc
			continue
		}
		for _, ce := range cc.List {
			v := ev.resolve(ev.expr(e, ce))
			match := false
			if s.Tag == nil {
				b, ok := v.(bool)
				if !ok {
					ev.fail(ce.Pos(), "non-boolean case")
				}
				match = b
			} else {
				b, ok := ev.binop(ce.Pos(), token.EQL, tag, v, nil).(bool)
				match = ok && b
			}
			if match {
				return ev.caseBody(e, cc)
			}
		}
	}
	if deflt != nil {
		return ev.caseBody(e, deflt)
	}
	return ctrl{}
}

// selectStmt (pipeline mode): the first receive case whose channel has a value pending is taken; with none
// pending the default clause runs, and without one the select would block - undecided.
func (ev *Evaluator) selectStmt(env *Env, s *ast.SelectStmt) ctrl {
	var deflt *ast.CommClause
	for _, cl := range s.Body.List {
		cc := cl.(*ast.CommClause)
		if cc.Comm == nil {
			deflt = cc
			continue
		}
		var recv *ast.UnaryExpr
		var lhs []ast.Expr
		var define bool
		switch st := cc.Comm.(type) {
		case *ast.ExprStmt:
			recv, _ = unparen(st.X).(*ast.UnaryExpr)
		case *ast.AssignStmt:
			recv, _ = unparen(st.Rhs[0]).(*ast.UnaryExpr)
			lhs, define = st.Lhs, st.Tok == token.DEFINE
		case *ast.SendStmt:
			ev.fail(cc.Pos(), "send case in a select")
		}
		if recv == nil || recv.Op != token.ARROW {
			ev.fail(cc.Pos(), "unsupported select case")
		}
		ch, ok := ev.expr(env, recv.X).(*ChanVal)
		if !ok {
			ev.fail(cc.Pos(), "select on an unknown channel")
		}
		if ch.Pending() == 0 && !ch.Closed {
			continue
		}
		var v Value
		okv := true
		if ch.Pending() > 0 {
			v = ch.Feed[ch.pos]
			ch.pos++
		} else {
			ct, _ := env.pkg.TypesInfo.TypeOf(recv.X).Underlying().(*types.Chan)
			v = ev.zero(cc.Pos(), ct.Elem())
			okv = false
		}
		cenv := env.child()
		for i, l := range lhs {
			val := v
			if i == 1 {
				val = okv
			}
			if id, isID := l.(*ast.Ident); isID && id.Name == "_" {
				continue
			}
			if define {
				if obj := env.pkg.TypesInfo.Defs[l.(*ast.Ident)]; obj != nil {
					cenv.define(obj, val)
				}
			} else {
				ev.lvalue(cenv, l).Set(val)
			}
		}
		c := ev.block(cenv, cc.Body)
		if c.kind == ctrlBreak && c.label == "" {
			return ctrl{}
		}
		return c
	}
	if deflt != nil {
		c := ev.block(env.child(), deflt.Body)
		if c.kind == ctrlBreak && c.label == "" {
			return ctrl{}
		}
		return c
	}
	ev.fail(s.Pos(), "select would block: no case has a value pending in the sequential pipeline model")
	return ctrl{}
}

// typeAssert: x.(T) for an error value whose dynamic type is known (ErrVal.Dyn) or nil.
func (ev *Evaluator) typeAssert(env *Env, e *ast.TypeAssertExpr) (Value, bool) {
	v := ev.resolve(ev.expr(env, e.X))
	info := env.pkg.TypesInfo
	tv, ok := info.Types[e.Type]
	if !ok || !tv.IsType() {
		ev.fail(e.Pos(), "type assertion to an unresolved type")
	}
	want := types.TypeString(tv.Type, nil)
	switch xv := v.(type) {
	case Nil:
		return ev.zero(e.Pos(), tv.Type), false
	case *Handle:
		if xv.Dyn == want {
			return xv, true
		}
		if _, isIface := tv.Type.Underlying().(*types.Interface); isIface {
			ev.fail(e.Pos(), "type assertion to an interface type")
		}
		return ev.zero(e.Pos(), tv.Type), false
	case ErrVal:
		if xv.Dyn == "" {
			ev.fail(e.Pos(), "type assertion on an error of unknown dynamic type")
		}
		if xv.Dyn == want {
			if xv.Concrete != nil {
				return xv.Concrete, true
			}
			return xv, true
		}
		if _, isIface := tv.Type.Underlying().(*types.Interface); isIface {
			ev.fail(e.Pos(), "type assertion to an interface type")
		}
		return ev.zero(e.Pos(), tv.Type), false
	case *StructVal:
		// a struct value taken back out of an interface{} (an element of a container/heap): it is of the asserted type when
		// it has exactly that type's fields (values do not carry their type; two struct types with the same field names
		// held in one interface variable are not told apart - none occur)
		if st, ok := tv.Type.Underlying().(*types.Struct); ok {
			match := st.NumFields() > 0
			for i := 0; i < st.NumFields(); i++ {
				if _, has := xv.F[st.Field(i).Name()]; !has && !st.Field(i).Embedded() {
					match = false
				}
			}
			if match {
				return xv, true
			}
			return ev.zero(e.Pos(), tv.Type), false
		}
	}
	ev.fail(e.Pos(), "type assertion on %s", Show(v))
	return nil, false
}

// typeSwitch supports switches over an error value whose dynamic type is known (ErrVal.Dyn) or nil.
func (ev *Evaluator) typeSwitch(env *Env, s *ast.TypeSwitchStmt) ctrl {
	env = env.child()
	if s.Init != nil {
		ev.stmt(env, s.Init)
	}
	var x ast.Expr
	var bind *ast.Ident
	switch a := s.Assign.(type) {
	case *ast.ExprStmt:
		x = a.X.(*ast.TypeAssertExpr).X
	case *ast.AssignStmt:
		x = a.Rhs[0].(*ast.TypeAssertExpr).X
		bind = a.Lhs[0].(*ast.Ident)
	}
	v := ev.resolve(ev.expr(env, x))
	dyn := ""
	switch xv := v.(type) {
	case Nil:
		dyn = "nil"
	case ErrVal:
		dyn = xv.Dyn
	case *Handle:
		dyn = xv.Dyn
	}
	if dyn == "" {
		ev.fail(s.Pos(), "type switch on a value of unknown dynamic type (%s)", Show(v))
	}
	info := env.pkg.TypesInfo
	var chosen *ast.CaseClause
	for _, st := range s.Body.List {
		cc := st.(*ast.CaseClause)
		if cc.List == nil {
			if chosen == nil {
				chosen = cc
			}
			continue
		}
		for _, te := range cc.List {
			name := "nil"
			if tv, ok := info.Types[te]; ok && tv.IsType() {
				name = types.TypeString(tv.Type, nil)
			}
			if name == dyn {
				chosen = cc
			}
		}
		if chosen != nil && chosen.List != nil {
			break
		}
	}
	if chosen == nil {
		return ctrl{}
	}
	cenv := env.child()
	if bind != nil {
		if obj := info.Implicits[chosen]; obj != nil {
			bound := v
			if e, ok := v.(ErrVal); ok && e.Concrete != nil && chosen.List != nil {
				bound = e.Concrete
			}
			cenv.define(obj, bound)
		}
	}
	return ev.caseBody(cenv, chosen)
}

func (ev *Evaluator) caseBody(env *Env, cc *ast.CaseClause) ctrl {
	for _, st := range cc.Body {
		if b, ok := st.(*ast.BranchStmt); ok && b.Tok == token.FALLTHROUGH {
			ev.fail(b.Pos(), "fallthrough not supported")
		}
	}
	c := ev.block(env.child(), cc.Body)
	if c.kind == ctrlBreak && c.label == "" {
		return ctrl{}
	}
	return c
}

func loopCtl(c ctrl, label string) (stop bool, out ctrl) {
	switch c.kind {
	case ctrlBreak:
		if c.label == "" || c.label == label {
			return true, ctrl{}
		}
		return true, c
	case ctrlContinue:
		if c.label == "" || c.label == label {
			return false, ctrl{}
		}
		return true, c
	case ctrlReturn:
		return true, c
	}
	return false, ctrl{}
}

func (ev *Evaluator) forStmt(env *Env, s *ast.ForStmt, label string) ctrl {
	e := env.child()
	if s.Init != nil {
		ev.stmt(e, s.Init)
	}
	// abstract counted loop: for i := c; i < N; i++ with symbolic N
	if s.Cond != nil {
		if be, ok := unparen(s.Cond).(*ast.BinaryExpr); ok && be.Op == token.LSS {
			if id, ok := unparen(be.X).(*ast.Ident); ok {
				var bound Value
				if err := ev.Try(func() { bound = ev.resolve(ev.expr(e, be.Y)) }); err == nil {
					if bl, ok := bound.(Lin); ok && !bl.IsConst() {
						if inc, ok := s.Post.(*ast.IncDecStmt); ok && inc.Tok == token.INC && sameIdent(e.pkg.TypesInfo, inc.X, id) {
							obj := e.pkg.TypesInfo.Uses[id]
							if v := e.lookup(obj); v != nil {
								if start, ok := v.V.(Lin); ok && start.IsConst() {
									return ev.absLoop(e, s, s.Body, obj, nil, AbsSeq{Name: "", Len: bl}, s.Pos())
								}
							}
						}
					}
				}
			}
		}
	}
	for iter := 0; ; iter++ {
		if s.Cond != nil {
			c := ev.resolve(ev.expr(e, s.Cond))
			b, ok := c.(bool)
			if !ok {
				ev.fail(s.Cond.Pos(), "non-boolean loop condition")
			}
			if !b {
				break
			}
		}
		c := ev.block(e.child(), s.Body.List)
		if stop, out := loopCtl(c, label); stop {
			return out
		}
		if s.Post != nil {
			ev.stmt(e, s.Post)
		}
		if iter > 5_000_000 {
			ev.fail(s.Pos(), "loop iteration budget exhausted")
		}
	}
	return ctrl{}
}

func (ev *Evaluator) rangeStmt(env *Env, s *ast.RangeStmt, label string) ctrl {
	info := env.pkg.TypesInfo
	x := ev.resolve(ev.expr(env, s.X))
	if r, ok := x.(*Ref); ok {
		x = r.Get()
	}
	bind := func(e *Env, target ast.Expr, v Value) {
		if target == nil {
			return
		}
		if id, ok := target.(*ast.Ident); ok {
			if id.Name == "_" {
				return
			}
			if s.Tok == token.DEFINE {
				if obj := info.Defs[id]; obj != nil {
					e.define(obj, Copy(v))
					return
				}
			}
		}
		ev.lvalue(e, target).Set(Copy(v))
	}
	run := func(k, v Value) (bool, ctrl) {
		e := env.child()
		bind(e, s.Key, k)
		bind(e, s.Value, v)
		c := ev.block(e, s.Body.List)
		return loopCtl(c, label)
	}
	switch xv := x.(type) {
	case Slice, ArrayVal:
		var es []Value
		if a, ok := xv.(ArrayVal); ok {
			es = append(es, a.A.E...)
		} else {
			es = xv.(Slice).Elems()
		}
		n := len(es)
		for i := 0; i < n; i++ {
			if stop, out := run(K(int64(i)), es[i]); stop {
				return out
			}
		}
	case Nil:
	case Str:
		if !xv.IsConst() {
			ev.fail(s.Pos(), "range over symbolic string")
		}
		for i, r := range xv.Const() {
			if stop, out := run(K(int64(i)), K(int64(r))); stop {
				return out
			}
		}
	case *MapVal:
		keys := append([]string{}, xv.Keys...)
		if ev.MapReverse {
			for i, j := 0, len(keys)-1; i < j; i, j = i+1, j-1 {
				keys[i], keys[j] = keys[j], keys[i]
			}
		}
		for _, k := range keys {
			v, present := xv.M[k]
			if !present {
				continue
			}
			if stop, out := run(xv.K[k], v); stop {
				return out
			}
		}
	case *ChanVal:
		for xv.pos < len(xv.Feed) {
			v := xv.Feed[xv.pos]
			xv.pos++
			if stop, out := run(v, nil); stop {
				return out
			}
		}
	case Lin:
		if !xv.IsConst() {
			var keyObj types.Object
			if id, ok := s.Key.(*ast.Ident); ok && id.Name != "_" {
				keyObj = info.Defs[id]
			}
			return ev.absLoop(env, s, s.Body, keyObj, nil, AbsSeq{Name: "", Len: xv}, s.Pos())
		}
		for i := int64(0); i < xv.C; i++ {
			if stop, out := run(K(i), nil); stop {
				return out
			}
		}
	case AbsSeq:
		var keyObj, valObj types.Object
		if id, ok := s.Key.(*ast.Ident); ok && id.Name != "_" {
			keyObj = info.Defs[id]
			if keyObj == nil {
				keyObj = info.Uses[id]
			}
		}
		if s.Value != nil {
			if id, ok := s.Value.(*ast.Ident); ok && id.Name != "_" {
				valObj = info.Defs[id]
				if valObj == nil {
					valObj = info.Uses[id]
				}
			}
		}
		return ev.absLoop(env, s, s.Body, keyObj, valObj, xv, s.Pos())
	default:
		ev.fail(s.Pos(), "range over %s", Show(x))
	}
	return ctrl{}
}

// ---------------------------------------------------------------- choice frames

type choiceRec struct {
	tag string
	n   int
	idx int
}

type frame struct {
	choices []choiceRec
	memo    map[string]int
	vals    map[string]Value
	loop    *loopCtx
}

// Choose returns one of opts for tag; all combinations are explored by the
// enclosing Enumerate/abstract-loop driver.
func (ev *Evaluator) Choose(tag string, opts []Value) Value {
	if len(opts) == 0 {
		ev.fail(token.NoPos, "empty domain for %s", tag)
	}
	// existing choice in any frame?
	for _, f := range ev.frames {
		if i, ok := f.memo[tag]; ok {
			return opts[f.choices[i].idx]
		}
	}
	if len(ev.frames) == 0 {
		ev.fail(token.NoPos, "choice %s outside an enumeration", tag)
	}
	// owner: frame named in the tag ("...@L<n>") or innermost
	owner := ev.frames[len(ev.frames)-1]
	for _, f := range ev.frames {
		if f.loop != nil && tagOwnedBy(tag, f.loop) {
			owner = f
		}
	}
	pos := len(owner.memo)
	if pos < len(owner.choices) {
		if owner.choices[pos].tag != tag {
			ev.fail(token.NoPos, "choice order diverged: %s vs %s", owner.choices[pos].tag, tag)
		}
	} else {
		owner.choices = append(owner.choices, choiceRec{tag: tag, n: len(opts), idx: 0})
	}
	owner.memo[tag] = pos
	if owner.vals == nil {
		owner.vals = map[string]Value{}
	}
	owner.vals[tag] = opts[owner.choices[pos].idx]
	return opts[owner.choices[pos].idx]
}

func tagOwnedBy(tag string, l *loopCtx) bool {
	return len(tag) >= len(l.suffix) && tag[len(tag)-len(l.suffix):] == l.suffix
}

func (f *frame) next() bool {
	// drop choices not reached in the last run
	f.choices = f.choices[:len(f.memo)]
	for len(f.choices) > 0 {
		last := &f.choices[len(f.choices)-1]
		if last.idx+1 < last.n {
			last.idx++
			return true
		}
		f.choices = f.choices[:len(f.choices)-1]
	}
	return false
}

func (f *frame) snapshot(optsOf func(tag string, idx int) Value) map[string]Value {
	out := map[string]Value{}
	for tag, i := range f.memo {
		out[tag] = optsOf(tag, f.choices[i].idx)
	}
	return out
}

// TopRun is one global enumeration result.
type TopRun struct {
	Choices map[string]int
	Picked  map[string]Value
	Result  Value
	Err     error
}

// Enumerate explores every combination of top-level choices made by run.
func (ev *Evaluator) Enumerate(run func() Value) []TopRun {
	f := &frame{memo: map[string]int{}}
	ev.frames = append(ev.frames, f)
	defer func() { ev.frames = ev.frames[:len(ev.frames)-1] }()
	var out []TopRun
	nloop0 := ev.nloop
	for {
		f.memo = map[string]int{}
		ev.nloop = nloop0
		var res Value
		nf := len(ev.frames)
		nl := len(ev.loops)
		err := ev.Try(func() { res = run() })
		ev.frames = ev.frames[:nf]
		ev.loops = ev.loops[:nl]
		ch := map[string]int{}
		pk := map[string]Value{}
		for tag, i := range f.memo {
			ch[tag] = f.choices[i].idx
			pk[tag] = f.vals[tag]
		}
		out = append(out, TopRun{Choices: ch, Picked: pk, Result: res, Err: err})
		if !f.next() {
			break
		}
		if len(out) > 200000 {
			break
		}
	}
	return out
}

// ---------------------------------------------------------------- abstract loops

type loopCtx struct {
	id     int
	idx    string // index symbol
	suffix string
	cur    *LoopRun
	stores map[string]Value // element stores of the current run
}

// LoopRun is the effect of one abstract execution of a loop body.
type LoopRun struct {
	Choices map[string]int   // tag -> option index
	Picked  map[string]Value // tag -> chosen value
	Final   map[string]Value // carried variable name -> value after the body
	Stores  map[string]Value // abstract element stores: "seq[index]" -> value
	Sent    []SendRec
	Ctrl    string // "", "break", "continue", "return"
	Ret     Value
	Err     error
}

// LoopSummary is the per-iteration transfer function of an abstract loop.
type LoopSummary struct {
	ID      int
	Pos     token.Pos
	Node    ast.Node
	Seq     string
	Index   string            // the index symbol
	Carried []string          // names of loop-carried variables
	In      map[string]string // carried variable -> symbol of its value at iteration entry
	Entry   map[string]Value  // carried variable -> concrete value before the loop
	Post    map[string]string // carried variable -> symbol after the loop
	Runs    []*LoopRun
}

func (ev *Evaluator) absElem(pos token.Pos, s AbsSeq, idx Lin) Value {
	if s.Fill != nil {
		return s.Fill.V
	}
	at := s.Off.Add(idx)
	key := fmt.Sprintf("%s[%s]", s.Name, at)
	// a store in the current run wins
	for i := len(ev.loops) - 1; i >= 0; i-- {
		if v, ok := ev.loops[i].stores[key]; ok {
			return v
		}
	}
	var dom []Value
	if ev.Domain != nil {
		dom = ev.Domain(s)
	}
	if dom == nil {
		// no finite domain: the element stays symbolic
		return Sym(key)
	}
	// the element must be addressed by the index of an enclosing abstract loop
	var owner *loopCtx
	for _, l := range ev.loops {
		if _, ok := at.T[l.idx]; ok {
			owner = l
		}
	}
	if owner == nil {
		if at.IsConst() && len(ev.frames) > 0 {
			return ev.Choose(key, dom)
		}
		ev.fail(pos, "read of abstract element %s not addressed by a loop index", key)
	}
	return ev.Choose(key+owner.suffix, dom)
}

func (ev *Evaluator) absStore(pos token.Pos, s AbsSeq, idx Lin, v Value) {
	at := s.Off.Add(idx)
	key := fmt.Sprintf("%s[%s]", s.Name, at)
	if len(ev.loops) == 0 {
		ev.fail(pos, "store to abstract element %s outside an abstract loop", key)
	}
	l := ev.loops[len(ev.loops)-1]
	l.stores[key] = v
	if l.cur != nil {
		l.cur.Stores[key] = v
	}
}

// carriedVars finds variables declared outside body and assigned inside it.
func carriedVars(info *types.Info, body *ast.BlockStmt) ([]types.Object, map[types.Object]bool) {
	seen := map[types.Object]bool{}
	whole := map[types.Object]bool{}
	var out []types.Object
	add := func(e ast.Expr) {
		direct := true
		for {
			switch x := e.(type) {
			case *ast.ParenExpr:
				e = x.X
				continue
			case *ast.IndexExpr:
				e = x.X
				direct = false
				continue
			case *ast.SelectorExpr:
				e = x.X
				continue
			case *ast.StarExpr:
				e = x.X
				continue
			}
			break
		}
		id, ok := e.(*ast.Ident)
		if !ok || id.Name == "_" {
			return
		}
		if direct {
			if o := info.Uses[id]; o != nil {
				whole[o] = true
			}
		}
		obj := info.Uses[id]
		if obj == nil {
			return
		}
		if _, ok := obj.(*types.Var); !ok {
			return
		}
		if obj.Pos() >= body.Pos() && obj.Pos() <= body.End() {
			return
		}
		if !seen[obj] {
			seen[obj] = true
			out = append(out, obj)
		}
	}
	ast.Inspect(body, func(n ast.Node) bool {
		switch s := n.(type) {
		case *ast.AssignStmt:
			if s.Tok != token.DEFINE {
				for _, l := range s.Lhs {
					add(l)
				}
			} else {
				for _, l := range s.Lhs {
					if id, ok := l.(*ast.Ident); ok && info.Defs[id] == nil {
						add(l)
					}
				}
			}
		case *ast.IncDecStmt:
			add(s.X)
		case *ast.RangeStmt:
			if s.Tok == token.ASSIGN {
				if s.Key != nil {
					add(s.Key)
				}
				if s.Value != nil {
					add(s.Value)
				}
			}
		case *ast.UnaryExpr:
			if s.Op == token.AND {
				add(s.X)
			}
		}
		return true
	})
	elemOnly := map[types.Object]bool{}
	for _, o := range out {
		if !whole[o] {
			elemOnly[o] = true
		}
	}
	return out, elemOnly
}

func (ev *Evaluator) abstractInit(pos token.Pos, name string, t types.Type, entry Value, lc *loopCtx) Value {
	sym := name + "@in" + lc.suffix
	switch u := t.Underlying().(type) {
	case *types.Basic:
		switch {
		case u.Info()&types.IsInteger != 0:
			return Sym(sym)
		case u.Info()&types.IsFloat != 0:
			return FSym(sym)
		case u.Info()&types.IsString != 0:
			return SSym(sym)
		case u.Info()&types.IsBoolean != 0:
			return &Lazy{Tag: sym, Opts: []Value{false, true}}
		}
	case *types.Slice:
		return ListVal{Base: sym}
	case *types.Array:
		e := make([]Value, u.Len())
		for i := range e {
			e[i] = ev.abstractInit(pos, fmt.Sprintf("%s[%d]", name, i), u.Elem(), nil, lc)
		}
		return ArrayVal{A: &Arr{E: e}}
	case *types.Struct:
		sv := &StructVal{T: t, F: map[string]Value{}}
		var es *StructVal
		if entry != nil {
			es, _ = entry.(*StructVal)
		}
		for i := 0; i < u.NumFields(); i++ {
			f := u.Field(i)
			var fe Value
			if es != nil {
				fe = es.F[f.Name()]
			}
			sv.F[f.Name()] = ev.abstractInit(pos, name+"."+f.Name(), f.Type(), fe, lc)
		}
		return sv
	case *types.Map:
		if entry != nil {
			return DeepCopy(entry)
		}
	}
	if entry != nil {
		return DeepCopy(entry)
	}
	return Opaque{Why: "loop-carried " + name}
}

func (ev *Evaluator) havoc(name string, t types.Type, lc *loopCtx, cur Value) Value {
	sym := name + "@post" + lc.suffix
	switch u := t.Underlying().(type) {
	case *types.Basic:
		switch {
		case u.Info()&types.IsInteger != 0:
			return Sym(sym)
		case u.Info()&types.IsFloat != 0:
			return FSym(sym)
		case u.Info()&types.IsString != 0:
			return SSym(sym)
		case u.Info()&types.IsBoolean != 0:
			return &Lazy{Tag: sym, Opts: []Value{false, true}}
		}
	case *types.Slice:
		return ListVal{Base: sym}
	case *types.Array:
		e := make([]Value, u.Len())
		for i := range e {
			e[i] = ev.havoc(fmt.Sprintf("%s[%d]", name, i), u.Elem(), lc, nil)
		}
		return ArrayVal{A: &Arr{E: e}}
	case *types.Struct:
		sv := &StructVal{T: t, F: map[string]Value{}}
		for i := 0; i < u.NumFields(); i++ {
			f := u.Field(i)
			sv.F[f.Name()] = ev.havoc(name+"."+f.Name(), f.Type(), lc, nil)
		}
		return sv
	}
	return Opaque{Why: "after loop: " + name}
}

func (ev *Evaluator) absLoop(env *Env, node ast.Node, body *ast.BlockStmt, keyObj, valObj types.Object, seq AbsSeq, pos token.Pos) ctrl {
	info := env.pkg.TypesInfo
	ev.nloop++
	lc := &loopCtx{id: ev.nloop}
	lc.idx = fmt.Sprintf("i#%d", lc.id)
	lc.suffix = fmt.Sprintf("@L%d", lc.id)
	carried, elemOnly := carriedVars(info, body)
	// keep only variables visible in env (others belong to closures defined elsewhere)
	var cvars []*Var
	for _, o := range carried {
		if o == keyObj || o == valObj {
			continue
		}
		if v := env.lookup(o); v != nil {
			if _, isAbs := v.V.(AbsSeq); isAbs && elemOnly[o] {
				continue // element stores into an abstract sequence are recorded, the variable itself is unchanged
			}
			cvars = append(cvars, v)
		}
	}
	sum := &LoopSummary{ID: lc.id, Pos: pos, Node: node, Seq: seq.Name, Index: lc.idx, In: map[string]string{}, Entry: map[string]Value{}, Post: map[string]string{}}
	entry := map[*Var]Value{}
	for _, v := range cvars {
		entry[v] = v.V
		sum.Carried = append(sum.Carried, v.Obj.Name())
		sum.In[v.Obj.Name()] = v.Obj.Name() + "@in" + lc.suffix
		sum.Entry[v.Obj.Name()] = v.V
		sum.Post[v.Obj.Name()] = v.Obj.Name() + "@post" + lc.suffix
	}
	sort.Strings(sum.Carried)
	f := &frame{memo: map[string]int{}, loop: lc}
	ev.frames = append(ev.frames, f)
	ev.loops = append(ev.loops, lc)
	nf, nl := len(ev.frames), len(ev.loops)
	picked := map[string]Value{}
	domOf := func(tag string) []Value { return nil }
	_ = domOf
	for {
		f.memo = map[string]int{}
		lc.stores = map[string]Value{}
		run := &LoopRun{Choices: map[string]int{}, Picked: map[string]Value{}, Final: map[string]Value{}, Stores: map[string]Value{}}
		lc.cur = run
		for _, v := range cvars {
			v.V = ev.abstractInit(pos, v.Obj.Name(), v.Obj.Type(), entry[v], lc)
		}
		var c ctrl
		err := ev.Try(func() {
			e := env.child()
			if keyObj != nil {
				if kv := env.lookup(keyObj); kv != nil {
					kv.V = Sym(lc.idx)
				} else {
					e.define(keyObj, Sym(lc.idx))
				}
			}
			if valObj != nil {
				v := ev.absElem(pos, seq, Sym(lc.idx))
				if vv := env.lookup(valObj); vv != nil {
					vv.V = v
				} else {
					e.define(valObj, v)
				}
			}
			c = ev.block(e, body.List)
		})
		ev.frames = ev.frames[:nf]
		ev.loops = ev.loops[:nl]
		run.Err = err
		switch c.kind {
		case ctrlBreak:
			run.Ctrl = "break"
		case ctrlContinue:
			run.Ctrl = "continue"
		case ctrlReturn:
			run.Ctrl = "return"
			run.Ret = c.val
		}
		for _, v := range cvars {
			fv := v.V
			if l, ok := fv.(*Lazy); ok {
				// untouched boolean: report its (possibly unchosen) entry value
				if i, ok := f.memo[l.Tag]; ok {
					fv = l.Opts[f.choices[i].idx]
				}
			}
			run.Final[v.Obj.Name()] = fv
		}
		for tag, i := range f.memo {
			run.Choices[tag] = f.choices[i].idx
			run.Picked[tag] = f.vals[tag]
		}
		_ = picked
		sum.Runs = append(sum.Runs, run)
		lc.cur = nil
		if !f.next() {
			break
		}
		if len(sum.Runs) > 100000 {
			break
		}
	}
	ev.frames = ev.frames[:nf-1]
	ev.loops = ev.loops[:nl-1]
	// fill-loop recognition: every run stores the same constant at seq[index]
	if seq.Fill != nil {
		key := fmt.Sprintf("%s[%s]", seq.Name, seq.Off.Add(Sym(lc.idx)))
		var c Value
		same := len(sum.Runs) > 0
		for _, r := range sum.Runs {
			v, ok := r.Stores[key]
			if !ok || r.Err != nil || r.Ctrl != "" {
				same = false
				break
			}
			if c == nil {
				c = v
			} else if Show(c) != Show(v) {
				same = false
			}
		}
		if same {
			if l, ok := c.(Lin); ok && l.IsConst() {
				seq.Fill.V = c
			} else {
				seq.Fill.V = Opaque{Why: "non-constant fill"}
			}
		} else if len(sum.Runs) > 0 {
			for _, r := range sum.Runs {
				if len(r.Stores) > 0 {
					seq.Fill.V = Opaque{Why: "irregular fill"}
				}
			}
		}
	}
	// after the loop the carried variables hold unknown values
	for _, v := range cvars {
		v.V = ev.havoc(v.Obj.Name(), v.Obj.Type(), lc, entry[v])
	}
	if keyObj != nil {
		if kv := env.lookup(keyObj); kv != nil {
			kv.V = Sym(lc.idx + "@end")
		}
	}
	ev.Loops = append(ev.Loops, sum)
	// an abstract run that returns makes the continuation path-dependent; the
	// caller (rule) inspects run.Ctrl, the continuation assumes normal exit.
	return ctrl{}
}
