// Package eval is an abstract interpreter for the pure fragments of the
// repository's Go source (type-checked syntax trees). Its value domain mixes
// constants with symbolic linear integer forms, symbolic float expressions,
// symbolic strings and abstract byte sequences. It is used to extract constant
// tables, to derive per-column transfer functions of loop bodies over finite
// symbol domains, and to normalise index arithmetic. It never executes compiled
// code and knows nothing about the repository except what it reads from the
// syntax trees handed to it.
package eval

import (
	"fmt"
	"go/token"
	"go/types"
	"sort"
	"strings"
)

type Value interface{}

// ---------------------------------------------------------------- integers: linear forms

// Lin is an integer value: constant plus a linear combination of symbols.
type Lin struct {
	C int64
	T map[string]int64
}

func K(c int64) Lin { return Lin{C: c} }
func Sym(name string) Lin {
	return Lin{T: map[string]int64{name: 1}}
}
func (a Lin) IsConst() bool { return len(a.T) == 0 }
func (a Lin) Add(b Lin) Lin {
	r := Lin{C: a.C + b.C}
	if len(a.T)+len(b.T) > 0 {
		r.T = map[string]int64{}
		for k, v := range a.T {
			r.T[k] += v
		}
		for k, v := range b.T {
			r.T[k] += v
			if r.T[k] == 0 {
				delete(r.T, k)
			}
		}
		if len(r.T) == 0 {
			r.T = nil
		}
	}
	return r
}
func (a Lin) Scale(k int64) Lin {
	if k == 0 {
		return Lin{}
	}
	r := Lin{C: a.C * k}
	if len(a.T) > 0 {
		r.T = map[string]int64{}
		for s, v := range a.T {
			r.T[s] = v * k
		}
	}
	return r
}
func (a Lin) Neg() Lin      { return a.Scale(-1) }
func (a Lin) Sub(b Lin) Lin { return a.Add(b.Neg()) }
func (a Lin) Eq(b Lin) bool { d := a.Sub(b); return d.IsConst() && d.C == 0 }
func (a Lin) String() string {
	if a.IsConst() {
		return fmt.Sprint(a.C)
	}
	keys := make([]string, 0, len(a.T))
	for k := range a.T {
		keys = append(keys, k)
	}
	sort.Strings(keys)
	var sb strings.Builder
	for i, k := range keys {
		v := a.T[k]
		switch {
		case v == 1 && i == 0:
			sb.WriteString(k)
		case v == 1:
			sb.WriteString("+" + k)
		case v == -1:
			sb.WriteString("-" + k)
		case v > 0 && i > 0:
			fmt.Fprintf(&sb, "+%d*%s", v, k)
		default:
			fmt.Fprintf(&sb, "%d*%s", v, k)
		}
	}
	if a.C > 0 {
		fmt.Fprintf(&sb, "+%d", a.C)
	} else if a.C < 0 {
		fmt.Fprintf(&sb, "%d", a.C)
	}
	return sb.String()
}

// ---------------------------------------------------------------- floats: expression trees

type FExpr struct {
	Op   string // "const", "sym", "int" (int->float conversion of a Lin), "+", "-", "*", "/", "neg", "log"
	C    float64
	Name string
	I    Lin
	A, B *FExpr
}

func FConst(c float64) *FExpr { return &FExpr{Op: "const", C: c} }
func FSym(n string) *FExpr    { return &FExpr{Op: "sym", Name: n} }
func FInt(l Lin) *FExpr {
	if l.IsConst() {
		return FConst(float64(l.C))
	}
	return &FExpr{Op: "int", I: l}
}
func (f *FExpr) IsConst() bool { return f.Op == "const" }
func (f *FExpr) String() string {
	switch f.Op {
	case "const":
		return fmt.Sprint(f.C)
	case "sym":
		return f.Name
	case "int":
		return "float(" + f.I.String() + ")"
	case "neg":
		return "-(" + f.A.String() + ")"
	case "log":
		return "log(" + f.A.String() + ")"
	}
	if f == nil {
		return "<nil>"
	}
	switch f.Op {
	case "+", "-", "*", "/":
		return "(" + f.A.String() + f.Op + f.B.String() + ")"
	}
	// an uninterpreted function (floor, round, min, ...)
	if f.B != nil {
		return f.Op + "(" + f.A.String() + ", " + f.B.String() + ")"
	}
	if f.A != nil {
		return f.Op + "(" + f.A.String() + ")"
	}
	return f.Op + "()"
}

// ---------------------------------------------------------------- strings

type StrPart struct {
	Lit  string
	Itoa *Lin   // decimal rendering of an integer form
	Sym  string // opaque symbolic string
}

type Str struct{ Parts []StrPart }

func S(lit string) Str  { return Str{Parts: []StrPart{{Lit: lit}}} }
func SSym(n string) Str { return Str{Parts: []StrPart{{Sym: n}}} }
func (s Str) norm() Str {
	var out []StrPart
	for _, p := range s.Parts {
		if p.Itoa != nil && p.Itoa.IsConst() {
			p = StrPart{Lit: fmt.Sprint(p.Itoa.C)}
		}
		if p.Itoa == nil && p.Sym == "" {
			if p.Lit == "" {
				continue
			}
			if n := len(out); n > 0 && out[n-1].Itoa == nil && out[n-1].Sym == "" {
				out[n-1].Lit += p.Lit
				continue
			}
		}
		out = append(out, p)
	}
	return Str{Parts: out}
}
func (s Str) Concat(t Str) Str {
	return Str{Parts: append(append([]StrPart{}, s.Parts...), t.Parts...)}.norm()
}
func (s Str) IsConst() bool {
	n := s.norm()
	return len(n.Parts) == 0 || (len(n.Parts) == 1 && n.Parts[0].Itoa == nil && n.Parts[0].Sym == "")
}
func (s Str) Const() string {
	n := s.norm()
	if len(n.Parts) == 0 {
		return ""
	}
	return n.Parts[0].Lit
}
func (s Str) String() string {
	var sb strings.Builder
	for _, p := range s.norm().Parts {
		switch {
		case p.Itoa != nil:
			sb.WriteString("{" + p.Itoa.String() + "}")
		case p.Sym != "":
			sb.WriteString("<" + p.Sym + ">")
		default:
			sb.WriteString(p.Lit)
		}
	}
	return sb.String()
}
func (s Str) Eq(t Str) bool { return s.String() == t.String() }

// ---------------------------------------------------------------- aggregates

// Arr is a mutable backing store shared by slices.
type Arr struct{ E []Value }

// Slice is a concrete slice view.
type Slice struct {
	A      *Arr
	Lo, Hi int
}

func (s Slice) Len() int { return s.Hi - s.Lo }
func (s Slice) Elems() []Value {
	if s.A == nil {
		return nil
	}
	return s.A.E[s.Lo:s.Hi]
}
func NewSlice(vs ...Value) Slice { return Slice{A: &Arr{E: vs}, Lo: 0, Hi: len(vs)} }

// ArrayVal is a fixed-size array value (copied on assignment).
type ArrayVal struct{ A *Arr }

// AbsSeq is an abstract sequence: element i stands for Name[Off+i]; Len is symbolic.
// Elements are read through the evaluator's choice mechanism.
type AbsSeq struct {
	Name string
	Off  Lin
	Len  Lin
	// Fill != nil: every element is this constant (result of make + fill loop).
	Fill *FillState
}

// FillState is shared so that a fill loop updates every view of the sequence.
type FillState struct{ V Value }

// CatSeq is a concatenation of sequence pieces (AbsSeq, Slice, CatSeq).
type CatSeq struct{ Parts []Value }

// ListVal is an abstract list with a symbolic prefix and a concrete appended suffix.
type ListVal struct {
	Base string
	App  []Value
}

type MapVal struct {
	Keys []string // insertion order of rendered keys
	M    map[string]Value
	K    map[string]Value
	// IsNil: the zero value of a map type (reads find nothing; it compares equal to nil)
	IsNil bool
}

func NewMap() *MapVal { return &MapVal{M: map[string]Value{}, K: map[string]Value{}} }
func keyStr(k Value) (string, bool) {
	switch k := k.(type) {
	case Lin:
		if k.IsConst() {
			return fmt.Sprintf("i:%d", k.C), true
		}
	case Str:
		if k.IsConst() {
			return "s:" + k.Const(), true
		}
	case bool:
		return fmt.Sprintf("b:%v", k), true
	case *StructVal:
		// struct keys: every field must itself be a constant key
		names := make([]string, 0, len(k.F))
		for n := range k.F {
			names = append(names, n)
		}
		sort.Strings(names)
		var sb strings.Builder
		sb.WriteString("st:")
		for _, n := range names {
			fs, ok := keyStr(k.F[n])
			if !ok {
				return "", false
			}
			sb.WriteString(n + "=" + fs + ";")
		}
		return sb.String(), true
	case *FExpr:
		if k.IsConst() {
			return fmt.Sprintf("f:%v", k.C), true
		}
	}
	return "", false
}
func (m *MapVal) Get(k Value) (Value, bool, bool) {
	ks, ok := keyStr(k)
	if !ok {
		return nil, false, false
	}
	v, present := m.M[ks]
	return v, present, true
}
func (m *MapVal) Set(k, v Value) bool {
	ks, ok := keyStr(k)
	if !ok {
		return false
	}
	if _, present := m.M[ks]; !present {
		m.Keys = append(m.Keys, ks)
		m.K[ks] = k
	}
	m.M[ks] = v
	return true
}
func (m *MapVal) Delete(k Value) bool {
	ks, ok := keyStr(k)
	if !ok {
		return false
	}
	if _, present := m.M[ks]; present {
		delete(m.M, ks)
		delete(m.K, ks)
		for i, x := range m.Keys {
			if x == ks {
				m.Keys = append(m.Keys[:i:i], m.Keys[i+1:]...)
				break
			}
		}
	}
	return true
}

type StructVal struct {
	T types.Type
	F map[string]Value
}

// Ref is an assignable location.
type Ref struct {
	Get func() Value
	Set func(Value)
	// Typ is the static type of the pointer expression that made the reference (when known): the dynamic type of an
	// interface value that holds it, used to dispatch interface method calls (container/heap on a repository type)
	Typ types.Type
}

// ErrVal is a non-nil error; Dyn optionally names its dynamic type (for type switches).
type ErrVal struct {
	Msg Str
	Dyn string
	// Concrete, when set, is the value a type switch binds for the dynamic type (e.g. a *fs.PathError model).
	Concrete Value
}
type Nil struct{}

// Opaque is a value nothing is known about; using it in an operation is undecidable.
type Opaque struct{ Why string }

type Tuple []Value

// BytesOf is []byte(s) for a (possibly symbolic) string s.
type BytesOf struct{ S Str }

// Lazy is a not-yet-chosen value (loop-carried boolean state).
type Lazy struct {
	Tag  string
	Opts []Value
}

// Handle is an opaque object (a file, a reader) whose dynamic type is known: type switches and assertions on
// it are decidable, everything else about it is left to the models.
type Handle struct {
	Dyn string // e.g. "*os.File"
	Tag string
}

// ChanVal models a channel as a feed of values to yield and a log of values sent.
type ChanVal struct {
	Name string
	Feed []Value
	pos  int
	Sent []Value
	// Queue: a channel made by the interpreted code in pipeline mode: what is sent becomes receivable.
	Queue  bool
	Closed bool
	Pos    token.Pos
	// OnSend, when set, is called at each send on this channel (harnesses use it to order a completion signal against
	// the writes made before and after it)
	OnSend func(v Value)
}

// Pending reports how many values can still be received.
func (c *ChanVal) Pending() int { return len(c.Feed) - c.pos }

func Show(v Value) string {
	switch v := v.(type) {
	case nil:
		return "<nil>"
	case Lin:
		return v.String()
	case Str:
		return "\"" + v.String() + "\""
	case *FExpr:
		return v.String()
	case bool:
		return fmt.Sprint(v)
	case Slice:
		parts := []string{}
		for _, e := range v.Elems() {
			parts = append(parts, Show(e))
		}
		return "[" + strings.Join(parts, " ") + "]"
	case ArrayVal:
		return fmt.Sprintf("array(%d)", len(v.A.E))
	case AbsSeq:
		if v.Fill != nil {
			return fmt.Sprintf("fill(%s,n=%s)", Show(v.Fill.V), v.Len)
		}
		return fmt.Sprintf("%s[%s:+%s]", v.Name, v.Off, v.Len)
	case CatSeq:
		parts := []string{}
		for _, e := range v.Parts {
			parts = append(parts, Show(e))
		}
		return "cat(" + strings.Join(parts, ", ") + ")"
	case ListVal:
		parts := []string{}
		for _, e := range v.App {
			parts = append(parts, Show(e))
		}
		return v.Base + "++[" + strings.Join(parts, " ") + "]"
	case *StructVal:
		keys := []string{}
		for k := range v.F {
			keys = append(keys, k)
		}
		sort.Strings(keys)
		parts := []string{}
		for _, k := range keys {
			parts = append(parts, k+":"+Show(v.F[k]))
		}
		return "{" + strings.Join(parts, " ") + "}"
	case *MapVal:
		return fmt.Sprintf("map(%d)", len(v.M))
	case ErrVal:
		return "error(" + v.Msg.String() + ")"
	case Nil:
		return "nil"
	case Opaque:
		return "opaque(" + v.Why + ")"
	case Tuple:
		parts := []string{}
		for _, e := range v {
			parts = append(parts, Show(e))
		}
		return "(" + strings.Join(parts, ", ") + ")"
	case BytesOf:
		return "bytes(" + v.S.String() + ")"
	case *Lazy:
		return "lazy(" + v.Tag + ")"
	case *FuncVal:
		return "func"
	case *Handle:
		return v.Tag
	case *ChanVal:
		return "chan(" + v.Name + ")"
	}
	return fmt.Sprintf("%T", v)
}

// Copy makes a value-semantics copy (arrays and structs are copied, slices/maps share).
func Copy(v Value) Value {
	switch v := v.(type) {
	case ArrayVal:
		e := make([]Value, len(v.A.E))
		for i, x := range v.A.E {
			e[i] = Copy(x)
		}
		return ArrayVal{A: &Arr{E: e}}
	case *StructVal:
		n := &StructVal{T: v.T, F: map[string]Value{}}
		for k, x := range v.F {
			n.F[k] = Copy(x)
		}
		return n
	}
	return v
}

// DeepCopy copies slices and maps as well (used to isolate loop-body runs).
func DeepCopy(v Value) Value {
	switch v := v.(type) {
	case ArrayVal:
		e := make([]Value, len(v.A.E))
		for i, x := range v.A.E {
			e[i] = DeepCopy(x)
		}
		return ArrayVal{A: &Arr{E: e}}
	case Slice:
		if v.A == nil {
			return v
		}
		e := make([]Value, v.Len())
		for i, x := range v.Elems() {
			e[i] = DeepCopy(x)
		}
		return Slice{A: &Arr{E: e}, Lo: 0, Hi: len(e)}
	case *StructVal:
		n := &StructVal{T: v.T, F: map[string]Value{}}
		for k, x := range v.F {
			n.F[k] = DeepCopy(x)
		}
		return n
	case *MapVal:
		n := NewMap()
		for _, k := range v.Keys {
			n.Keys = append(n.Keys, k)
			n.M[k] = DeepCopy(v.M[k])
			n.K[k] = v.K[k]
		}
		return n
	case ListVal:
		return ListVal{Base: v.Base, App: append([]Value{}, v.App...)}
	}
	return v
}
