package eval

import (
	"bytes"
	"fmt"
	"go/ast"
	"go/constant"
	"go/token"
	"go/types"
	"math"
	"net/url"
	"path"
	"sort"
	"strconv"
	"strings"
	"unicode/utf8"

	"golang.org/x/tools/go/packages"
	"golang.org/x/tools/go/types/typeutil"
)

// EvalError reports a construct the evaluator cannot decide.
type EvalError struct {
	Pos token.Pos
	Msg string
}

func (e *EvalError) Error() string { return e.Msg }

type Var struct {
	Obj types.Object
	V   Value
}

type Env struct {
	vars   map[types.Object]*Var
	parent *Env
	pkg    *packages.Package
	frame  *activation // the function activation this scope belongs to
}

// activation holds the deferred calls of one function activation.
type activation struct {
	deferred []func() Value
}

func (e *Env) child() *Env {
	return &Env{vars: map[types.Object]*Var{}, parent: e, pkg: e.pkg, frame: e.frame}
}
func (e *Env) lookup(o types.Object) *Var {
	for x := e; x != nil; x = x.parent {
		if v, ok := x.vars[o]; ok {
			return v
		}
	}
	return nil
}
func (e *Env) define(o types.Object, v Value) *Var {
	nv := &Var{Obj: o, V: v}
	e.vars[o] = nv
	return nv
}

type FuncVal struct {
	Decl *ast.FuncDecl
	Lit  *ast.FuncLit
	Env  *Env
	Pkg  *packages.Package
	Recv Value
	Fn   *types.Func
	// Native is set for evaluator-provided functions.
	Native func(ev *Evaluator, args []Value) Value
}

type ExternFn func(ev *Evaluator, pos token.Pos, recv Value, args []Value) Value

type Evaluator struct {
	// PreCall / PostCall see the arguments before, and the arguments and result after, every top-level CallFunc
	// (the rules use them to present structs with embedded structs flat to their harnesses).
	PreCall  func(args []Value)
	PostCall func(args []Value, res Value)
	Fset     *token.FileSet
	FuncDecl func(*types.Func) (*ast.FuncDecl, *packages.Package)
	Extern   map[string]ExternFn
	// Pipeline: sequential pipeline model. `go f(x)` runs f(x) to completion at the go statement, channels made
	// by the code are queues (a send makes the value receivable), `select` takes the first case whose channel
	// has a value pending. Sound only for code whose stages are stubbed or fed in producer-before-consumer
	// order; a receive with nothing pending is reported as undecided, never guessed.
	Pipeline bool
	// Adapt, when set, re-packages the arguments of a top-level call written for the reference signature of fn
	// to fn's current signature (parameters reordered, bundled into a struct, or dropped).
	Adapt func(fn *types.Func, args []Value) ([]Value, error)
	// NumCPU is what runtime.NumCPU() returns in pipeline mode.
	NumCPU int
	// Spawned lists the go statements executed in pipeline mode.
	Spawned []token.Pos
	// VarInit returns the initialiser expression of a package-level variable (nil if none / not in the repository).
	VarInit func(*types.Var) (ast.Expr, *packages.Package)
	// PkgInits returns the init() functions of a repository package (run once, before the first read of one of its
	// variables that has no initialiser: a table filled in init())
	PkgInits func(*packages.Package) []*ast.FuncDecl
	initsRun map[*packages.Package]bool
	// Domain gives the element domain of an abstract sequence (values enumerated on read).
	Domain    func(seq AbsSeq) []Value
	MaxSteps  int
	steps     int
	frames    []*frame
	loops     []*loopCtx
	nloop     int
	Loops     []*LoopSummary
	Sent      []SendRec
	globals   map[types.Object]*Var
	depth     int
	SortCalls []SortCall
	// SymVals gives symbols a concrete value for the purpose of comparisons only.
	SymVals map[string]int64
	// MapReverse makes range over a map visit keys in reverse insertion order
	// (used to expose dependence on map iteration order).
	MapReverse bool
}

type SendRec struct {
	Chan string
	V    Value
	Pos  token.Pos
}

func New(fset *token.FileSet, fd func(*types.Func) (*ast.FuncDecl, *packages.Package)) *Evaluator {
	return &Evaluator{Fset: fset, FuncDecl: fd, Extern: map[string]ExternFn{}, MaxSteps: 20_000_000, globals: map[types.Object]*Var{}}
}

func (ev *Evaluator) fail(pos token.Pos, format string, args ...interface{}) {
	msg := fmt.Sprintf(format, args...)
	if pos.IsValid() && ev.Fset != nil {
		p := ev.Fset.Position(pos)
		msg = fmt.Sprintf("%s:%d: %s", shortFile(p.Filename), p.Line, msg)
	}
	panic(&EvalError{Pos: pos, Msg: msg})
}

// Failf aborts the evaluation as undecidable (for models registered by rules).
func (ev *Evaluator) Failf(pos token.Pos, format string, args ...interface{}) {
	ev.fail(pos, format, args...)
}

func shortFile(f string) string {
	if i := strings.Index(f, "/pkg/"); i >= 0 {
		return f[i+1:]
	}
	if i := strings.Index(f, "/cmd/"); i >= 0 {
		return f[i+1:]
	}
	return f
}

// Try runs f and converts an undecidable construct into an error.
func (ev *Evaluator) Try(f func()) (err error) {
	defer func() {
		if r := recover(); r != nil {
			if ee, ok := r.(*EvalError); ok {
				err = ee
				return
			}
			panic(r)
		}
	}()
	f()
	return nil
}

func (ev *Evaluator) tick(pos token.Pos) {
	ev.steps++
	if ev.steps > ev.MaxSteps {
		ev.fail(pos, "step budget exhausted")
	}
}

// ---------------------------------------------------------------- calls

// CallFunc interprets a repository function on the given argument values.
// CallFuncBound is CallFunc for arguments that were laid out from fn's CURRENT signature (no re-binding).
func (ev *Evaluator) CallFuncBound(fn *types.Func, args ...Value) (res Value, err error) {
	saved := ev.Adapt
	ev.Adapt = nil
	defer func() { ev.Adapt = saved }()
	return ev.CallFunc(fn, args...)
}

func (ev *Evaluator) CallFunc(fn *types.Func, args ...Value) (res Value, err error) {
	if ev.PreCall != nil {
		ev.PreCall(args)
	}
	if ev.PostCall != nil {
		defer func() {
			if err == nil {
				ev.PostCall(args, res)
			}
		}()
	}
	if ev.Adapt != nil {
		adapted, aerr := ev.Adapt(fn, args)
		if aerr != nil {
			return nil, aerr
		}
		args = adapted
	}
	if ev.depth == 0 {
		ev.steps = 0 // the budget is per top-level call
	}
	err = ev.Try(func() {
		res = ev.callTypesFunc(token.NoPos, fn, nil, args)
	})
	return
}

// CallMethod interprets a repository method on the given receiver.
func (ev *Evaluator) CallMethod(fn *types.Func, recv Value, args ...Value) (res Value, err error) {
	if ev.depth == 0 {
		ev.steps = 0
	}
	err = ev.Try(func() {
		res = ev.callTypesFunc(token.NoPos, fn, recv, args)
	})
	return
}

func (ev *Evaluator) callTypesFunc(pos token.Pos, fn *types.Func, recv Value, args []Value) Value {
	if ext, ok := ev.Extern[fn.FullName()]; ok {
		return ext(ev, pos, recv, args)
	}
	if v, ok := ev.native(pos, fn, recv, args); ok {
		return v
	}
	decl, pkg := ev.FuncDecl(fn)
	if decl == nil || decl.Body == nil {
		// a method of an interface called on a value whose dynamic type is known: the method of that type
		if sig, ok := fn.Type().(*types.Signature); ok && sig.Recv() != nil && types.IsInterface(sig.Recv().Type()) {
			if r, ok := recv.(*Ref); ok && r.Typ != nil {
				if sel := types.NewMethodSet(r.Typ).Lookup(fn.Pkg(), fn.Name()); sel != nil {
					if concrete, ok := sel.Obj().(*types.Func); ok && concrete != fn {
						var crecv Value = r
						if _, isPtr := concrete.Type().(*types.Signature).Recv().Type().(*types.Pointer); !isPtr {
							crecv = r.Get()
						}
						return ev.callTypesFunc(pos, concrete, crecv, args)
					}
				}
			}
		}
		ev.fail(pos, "call to %s: no source available and no model registered", fn.FullName())
	}
	if Interpreted != nil {
		Interpreted[fn.FullName()]++
	}
	fv := &FuncVal{Decl: decl, Pkg: pkg, Recv: recv, Fn: fn}
	return ev.callFuncVal(pos, fv, args)
}

// Interpreted, when non-nil, counts the source functions the evaluators of this process entered (coverage report).
var Interpreted map[string]int

func (ev *Evaluator) callFuncVal(pos token.Pos, fv *FuncVal, args []Value) Value {
	if fv.Native != nil {
		return fv.Native(ev, args)
	}
	if fv.Fn != nil && fv.Lit == nil && fv.Decl == nil {
		return ev.callTypesFunc(pos, fv.Fn, fv.Recv, args) // a named function used as a value (unicode.IsLetter as a predicate)
	}
	ev.depth++
	if ev.depth > 200 {
		ev.fail(pos, "call depth exceeded")
	}
	defer func() { ev.depth-- }()
	var ftype *ast.FuncType
	var body *ast.BlockStmt
	var env *Env
	if fv.Decl != nil {
		ftype, body = fv.Decl.Type, fv.Decl.Body
		env = &Env{vars: map[types.Object]*Var{}, pkg: fv.Pkg}
		if fv.Decl.Recv != nil && len(fv.Decl.Recv.List) == 1 && len(fv.Decl.Recv.List[0].Names) == 1 {
			obj := fv.Pkg.TypesInfo.Defs[fv.Decl.Recv.List[0].Names[0]]
			if obj != nil {
				env.define(obj, Copy(fv.Recv))
			}
		}
	} else {
		ftype, body = fv.Lit.Type, fv.Lit.Body
		env = fv.Env.child()
	}
	fr := &activation{}
	env.frame = fr
	info := env.pkg.TypesInfo
	i := 0
	for _, f := range ftype.Params.List {
		names := f.Names
		if len(names) == 0 {
			i++
			continue
		}
		for _, n := range names {
			obj := info.Defs[n]
			if _, variadic := f.Type.(*ast.Ellipsis); variadic {
				rest := []Value{}
				if i < len(args) {
					rest = append(rest, args[i:]...)
				}
				if obj != nil {
					env.define(obj, NewSlice(rest...))
				}
				i = len(args)
				continue
			}
			if i >= len(args) {
				ev.fail(pos, "too few arguments")
			}
			if obj != nil {
				env.define(obj, Copy(args[i]))
			}
			i++
		}
	}
	var resultVars []*Var
	if ftype.Results != nil {
		for _, f := range ftype.Results.List {
			for _, n := range f.Names {
				obj := info.Defs[n]
				if obj != nil {
					resultVars = append(resultVars, env.define(obj, ev.zero(pos, obj.Type())))
				}
			}
		}
	}
	c := ev.block(env, body.List)
	// a return statement assigns the result variables, then the deferred calls run (LIFO) and may
	// change them; the function returns what the result variables hold afterwards.
	if len(fr.deferred) > 0 && len(resultVars) > 0 && c.kind == ctrlReturn && !c.bare {
		if t, ok := c.val.(Tuple); ok && len(t) == len(resultVars) {
			for i, rv := range resultVars {
				rv.V = t[i]
			}
			c.bare = true
		} else if len(resultVars) == 1 {
			resultVars[0].V = c.val
			c.bare = true
		}
	}
	for i := len(fr.deferred) - 1; i >= 0; i-- {
		fr.deferred[i]()
	}
	if c.kind == ctrlReturn {
		if c.bare && len(resultVars) > 0 {
			if len(resultVars) == 1 {
				return resultVars[0].V
			}
			t := Tuple{}
			for _, rv := range resultVars {
				t = append(t, rv.V)
			}
			return t
		}
		return c.val
	}
	if len(resultVars) == 1 {
		return resultVars[0].V
	}
	return nil
}

// ---------------------------------------------------------------- zero values

func (ev *Evaluator) zero(pos token.Pos, t types.Type) Value {
	switch u := t.Underlying().(type) {
	case *types.Basic:
		switch {
		case u.Info()&types.IsInteger != 0:
			return K(0)
		case u.Info()&types.IsFloat != 0:
			return FConst(0)
		case u.Info()&types.IsString != 0:
			return S("")
		case u.Info()&types.IsBoolean != 0:
			return false
		}
		return Nil{}
	case *types.Slice:
		return Slice{}
	case *types.Array:
		e := make([]Value, u.Len())
		for i := range e {
			e[i] = ev.zero(pos, u.Elem())
		}
		return ArrayVal{A: &Arr{E: e}}
	case *types.Struct:
		sv := &StructVal{T: t, F: map[string]Value{}}
		for i := 0; i < u.NumFields(); i++ {
			sv.F[u.Field(i).Name()] = ev.zero(pos, u.Field(i).Type())
		}
		return sv
	case *types.Map:
		m := NewMap()
		m.IsNil = true
		return m
	}
	return Nil{}
}

// ---------------------------------------------------------------- constants

func (ev *Evaluator) constValue(pos token.Pos, tv types.TypeAndValue) Value {
	v := tv.Value
	isFloat := false
	if b, ok := tv.Type.Underlying().(*types.Basic); ok && b.Info()&types.IsFloat != 0 {
		isFloat = true
	}
	switch v.Kind() {
	case constant.Bool:
		return constant.BoolVal(v)
	case constant.String:
		return S(constant.StringVal(v))
	case constant.Int:
		if isFloat {
			f, _ := constant.Float64Val(v)
			return FConst(f)
		}
		i, ok := constant.Int64Val(v)
		if !ok {
			u, ok2 := constant.Uint64Val(v)
			if !ok2 {
				ev.fail(pos, "integer constant out of range")
			}
			i = int64(u)
		}
		return K(i)
	case constant.Float:
		if !isFloat {
			if iv := constant.ToInt(v); iv.Kind() == constant.Int {
				i, _ := constant.Int64Val(iv)
				return K(i)
			}
		}
		f, _ := constant.Float64Val(v)
		return FConst(f)
	}
	ev.fail(pos, "unsupported constant kind")
	return nil
}

// ---------------------------------------------------------------- expressions

func (ev *Evaluator) resolve(v Value) Value {
	if l, ok := v.(*Lazy); ok {
		return ev.Choose(l.Tag, l.Opts)
	}
	return v
}

func (ev *Evaluator) expr(env *Env, e ast.Expr) Value {
	ev.tick(e.Pos())
	info := env.pkg.TypesInfo
	if tv, ok := info.Types[e]; ok && tv.Value != nil {
		return ev.constValue(e.Pos(), tv)
	}
	switch e := e.(type) {
	case *ast.ParenExpr:
		return ev.expr(env, e.X)
	case *ast.Ident:
		return ev.ident(env, e)
	case *ast.BasicLit:
		ev.fail(e.Pos(), "literal without constant value")
	case *ast.FuncLit:
		return &FuncVal{Lit: e, Env: env, Pkg: env.pkg}
	case *ast.CompositeLit:
		return ev.composite(env, e)
	case *ast.UnaryExpr:
		return ev.unary(env, e)
	case *ast.BinaryExpr:
		return ev.binary(env, e)
	case *ast.CallExpr:
		v := ev.call(env, e)
		return v
	case *ast.IndexExpr:
		if tv, ok := info.Types[e.X]; ok {
			if _, isSig := tv.Type.Underlying().(*types.Signature); isSig {
				return ev.expr(env, e.X) // generic instantiation
			}
		}
		x := ev.resolve(ev.expr(env, e.X))
		if r, ok := x.(*Ref); ok {
			x = r.Get() // indexing through a pointer to an array
		}
		idx := ev.resolve(ev.expr(env, e.Index))
		v, _ := ev.index(e.Pos(), x, idx, info.TypeOf(e))
		return v
	case *ast.SliceExpr:
		return ev.sliceExpr(env, e)
	case *ast.SelectorExpr:
		return ev.selector(env, e)
	case *ast.StarExpr:
		x := ev.expr(env, e.X)
		if r, ok := x.(*Ref); ok {
			return r.Get()
		}
		ev.fail(e.Pos(), "dereference of non-reference %s", Show(x))
	case *ast.TypeAssertExpr:
		v, ok := ev.typeAssert(env, e)
		if !ok {
			ev.fail(e.Pos(), "failing single-value type assertion (run-time panic)")
		}
		return v
	}
	ev.fail(e.Pos(), "unsupported expression %T", e)
	return nil
}

func (ev *Evaluator) ident(env *Env, id *ast.Ident) Value {
	info := env.pkg.TypesInfo
	obj := info.Uses[id]
	if obj == nil {
		obj = info.Defs[id]
	}
	switch o := obj.(type) {
	case *types.Nil:
		return Nil{}
	case *types.Var:
		if v := env.lookup(o); v != nil {
			return v.V
		}
		if o.Parent() == o.Pkg().Scope() {
			return ev.global(id.Pos(), o)
		}
		ev.fail(id.Pos(), "unbound variable %s", id.Name)
	case *types.Func:
		return &FuncVal{Fn: o}
	case *types.Builtin:
		ev.fail(id.Pos(), "builtin %s used as value", id.Name)
	}
	ev.fail(id.Pos(), "unsupported identifier %s", id.Name)
	return nil
}

func (ev *Evaluator) global(pos token.Pos, o *types.Var) Value {
	if v, ok := ev.globals[o]; ok {
		return v.V
	}
	// a repository variable with an initialiser starts with its value
	if ev.VarInit != nil {
		init, pkg := ev.VarInit(o)
		if init == nil && pkg != nil {
			// declared in the repository without an initialiser: the zero value, then whatever the package's init()
			// functions store in it
			cell := &Var{Obj: o, V: ev.zero(pos, o.Type())}
			ev.globals[o] = cell
			if ev.PkgInits != nil && !ev.initsRun[pkg] {
				if ev.initsRun == nil {
					ev.initsRun = map[*packages.Package]bool{}
				}
				ev.initsRun[pkg] = true
				for _, d := range ev.PkgInits(pkg) {
					ev.callFuncVal(pos, &FuncVal{Decl: d, Pkg: pkg}, nil)
				}
			}
			return cell.V
		}
		if init != nil {
			cell := &Var{Obj: o, V: Opaque{Why: "initialisation cycle of " + o.Name()}}
			ev.globals[o] = cell
			env := &Env{vars: map[types.Object]*Var{}, pkg: pkg, frame: &activation{}}
			cell.V = Copy(ev.resolve(ev.expr(env, init)))
			return cell.V
		}
	}
	// other package-level variables are opaque symbolic values named after themselves
	var v Value
	if types.Implements(o.Type(), errorIface()) || o.Type().String() == "error" {
		v = ErrVal{Msg: SSym(o.Pkg().Name() + "." + o.Name())}
	} else {
		v = Opaque{Why: "package variable " + o.Name()}
	}
	ev.globals[o] = &Var{Obj: o, V: v}
	return v
}

var errIface *types.Interface

func errorIface() *types.Interface {
	if errIface == nil {
		errIface = types.Universe.Lookup("error").Type().Underlying().(*types.Interface)
	}
	return errIface
}

func (ev *Evaluator) composite(env *Env, e *ast.CompositeLit) Value {
	info := env.pkg.TypesInfo
	t := info.TypeOf(e)
	switch u := t.Underlying().(type) {
	case *types.Struct:
		sv := ev.zero(e.Pos(), t).(*StructVal)
		for i, el := range e.Elts {
			if kv, ok := el.(*ast.KeyValueExpr); ok {
				sv.F[kv.Key.(*ast.Ident).Name] = Copy(ev.resolve(ev.expr(env, kv.Value)))
			} else {
				sv.F[u.Field(i).Name()] = Copy(ev.resolve(ev.expr(env, el)))
			}
		}
		return sv
	case *types.Map:
		m := NewMap()
		for _, el := range e.Elts {
			kv := el.(*ast.KeyValueExpr)
			k := ev.resolve(ev.expr(env, kv.Key))
			if !m.Set(k, Copy(ev.expr(env, kv.Value))) {
				ev.fail(kv.Pos(), "non-constant map key")
			}
		}
		return m
	case *types.Slice, *types.Array:
		var elemT types.Type
		n := -1
		if a, ok := u.(*types.Array); ok {
			elemT = a.Elem()
			n = int(a.Len())
		} else {
			elemT = u.(*types.Slice).Elem()
		}
		vals := map[int]Value{}
		idx, max := 0, 0
		for _, el := range e.Elts {
			var ve ast.Expr = el
			if kv, ok := el.(*ast.KeyValueExpr); ok {
				k := ev.expr(env, kv.Key)
				kl, ok := k.(Lin)
				if !ok || !kl.IsConst() {
					ev.fail(kv.Pos(), "non-constant array index")
				}
				idx = int(kl.C)
				ve = kv.Value
			}
			if cl, ok := ve.(*ast.CompositeLit); ok && cl.Type == nil {
				// elided element type
				vals[idx] = ev.compositeWithType(env, cl, elemT)
			} else {
				vals[idx] = Copy(ev.resolve(ev.expr(env, ve)))
			}
			idx++
			if idx > max {
				max = idx
			}
		}
		if n < 0 {
			n = max
		}
		out := make([]Value, n)
		for i := range out {
			if v, ok := vals[i]; ok {
				out[i] = v
			} else {
				out[i] = ev.zero(e.Pos(), elemT)
			}
		}
		if _, ok := u.(*types.Array); ok {
			return ArrayVal{A: &Arr{E: out}}
		}
		return NewSlice(out...)
	}
	ev.fail(e.Pos(), "unsupported composite literal of type %s", t)
	return nil
}

func (ev *Evaluator) compositeWithType(env *Env, e *ast.CompositeLit, t types.Type) Value {
	// go/types records the type of elided composite literals too
	return ev.composite(env, e)
}

func (ev *Evaluator) unary(env *Env, e *ast.UnaryExpr) Value {
	switch e.Op {
	case token.AND:
		if cl, ok := e.X.(*ast.CompositeLit); ok {
			v := ev.composite(env, cl)
			cell := &Var{V: v}
			return &Ref{Get: func() Value { return cell.V }, Set: func(x Value) { cell.V = x }, Typ: env.pkg.TypesInfo.TypeOf(e)}
		}
		lv := ev.lvalue(env, e.X)
		if lv != nil && lv.Typ == nil {
			lv.Typ = env.pkg.TypesInfo.TypeOf(e)
		}
		return lv
	case token.ARROW:
		ch := ev.expr(env, e.X)
		c, ok := ch.(*ChanVal)
		if !ok {
			ev.fail(e.Pos(), "receive from unknown channel")
		}
		if c.pos < len(c.Feed) {
			c.pos++
			return c.Feed[c.pos-1]
		}
		if c.Closed {
			if ct, ok := env.pkg.TypesInfo.TypeOf(e.X).Underlying().(*types.Chan); ok {
				return ev.zero(e.Pos(), ct.Elem())
			}
		}
		ev.fail(e.Pos(), "receive from exhausted channel model %s (in the sequential pipeline model: nothing was sent before this receive)", c.Name)
	}
	x := ev.resolve(ev.expr(env, e.X))
	switch e.Op {
	case token.NOT:
		if b, ok := x.(bool); ok {
			return !b
		}
	case token.SUB:
		switch x := x.(type) {
		case Lin:
			return x.Neg()
		case *FExpr:
			if x.IsConst() {
				return FConst(-x.C)
			}
			return &FExpr{Op: "neg", A: x}
		}
	case token.ADD:
		return x
	case token.XOR:
		if l, ok := x.(Lin); ok && l.IsConst() {
			return ev.wrapInt(K(^l.C), env.pkg.TypesInfo.TypeOf(e))
		}
	}
	ev.fail(e.Pos(), "unsupported unary %s on %s", e.Op, Show(x))
	return nil
}

func (ev *Evaluator) wrapInt(l Lin, t types.Type) Lin {
	if !l.IsConst() || t == nil {
		return l
	}
	b, ok := t.Underlying().(*types.Basic)
	if !ok {
		return l
	}
	switch b.Kind() {
	case types.Uint8:
		return K(int64(uint8(l.C)))
	case types.Uint16:
		return K(int64(uint16(l.C)))
	case types.Uint32:
		return K(int64(uint32(l.C)))
	case types.Int8:
		return K(int64(int8(l.C)))
	case types.Int16:
		return K(int64(int16(l.C)))
	case types.Int32:
		return K(int64(int32(l.C)))
	}
	return l
}

func (ev *Evaluator) binary(env *Env, e *ast.BinaryExpr) Value {
	if e.Op == token.LAND || e.Op == token.LOR {
		x := ev.resolve(ev.expr(env, e.X))
		xb, ok := x.(bool)
		if !ok {
			ev.fail(e.X.Pos(), "non-boolean operand %s", Show(x))
		}
		if e.Op == token.LAND && !xb {
			return false
		}
		if e.Op == token.LOR && xb {
			return true
		}
		y := ev.resolve(ev.expr(env, e.Y))
		yb, ok := y.(bool)
		if !ok {
			ev.fail(e.Y.Pos(), "non-boolean operand %s", Show(y))
		}
		return yb
	}
	x := ev.resolve(ev.expr(env, e.X))
	y := ev.resolve(ev.expr(env, e.Y))
	return ev.binop(e.Pos(), e.Op, x, y, env.pkg.TypesInfo.TypeOf(e))
}

func (ev *Evaluator) binop(pos token.Pos, op token.Token, x, y Value, t types.Type) Value {
	switch xv := x.(type) {
	case Lin:
		yv, ok := y.(Lin)
		if !ok {
			break
		}
		switch op {
		case token.ADD:
			return ev.wrapInt(xv.Add(yv), t)
		case token.SUB:
			return ev.wrapInt(xv.Sub(yv), t)
		case token.MUL:
			if xv.IsConst() {
				return ev.wrapInt(yv.Scale(xv.C), t)
			}
			if yv.IsConst() {
				return ev.wrapInt(xv.Scale(yv.C), t)
			}
		case token.EQL, token.NEQ, token.LSS, token.LEQ, token.GTR, token.GEQ:
			d := xv.Sub(yv)
			if d.IsConst() {
				return cmpInt(op, d.C, 0)
			}
			if ev.SymVals != nil {
				tot, all := d.C, true
				for s, k := range d.T {
					v, ok := ev.SymVals[s]
					if !ok {
						all = false
						break
					}
					tot += k * v
				}
				if all {
					return cmpInt(op, tot, 0)
				}
			}
			ev.fail(pos, "undecidable comparison %s %s %s", xv, op, yv)
		}
		if xv.IsConst() && yv.IsConst() {
			a, b := xv.C, yv.C
			switch op {
			case token.QUO:
				if b == 0 {
					ev.fail(pos, "division by zero")
				}
				return ev.wrapInt(K(a/b), t)
			case token.REM:
				if b == 0 {
					ev.fail(pos, "division by zero")
				}
				return ev.wrapInt(K(a%b), t)
			case token.AND:
				return K(a & b)
			case token.OR:
				return K(a | b)
			case token.XOR:
				return ev.wrapInt(K(a^b), t)
			case token.AND_NOT:
				return K(a &^ b)
			case token.SHL:
				return ev.wrapInt(K(a<<uint(b)), t)
			case token.SHR:
				return K(a >> uint(b))
			}
		}
		// x % 3 etc. on symbolic values
		ev.fail(pos, "undecidable integer operation %s %s %s", xv, op, yv)
	case *FExpr:
		yv, ok := y.(*FExpr)
		if !ok {
			break
		}
		if xv.IsConst() && yv.IsConst() {
			a, b := xv.C, yv.C
			switch op {
			case token.ADD:
				return FConst(a + b)
			case token.SUB:
				return FConst(a - b)
			case token.MUL:
				return FConst(a * b)
			case token.QUO:
				return FConst(a / b)
			case token.EQL:
				return a == b
			case token.NEQ:
				return a != b
			case token.LSS:
				return a < b
			case token.LEQ:
				return a <= b
			case token.GTR:
				return a > b
			case token.GEQ:
				return a >= b
			}
		}
		switch op {
		case token.ADD, token.SUB, token.MUL, token.QUO:
			return &FExpr{Op: op.String(), A: xv, B: yv}
		}
		ev.fail(pos, "undecidable float comparison %s %s %s", xv, op, yv)
	case Str:
		yv, ok := y.(Str)
		if !ok {
			break
		}
		switch op {
		case token.ADD:
			return xv.Concat(yv)
		case token.EQL, token.NEQ:
			if xv.IsConst() && yv.IsConst() {
				return (xv.Const() == yv.Const()) == (op == token.EQL)
			}
			if xv.Eq(yv) {
				return op == token.EQL
			}
			ev.fail(pos, "undecidable string comparison %s %s %s", xv, op, yv)
		case token.LSS, token.LEQ, token.GTR, token.GEQ:
			if xv.IsConst() && yv.IsConst() {
				return cmpInt(op, int64(strings.Compare(xv.Const(), yv.Const())), 0)
			}
		}
	case bool:
		yv, ok := y.(bool)
		if ok {
			switch op {
			case token.EQL:
				return xv == yv
			case token.NEQ:
				return xv != yv
			}
		}
	case Nil, ErrVal:
		switch op {
		case token.EQL, token.NEQ:
			_, xn := x.(Nil)
			_, yn := y.(Nil)
			_, ye := y.(ErrVal)
			if _, ys := y.(Slice); ys {
				break
			}
			if xe, ok := x.(ErrVal); ok && ye {
				return xe.Msg.Eq(y.(ErrVal).Msg) == (op == token.EQL)
			}
			if yn || ye {
				eq := xn && yn
				return eq == (op == token.EQL)
			}
		}
	}
	// x == nil with x a slice/map/err
	if _, yn := y.(Nil); yn && (op == token.EQL || op == token.NEQ) {
		isNil := false
		switch xv := x.(type) {
		case Slice:
			isNil = xv.A == nil
		case ErrVal:
			isNil = false
		case *Ref, *StructVal, *FuncVal, *ChanVal:
			isNil = false
		case *MapVal:
			isNil = xv.IsNil
		case Nil:
			isNil = true
		default:
			ev.fail(pos, "undecidable nil comparison of %s", Show(x))
		}
		return isNil == (op == token.EQL)
	}
	if sx, ok := x.(*StructVal); ok {
		if sy, ok := y.(*StructVal); ok && (op == token.EQL || op == token.NEQ) {
			eq := Show(sx) == Show(sy)
			return eq == (op == token.EQL)
		}
	}
	ev.fail(pos, "unsupported binary operation %s %s %s", Show(x), op, Show(y))
	return nil
}

func cmpInt(op token.Token, a, b int64) bool {
	switch op {
	case token.EQL:
		return a == b
	case token.NEQ:
		return a != b
	case token.LSS:
		return a < b
	case token.LEQ:
		return a <= b
	case token.GTR:
		return a > b
	case token.GEQ:
		return a >= b
	}
	return false
}

// ---------------------------------------------------------------- sequences

func (ev *Evaluator) seqLen(pos token.Pos, x Value) Lin {
	switch x := x.(type) {
	case Slice:
		return K(int64(x.Len()))
	case ArrayVal:
		return K(int64(len(x.A.E)))
	case AbsSeq:
		return x.Len
	case CatSeq:
		t := K(0)
		for _, p := range x.Parts {
			t = t.Add(ev.seqLen(pos, p))
		}
		return t
	case ListVal:
		t := Sym("len(" + x.Base + ")")
		for _, a := range x.App {
			if sp, ok := a.(Spread); ok {
				t = t.Add(ev.seqLen(pos, sp.V))
			} else {
				t = t.Add(K(1))
			}
		}
		return t
	case Str:
		if x.IsConst() {
			return K(int64(len(x.Const())))
		}
		t := K(0)
		for _, p := range x.norm().Parts {
			switch {
			case p.Sym != "":
				t = t.Add(Sym("len(" + p.Sym + ")"))
			case p.Itoa != nil:
				t = t.Add(Sym("len(itoa(" + p.Itoa.String() + "))"))
			default:
				t = t.Add(K(int64(len(p.Lit))))
			}
		}
		return t
	case *MapVal:
		return K(int64(len(x.M)))
	case Nil:
		return K(0)
	}
	ev.fail(pos, "len of %s", Show(x))
	return Lin{}
}

// Spread marks "xs..." appended to an abstract list.
type Spread struct{ V Value }

func (ev *Evaluator) index(pos token.Pos, x, idx Value, t types.Type) (Value, bool) {
	switch xv := x.(type) {
	case *MapVal:
		v, present, ok := xv.Get(idx)
		if !ok {
			ev.fail(pos, "map lookup with non-constant key %s", Show(idx))
		}
		if !present {
			return ev.zero(pos, t), false
		}
		return v, true
	case ArrayVal, Slice:
		il, ok := idx.(Lin)
		if !ok || !il.IsConst() {
			ev.fail(pos, "non-constant index %s into concrete sequence", Show(idx))
		}
		var es []Value
		if a, ok := xv.(ArrayVal); ok {
			es = a.A.E
		} else {
			es = xv.(Slice).Elems()
		}
		if il.C < 0 || int(il.C) >= len(es) {
			ev.fail(pos, "index %d out of range [0,%d)", il.C, len(es))
		}
		return es[il.C], true
	case AbsSeq:
		il, ok := idx.(Lin)
		if !ok {
			ev.fail(pos, "non-integer index")
		}
		return ev.absElem(pos, xv, il), true
	case Str:
		il, ok := idx.(Lin)
		if ok && il.IsConst() && xv.IsConst() {
			s := xv.Const()
			if il.C < 0 || int(il.C) >= len(s) {
				ev.fail(pos, "string index %d out of range", il.C)
			}
			return K(int64(s[il.C])), true
		}
		ev.fail(pos, "symbolic string index %s[%s]", xv, Show(idx))
	case ListVal:
		ev.fail(pos, "index into abstract list %s", xv.Base)
	}
	ev.fail(pos, "index into %s", Show(x))
	return nil, false
}

func (ev *Evaluator) sliceExpr(env *Env, e *ast.SliceExpr) Value {
	x := ev.resolve(ev.expr(env, e.X))
	if r, ok := x.(*Ref); ok {
		x = r.Get()
	}
	var lo, hi *Lin
	if e.Low != nil {
		l, ok := ev.resolve(ev.expr(env, e.Low)).(Lin)
		if !ok {
			ev.fail(e.Pos(), "non-integer slice bound")
		}
		lo = &l
	}
	if e.High != nil {
		h, ok := ev.resolve(ev.expr(env, e.High)).(Lin)
		if !ok {
			ev.fail(e.Pos(), "non-integer slice bound")
		}
		hi = &h
	}
	return ev.sliceOf(e.Pos(), x, lo, hi)
}

func (ev *Evaluator) sliceOf(pos token.Pos, x Value, lo, hi *Lin) Value {
	switch xv := x.(type) {
	case Slice, ArrayVal:
		var s Slice
		if a, ok := xv.(ArrayVal); ok {
			s = Slice{A: a.A, Lo: 0, Hi: len(a.A.E)}
		} else {
			s = xv.(Slice)
		}
		l, h := 0, s.Len()
		if lo != nil {
			if !lo.IsConst() {
				ev.fail(pos, "symbolic bound on concrete slice")
			}
			l = int(lo.C)
		}
		if hi != nil {
			if !hi.IsConst() {
				ev.fail(pos, "symbolic bound on concrete slice")
			}
			h = int(hi.C)
		}
		capacity := 0
		if s.A != nil {
			capacity = len(s.A.E) - s.Lo
		}
		if l < 0 || h < l || h > capacity {
			ev.fail(pos, "slice bounds [%d:%d] out of range (cap %d)", l, h, capacity)
		}
		return Slice{A: s.A, Lo: s.Lo + l, Hi: s.Lo + h}
	case AbsSeq:
		l, h := K(0), xv.Len
		if lo != nil {
			l = *lo
		}
		if hi != nil {
			h = *hi
		}
		return AbsSeq{Name: xv.Name, Off: xv.Off.Add(l), Len: h.Sub(l), Fill: xv.Fill}
	case Str:
		if xv.IsConst() && (lo == nil || lo.IsConst()) && (hi == nil || hi.IsConst()) {
			s := xv.Const()
			l, h := 0, len(s)
			if lo != nil {
				l = int(lo.C)
			}
			if hi != nil {
				h = int(hi.C)
			}
			if l < 0 || h < l || h > len(s) {
				ev.fail(pos, "string slice out of range")
			}
			return S(s[l:h])
		}
		l, h := "0", "len"
		if lo != nil {
			l = lo.String()
		}
		if hi != nil {
			h = hi.String()
		}
		return SSym(fmt.Sprintf("%s[%s:%s]", xv.String(), l, h))
	case ListVal:
		l, h := "0", "len"
		if lo != nil {
			l = lo.String()
		}
		if hi != nil {
			h = hi.String()
		}
		return ListVal{Base: fmt.Sprintf("%s[%s:%s]", Show(xv), l, h)}
	}
	ev.fail(pos, "slice of %s", Show(x))
	return nil
}

// ---------------------------------------------------------------- selectors

func (ev *Evaluator) selector(env *Env, e *ast.SelectorExpr) Value {
	info := env.pkg.TypesInfo
	if sel, ok := info.Selections[e]; ok {
		switch sel.Kind() {
		case types.FieldVal:
			x := ev.resolve(ev.expr(env, e.X))
			return ev.field(e.Pos(), x, sel)
		case types.MethodVal:
			recv := ev.resolve(ev.expr(env, e.X))
			return &FuncVal{Fn: sel.Obj().(*types.Func), Recv: recv}
		}
		ev.fail(e.Pos(), "unsupported selection kind")
	}
	// package-qualified identifier
	obj := info.Uses[e.Sel]
	switch o := obj.(type) {
	case *types.Func:
		return &FuncVal{Fn: o}
	case *types.Var:
		return ev.global(e.Pos(), o)
	}
	ev.fail(e.Pos(), "unsupported qualified identifier %s", e.Sel.Name)
	return nil
}

func (ev *Evaluator) field(pos token.Pos, x Value, sel *types.Selection) Value {
	cur := x
	// follow the (possibly embedded) path
	t := sel.Recv()
	for _, i := range sel.Index() {
		if r, ok := cur.(*Ref); ok {
			cur = r.Get()
		}
		if p, ok := t.Underlying().(*types.Pointer); ok {
			t = p.Elem()
		}
		st, ok := t.Underlying().(*types.Struct)
		if !ok {
			ev.fail(pos, "field selection on non-struct")
		}
		f := st.Field(i)
		sv, ok := cur.(*StructVal)
		if !ok {
			ev.fail(pos, "field %s of %s", f.Name(), Show(cur))
		}
		v, ok := sv.F[f.Name()]
		if !ok {
			ev.fail(pos, "field %s not modelled", f.Name())
		}
		cur = v
		t = f.Type()
	}
	return cur
}

// ---------------------------------------------------------------- lvalues

func (ev *Evaluator) lvalue(env *Env, e ast.Expr) *Ref {
	info := env.pkg.TypesInfo
	switch e := e.(type) {
	case *ast.ParenExpr:
		return ev.lvalue(env, e.X)
	case *ast.Ident:
		if e.Name == "_" {
			return &Ref{Get: func() Value { return nil }, Set: func(Value) {}}
		}
		obj := info.Uses[e]
		if obj == nil {
			obj = info.Defs[e]
		}
		v := env.lookup(obj)
		if v == nil {
			if vo, ok := obj.(*types.Var); ok && vo.Parent() == vo.Pkg().Scope() {
				ev.global(e.Pos(), vo)
				v = ev.globals[vo]
			} else {
				ev.fail(e.Pos(), "assignment to unbound %s", e.Name)
			}
		}
		return &Ref{Get: func() Value { return v.V }, Set: func(x Value) { v.V = x }}
	case *ast.StarExpr:
		x := ev.expr(env, e.X)
		if r, ok := x.(*Ref); ok {
			return r
		}
		ev.fail(e.Pos(), "dereference of non-reference")
	case *ast.SelectorExpr:
		sel, ok := info.Selections[e]
		if !ok || sel.Kind() != types.FieldVal {
			if vo, ok := info.Uses[e.Sel].(*types.Var); ok {
				ev.global(e.Pos(), vo)
				v := ev.globals[vo]
				return &Ref{Get: func() Value { return v.V }, Set: func(x Value) { v.V = x }}
			}
			ev.fail(e.Pos(), "unsupported assignment target")
		}
		base := ev.resolve(ev.expr(env, e.X))
		if r, ok := base.(*Ref); ok {
			base = r.Get()
		}
		// walk to the parent struct of the final field
		idx := sel.Index()
		t := sel.Recv()
		cur := base
		for k, i := range idx {
			if p, ok := t.Underlying().(*types.Pointer); ok {
				t = p.Elem()
			}
			st := t.Underlying().(*types.Struct)
			f := st.Field(i)
			sv, ok := cur.(*StructVal)
			if !ok {
				// a model of a library object that accepts settings of its exported fields
				if fs, isSetter := cur.(FieldSetter); isSetter && k == len(idx)-1 {
					name := f.Name()
					return &Ref{Get: func() Value { return fs.GetField(name) }, Set: func(v Value) { fs.SetField(name, v) }}
				}
				ev.fail(e.Pos(), "field assignment on %s", Show(cur))
			}
			if k == len(idx)-1 {
				name := f.Name()
				return &Ref{Get: func() Value { return sv.F[name] }, Set: func(x Value) { sv.F[name] = x }}
			}
			cur = sv.F[f.Name()]
			if r, ok := cur.(*Ref); ok {
				cur = r.Get()
			}
			t = f.Type()
		}
	case *ast.IndexExpr:
		x := ev.resolve(ev.expr(env, e.X))
		if r, ok := x.(*Ref); ok {
			x = r.Get()
		}
		idx := ev.resolve(ev.expr(env, e.Index))
		pos := e.Pos()
		switch xv := x.(type) {
		case *MapVal:
			elemT := info.TypeOf(e)
			return &Ref{
				Get: func() Value { v, _ := ev.index(pos, xv, idx, elemT); return v },
				Set: func(v Value) {
					if xv.IsNil {
						ev.fail(pos, "assignment to an entry of a nil map (run-time panic)")
					}
					if !xv.Set(idx, v) {
						ev.fail(pos, "map store with non-constant key %s", Show(idx))
					}
				}}
		case ArrayVal, Slice:
			il, ok := idx.(Lin)
			if !ok || !il.IsConst() {
				ev.fail(pos, "store at non-constant index %s", Show(idx))
			}
			var es []Value
			if a, ok := xv.(ArrayVal); ok {
				es = a.A.E
			} else {
				es = xv.(Slice).Elems()
			}
			if il.C < 0 || int(il.C) >= len(es) {
				ev.fail(pos, "store index %d out of range [0,%d)", il.C, len(es))
			}
			i := il.C
			return &Ref{Get: func() Value { return es[i] }, Set: func(v Value) { es[i] = v }}
		case AbsSeq:
			il, ok := idx.(Lin)
			if !ok {
				ev.fail(pos, "non-integer index")
			}
			return &Ref{Get: func() Value { return ev.absElem(pos, xv, il) }, Set: func(v Value) { ev.absStore(pos, xv, il, v) }}
		}
		ev.fail(pos, "store into %s", Show(x))
	}
	ev.fail(e.Pos(), "unsupported assignment target %T", e)
	return nil
}

// ---------------------------------------------------------------- calls (syntax)

func (ev *Evaluator) call(env *Env, e *ast.CallExpr) Value { return ev.prepareCall(env, e)() }

// prepareCall evaluates the function value, receiver and arguments of a call (what a defer statement
// evaluates) and returns the call itself as a thunk.
func (ev *Evaluator) prepareCall(env *Env, e *ast.CallExpr) func() Value {
	info := env.pkg.TypesInfo
	// conversion
	if tv, ok := info.Types[e.Fun]; ok && tv.IsType() {
		x := ev.resolve(ev.expr(env, e.Args[0]))
		return func() Value { return ev.convert(e.Pos(), x, tv.Type, info.TypeOf(e.Args[0])) }
	}
	// builtin
	if id, ok := unparen(e.Fun).(*ast.Ident); ok {
		if b, ok := info.Uses[id].(*types.Builtin); ok {
			return func() Value { return ev.builtin(env, e, b.Name()) }
		}
	}
	var args []Value
	evalArgs := func() {
		for i, a := range e.Args {
			v := ev.resolve(ev.expr(env, a))
			if i == len(e.Args)-1 && e.Ellipsis.IsValid() {
				// spread: pass slice elements
				if s, ok := v.(Slice); ok {
					args = append(args, s.Elems()...)
					continue
				}
				ev.fail(a.Pos(), "spread of %s in call", Show(v))
			}
			if t, ok := v.(Tuple); ok && len(e.Args) == 1 {
				args = append(args, t...)
				continue
			}
			args = append(args, v)
		}
	}
	// static callee?
	if fn, ok := typeutil.Callee(info, e).(*types.Func); ok && fn != nil {
		var recv Value
		if sel, ok := unparen(e.Fun).(*ast.SelectorExpr); ok {
			if s, ok := info.Selections[sel]; ok && s.Kind() == types.MethodVal {
				recv = ev.resolve(ev.expr(env, sel.X))
				// pointer receiver on addressable value: pass a reference
				if sig := fn.Type().(*types.Signature); sig.Recv() != nil {
					if _, isPtr := sig.Recv().Type().(*types.Pointer); isPtr {
						_, isIdent := unparen(sel.X).(*ast.Ident)
						if _, already := recv.(*Ref); !already && (strings.HasPrefix(fn.FullName(), "(*strings.Builder).") || (isIdent && strings.HasPrefix(fn.FullName(), "(*bytes.Buffer)."))) {
							recv = ev.lvalue(env, sel.X) // x.M() with a pointer receiver is (&x).M(): the contents replace the variable's value
						} else if !already {
							holder := recv
							recv = &Ref{Get: func() Value { return holder }, Set: func(v Value) { holder = v }}
						}
					} else if r, ok := recv.(*Ref); ok && !types.IsInterface(sig.Recv().Type()) {
						recv = r.Get() // (an interface value keeps the pointer it holds: the method is chosen by its dynamic type)
					}
				}
			}
		}
		evalArgs()
		return func() Value {
			if fn.FullName() == "sort.Sort" || fn.FullName() == "sort.Stable" {
				if len(e.Args) == 1 {
					if ev.sortInterface(env, e, args[0]) {
						return nil
					}
				}
			}
			return ev.callTypesFunc(e.Pos(), fn, recv, args)
		}
	}
	// dynamic: function value
	f := ev.resolve(ev.expr(env, e.Fun))
	fv, ok := f.(*FuncVal)
	if !ok {
		ev.fail(e.Pos(), "call of non-function %s", Show(f))
	}
	evalArgs()
	if fv.Fn != nil && fv.Lit == nil && fv.Decl == nil && fv.Native == nil {
		return func() Value { return ev.callTypesFunc(e.Pos(), fv.Fn, fv.Recv, args) }
	}
	return func() Value { return ev.callFuncVal(e.Pos(), fv, args) }
}

func unparen(e ast.Expr) ast.Expr {
	for {
		p, ok := e.(*ast.ParenExpr)
		if !ok {
			return e
		}
		e = p.X
	}
}

func (ev *Evaluator) convert(pos token.Pos, x Value, to, from types.Type) Value {
	switch u := to.Underlying().(type) {
	case *types.Basic:
		switch {
		case u.Info()&types.IsInteger != 0:
			switch xv := x.(type) {
			case Lin:
				return ev.wrapInt(xv, to)
			case *FExpr:
				if xv.IsConst() {
					return K(int64(xv.C))
				}
				if xv.Op == "int" {
					return xv.I
				}
				ev.fail(pos, "symbolic float to int")
			}
		case u.Info()&types.IsFloat != 0:
			switch xv := x.(type) {
			case Lin:
				return FInt(xv)
			case *FExpr:
				return xv
			}
		case u.Info()&types.IsString != 0:
			switch xv := x.(type) {
			case Str:
				return xv
			case Lin:
				// string(rune/byte)
				if xv.IsConst() {
					return S(string(rune(xv.C)))
				}
				return SSym("chr(" + xv.String() + ")")
			case Slice:
				var sb strings.Builder
				for _, e := range xv.Elems() {
					l, ok := e.(Lin)
					if !ok || !l.IsConst() {
						return SSym("string(" + Show(xv) + ")")
					}
					sb.WriteByte(byte(l.C))
				}
				return S(sb.String())
			case BytesOf:
				return xv.S
			case AbsSeq, CatSeq, ListVal:
				return SSym("string(" + Show(xv) + ")")
			}
		}
	case *types.Slice:
		switch xv := x.(type) {
		case Str:
			if xv.IsConst() {
				s := xv.Const()
				out := make([]Value, len(s))
				for i := 0; i < len(s); i++ {
					out[i] = K(int64(s[i]))
				}
				return NewSlice(out...)
			}
			return BytesOf{S: xv}
		case Slice, AbsSeq, CatSeq, ListVal, Nil, BytesOf:
			return xv
		}
	case *types.Interface, *types.Struct, *types.Map, *types.Array, *types.Signature:
		return x
	}
	if types.Identical(to.Underlying(), from.Underlying()) {
		return x
	}
	ev.fail(pos, "unsupported conversion of %s to %s", Show(x), to)
	return nil
}

func (ev *Evaluator) builtin(env *Env, e *ast.CallExpr, name string) Value {
	info := env.pkg.TypesInfo
	switch name {
	case "len", "cap":
		x := ev.resolve(ev.expr(env, e.Args[0]))
		if r, ok := x.(*Ref); ok {
			x = r.Get()
		}
		return ev.seqLen(e.Pos(), x)
	case "make":
		t := info.TypeOf(e.Args[0])
		switch u := t.Underlying().(type) {
		case *types.Map:
			return NewMap()
		case *types.Chan:
			return &ChanVal{Name: "made", Queue: ev.Pipeline, Pos: e.Pos()}
		case *types.Slice:
			n, ok := ev.resolve(ev.expr(env, e.Args[1])).(Lin)
			if !ok {
				ev.fail(e.Pos(), "make with non-integer length")
			}
			if n.IsConst() {
				if n.C < 0 {
					ev.fail(e.Pos(), "make with negative length %d", n.C)
				}
				if n.C > 1<<20 {
					ev.fail(e.Pos(), "make length too large")
				}
				out := make([]Value, n.C)
				for i := range out {
					out[i] = ev.zero(e.Pos(), u.Elem())
				}
				return NewSlice(out...)
			}
			ev.nloop++
			return AbsSeq{Name: fmt.Sprintf("made#%d", ev.nloop), Len: n, Fill: &FillState{V: ev.zero(e.Pos(), u.Elem())}}
		}
	case "append":
		base := ev.resolve(ev.expr(env, e.Args[0]))
		var add []Value
		for i, a := range e.Args[1:] {
			v := ev.resolve(ev.expr(env, a))
			if i == len(e.Args)-2 && e.Ellipsis.IsValid() {
				add = append(add, Spread{V: v})
			} else {
				add = append(add, Copy(v))
			}
		}
		return ev.appendTo(e.Pos(), base, add)
	case "copy":
		dst := ev.resolve(ev.expr(env, e.Args[0]))
		src := ev.resolve(ev.expr(env, e.Args[1]))
		d, ok1 := dst.(Slice)
		s, ok2 := src.(Slice)
		if ok1 && ok2 {
			n := copy(d.Elems(), s.Elems())
			return K(int64(n))
		}
		if a, ok := dst.(AbsSeq); ok && a.Fill != nil {
			a.Fill.V = Opaque{Why: "copy of " + Show(src)}
			return ev.seqLen(e.Pos(), src)
		}
		ev.fail(e.Pos(), "copy(%s, %s)", Show(dst), Show(src))
	case "delete":
		m := ev.resolve(ev.expr(env, e.Args[0]))
		k := ev.resolve(ev.expr(env, e.Args[1]))
		mv, ok := m.(*MapVal)
		if !ok || !mv.Delete(k) {
			ev.fail(e.Pos(), "delete with non-constant key")
		}
		return nil
	case "close":
		ch, ok := ev.resolve(ev.expr(env, e.Args[0])).(*ChanVal)
		if !ok {
			ev.fail(e.Pos(), "close of an unknown channel")
		}
		if ch.Closed {
			ev.fail(e.Pos(), "close of a closed channel (run-time panic)")
		}
		ch.Closed = true
		return nil
	case "panic":
		ev.fail(e.Pos(), "panic reached")
	case "recover":
		return Nil{} // no panic is in progress in an interpreted run that got this far (a panic ends the run: "panic reached")
	case "new":
		t := info.TypeOf(e.Args[0])
		cell := &Var{V: ev.zero(e.Pos(), t)}
		return &Ref{Get: func() Value { return cell.V }, Set: func(x Value) { cell.V = x }}
	case "min", "max":
		var best Lin
		for i, a := range e.Args {
			v, ok := ev.resolve(ev.expr(env, a)).(Lin)
			if !ok || !v.IsConst() {
				ev.fail(e.Pos(), "symbolic min/max")
			}
			if i == 0 || (name == "min" && v.C < best.C) || (name == "max" && v.C > best.C) {
				best = v
			}
		}
		return best
	}
	ev.fail(e.Pos(), "unsupported builtin %s", name)
	return nil
}

// appendBytes: append to a byte slice whose text is (partly) symbolic - kept as one BytesOf string.
func (ev *Evaluator) appendBytes(pos token.Pos, cur Str, add []Value) (Value, bool) {
	for _, a := range add {
		if sp, ok := a.(Spread); ok {
			switch sv := sp.V.(type) {
			case Str:
				cur = cur.Concat(sv)
			case BytesOf:
				cur = cur.Concat(sv.S)
			case Nil:
			case Slice:
				b, ok := constBytes(sv)
				if !ok {
					return nil, false
				}
				cur = cur.Concat(S(string(b)))
			default:
				return nil, false
			}
			continue
		}
		l, ok := a.(Lin)
		if !ok || !l.IsConst() {
			return nil, false
		}
		cur = cur.Concat(S(string([]byte{byte(l.C)})))
	}
	return BytesOf{S: cur}, true
}

func (ev *Evaluator) appendTo(pos token.Pos, base Value, add []Value) Value {
	switch b := base.(type) {
	case BytesOf:
		if v, ok := ev.appendBytes(pos, b.S, add); ok {
			return v
		}
	case Slice, Nil:
		for _, a := range add {
			sp, isSpread := a.(Spread)
			if !isSpread {
				continue
			}
			_, isBytes := sp.V.(BytesOf)
			st, isStr := sp.V.(Str)
			if isBytes || (isStr && !st.IsConst()) {
				if cb, ok := constBytes(base); ok {
					if v, ok := ev.appendBytes(pos, S(string(cb)), add); ok {
						return v
					}
				}
				break
			}
		}
		var s Slice
		if bs, ok := b.(Slice); ok {
			s = bs
		}
		concrete := true
		var flat []Value
		for _, a := range add {
			if sp, ok := a.(Spread); ok {
				switch sv := sp.V.(type) {
				case Slice:
					flat = append(flat, sv.Elems()...)
				case Nil:
				case Str:
					if sv.IsConst() {
						for i := 0; i < len(sv.Const()); i++ {
							flat = append(flat, K(int64(sv.Const()[i])))
						}
					} else {
						concrete = false
					}
				default:
					concrete = false
				}
			} else {
				flat = append(flat, a)
			}
		}
		if concrete {
			// Go semantics: reuse backing array when capacity allows (this is what
			// makes the append-after-truncate alias hazard observable).
			if s.A != nil && s.Hi+len(flat) <= len(s.A.E) {
				copy(s.A.E[s.Hi:], flat)
				return Slice{A: s.A, Lo: s.Lo, Hi: s.Hi + len(flat)}
			}
			n := make([]Value, 0, s.Len()+len(flat))
			n = append(n, s.Elems()...)
			n = append(n, flat...)
			return Slice{A: &Arr{E: n}, Lo: 0, Hi: len(n)}
		}
		parts := []Value{}
		if s.Len() > 0 {
			parts = append(parts, s)
		}
		for _, a := range add {
			if sp, ok := a.(Spread); ok {
				parts = append(parts, sp.V)
			} else {
				parts = append(parts, NewSlice(a))
			}
		}
		return CatSeq{Parts: parts}
	case AbsSeq, CatSeq:
		var parts []Value
		if c, ok := b.(CatSeq); ok {
			parts = append(parts, c.Parts...)
		} else {
			parts = append(parts, b)
		}
		for _, a := range add {
			if sp, ok := a.(Spread); ok {
				if c, ok := sp.V.(CatSeq); ok {
					parts = append(parts, c.Parts...)
				} else {
					parts = append(parts, sp.V)
				}
			} else {
				parts = append(parts, NewSlice(a))
			}
		}
		return CatSeq{Parts: parts}
	case ListVal:
		n := ListVal{Base: b.Base, App: append([]Value{}, b.App...)}
		for _, a := range add {
			if sp, ok := a.(Spread); ok {
				if s, ok := sp.V.(Slice); ok {
					n.App = append(n.App, s.Elems()...)
					continue
				}
			}
			n.App = append(n.App, a)
		}
		return n
	}
	ev.fail(pos, "append to %s", Show(base))
	return nil
}

// ---------------------------------------------------------------- native models of standard-library functions

func (ev *Evaluator) native(pos token.Pos, fn *types.Func, recv Value, args []Value) (Value, bool) {
	full := fn.FullName()
	argLin := func(i int) Lin {
		l, ok := args[i].(Lin)
		if !ok {
			ev.fail(pos, "%s: integer argument expected, got %s", full, Show(args[i]))
		}
		return l
	}
	argStr := func(i int) Str {
		s, ok := args[i].(Str)
		if !ok {
			ev.fail(pos, "%s: string argument expected, got %s", full, Show(args[i]))
		}
		return s
	}
	switch full {
	case "strconv.Itoa":
		l := argLin(0)
		return Str{Parts: []StrPart{{Itoa: &l}}}.norm(), true
	case "strconv.Atoi":
		s := argStr(0)
		if s.IsConst() {
			n, err := strconv.Atoi(s.Const())
			if err != nil {
				return Tuple{K(0), ErrVal{Msg: S("atoi")}}, true
			}
			return Tuple{K(int64(n)), Nil{}}, true
		}
		n := s.norm()
		if len(n.Parts) == 1 && n.Parts[0].Itoa != nil {
			return Tuple{*n.Parts[0].Itoa, Nil{}}, true
		}
		ev.fail(pos, "Atoi of symbolic string %s", s)
	case "strconv.FormatFloat":
		f, _ := args[0].(*FExpr)
		if f == nil {
			ev.fail(pos, "FormatFloat of non-float")
		}
		return SSym(fmt.Sprintf("fmtfloat(%s,%s,%s,%s)", f, Show(args[1]), Show(args[2]), Show(args[3]))), true
	case "strings.Join":
		sep := argStr(1)
		switch l := args[0].(type) {
		case Slice:
			out := S("")
			for i, e := range l.Elems() {
				if i > 0 {
					out = out.Concat(sep)
				}
				es, ok := e.(Str)
				if !ok {
					ev.fail(pos, "Join of non-strings")
				}
				out = out.Concat(es)
			}
			return out, true
		case ListVal:
			return SSym("join(" + Show(l) + "," + sep.String() + ")"), true
		}
		ev.fail(pos, "Join of %s", Show(args[0]))
	case "strings.ToUpper":
		s := argStr(0)
		if s.IsConst() {
			return S(strings.ToUpper(s.Const())), true
		}
		return SSym("upper(" + s.String() + ")"), true
	case "strings.Fields":
		s := argStr(0)
		if !s.IsConst() {
			ev.fail(pos, "Fields of symbolic string")
		}
		fs := strings.Fields(s.Const())
		out := make([]Value, len(fs))
		for i, f := range fs {
			out[i] = S(f)
		}
		return NewSlice(out...), true
	case "unicode.IsDigit", "unicode.IsSpace", "unicode.IsLower":
		l, ok := args[0].(Lin)
		if !ok || !l.IsConst() {
			ev.fail(pos, "%s of a symbolic rune", full)
		}
		r := rune(l.C)
		switch full {
		case "unicode.IsDigit":
			return r >= '0' && r <= '9', true
		case "unicode.IsSpace":
			return r == ' ' || (r >= '\t' && r <= '\r') || r == 0x85 || r == 0xA0, true
		}
		return r >= 'a' && r <= 'z', true
	case "strings.FieldsFunc", "strings.TrimFunc", "strings.IndexFunc":
		st := argStr(0)
		pred, ok := args[1].(*FuncVal)
		if !st.IsConst() || !ok {
			ev.fail(pos, "%s of a symbolic string", full)
		}
		is := func(r rune) bool {
			b, isBool := ev.callFuncVal(pos, pred, []Value{K(int64(r))}).(bool)
			if !isBool {
				ev.fail(pos, "%s: the predicate did not return a boolean", full)
			}
			return b
		}
		switch full {
		case "strings.TrimFunc":
			return S(strings.TrimFunc(st.Const(), is)), true
		case "strings.IndexFunc":
			return K(int64(strings.IndexFunc(st.Const(), is))), true
		}
		fs := strings.FieldsFunc(st.Const(), is)
		out := make([]Value, len(fs))
		for i, f := range fs {
			out[i] = S(f)
		}
		return NewSlice(out...), true
	case "strings.Split":
		s, sep := argStr(0), argStr(1)
		if !s.IsConst() || !sep.IsConst() {
			ev.fail(pos, "Split of symbolic string")
		}
		fs := strings.Split(s.Const(), sep.Const())
		out := make([]Value, len(fs))
		for i, f := range fs {
			out[i] = S(f)
		}
		return NewSlice(out...), true
	case "strings.SplitN":
		s, sep, n := argStr(0), argStr(1), argLin(2)
		if !s.IsConst() || !sep.IsConst() || !n.IsConst() {
			ev.fail(pos, "SplitN of symbolic string")
		}
		fs := strings.SplitN(s.Const(), sep.Const(), int(n.C))
		out := make([]Value, len(fs))
		for i, f := range fs {
			out[i] = S(f)
		}
		return NewSlice(out...), true
	case "strings.Index", "strings.IndexByte", "strings.Count":
		a, b := argStr(0), args[1]
		if !a.IsConst() {
			ev.fail(pos, "%s of symbolic string", full)
		}
		switch bv := b.(type) {
		case Str:
			if !bv.IsConst() {
				ev.fail(pos, "%s of symbolic string", full)
			}
			if full == "strings.Count" {
				return K(int64(strings.Count(a.Const(), bv.Const()))), true
			}
			return K(int64(strings.Index(a.Const(), bv.Const()))), true
		case Lin:
			if bv.IsConst() {
				return K(int64(strings.IndexByte(a.Const(), byte(bv.C)))), true
			}
		}
		ev.fail(pos, "%s: unsupported arguments", full)
	case "strings.IndexAny", "strings.ContainsAny", "strings.EqualFold":
		a, b := argStr(0), argStr(1)
		if !a.IsConst() || !b.IsConst() {
			ev.fail(pos, "%s of symbolic string", full)
		}
		switch full {
		case "strings.IndexAny":
			return K(int64(strings.IndexAny(a.Const(), b.Const()))), true
		case "strings.ContainsAny":
			return strings.ContainsAny(a.Const(), b.Const()), true
		}
		return strings.EqualFold(a.Const(), b.Const()), true
	case "strings.TrimSpace", "strings.ToLower":
		s := argStr(0)
		if !s.IsConst() {
			ev.fail(pos, "%s of symbolic string", full)
		}
		if full == "strings.ToLower" {
			return S(strings.ToLower(s.Const())), true
		}
		return S(strings.TrimSpace(s.Const())), true
	case "strings.HasPrefix", "strings.HasSuffix", "strings.Contains", "strings.TrimPrefix", "strings.TrimSuffix", "strings.TrimLeft", "strings.TrimRight", "strings.ReplaceAll_",
		"strings.Cut", "strings.CutPrefix", "strings.CutSuffix", "strings.LastIndex", "strings.Trim":
		a, b := argStr(0), argStr(1)
		if !a.IsConst() || !b.IsConst() {
			ev.fail(pos, "%s of symbolic string", full)
		}
		switch full {
		case "strings.Cut":
			x, y, found := strings.Cut(a.Const(), b.Const())
			return Tuple{S(x), S(y), found}, true
		case "strings.CutPrefix":
			x, found := strings.CutPrefix(a.Const(), b.Const())
			return Tuple{S(x), found}, true
		case "strings.CutSuffix":
			x, found := strings.CutSuffix(a.Const(), b.Const())
			return Tuple{S(x), found}, true
		case "strings.LastIndex":
			return K(int64(strings.LastIndex(a.Const(), b.Const()))), true
		case "strings.Trim":
			return S(strings.Trim(a.Const(), b.Const())), true
		case "strings.HasPrefix":
			return strings.HasPrefix(a.Const(), b.Const()), true
		case "strings.HasSuffix":
			return strings.HasSuffix(a.Const(), b.Const()), true
		case "strings.Contains":
			return strings.Contains(a.Const(), b.Const()), true
		case "strings.TrimPrefix":
			return S(strings.TrimPrefix(a.Const(), b.Const())), true
		case "strings.TrimSuffix":
			return S(strings.TrimSuffix(a.Const(), b.Const())), true
		case "strings.TrimLeft":
			return S(strings.TrimLeft(a.Const(), b.Const())), true
		case "strings.TrimRight":
			return S(strings.TrimRight(a.Const(), b.Const())), true
		}
	case "strconv.ParseFloat":
		s := argStr(0)
		if !s.IsConst() {
			ev.fail(pos, "ParseFloat of symbolic string")
		}
		bits := 64
		if len(args) > 1 {
			if l, ok := args[1].(Lin); ok && l.IsConst() {
				bits = int(l.C) // a 32-bit parse rounds to float32: the value differs
			} else {
				ev.fail(pos, "ParseFloat with symbolic bit size")
			}
		}
		f, err := strconv.ParseFloat(s.Const(), bits)
		if err != nil {
			return Tuple{FConst(0), ErrVal{Msg: S("parsefloat")}}, true
		}
		return Tuple{FConst(f), Nil{}}, true
	case "path.Ext", "path/filepath.Ext", "path.Base", "path/filepath.Base":
		a := argStr(0)
		if !a.IsConst() {
			ev.fail(pos, "%s of symbolic path", full)
		}
		if strings.HasSuffix(full, "Ext") {
			return S(path.Ext(a.Const())), true
		}
		return S(path.Base(a.Const())), true
	case "strings.ContainsRune", "strings.IndexRune":
		a := argStr(0)
		r := argLin(1)
		if !a.IsConst() || !r.IsConst() {
			ev.fail(pos, "%s of symbolic operands", full)
		}
		if full == "strings.ContainsRune" {
			return strings.ContainsRune(a.Const(), rune(r.C)), true
		}
		return K(int64(strings.IndexRune(a.Const(), rune(r.C)))), true
	case "net/url.QueryUnescape", "net/url.PathUnescape":
		a := argStr(0)
		if !a.IsConst() {
			ev.fail(pos, "%s of a symbolic string", full)
		}
		var out string
		var err error
		if full == "net/url.QueryUnescape" {
			out, err = url.QueryUnescape(a.Const())
		} else {
			out, err = url.PathUnescape(a.Const())
		}
		if err != nil {
			return Tuple{S(""), ErrVal{Msg: S(err.Error())}}, true
		}
		return Tuple{S(out), Nil{}}, true
	case "path.Join", "path/filepath.Join":
		var parts []string
		for _, a := range args {
			s, ok := a.(Str)
			if !ok || !s.IsConst() {
				ev.fail(pos, "Join of symbolic path")
			}
			parts = append(parts, s.Const())
		}
		return S(path.Join(parts...)), true
	case "strings.ReplaceAll":
		a, b, cc := argStr(0), argStr(1), argStr(2)
		if !a.IsConst() || !b.IsConst() || !cc.IsConst() {
			ev.fail(pos, "ReplaceAll of symbolic string")
		}
		return S(strings.ReplaceAll(a.Const(), b.Const(), cc.Const())), true
	case "strings.Repeat":
		s, n := argStr(0), argLin(1)
		if s.IsConst() && n.IsConst() && n.C >= 0 {
			return S(strings.Repeat(s.Const(), int(n.C))), true
		}
		ev.fail(pos, "symbolic strings.Repeat")
	case "bytes.Count", "bytes.Equal", "bytes.IndexByte", "bytes.LastIndexByte", "bytes.Index", "bytes.Contains", "bytes.HasPrefix", "bytes.HasSuffix", "bytes.Compare":
		a, ok1 := constBytes(args[0])
		if !ok1 {
			ev.fail(pos, "%s of symbolic bytes %s", full, Show(args[0]))
		}
		switch full {
		case "bytes.IndexByte", "bytes.LastIndexByte":
			c := argLin(1)
			if !c.IsConst() {
				ev.fail(pos, "%s of a symbolic byte", full)
			}
			if full == "bytes.IndexByte" {
				return K(int64(bytes.IndexByte(a, byte(c.C)))), true
			}
			return K(int64(bytes.LastIndexByte(a, byte(c.C)))), true
		}
		b, ok2 := constBytes(args[1])
		if !ok2 {
			ev.fail(pos, "%s of symbolic bytes %s", full, Show(args[1]))
		}
		switch full {
		case "bytes.Count":
			return K(int64(bytes.Count(a, b))), true
		case "bytes.Equal":
			return bytes.Equal(a, b), true
		case "bytes.Index":
			return K(int64(bytes.Index(a, b))), true
		case "bytes.Contains":
			return bytes.Contains(a, b), true
		case "bytes.HasPrefix":
			return bytes.HasPrefix(a, b), true
		case "bytes.HasSuffix":
			return bytes.HasSuffix(a, b), true
		case "bytes.Compare":
			return K(int64(bytes.Compare(a, b))), true
		}
	case "strconv.AppendInt", "strconv.AppendUint":
		n, base := argLin(1), argLin(2)
		dst, ok := constBytes(args[0])
		if ok && n.IsConst() && base.IsConst() {
			return bytesToSlice(strconv.AppendInt(dst, n.C, int(base.C))), true
		}
		if base.IsConst() && base.C == 10 {
			digits := Str{Parts: []StrPart{{Itoa: &n}}}.norm()
			if ok {
				return BytesOf{S: S(string(dst)).Concat(digits)}, true
			}
			if bo, isB := args[0].(BytesOf); isB {
				return BytesOf{S: bo.S.Concat(digits)}, true
			}
		}
		ev.fail(pos, "%s of symbolic arguments", full)
	case "strconv.FormatInt":
		n, base := argLin(0), argLin(1)
		if base.IsConst() && base.C == 10 {
			return Str{Parts: []StrPart{{Itoa: &n}}}.norm(), true
		}
		if !n.IsConst() || !base.IsConst() {
			ev.fail(pos, "FormatInt of symbolic arguments")
		}
		return S(strconv.FormatInt(n.C, int(base.C))), true
	case "strconv.AppendFloat":
		// kept symbolic like FormatFloat: the destination's bytes followed by the marker's bytes
		var cur Str
		if dst, ok := constBytes(args[0]); ok {
			cur = S(string(dst))
		} else if bo, isB := args[0].(BytesOf); isB {
			cur = bo.S
		} else {
			ev.fail(pos, "AppendFloat to a symbolic destination")
		}
		f, _ := args[1].(*FExpr)
		if f == nil {
			ev.fail(pos, "AppendFloat of a non-float")
		}
		return BytesOf{S: cur.Concat(SSym(fmt.Sprintf("fmtfloat(%s,%s,%s,%s)", f, Show(args[2]), Show(args[3]), Show(args[4]))))}, true
	case "unicode/utf8.AppendRune":
		dst, ok := constBytes(args[0])
		r := argLin(1)
		if !ok || !r.IsConst() {
			ev.fail(pos, "AppendRune of symbolic arguments")
		}
		return bytesToSlice(utf8.AppendRune(dst, rune(r.C))), true
	case "unicode/utf8.RuneLen":
		r := argLin(0)
		if !r.IsConst() {
			ev.fail(pos, "RuneLen of a symbolic rune")
		}
		return K(int64(utf8.RuneLen(rune(r.C)))), true
	case "bytes.Repeat":
		n := argLin(1)
		b, ok := args[0].(Slice)
		if ok && b.Len() == 1 {
			if n.IsConst() && n.C >= 0 && n.C < 1<<16 {
				out := make([]Value, n.C)
				for i := range out {
					out[i] = b.Elems()[0]
				}
				return NewSlice(out...), true
			}
			ev.nloop++
			return AbsSeq{Name: fmt.Sprintf("made#%d", ev.nloop), Len: n, Fill: &FillState{V: b.Elems()[0]}}, true
		}
		ev.fail(pos, "bytes.Repeat of %s", Show(args[0]))
	case "math.Log":
		f, ok := args[0].(*FExpr)
		if !ok {
			ev.fail(pos, "Log of non-float")
		}
		if f.IsConst() {
			return FConst(math.Log(f.C)), true
		}
		return &FExpr{Op: "log", A: f}, true
	case "math.Min", "math.Max", "math.Abs", "math.Ceil", "math.Round", "math.Trunc", "math.Sqrt":
		var fs []float64
		symbolic := false
		for _, a := range args {
			f, ok := a.(*FExpr)
			if !ok {
				ev.fail(pos, "%s of a non-float", full)
			}
			if !f.IsConst() {
				symbolic = true
			}
			fs = append(fs, f.C)
		}
		if symbolic {
			// kept as an uninterpreted operator: the result is no longer a rational function of its inputs
			x := &FExpr{Op: strings.ToLower(strings.TrimPrefix(full, "math.")), A: args[0].(*FExpr)}
			if len(args) > 1 {
				x.B = args[1].(*FExpr)
			}
			return x, true
		}
		switch full {
		case "math.Min":
			return FConst(math.Min(fs[0], fs[1])), true
		case "math.Max":
			return FConst(math.Max(fs[0], fs[1])), true
		case "math.Abs":
			return FConst(math.Abs(fs[0])), true
		case "math.Ceil":
			return FConst(math.Ceil(fs[0])), true
		case "math.Round":
			return FConst(math.Round(fs[0])), true
		case "math.Trunc":
			return FConst(math.Trunc(fs[0])), true
		case "math.Sqrt":
			return FConst(math.Sqrt(fs[0])), true
		}
	case "math.Floor":
		f, ok := args[0].(*FExpr)
		if ok && f.IsConst() {
			return FConst(math.Floor(f.C)), true
		}
		if ok {
			return &FExpr{Op: "floor", A: f}, true
		}
	case "sort.Slice", "sort.SliceStable":
		sl, ok := args[0].(Slice)
		less, ok2 := args[1].(*FuncVal)
		call := SortCall{Pos: pos, Func: full}
		if ok && ok2 {
			// in-place stable insertion sort by adjacent swaps (sort.Slice is modelled as
			// stable too; its use where stability matters is flagged by the rules, which are told the
			// order of the input and whether distinguishable elements tie under the comparator)
			es := sl.Elems()
			shown := make([]string, len(es))
			for i, e := range es {
				shown[i] = Show(e)
			}
			call.Input = strings.Join(shown, " ")
			defer func() {
				for i := 0; i+1 < len(es); i++ {
					a, _ := ev.callFuncVal(pos, less, []Value{K(int64(i)), K(int64(i + 1))}).(bool)
					b, _ := ev.callFuncVal(pos, less, []Value{K(int64(i + 1)), K(int64(i))}).(bool)
					if !a && !b && Show(es[i]) != Show(es[i+1]) {
						call.Ties = true
					}
				}
				ev.SortCalls = append(ev.SortCalls, call)
			}()
			for i := 1; i < len(es); i++ {
				for j := i; j > 0; j-- {
					b, isBool := ev.callFuncVal(pos, less, []Value{K(int64(j)), K(int64(j - 1))}).(bool)
					if !isBool {
						ev.fail(pos, "comparator did not return a boolean")
					}
					if !b {
						break
					}
					es[j], es[j-1] = es[j-1], es[j]
				}
			}
		} else {
			ev.SortCalls = append(ev.SortCalls, call)
		}
		return nil, true
	case "sort.Sort", "sort.Strings", "sort.Ints":
		ev.SortCalls = append(ev.SortCalls, SortCall{Pos: pos, Func: full})
		if sl, ok := args[0].(Slice); ok && full != "sort.Sort" {
			es := sl.Elems()
			for i := 1; i < len(es); i++ {
				for j := i; j > 0; j-- {
					lt, _ := ev.binop(pos, token.LSS, es[j], es[j-1], nil).(bool)
					if !lt {
						break
					}
					es[j], es[j-1] = es[j-1], es[j]
				}
			}
		}
		return nil, true
	case "sort.Search":
		nl, ok := args[0].(Lin)
		pred, ok2 := args[1].(*FuncVal)
		if !ok || !nl.IsConst() || !ok2 {
			ev.fail(pos, "sort.Search over a symbolic range")
		}
		// binary search exactly as the library does it
		lo, hi := 0, int(nl.C)
		for lo < hi {
			mid := int(uint(lo+hi) >> 1)
			ge, isBool := ev.callFuncVal(pos, pred, []Value{K(int64(mid))}).(bool)
			if !isBool {
				ev.fail(pos, "undecidable search predicate")
			}
			if !ge {
				lo = mid + 1
			} else {
				hi = mid
			}
		}
		return K(int64(lo)), true
	case "sort.SearchStrings", "sort.SearchInts":
		sl, ok := args[0].(Slice)
		if !ok {
			ev.fail(pos, "%s on %s", full, Show(args[0]))
		}
		es := sl.Elems()
		// binary search exactly as the library does it
		lo, hi := 0, len(es)
		for lo < hi {
			mid := int(uint(lo+hi) >> 1)
			ge, isBool := ev.binop(pos, token.GEQ, es[mid], args[1], nil).(bool)
			if !isBool {
				ev.fail(pos, "undecidable search comparison")
			}
			if !ge {
				lo = mid + 1
			} else {
				hi = mid
			}
		}
		return K(int64(lo)), true
	case "math.IsNaN":
		f, ok := args[0].(*FExpr)
		if ok && f.IsConst() {
			return math.IsNaN(f.C), true
		}
		ev.fail(pos, "IsNaN of symbolic float")
	case "math.IsInf":
		f, ok := args[0].(*FExpr)
		if ok && f.IsConst() {
			sign, _ := args[1].(Lin)
			return math.IsInf(f.C, int(sign.C)), true
		}
		ev.fail(pos, "IsInf of symbolic float")
	case "math.NaN":
		return FConst(math.NaN()), true
	case "math.Inf":
		sign, _ := args[0].(Lin)
		return FConst(math.Inf(int(sign.C))), true
	case "(*strings.Builder).WriteString", "(*strings.Builder).WriteByte", "(*strings.Builder).WriteRune", "(*strings.Builder).Write",
		"(*strings.Builder).String", "(*strings.Builder).Len", "(*strings.Builder).Reset", "(*strings.Builder).Grow":
		r, ok := recv.(*Ref)
		if !ok {
			ev.fail(pos, "%s on a non-addressable builder", full)
		}
		cur, isStr := r.Get().(Str)
		if !isStr {
			cur = S("") // the zero Builder (modelled struct) becomes its string contents
		}
		switch full {
		case "(*strings.Builder).WriteString":
			r.Set(cur.Concat(argStr(0)))
			return Tuple{ev.seqLen(pos, args[0]), Nil{}}, true
		case "(*strings.Builder).WriteByte":
			l := argLin(0)
			if l.IsConst() {
				r.Set(cur.Concat(S(string([]byte{byte(l.C)}))))
			} else {
				r.Set(cur.Concat(SSym("chr(" + l.String() + ")")))
			}
			return Nil{}, true
		case "(*strings.Builder).WriteRune":
			l := argLin(0)
			if l.IsConst() {
				r.Set(cur.Concat(S(string(rune(l.C)))))
			} else {
				r.Set(cur.Concat(SSym("chr(" + l.String() + ")")))
			}
			return Tuple{K(1), Nil{}}, true
		case "(*strings.Builder).Write":
			switch b := args[0].(type) {
			case BytesOf:
				r.Set(cur.Concat(b.S))
			case Slice:
				var sb strings.Builder
				for _, e := range b.Elems() {
					l, ok := e.(Lin)
					if !ok || !l.IsConst() {
						ev.fail(pos, "Builder.Write of symbolic bytes")
					}
					sb.WriteByte(byte(l.C))
				}
				r.Set(cur.Concat(S(sb.String())))
			default:
				ev.fail(pos, "Builder.Write of %s", Show(b))
			}
			return Tuple{K(0), Nil{}}, true
		case "(*strings.Builder).String":
			return cur, true
		case "(*strings.Builder).Len":
			return ev.seqLen(pos, cur), true
		case "(*strings.Builder).Reset":
			r.Set(S(""))
			return nil, true
		case "(*strings.Builder).Grow":
			return nil, true
		}
	case "errors.Is":
		// the error is the target when both are the same error value (same text); a nil error is no error
		e1, ok1 := args[0].(ErrVal)
		e2, ok2 := args[1].(ErrVal)
		if _, isNil := args[0].(Nil); isNil || args[0] == nil {
			return false, true
		}
		if ok1 && ok2 {
			return Show(e1.Msg) == Show(e2.Msg), true
		}
		if ok1 {
			return false, true // compared with a library sentinel the models never produce
		}
		return nil, false
	case "strings.NewReplacer":
		var pairs []string
		for _, a := range args {
			st, ok := a.(Str)
			if !ok || !st.IsConst() {
				ev.fail(pos, "strings.NewReplacer with a symbolic argument")
			}
			pairs = append(pairs, st.Const())
		}
		if len(pairs)%2 != 0 {
			ev.fail(pos, "strings.NewReplacer: odd argument count (the library panics)")
		}
		return &Handle{Dyn: "*strings.Replacer", Tag: strings.Join(pairs, "\x00")}, true
	case "(*strings.Replacer).Replace":
		h, _ := recv.(*Handle)
		if r, isRef := recv.(*Ref); isRef {
			h, _ = r.Get().(*Handle)
		}
		st, ok := args[0].(Str)
		if h == nil || !ok || !st.IsConst() {
			ev.fail(pos, "(*strings.Replacer).Replace on symbolic text")
		}
		var pairs []string
		if h.Tag != "" {
			pairs = strings.Split(h.Tag, "\x00")
		}
		return S(strings.NewReplacer(pairs...).Replace(st.Const())), true
	case "(*sync.Once).Do":
		// the function runs the first time Do is called on this Once (the Once's storage remembers it)
		r, isRef := recv.(*Ref)
		f, isFn := args[0].(*FuncVal)
		if !isRef || !isFn {
			return nil, false
		}
		if done, _ := r.Get().(*StructVal); done != nil {
			if b, _ := done.F["\x00once-done"].(bool); b {
				return nil, true
			}
			done.F["\x00once-done"] = true
		} else {
			r.Set(&StructVal{F: map[string]Value{"\x00once-done": true}})
		}
		ev.callFuncVal(pos, f, nil)
		return nil, true
	case "(*sync.WaitGroup).Add", "(*sync.WaitGroup).Done", "(*sync.WaitGroup).Wait", "(*sync.Mutex).Lock", "(*sync.Mutex).Unlock":
		if !ev.Pipeline {
			return nil, false
		}
		return nil, true // stages run to completion at their go statement: waiting is immediate
	case "runtime.GOMAXPROCS":
		if !ev.Pipeline {
			return nil, false
		}
		return K(1), true
	case "runtime.NumCPU":
		if !ev.Pipeline && ev.NumCPU <= 0 {
			return nil, false
		}
		return K(int64(ev.NumCPU)), true
	case "errors.New":
		return ErrVal{Msg: argStr(0)}, true
	case "fmt.Errorf", "fmt.Sprintf":
		if full == "fmt.Errorf" {
			return ErrVal{Msg: SSym("errorf")}, true
		}
		return SSym("sprintf"), true
	case "(*os.File).WriteString", "fmt.Fprintf", "fmt.Fprintln", "fmt.Fprint":
		// diagnostics; only tolerated when the destination is os.Stderr
		var dst Value = recv
		if full != "(*os.File).WriteString" && len(args) > 0 {
			dst = args[0]
		}
		if r, ok := dst.(*Ref); ok {
			dst = r.Get()
		}
		if o, ok := dst.(Opaque); ok && strings.Contains(o.Why, "Stderr") {
			return Tuple{K(0), Nil{}}, true
		}
		ev.fail(pos, "write to %s inside evaluated fragment", Show(dst))
	case "unicode/utf8.DecodeRune":
		if s, ok := args[0].(Slice); ok && s.Len() == 1 {
			if l, ok := s.Elems()[0].(Lin); ok && l.IsConst() {
				if l.C < 0x80 {
					return Tuple{l, K(1)}, true
				}
				return Tuple{K(0xFFFD), K(1)}, true
			}
		}
		ev.fail(pos, "DecodeRune of %s", Show(args[0]))
	case "unicode.IsLetter":
		l := argLin(0)
		if l.IsConst() {
			r := rune(l.C)
			return (r >= 'a' && r <= 'z') || (r >= 'A' && r <= 'Z') || (r > 0x7f && r != 0xFFFD && isLetterHigh(r)), true
		}
		ev.fail(pos, "IsLetter of symbolic rune")
	case "unicode.IsUpper":
		l := argLin(0)
		if l.IsConst() {
			r := rune(l.C)
			return r >= 'A' && r <= 'Z', true
		}
	}
	return nil, false
}

func isLetterHigh(r rune) bool { return false }

// RunUntil interprets the top-level statements of fn's body until stop reports
// true for a statement (which is not executed) and returns the variables in scope.
func (ev *Evaluator) RunUntil(fn *types.Func, args []Value, stop func(ast.Stmt) bool) (vars []NamedVar, err error) {
	decl, pkg := ev.FuncDecl(fn)
	if decl == nil || decl.Body == nil {
		return nil, fmt.Errorf("no source for %s", fn.FullName())
	}
	env := &Env{vars: map[types.Object]*Var{}, pkg: pkg, frame: &activation{}}
	info := pkg.TypesInfo
	i := 0
	for _, f := range decl.Type.Params.List {
		for _, n := range f.Names {
			if obj := info.Defs[n]; obj != nil && i < len(args) {
				env.define(obj, args[i])
			}
			i++
		}
	}
	err = ev.Try(func() {
		for _, s := range decl.Body.List {
			if stop(s) {
				break
			}
			if c := ev.stmt(env, s); c.kind != ctrlNone {
				break
			}
		}
	})
	for o, v := range env.vars {
		vars = append(vars, NamedVar{Name: o.Name(), Type: o.Type(), V: v.V})
	}
	sort.Slice(vars, func(i, j int) bool { return vars[i].Name < vars[j].Name })
	return vars, err
}

// NamedVar is a variable in scope after RunUntil.
type NamedVar struct {
	Name string
	Type types.Type
	V    Value
}

// SortCall records one call of a sort function seen during evaluation.
type SortCall struct {
	Pos  token.Pos
	Func string
	// Input renders the slice as it was handed to sort.Slice / sort.SliceStable; Ties reports that two adjacent
	// elements of the result compare equal under the comparator although they are different values.
	Input string
	Ties  bool
}

// SetGlobal presets a package-level variable.
func (ev *Evaluator) SetGlobal(o *types.Var, v Value) { ev.globals[o] = &Var{Obj: o, V: v} }

// GetGlobal reads a package-level variable (nil if never touched).
func (ev *Evaluator) GetGlobal(o *types.Var) Value {
	if v, ok := ev.globals[o]; ok {
		return v.V
	}
	return nil
}

// RunLitUntil interprets the top-level statements of a function literal until stop
// reports true; it returns the value of an executed return statement, if any.
func (ev *Evaluator) RunLitUntil(lit *ast.FuncLit, pkg *packages.Package, args []Value, stop func(ast.Stmt) bool) (ret Value, returned bool, err error) {
	env := &Env{vars: map[types.Object]*Var{}, pkg: pkg, frame: &activation{}}
	info := pkg.TypesInfo
	i := 0
	for _, f := range lit.Type.Params.List {
		for _, n := range f.Names {
			if obj := info.Defs[n]; obj != nil && i < len(args) {
				env.define(obj, args[i])
			}
			i++
		}
	}
	if lit.Type.Results != nil {
		for _, f := range lit.Type.Results.List {
			for _, n := range f.Names {
				if obj := info.Defs[n]; obj != nil {
					env.define(obj, ev.zero(n.Pos(), obj.Type()))
				}
			}
		}
	}
	err = ev.Try(func() {
		for _, s := range lit.Body.List {
			if stop(s) {
				break
			}
			if c := ev.stmt(env, s); c.kind == ctrlReturn {
				ret, returned = c.val, true
				break
			}
		}
	})
	return
}

// CallLit interprets a function literal that captures no local variables (e.g. a RunE field).
func (ev *Evaluator) CallLit(lit *ast.FuncLit, pkg *packages.Package, args ...Value) (res Value, err error) {
	ev.steps = 0
	err = ev.Try(func() {
		fv := &FuncVal{Lit: lit, Env: &Env{vars: map[types.Object]*Var{}, pkg: pkg}, Pkg: pkg}
		res = ev.callFuncVal(lit.Pos(), fv, args)
	})
	return
}

// CallValue calls a function value obtained during evaluation (panics with *EvalError when undecidable; use inside Try).
func (ev *Evaluator) CallValue(f *FuncVal, args []Value) Value {
	if f.Fn != nil && f.Lit == nil && f.Decl == nil && f.Native == nil {
		return ev.callTypesFunc(token.NoPos, f.Fn, f.Recv, args)
	}
	return ev.callFuncVal(token.NoPos, f, args)
}

// sortInterface models sort.Sort / sort.Stable on a value whose named type implements
// sort.Interface with repository methods: a stable insertion sort through Less and Swap.
func (ev *Evaluator) sortInterface(env *Env, e *ast.CallExpr, v Value) bool {
	t := env.pkg.TypesInfo.TypeOf(e.Args[0])
	if t == nil {
		return false
	}
	lookup := func(name string) *types.Func {
		obj, _, _ := types.LookupFieldOrMethod(t, true, env.pkg.Types, name)
		f, _ := obj.(*types.Func)
		return f
	}
	lenF, lessF, swapF := lookup("Len"), lookup("Less"), lookup("Swap")
	if lenF == nil || lessF == nil || swapF == nil {
		return false
	}
	ev.SortCalls = append(ev.SortCalls, SortCall{Pos: e.Pos(), Func: "sort.Sort"})
	n, ok := ev.callTypesFunc(e.Pos(), lenF, v, nil).(Lin)
	if !ok || !n.IsConst() {
		ev.fail(e.Pos(), "sort.Sort on a collection of symbolic length")
	}
	for i := int64(1); i < n.C; i++ {
		for j := i; j > 0; j-- {
			b, isBool := ev.callTypesFunc(e.Pos(), lessF, v, []Value{K(j), K(j - 1)}).(bool)
			if !isBool {
				ev.fail(e.Pos(), "Less did not return a boolean")
			}
			if !b {
				break
			}
			ev.callTypesFunc(e.Pos(), swapF, v, []Value{K(j), K(j - 1)})
		}
	}
	return true
}

// Zero returns the zero value of a type (for models that must return "nothing").
func (ev *Evaluator) Zero(t types.Type) Value { return ev.zero(token.NoPos, t) }

// constBytes reads a byte slice whose every element is a known constant.
func constBytes(v Value) ([]byte, bool) {
	if r, ok := v.(*Ref); ok {
		v = r.Get()
	}
	switch x := v.(type) {
	case nil, Nil:
		return nil, true
	case BytesOf:
		if x.S.IsConst() {
			return []byte(x.S.Const()), true
		}
	case Slice:
		out := make([]byte, 0, x.Len())
		for _, e := range x.Elems() {
			l, ok := e.(Lin)
			if !ok || !l.IsConst() {
				return nil, false
			}
			out = append(out, byte(l.C))
		}
		return out, true
	}
	return nil, false
}

func bytesToSlice(b []byte) Value {
	vs := make([]Value, len(b))
	for i, c := range b {
		vs[i] = K(int64(c))
	}
	return NewSlice(vs...)
}

// FieldSetter is implemented by models of library objects whose exported fields the interpreted code may set
// (csv.Reader.FieldsPerRecord, ...).
type FieldSetter interface {
	SetField(name string, v Value)
	GetField(name string) Value
}
