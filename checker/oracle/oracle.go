// Package oracle holds reference data written independently of the repository:
// IUPAC nucleotide base sets, the standard genetic code, SAM CIGAR semantics.
package oracle

import "sort"

// Base bits: A=1, C=2, G=4, T=8.
const (
	A = 1
	C = 2
	G = 4
	T = 8
)

// IUPAC maps each of the 15 IUPAC nucleotide codes to the set of bases it denotes
// (Cornish-Bowden 1985).
var IUPAC = map[byte]int{
	'A': A, 'C': C, 'G': G, 'T': T,
	'R': A | G, 'Y': C | T, 'S': C | G, 'W': A | T, 'K': G | T, 'M': A | C,
	'B': C | G | T, 'D': A | G | T, 'H': A | C | T, 'V': A | C | G,
	'N': A | C | G | T,
}

// Symbols17 is the alphabet of the properties: 15 IUPAC codes plus '-' and '?'.
var Symbols17 = []byte("ACGTRYSWKMBDHVN-?")

// Codes15 are the IUPAC nucleotide codes.
var Codes15 = []byte("ACGTRYSWKMBDHVN")

// BaseSet gives the set of bases denoted by a symbol of the 17-letter alphabet.
// '?' and 'N' denote any base; '-' denotes any base (soft gaps) or no base (hard gaps).
func BaseSet(sym byte, hardGaps bool) (int, bool) {
	if sym >= 'a' && sym <= 'z' {
		sym -= 32
	}
	switch sym {
	case '?':
		return A | C | G | T, true
	case '-':
		if hardGaps {
			return 0, true
		}
		return A | C | G | T, true
	}
	s, ok := IUPAC[sym]
	return s, ok
}

func Popcount(s int) int {
	n := 0
	for ; s != 0; s &= s - 1 {
		n++
	}
	return n
}

// Resolved reports whether the symbol is one of A, C, G, T.
func Resolved(sym byte) bool {
	s, ok := BaseSet(sym, true)
	return ok && Popcount(s) == 1
}

// CompBase complements a base set base-wise (A<->T, C<->G).
func CompSet(s int) int {
	r := 0
	if s&A != 0 {
		r |= T
	}
	if s&T != 0 {
		r |= A
	}
	if s&C != 0 {
		r |= G
	}
	if s&G != 0 {
		r |= C
	}
	return r
}

// CodeOfSet returns the IUPAC code denoting exactly the given non-empty base set.
func CodeOfSet(s int) byte {
	for _, c := range Codes15 {
		if IUPAC[c] == s {
			return c
		}
	}
	return 0
}

// StandardCode is NCBI translation table 1, written out in TCAG order
// (first base slowest), independently of the repository's dictionary.
const aasTCAG = "FFLLSSSSYY**CC*WLLLLPPPPHHQQRRRRIIIMTTTTNNKKSSRRVVVVAAAADDEEGGGG"

var StandardCode = func() map[string]byte {
	m := map[string]byte{}
	bases := "TCAG"
	k := 0
	for i := 0; i < 4; i++ {
		for j := 0; j < 4; j++ {
			for l := 0; l < 4; l++ {
				m[string([]byte{bases[i], bases[j], bases[l]})] = aasTCAG[k]
				k++
			}
		}
	}
	return m
}()

func expand(c byte) []byte {
	s := IUPAC[c]
	var out []byte
	for _, b := range []struct {
		bit int
		ch  byte
	}{{A, 'A'}, {C, 'C'}, {G, 'G'}, {T, 'T'}} {
		if s&b.bit != 0 {
			out = append(out, b.ch)
		}
	}
	return out
}

// TranslateIUPAC returns the amino acid of an IUPAC codon iff all its A/C/G/T
// expansions agree, else ok=false.
func TranslateIUPAC(codon string) (byte, bool) {
	var aa byte
	first := true
	for _, a := range expand(codon[0]) {
		for _, b := range expand(codon[1]) {
			for _, c := range expand(codon[2]) {
				x := StandardCode[string([]byte{a, b, c})]
				if first {
					aa, first = x, false
				} else if x != aa {
					return 0, false
				}
			}
		}
	}
	return aa, !first
}

// AllCodons enumerates the 3375 IUPAC codons.
func AllCodons() []string {
	var out []string
	for _, a := range Codes15 {
		for _, b := range Codes15 {
			for _, c := range Codes15 {
				out = append(out, string([]byte{a, b, c}))
			}
		}
	}
	sort.Strings(out)
	return out
}

// CigarOp is the SAM v1 specification of one CIGAR operator.
type CigarOp struct {
	Op            string
	ConsumesQuery bool
	ConsumesRef   bool
}

// CigarOps is the table from SAMv1 section 1.4.6.
var CigarOps = []CigarOp{
	{"M", true, true}, {"I", true, false}, {"D", false, true}, {"N", false, true},
	{"S", true, false}, {"H", false, false}, {"P", false, false}, {"=", true, true}, {"X", true, true},
}

// SAM flag bits.
const (
	FlagUnmapped  = 0x4
	FlagSecondary = 0x100
)

// Expand returns the bases an IUPAC nucleotide code stands for.
func Expand(c byte) []byte { return expand(c) }
